#!/venv/bin/python
"""Confirm a seeded change in a scratch worktree, then run the property's check against it in /repo and undo it.

usage: tools/run_seed.py <seed dir containing patch.diff, demo.py, meta.json> [--scratch /tmp/wt_confirm] [--tier quick]
Prints one JSON line with what was observed.  /repo is always restored (git checkout -- .)."""
import json, os, subprocess, sys, argparse

KNOWN_FAIL = {"tests/analyze/test_start_with_silence.py::test_start_with_silence",
              "tests/analyze/test_time_signature_change.py::test_exotic_time_signature",
              "tests/analyze/test_time_signature_change.py::test_time_signature_change"}


def sh(cmd, **kw):
    p = subprocess.run(cmd, capture_output=True, text=True, **kw)
    return p.returncode, p.stdout + p.stderr


def main():
    ap = argparse.ArgumentParser()
    ap.add_argument("seed")
    ap.add_argument("--scratch", default="/tmp/wt_confirm")
    ap.add_argument("--tier", default="quick")
    ap.add_argument("--skip-confirm", action="store_true")
    a = ap.parse_args()
    seed = os.path.abspath(a.seed)
    patch, demo = os.path.join(seed, "patch.diff"), os.path.join(seed, "demo.py")
    meta = json.load(open(os.path.join(seed, "meta.json")))
    prop = meta["property"]
    out = {"seed": seed, "property": prop, "title": meta.get("title")}
    env = dict(os.environ, PYTHONPATH=a.scratch, PYTHONHASHSEED="0", PYTHONDONTWRITEBYTECODE="1")
    if not a.skip_confirm:
        sh(["git", "-C", a.scratch, "checkout", "--", "."])
        rc0, _ = sh(["/venv/bin/python", demo], cwd=a.scratch, env=env)
        rc, o = sh(["git", "-C", a.scratch, "apply", patch])
        out["applies"] = rc == 0
        if rc == 0:
            rc1, _ = sh(["/venv/bin/python", demo], cwd=a.scratch, env=env)
            rct, ot = sh(["/venv/bin/python", "-m", "pytest", "-q", "-p", "no:cacheprovider", "--timeout=900", "-rf"], cwd=a.scratch, env=env)
            failed = {l.split(" ")[1] for l in ot.splitlines() if l.startswith("FAILED ")}
            out.update(demo_clean=rc0, demo_patched=rc1, tests_failed=sorted(failed - KNOWN_FAIL), tests_same=(failed == KNOWN_FAIL))
        sh(["git", "-C", a.scratch, "checkout", "--", "."])
        out["confirmed"] = bool(out.get("applies") and out.get("demo_clean") == 0 and out.get("demo_patched") == 1 and out.get("tests_same"))
    # the registered check, against /repo itself
    rc, o = sh(["git", "-C", "/repo", "status", "--porcelain"])
    if o.strip():
        out["error"] = "/repo is not clean"
        print(json.dumps(out))
        return 2
    try:
        rc, o = sh(["git", "-C", "/repo", "apply", patch])
        if rc != 0:
            out["error"] = "patch does not apply to /repo: " + o[-200:]
        else:
            rc, o = sh(["/verif/check", prop, "--tier", a.tier], env=dict(os.environ, VERIF_TIER=a.tier))
            lines = [l for l in o.splitlines() if l.startswith("VIOLATION") or l.startswith("KNOWN-FINDING")]
            out.update(check_exit=rc, violations=lines, summary=o.strip().splitlines()[-1][:300] if o.strip() else "")
            kinds = []
            for l in lines:
                if "replay=" in l:
                    pth = l.split("replay=")[1].split()[0]
                    try:
                        r = json.load(open(pth))
                        kinds.append([r.get("kind"), r.get("stream"), r.get("signature"), (r.get("message") or "")[:160]])
                    except Exception:
                        pass
            out["replays"] = kinds
            out["detected"] = rc == 1 and any(l.startswith("VIOLATION") for l in lines)
            out["with_input"] = any(k[0] == "spec-failure-on-implementation" for k in kinds)
    finally:
        sh(["git", "-C", "/repo", "checkout", "--", "."])
        for f in os.listdir("/verif/replays"):
            if f.startswith(prop + "_") and f.endswith(".json"):
                os.remove(os.path.join("/verif/replays", f))
    print(json.dumps(out))
    return 0


if __name__ == "__main__":
    sys.exit(main())

#!/venv/bin/python
"""Write the prompt given to each seeding sub-agent of a round: the property text, its scratch worktree, the variants that exist already.

usage: tools/make_seed_prompts.py <round number> [<out root, default /tmp/seeds<round>>]
Creates /tmp/seeds<r>/<id>.prompt.txt and the directory /tmp/seeds<r>/<id>/ ; worktrees /tmp/wt<r>_<id> are created by the caller."""
import json, os, sys, glob

r = sys.argv[1]
root = sys.argv[2] if len(sys.argv) > 2 else "/tmp/seeds%s" % r
props = [json.loads(l) for l in open("/verif/properties.jsonl")]
KNOWN = ("tests/analyze/test_start_with_silence.py::test_start_with_silence, tests/analyze/test_time_signature_change.py::test_exotic_time_signature, "
         "tests/analyze/test_time_signature_change.py::test_time_signature_change")
EXTRA = {
    "3": "", "4": "",
    "8": ("Favour, this time, changes in code reached through class methods / alternative constructors, through an option value no example in the docs uses, or where TWO features interact (each fine alone); the breakage should survive a casual look at the result of a single call. "),
    "7": ("Favour, this time, changes in code reached through class methods / alternative constructors, through an option value no example in the docs uses, or where TWO features interact (each fine alone); the breakage should survive a casual look at the result of a single call. "),
    "6": ("Favour changes whose effect only shows through a SECOND public entry point or a later call (the first use looks right), or only for one rarely used value of an option; avoid zero-length notes and tag sets, which the last rounds covered. "),
    "5": ("Favour, this time, changes that need TWO things to line up: two cooperating sites that each look fine alone, a value that is only wrong "
          "after a particular sequence of public calls, an argument combination no example in the docs uses, an object reached through a less "
          "common constructor or class method, or a numeric boundary (exactly equal, exactly zero, negative, a denominator that does not divide the grid). "),
}


def text(p):
    out = ["%s: %s" % (p["id"], p["title"]), "", p["statement"]]
    q = p.get("quantifier")
    if q:
        out += ["", "Quantified over: %s" % (q.get("text") if isinstance(q, dict) else q)]
    files = (p.get("anchors") or {}).get("files")
    if files:
        out += ["", "Code involved: " + ", ".join(files)]
    return "\n".join(out)


for p in props:
    pid = p["id"]
    wt = "/tmp/wt%s_%s" % (r, pid)
    sd = "%s/%s" % (root, pid)
    os.makedirs(sd, exist_ok=True)
    have = []
    for m in sorted(glob.glob("/verif/seeded/%s-*/meta.json" % pid)):
        d = json.load(open(m))
        have.append("- %s (files: %s)" % (d.get("title"), ", ".join(d.get("files") or [])))
    prompt = f"""You are helping to test a verification tool by playing the role of a developer who introduces a subtle regression.

You have your own scratch git worktree of the Python library MusicLang at: {wt}
(Work ONLY inside that directory and inside {sd}/ . Do not read or touch /repo, /verif or any other worktree. Never commit anything.)

Run Python as:  cd {wt} && PYTHONPATH={wt} /venv/bin/python ...
Run the existing test suite as:  cd {wt} && PYTHONPATH={wt} /venv/bin/python -m pytest -q -p no:cacheprovider --timeout=900
On the unchanged tree exactly these 3 tests fail (they are known failures, ignore them): {KNOWN}. Everything else passes.

Here is a semantic property that the library is supposed to satisfy:

-----
{text(p)}

-----

{len(have)} variants have ALREADY been produced by others for this property; do NOT repeat them or close relatives of them (same function and same mechanism):
{chr(10).join(have)}
Also do not simply revert one of the recent 'fix:' commits visible in `git log`.
Look for breakage elsewhere: other functions, other clauses of the property, rarely used options and arguments, unusual but legal object states, interactions between two features, state carried between calls (caches, objects reused or edited in place), boundary values (zero, negative, very large, exact multiples), code paths reached only through a different public entry point, less common instruments / modes / figures / time signatures. {EXTRA.get(r, "")}
IMPORTANT: never use `git stash` (the stash is shared between worktrees); to get back to the clean tree use `git -C {wt} checkout -- .` only.

Your task: produce 2 DIFFERENT small source changes (each one separately, each starting from the clean tree) to the library code under {wt}/musiclang that BREAK this property, while
  (a) the package still imports and the existing test suite still gives exactly the same result (same 3 known failures, nothing else failing);
  (b) the change looks like a plausible refactoring / optimisation / "bug fix" a maintainer could make (1-10 changed lines, no test edits, no new files in the package);
  (c) the breakage is SUBTLE: it must need something specific to manifest - a particular kind of input, a boundary value, an unusual combination of options, a particular sequence of operations - not something every call would hit. Prefer changes in different functions / different mechanisms of the property for your different variants;
  (d) the property is observably violated through the public API on the real code, on an input the property's quantifier covers (say in meta.json why it is covered).

For each variant k = 1..2 create the directory {sd}/k/ containing:
  - patch.diff : output of `git -C {wt} diff` for that variant alone (must apply to the clean tree with `git apply`);
  - demo.py    : a self-contained script (uses only the public API of musiclang, run with PYTHONPATH set to a tree) that prints what it observes and exits 0 when the property holds on the inputs it tries and exits 1 when it observes the violation. It must exit 0 on the clean tree and 1 on the patched tree;
  - meta.json  : {{"property": "{pid}", "title": "<one line>", "what_breaks": "<which clause of the property>", "needs": "<what specific input/condition is needed to see it>", "files": ["<changed files>"]}}.
After saving a variant ALWAYS restore the tree with `git -C {wt} checkout -- .` before starting the next one, and leave the worktree clean at the end.
Verify each variant yourself: apply on the clean tree, run the full test suite (same 3 failures only), run demo.py (exit 1), restore, run demo.py (exit 0).
If, while exploring, you notice that the UNCHANGED tree already violates the property on some input, mention it at the end of your report (input and observed behaviour) - but your variants must still be changes of yours.

Finish with a short report listing for each variant: title, changed function, what input is needed, and confirmation of (test suite unchanged, demo exit codes clean=0 / patched=1).
"""
    open("%s/%s.prompt.txt" % (root, pid), "w").write(prompt)
print("prompts in", root)

#!/venv/bin/python
"""Run the registered quick checks against many seeded changes in parallel, without touching /repo or /verif's build.

usage: tools/par_seeds.py [-j 6] [--update] [--only C03,C12] [seed dir ...]      (default: every /verif/seeded/*/)

Each worker owns a private copy of /verif (/tmp/vpar_<k>: sources + compiled model, so that a seed which changes a regenerated table
cannot disturb another worker's theorems) and a private worktree of /repo's HEAD (/tmp/wtpar_<k>, given to the check through VERIF_REPO).
A seed is applied there, the property's check runs, the worktree is restored.  With --update the detection fields of the seed's
result.json are refreshed (the confirmation fields - demo, test suite - are kept from the run that confirmed the seed).
The worktrees and copies are removed at the end."""
import argparse, glob, json, os, queue, shutil, subprocess, sys, threading, time


def sh(cmd, **kw):
    p = subprocess.run(cmd, capture_output=True, text=True, **kw)
    return p.returncode, p.stdout + p.stderr


def worker(k, q, results, update):
    vdir, wt = f"/tmp/vpar_{k}", f"/tmp/wtpar_{k}"
    sh(["git", "-C", "/repo", "worktree", "remove", "--force", wt])
    shutil.rmtree(wt, ignore_errors=True)
    rc, o = sh(["git", "-C", "/repo", "worktree", "add", "--detach", wt, "HEAD"])
    assert rc == 0, o
    os.makedirs(vdir, exist_ok=True)
    sh(["rsync", "-a", "--delete", "--exclude", ".git", "--exclude", "_build", "--exclude", "seeded", "--exclude", "replays/*.json",
        "/verif/", vdir + "/"])
    env = dict(os.environ, VERIF_REPO=wt, PYTHONPATH=f"{wt}:{vdir}", PYTHONHASHSEED="0", PYTHONDONTWRITEBYTECODE="1", MUSICLANG_VERIF="1",
               VERIF_TIER="quick")
    while True:
        try:
            seed = q.get_nowait()
        except queue.Empty:
            break
        t0 = time.time()
        meta = json.load(open(os.path.join(seed, "meta.json")))
        prop = meta["property"]
        out = {"seed": seed, "property": prop}
        sh(["git", "-C", wt, "checkout", "--", "."])
        rc, o = sh(["git", "-C", wt, "apply", os.path.join(seed, "patch.diff")])
        if rc != 0:
            out["error"] = "patch does not apply: " + o[-200:]
        else:
            rc, o = sh(["/venv/bin/python", "-m", "harness.main", prop, "--tier", "quick"], cwd=vdir, env=env)
            lines = [l for l in o.splitlines() if l.startswith("VIOLATION") or l.startswith("KNOWN-FINDING")]
            kinds = []
            for l in lines:
                if "replay=" in l:
                    pth = l.split("replay=")[1].split()[0]
                    try:
                        r = json.load(open(pth))
                        kinds.append([r.get("kind"), r.get("stream"), r.get("signature"), (r.get("message") or "")[:160]])
                    except Exception:
                        pass
            out.update(check_exit=rc, violations=[l.replace(vdir, "/verif") for l in lines], replays=kinds,
                       summary=o.strip().splitlines()[-1][:300] if o.strip() else "",
                       detected=(rc == 1 and any(l.startswith("VIOLATION") for l in lines)),
                       with_input=any(kd[0] == "spec-failure-on-implementation" for kd in kinds))
        sh(["git", "-C", wt, "checkout", "--", "."])
        for f in glob.glob(os.path.join(vdir, "replays", prop + "_*.json")):
            os.remove(f)
        out["seconds"] = round(time.time() - t0, 1)
        results.append(out)
        print(f"[{k}] {os.path.basename(seed.rstrip('/'))}: detected={out.get('detected')} with_input={out.get('with_input')} "
              f"{out.get('error', '')} ({out['seconds']} s)", flush=True)
        if update and "error" not in out:
            rp = os.path.join(seed, "result.json")
            old = json.load(open(rp)) if os.path.exists(rp) else {"property": prop, "title": meta.get("title")}
            old.update({x: out[x] for x in ("detected", "with_input", "check_exit", "violations", "replays", "summary")})
            json.dump(old, open(rp, "w"), indent=1)
    sh(["git", "-C", "/repo", "worktree", "remove", "--force", wt])
    shutil.rmtree(vdir, ignore_errors=True)


def main():
    ap = argparse.ArgumentParser()
    ap.add_argument("seeds", nargs="*")
    ap.add_argument("-j", type=int, default=6)
    ap.add_argument("--update", action="store_true")
    ap.add_argument("--only", default="")
    a = ap.parse_args()
    seeds = [os.path.abspath(s) for s in a.seeds] or sorted(glob.glob("/verif/seeded/*/"))
    seeds = [s for s in seeds if os.path.exists(os.path.join(s, "patch.diff"))]
    if a.only:
        keep = set(a.only.split(","))
        seeds = [s for s in seeds if os.path.basename(s.rstrip("/")).split("-")[0] in keep]
    q = queue.Queue()
    for s in seeds:
        q.put(s)
    results, threads = [], []
    for k in range(a.j):
        t = threading.Thread(target=worker, args=(k, q, results, a.update))
        t.start()
        threads.append(t)
    for t in threads:
        t.join()
    missed = [r for r in results if not r.get("detected")]
    print(f"{len(results)} seeds, {len(results) - len(missed)} detected, {sum(1 for r in results if r.get('with_input'))} with a failing input")
    for r in missed:
        print("MISSED" if "error" not in r else "ERROR", r["seed"], r.get("error", ""), r.get("summary", ""))
    json.dump(results, open("/tmp/par_seeds_results.json", "w"), indent=1)
    return 0


if __name__ == "__main__":
    sys.exit(main())

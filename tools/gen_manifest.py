#!/usr/bin/env python3
"""Write MANIFEST.json from tools/manifest_data.py (keeps it valid at all times)."""
import json, os, sys
here = os.path.dirname(os.path.abspath(__file__))
sys.path.insert(0, here)
from manifest_data import CHECKS, NOT_APPLICABLE, NOTES
props = [json.loads(l)["id"] for l in open(os.path.join(here, "..", "properties.jsonl"))]
checks = []
for pid in props:
    if pid not in CHECKS:
        continue
    c = CHECKS[pid]
    checks.append({
        "property_id": pid,
        "quick_cmd": f"./check {pid} --tier quick",
        "thorough_cmd": f"./check {pid} --tier thorough",
        "evidence_file": f"/verif/evidence/{pid}.json",
        "replay_cmd_template": f"./check {pid} --replay {{path}}",
        "engine": "coq-model",
        "level_claimed": {"category": "proof", "text": c["text"], "design_ref": c.get("design_ref", f"DESIGN.md section 4, {pid}")},
        "level_note": c["note"],
        "technique": c.get("technique", "machine-checked proof in Coq 8.16 of a hand-written Gallina model + generated tables; model tied to /repo by differential correspondence (vm_compute) on every run"),
    })
na = [{"property_id": p, "reason": NOT_APPLICABLE.get(p, "check not built yet in this session (work in progress; see DESIGN.md section 8)")}
      for p in props if p not in CHECKS]
m = {
    "version": 1,
    "setup_cmd": "make -C /verif setup",
    "hooks": {"guard": "MUSICLANG_VERIF", "enable": "no source hooks: all instrumentation is done from the harness process (export MUSICLANG_VERIF=1 is set by ./check but read by nothing in /repo)",
              "baseline_off_cmd": "cd /repo && /venv/bin/python -m pytest -ra -q -p no:cacheprovider --timeout=900 --continue-on-collection-errors",
              "source_commits": [], "add_only": True},
    "engines": [{"name": "coq-model", "path": "/verif/coq", "serves_properties": [c["property_id"] for c in checks],
                 "kind_free_text": "Coq 8.16.1 development: generated Tables.v + hand-written Model/Spec/Proofs/Properties; harness/ drives build, Print Assumptions, correspondence and search"}],
    "checks": checks,
    "notes": NOTES,
    "not_applicable": na,
}
json.dump(m, open(os.path.join(here, "..", "MANIFEST.json"), "w"), indent=1)
print(f"MANIFEST.json: {len(checks)} checks, {len(na)} not claimed")

#!/bin/bash
# usage: tools/run_seeds.sh C02 C03 ...   (seeds under /tmp/seeds/<id>/<k>); confirmed ones are copied to /verif/seeded/<id>-<k>/
for id in "$@"; do
  for d in ${SEEDS_ROOT:-/tmp/seeds}/$id/*/; do
    k=$(basename $d)
    [ -f $d/patch.diff ] || continue
    res=$(/venv/bin/python /verif/tools/run_seed.py $d 2>/dev/null | tail -1)
    echo "$res" | /venv/bin/python -c "
import json,sys,os,shutil
d=json.loads(sys.stdin.read())
print(d['property'], '$k', (d.get('title') or '')[:90])
print('   confirmed',d.get('confirmed'),'| detected',d.get('detected'),'| with_input',d.get('with_input'),'|', d.get('tests_failed'), d.get('error') or '', '| demo', d.get('demo_clean'), d.get('demo_patched'))
print('   ', [ (r[1], r[2]) if r[0]=='spec-failure-on-implementation' else (r[0], r[1]) for r in (d.get('replays') or [])][:4])
if d.get('confirmed'):
    dst="/verif/seeded/%s-%s%s"%(d["property"],"${SEED_TAG:-}","$k")
    os.makedirs(dst, exist_ok=True)
    for f in ('patch.diff','demo.py','meta.json'):
        shutil.copy(os.path.join('$d',f), dst)
    json.dump({k2:d.get(k2) for k2 in ('property','title','confirmed','demo_clean','demo_patched','tests_same','detected','with_input','check_exit','violations','replays','summary')}, open(os.path.join(dst,'result.json'),'w'), indent=1)
"
  done
done

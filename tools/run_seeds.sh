#!/bin/bash
# usage: [SEEDS_ROOT=/tmp/seeds2 SEED_TAG=r2-] tools/run_seeds.sh C02 C03 ...   (seeds under $SEEDS_ROOT/<id>/<k>)
# confirmed ones are copied to /verif/seeded/<id>-<tag><k>/ together with result.json
ROOT=${SEEDS_ROOT:-/tmp/seeds}
for id in "$@"; do
  for d in $ROOT/$id/*/; do
    [ -f $d/patch.diff ] || continue
    export SEED_DIR=$d SEED_K=$(basename $d) SEED_TAG=${SEED_TAG:-}
    /venv/bin/python /verif/tools/run_seed.py $d 2>/dev/null | tail -1 | /venv/bin/python -c '
import json,sys,os,shutil
d=json.loads(sys.stdin.read())
k=os.environ["SEED_K"]; tag=os.environ.get("SEED_TAG",""); src=os.environ["SEED_DIR"]
print(d["property"], tag+k, (d.get("title") or "")[:90])
print("   confirmed",d.get("confirmed"),"| detected",d.get("detected"),"| with_input",d.get("with_input"),"|", d.get("tests_failed"), d.get("error") or "", "| demo", d.get("demo_clean"), d.get("demo_patched"))
print("   ", [ (r[1], r[2]) if r[0]=="spec-failure-on-implementation" else (r[0], r[1]) for r in (d.get("replays") or [])][:4])
if d.get("confirmed"):
    dst="/verif/seeded/%s-%s%s"%(d["property"],tag,k)
    os.makedirs(dst, exist_ok=True)
    for f in ("patch.diff","demo.py","meta.json"):
        shutil.copy(os.path.join(src,f), dst)
    json.dump({k2:d.get(k2) for k2 in ("property","title","confirmed","demo_clean","demo_patched","tests_same","detected","with_input","check_exit","violations","replays","summary")}, open(os.path.join(dst,"result.json"),"w"), indent=1)
'
  done
done

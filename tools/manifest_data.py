NOTES = ("Every check: regenerates coq/gen/Tables.v from /repo, rebuilds the property's theorems (full .vo), prints their "
         "assumptions, runs the Coq model and the real code on the same generated inputs and evaluates the property on the "
         "implementation with an independent python oracle. Fix commits made in /repo are listed in known_findings.json.")
NOT_APPLICABLE = {}
CHECKS = {
 "C01": {
  "text": "Theorems for all tonality degrees/octaves, chord octaves, note values and octaves in Z: the model's chord scale is the "
          "rotation of the tonality scale (closed form with floor division), scale/chromatic/absolute/accidental note pitches equal "
          "the documented closed forms, chord/bass notes walk the stacked-thirds / inverted arpeggio for the 11 bare figures, each "
          "octave is exactly 12, middle C is 0; the generated SCALES table equals the rotations of the major scale (finite sweep in "
          "the kernel). Model tied to Chord.to_pitch and the three pitch lists by differential execution; oracle streams ask one Chord object for "
          "several notes in a row, build several chords from one shared Tonality object with %, and spell keys with the library's .b / .s symbols "
          "across the octave (C flat, B sharp).",
  "note": "Trusted: Coq kernel + vm_compute; gen_tables.py; harness adapters; regex parse of extension strings is glue. "
          "Accidental cells are pinned as a golden table. Chord/bass-note theorem is for bare figures; modifier sets are tied by correspondence (C02 proves their laws).",
 },
 "C02": {
  "text": "Theorems: generated mode table = rotations of major (+harmonic/melodic minor); chord scale = tonality scale started on the degree "
          "(all of Z); bare figures = stacked thirds and their rotations (wrapped tones +12), strictly ascending within an octave; chord_pitches "
          "independent of the inversion for ANY modifier lists; pitch classes preserved under inversion for all 1082 modifier sets of size <= 2 "
          "(finite kernel sweep, lifted to every degree/octave by an equivariance theorem - bounded in set size, stated so); inversion arithmetic "
          "for all k in Z (additive, full turn = identity, index = k mod n); modifier order irrelevant (Permutation => same normal form, same chord), "
          "normalisation and re-application idempotent. Model tied to Chord.__getitem__/invert/to_root_extension/normalize by differential execution.",
  "note": "Trusted: Coq kernel + vm_compute; gen_tables.py; adapters; the regex tokeniser/printer of extension strings is glue exercised end to end "
          "(a defect found there was fixed: 8bc1777). Pitch-class theorem for modifier sets of size > 2 is tied only by correspondence + oracle.",
 },
 "C04": {
  "text": "Theorems (all degrees/octaves in Z, any chord incl. modifier sets): modulation by a same-mode tonality moves every scale/chromatic/"
          "chord-tone/bass-tone pitch by degree + 12*octave and leaves absolute and drum notes alone; chord octave and note octave move by 12k; "
          "(c % a) % b = c % (a + b) field-wise; tonality addition associative, normalised, neutral elements, undone by subtraction; __eq__ is "
          "the kernel of normalisation. Rendering-level and structural clauses (Score % t, Score.o, melodies kept by Chord.__call__, timing unchanged) "
          "are evaluated on the implementation by the python oracle; at rendering level: modulating a score moves the sounding notes of "
          "chord-relative parts by the interval and leaves absolute/drum parts and all timing unchanged (theorem over C03's model; parts "
          "with relative notes by oracle).",
  "note": "Trusted: Coq kernel; gen_tables.py; adapters. Chords built without a tonality are outside the quantifier. Structural clauses on "
          "Score/Melody are tied by oracle only (they are maps over the proven per-chord/per-note operations).",
 },
 "C09": {
  "text": "Theorems: for every non-empty pitch list the extracted classes form a system (strictly ascending in [0,12)); sidx is the strictly "
          "increasing enumeration of exactly the system pitches; rank_ge/rank_le are the nearest system pitch above/below; the implementation's "
          "windowed candidate search (filter + index, Python negative indexing, IndexError) equals the closed form spec_rel for EVERY system of 1..12 "
          "classes, every reference in [-96,96] and every step count whose answer stays in [-108,108] (unbounded proof, no sweep); results "
          "belong to the system; up k / down k are mutually inverse from system pitches. Model tied to Chord.to_pitch(note, last_pitch) and "
          "get_relative_scale_value by differential execution, including window-edge IndexError cases.",
  "note": "Trusted: Coq kernel; adapters; numpy boolean filtering/indexing = list filtering/indexing. Outside the +-10 octave window the code raises "
          "IndexError (modelled as None, not claimed). 'Reference survives rests and chord changes' is a rendering-level clause proved with C03's model.",
 },
 "C10": {
  "text": "Theorems over Q: the generated duration table equals the documented one (w..t, dotted x3/2, tuplets x2/n; 31 entries both ways, "
          "injective, DURATION_TO_STR its inverse); limit_denominator(1000) is the identity on denominators <= 1000; notes store/augment/set "
          "durations exactly; onsets are partial sums; concatenation adds and repetition multiplies for all lists; a chord lasts its longest "
          "part; augment(k) multiplies every note and the total; set_duration(d) totals exactly d, set_duration(0) never fails (also on a melody of length 0: the division by the melody's length was repaired); decompose_duration keeps a note's and a "
          "melody's total whenever every limit_denominator call on the way is exact (a computable guard, checked true on every in-domain "
          "case by the correspondence). CPython's limit_denominator is modelled exactly and compared out of domain too.",
  "note": "Trusted: Coq kernel; CPython Fraction arithmetic; adapters. 'note followed only by continuations' and positivity of the pieces are "
          "checked on the implementation by the oracle, not proved.",
 },
 "C19": {
  "text": "Theorems. Voice leading (the random search is not modelled; its result, the delta matrix, is universally quantified and read from "
          "the implementation on every run, where the mask of the fixed voices is checked): get_score changes nothing but value/octave of "
          "the first note of each part (chords, parts, durations, dynamics, note systems, later notes kept); value+delta folded modulo the "
          "system size with octave carry stays inside the system and is pitch-neutral for 3-, 4- and n-tone systems; the optimiser's own "
          "pitch formula equals the rendered pitch; c-notes (b-notes) still sound chord (voicing) tones; a zero delta keeps the pitch; the "
          "octave normalisation terminates, only changes chord octaves, leaves every bass in (-6, 6], and moves fixed voices that must keep "
          "their octave back by exactly the chord's shift, note by note pitch-neutral (absolute notes untouched). Parsimonious leading "
          "(triads/sevenths without modifiers, every degree, mode, tonic, octave, previous bass in Z): same degree/tonality/family, same chord "
          "tones whole octaves apart, bass moves by at most 3 semitones (0..5 in the requested direction), first chord and parts kept, "
          "chained along the progression. Counterpoint: durations, dynamics, rests and ties kept, notes become scale notes at most 4 steps "
          "away. Three defects repaired (absolute notes of fixed voices shifted; method='random' ignored fixed voices; parts entering after the "
          "first chord were added in set order, so a seeded run was not reproducible from one interpreter to the next).",
  "note": "Partial: reproducibility for a seed (same process, same optimiser object, and two fresh processes with different PYTHONHASHSEED) and the counterpoint on whole scores (projection onto one chord and back) are decided by the "
          "oracle on the implementation, not by a theorem; with change_octave_fixed=True (the default) fixed voices move by whole octaves "
          "with their chord, which the statement's 'up to the octave normalisation' is read to allow. Trusted: Coq kernel; gen_tables; "
          "numpy RandomState; project_on_rhythm (subject columns read from the implementation); adapters. Not explored: single-chord scores "
          "(voices_optim raises on an empty movement matrix), relative notes and drums (KeyError in VoiceLeading.init), chords with "
          "replacements/additions in parsimonious leading, c/b notes in counterpoint (raise).",
 },
 "C20": {
  "text": "Theorems: Note.__eq__, Tonality.__eq__, Melody.__eq__ (equality of printed code), Chord.__eq__ (dict equality of parts, any "
          "order) and Score.__eq__ are reflexive, symmetric and transitive; equal notes have the same hashed tuple, equal tonalities the "
          "same normal form, equal chords agree on every component of the hashed tuple; enharmonic spellings are equal; the copy of a note "
          "(Note.copy / Silence.copy / Continuation.copy: rebuilt through the constructor - whose duration rounding is an arbitrary function in "
          "the model - then the lost fields assigned back) has every field of the original, so notes, melodies, chords and scores equal their "
          "copies and notes hash like them; the copy methods before the repairs are characterised (equal iff the rounding leaves the duration "
          "alone and a rest has octave 0 and no mode) and refuted by witnesses. The copy model is tied field by field to x.copy() on notes "
          "reached through chained library operations (suffix chains, octave moves, dynamics, tags, modes). On the implementation "
          "the oracle checks, on triples differing in single fields, the relation laws, copy/deepcopy equality, hash equality of equal objects, "
          "set/dict interchangeability, NoteIn/ChordIn/TonalityIn masks, chords with an empty part, and hashes taken before an in-place edit "
          "(chord.score[part] = melody). Three hash defects and three copy defects (rests lost their octave / mode, "
          "copies rounded durations finer than 1/1000) were repaired in /repo.",
  "note": "Trusted: Coq kernel; Python hashes equal tuples/strings/frozensets equally; adapters. Score is unhashable (no hash clause). "
          "Float dynamics thresholds are modelled in exact rationals and verified exhaustively over amplitudes 0..127 and the 9 constants.",
 },
 "C03": {
  "text": "Theorems in integer ticks, for every score (any number of chords, unequal parts, absent parts, rests/continuations anywhere, "
          "relative notes, drums): the nested clock/reference folds of the renderer are one pass over the part's timeline; onsets have the "
          "closed forms (chord start = sum of earlier chord durations, note start = sum of earlier notes); merging the rendered rows of a part "
          "(continuations lengthen the previous event, silent events dropped) yields exactly the Spec's sounding notes - pitch from C01/C09's "
          "functions with the reference reset by an absent part and defaulting to 0, duration extended by directly following continuations also "
          "across chord boundaries, velocity = amplitude; rests, orphan continuations and absent parts are silent. to_events: for the rows of "
          "one part, any tempo and tick resolution, the audible events accumulated for its track are exactly those sounding notes with every "
          "onset and duration (continuations included) multiplied by 60 / (tempo x ticks per quarter); the pre-repair code (continuation added "
          "in quarters) is refuted at tempo 120 by a witness. For the WHOLE matrix_to_events (all parts together): the global stable sort "
          "by onset leaves each part's rows in order, the per-track dictionaries do not interfere and the final sort only orders the "
          "output, so the events of a part's track in the output are, up to the output order, its sounding notes in seconds.",
  "note": "Trusted: Coq kernel; adapters (tick scaling by the LCM of denominators, float seconds recovered as exact rationals); Python's stable "
          "sort. Times in seconds are compared with Qeq; the whole-matrix theorem assumes that the matrix contains each part's rows as rendered and "
          "in time order (what get_notes produces; the concatenation itself is tied by correspondence) and states the output up to a permutation "
          "(the ORDER of the output list is correspondence-only). Tag-free notes, integer amplitudes, no 'x' placeholders.",
 },
 "C12": {
  "text": "Theorems in integer ticks for every score whose parts last their chord: get_melody_between never fails and lasts exactly the "
          "overlap of the window with the melody for every position of the cut points; a chord window keeps all parts as long as the new chord; "
          "the window [a,b) of a score lasts min(b,total)-a (general clock form covers every chord-boundary coincidence); cutting at t and "
          "re-joining gives back the total duration; repeat_until_duration(d) lasts exactly d. Content of a window (written notes): "
          "get_melody_between / get_chord_between return exactly the notes overlapping [a,b), in order, each clipped to the window, a note "
          "already sounding at a becoming a continuation, every other kept note keeping pitch, kind and dynamics (a map over the part's "
          "timeline, no loop state). Re-joining: the windows [a,t) and [t,b) of a part, one after the other, are the part with the note held "
          "across t written as head + continuation, and that sounds exactly the same (C03's sounding notes, any reference, anything after). "
          "AT SCORE LEVEL (timeline of a part = its notes paired with their chords, chord after chord): the timeline of a part in the window "
          "[a, b) of a score is the clip of its timeline in the score, each kept note under its own chord; cutting a score at any t inside it "
          "and concatenating the pieces gives the original duration and, for every part present throughout, exactly the original SOUNDING "
          "notes (Spec of C03: pitch under its chord, onset, duration with continuations, velocity), wherever t falls. Parts absent from "
          "some chord, and used-then-edited Score objects, are evaluated on the implementation by the oracle.",
  "note": "Trusted: Coq kernel; adapters and tick scaling of cut points. The score-level theorems are for non-drum parts present in every chord "
          "(an empty drum part is dropped by Chord.__call__); the window's SOUNDING notes (as opposed to its written timeline) are a theorem only "
          "through the re-join statement; the content theorems need strictly positive note durations. Relative notes whose reference is cut away are outside the window-content oracle (the statement cannot apply).",
 },
 "C16": {
  "text": "Theorems over Q for each of the 15 tags, every duration d >= 0 and every neighbouring-note context: the pieces of the figure sum "
          "to d and are all non-negative; the library's builders (set_duration = limit_denominator(1000)) coincide with the exact figures "
          "whenever every piece is on the library's resolution; realisation (builder + final assertion) never fails there; totals of melodies "
          "are unchanged. Four defects were repaired in /repo (grupetto negative piece, retarded negative piece, roll/roll_fast TypeError, "
          "interpolate on an already realised note). COMBINATIONS of tags (OrnAll: the builders run in sequence, each on the melody "
          "the previous ones produced - Melody.set_duration = augment by the ratio, .n, .duration = sum of the pieces): for ANY list of tags (any "
          "subset, order, repetition), any context and any d >= 0, zero included, the realisation in exact arithmetic never fails, sums to d and has "
          "no negative piece; with the library's rounding whatever realize_tags returns has the note's duration; the pre-repair Melody.set_duration "
          "is refuted on a zero-length note (ZeroDivisionError, repaired). The combination model WITH rounding is tied to Note.realize_tags on sets "
          "of 1..4 tags (it reproduces the AssertionError cases of the open finding exactly). Tagged melodies/scores and their rendering are "
          "evaluated on the implementation by the oracle.",
  "note": "Trusted: Coq kernel; CPython Fractions; int(7*val/12) on floats = truncation. For combinations the theorem is about exact arithmetic; under rounding "
          "the pieces of two stacked ornaments can stop adding up (open finding realize-exceeds-duration-resolution), which the rounded model reproduces.",
 },
 "C17": {
  "text": "Theorems in tatum units: applying a grid to a melody lasts exactly the grid, places the melody's notes exactly on the pulse "
          "positions and takes them in order cyclically (entry j carries note j mod m); the Bjorklund construction yields, for ALL "
          "1 <= pulses <= steps, exactly `steps` binary entries with exactly `pulses` ones and a pulse on the downbeat (invariant through the "
          "Euclid recursion, termination proved); maximal evenness (Clough-Douthett) for all steps <= 64 by a kernel sweep - bounded, stated so; "
          "complement, reversal and circular shift by n then -n are identities for all arrays and all n in Z. expand=False (the melody is not "
          "repeated, missing notes are rests): on a binary grid the loop never stops early, the result lasts the grid, and an entry that carries a "
          "note carries the melody's note j mod m' - never a padding rest (model tied to apply_to_melody(expand=False)). FromMelody round trip "
          "(pitched, drum and pattern melodies), the signature/tatum arithmetic, the instance method Metric.euclidian and the ScoreRhythm helper "
          "(one grid per part over a whole score: note onsets = the pulses of the cyclically repeated grid) are evaluated on the implementation by the oracle.",
  "note": "Trusted: Coq kernel + vm_compute; adapters (tatum units). Evenness beyond 64 steps is only tested (thorough tier: 128). "
          "For apply_to_melody with start/end windows the model receives the cyclically repeated grid computed by the oracle (the window "
          "arithmetic itself is oracle-checked: duration and pulse positions). Grids with rest markers (entries other than 0/1) are outside the statement "
          "(with expand=False they stop early).",
 },
 "C18": {
  "text": "Theorems for EVERY mask built with & | ~ > (any nesting, any atoms): what the dispatch asks at chord, melody and note level "
          "(Mask.__call__ after Mask.child froze the guards of the levels already passed) equals the Spec's guarded evaluation on the right "
          "ancestors; on level-separable masks the three gates together are exactly the mask's verdict on the note with all its ancestors, so "
          "the transformer changes exactly what the mask selects; ~ negates a guard on its level; without a mask every element is mapped. "
          "The dispatch model (beats threaded per melody and per score, plain and filter variants, note/melody/chord transformers) is tied "
          "to the implementation by tracing transformers on random scores x random masks; pipelines (= composition / append with step tags) "
          "the rhythm clause for 7 library transforms, chord transformers whose action returns several chords (one flat score) and user-defined "
          "NoteFilter / MelodyFilter predicates are evaluated on the implementation by the oracle. Five library-transform defects and the filter "
          "predicate defect (the predicate received the whole container) repaired.",
  "note": "Trusted: Coq kernel; adapters; Python set membership. Disjunctions across levels follow the gated reading (DESIGN observation), "
          "the oracle judges separable masks only. Func masks, DictTransformer and ScoreTransformer are not modelled. Observation: a filter "
          "transformer that drops every chord raises AttributeError in apply_on_score (None.add_tags).",
 },
 "C05": {
  "text": "Theorems: the text of every note built from a library symbol (17 families, value in the library range, ANY octave, any duration with "
          "denominator <= 1000 whether named or written .augment(frac(n, d)), per-note mode, accidental, amplitude, tag set) evaluates - by the "
          "attribute protocol: __getattr__ durations, o/oabs, augment with limit_denominator, mode/accidental/dynamics properties, set_amp, "
          "add_tags - to a note with the same kind, direction, value, octave, duration, mode, accidental, dynamics figure and tags; melodies note "
          "by note; tonalities for all 12 tonics (sharp/flat names via Element.b/.s), every mode and EVERY octave; chords (degree, any valid "
          "normal-form extension, tonality, octave, parts in order) and scores chord by chord; the printer's and the evaluator's tables "
          "(duration names, dynamics) agree. The model renders the text to the exact printed string (compared character for character with "
          "str(x)) and its evaluation is compared with Python's eval field by field. Oracle: Score.from_str, eval, to_text_file/from_file, "
          "pickle, deepcopy, custom chords and the DataFrame form give equal objects with the same sounding notes. Four printer defects "
          "repaired (drum dynamics, pattern-note octave, amplitude 0 printed as the empty duration '.n', figure '5' dropped) and one reader defect "
          "(Score.from_str nested a score when a custom chord followed two ordinary chords; scores mixing both kinds in any order are now generated).",
  "note": "Trusted: Coq kernel; gen_tables; Python's eval (lexing/parsing of the printed text is not modelled: the tie is string equality "
          "printer<->model plus object equality eval<->model); pickle, deepcopy, file I/O, pandas. Custom chords, files, pickling and the "
          "DataFrame form are decided by the oracle on the implementation only. Sound equality is up to the dynamics figure (the text "
          "quantises amplitudes to figures; rests carry none). Outside: Tonality degrees not in 0..11 (KeyError in to_code; not constructible "
          "from library symbols), melody/chord/score-level tags and tempo/pedal fields (not in the statement).",
 },
 "C06": {
  "text": "Theorems over an object-graph model (heap of note / melody / tonality / chord / score cells addressed by position): for every "
          "program of the modelled operations with results fed back as operands - constructors, the copying note/melody/chord/score "
          "methods, the SHARING ones (+ on notes and melodies, melody slices, to_melody, Score(list), score + chord, score[i], score[i:j] "
          "which shares its last chord) and the in-place editor VoiceLeading.get_score (copy, then field assignment) - no cell that existed "
          "before a step is changed by it, reachable heaps stay closed, and therefore after ANY continuation every object created so far "
          "keeps its deep value (its fields and recursively those of everything it refers to). The model's object graph (values AND "
          "sharing, canonical depth-first numbering of the whole pool) is compared with the library's after every program. The snapshot "
          "monitor runs histories over every public zero-argument method/property of Note, Melody, Chord, Score, Tonality plus ~90 calls "
          "with arguments, with the library singletons in the pool, comparing field-level snapshots of every live object and every library "
          "symbol before/after each operation. One defect repaired (Metric.apply_to_melody(expand=False) appended to its argument).",
  "note": "Partial: the theorem covers the modelled core (19 operation shapes); every other public operation is decided by the snapshot "
          "monitor on sampled histories, not by a theorem. The model's editor refuses a write below the pre-copy heap size (returns None): "
          "that the library never needs one is established by the correspondence, not proved about the library. Trusted: Coq kernel; id()-"
          "based identity and the harness's field walker; numpy RandomState. Not explored: operations needing files/network/GUI (show, "
          "from_midi...), in-place forms (item assignment, inplace=True) which the statement excludes.",
 },
 "C07": {
  "text": "Theorems on the message lists handed to mido: per track, merging continuations and dropping silences yields exactly C03's sounding "
          "notes, independently of the other tracks; each sounding row gives exactly one note-on (key 60+pitch, velocity, at the onset) and "
          "one note-off (at onset+duration), ordered by time with offs before ons at equal times; the running sum of the truncated per-event "
          "deltas is the exact tick position whenever onsets and ends are whole ticks; two parts share a track exactly when their instruments "
          "have the same program (drums together); different programs never share a channel, a pitched program is never on channel 9 "
          "and with at most 15 programs all channels are 0..15. The whole export (incl. channels, program changes, tempo and signature metas) is modelled "
          "and compared with the FILE read back by an independent SMF reader and by mido; the oracle checks the statement on the file. The "
          "pandas-3 defect that made every export raise was repaired.",
  "note": "Trusted: Coq kernel; gen_tables (INSTRUMENTS_DICT); mido's writer; pandas' stable multi-key sort; adapters. General MIDI numbering "
          "is checked by the oracle for the instruments it uses, not for all 128 names. More than 15 programs (channel overflow) is outside the channel theorems and not explored.",
 },
 "C08": {
  "text": "Theorems: every cell of the exporter's three spelling tables (M, m, mm: 12 tonics x 7 degrees, regenerated from to_mxl.SCALES) names "
          "the pitch class of its scale degree, the only names crossing an octave boundary being B# and Cb (kernel sweep); hence for EVERY pitch "
          "p in Z and every chord in any of the nine modes the written note (name + octave, church modes spelled by pitch class) has MIDI number "
          "60 + p - spelling may differ enharmonically, the sounding pitch never does; every exported voice - and every prefix of chords of it - "
          "lasts exactly the sum of the chord durations whatever the part does (absent, shorter than its chord, rests, ties), so the elements "
          "of each chord start where the renderer starts them. THE VOICE IS THE SOUNDING NOTES: the tie / rest machine (flags last_is_silence and "
          "old_is_silence, re-armed at every chord) is proved to be a three-field machine over the part's events, and reading the written voice as "
          "music (a note element starts a note, directly following tied elements prolong it, the rest is silence) gives, for every score whose "
          "present parts are non-empty and free of drum / pattern notes, exactly each pitched note at its onset with midi 60 + the pitch "
          "rendered from the last sounded pitch of the part (kept through rests, chord changes and absences) and its duration plus the "
          "continuations directly following; for parts present throughout that is the Spec of C03 (what the MIDI rendering plays). "
          "The tie/rest state machine of Score.to_music21 (ties to "
          "the previous element, absent part = rest, padding of short parts, rest flag) is modelled and compared element by element with the "
          "music21 stream; the oracle merges tied elements and compares (onset, pitch, duration) with C03's sounding notes of the implementation. "
          "Four defects of the exporter were repaired (church modes KeyError, continuation after the first note of a chord, short parts, stale rest flag).",
  "note": "The theorem voice = sounding notes assumes present parts that are not empty (an empty melody in a zero-length chord re-arms the flags "
          "differently) and tonality degrees 0..11. Trusted: Coq kernel; gen_tables "
          "(MXL_SPELLING, NOTES_TO_ROOT); music21's pitch arithmetic (nameWithOctave -> midi) and stream offsets; adapters. Not explored: the "
          "MusicXML file written by music21 (needs its writer; the stream handed to it is what is checked), continuation after a gap left by a "
          "shorter part (ill-defined in C03's own terms), pitches outside 0..127.",
 },
 "C14": {
  "text": "Theorems: for EVERY chord and EVERY pitch in Z, Chord.parse then Chord.to_pitch is the identity, the result is a scale note "
          "iff the pitch class is in the chord scale, with a normalised value; for a monophonic voice the melody _parse_voice writes for a "
          "bar lasts exactly the bar whatever tie comes in or goes out; its CONTENT is, note by note: the incoming tie as a continuation (or a rest "
          "up to the first note), each input note preceded by a rest for its gap, notated by Chord.parse, with its own length cut at the bar "
          "line and its velocity, a rest to the bar line, and the cut-off part of the last note returned as the outgoing tie; rendered by the "
          "Spec of C03 the bar SOUNDS exactly the input notes - pitch (every chord), onset, duration cut at the bar line, velocity. The whole import (bar loop, tie dictionary, voices holding a note "
          "through a bar, silent bars) is modelled and tied by correspondence; the losslessness clause (rendering the result reproduces "
          "every input note's pitch, onset, duration across any number of bar lines, velocity) is evaluated on the implementation by the "
          "oracle. Two import defects (stale tie, held note cut at the bar line) were repaired in /repo.",
  "note": "Trusted: Coq kernel; adapters; set iteration order of voices. Items are built directly (the MIDI-file front end is not installed). "
          "Losslessness is a theorem bar by bar (content, sound, outgoing tie = what the next bar receives); the composition over the bars of "
          "infer_score_with_chords_durations (tie dictionary across several voices, held and silent bars) is correspondence + oracle.",
 },
 "C11": {
  "text": "Theorems: to_absolute_note along a part's timeline keeps the sounding notes exactly (pitches via the threaded reference, onsets, "
          "durations with continuations, velocities) for every part whose relative notes have a reference, and Score.to_absolute_note on a "
          "WHOLE score (the dictionary of last pitches threaded through the chords is, seen from one part, that single reference) sounds "
          "like the original part by part; absolute notes read back their "
          "pitch in any chord; in correct_chord_octave the chord octave and the compensating note octaves cancel for every chord-relative note "
          "and absolute notes are untouched; the corrected bass lies in (-6, 6] and the correction terminates (explicit fuel bound). "
          "to_standard_note on chord tones and bass tones keeps the pitch for EVERY chord - any figure with any replacements / additions / "
          "removals, any tonality and octave - and every value and octave (the candidate notes of _chord_notes_calc are proved to be "
          "non-relative scale / chromatic notes carrying their own pitch; model tied to Note.to_standard_note by correspondence). "
          "decompose_duration is C10's theorem, to_scale_note / to_standard_note of absolute notes rest on C14's parse round trip. All twelve re-notations and "
          "their pairwise compositions are evaluated on the implementation by rendering both sides (oracle); to_absolute_note and "
          "correct_chord_octave are also tied to the model by correspondence. Three defects repaired in /repo.",
  "note": "Trusted: Coq kernel; adapters. Partial: to_chord_note/to_extension_note, instrument normalisations, split_too_long_chords and normalize are oracle-only. "
          "A relative note with no reference (leading, or after the part was absent) is outside the domain: to_absolute_note raises or uses a stale reference there.",
 },
 "C13": {
  "text": "Theorems (plain projection, integer ticks): the chords of the result are the target's, in order, for as long as the result lasts; "
          "every part of the window put on one chord lasts the window; for a source whose parts last their chords and target chords of "
          "positive length the result lasts exactly min(source, target) (built on C12's window theorem, any misalignment of boundaries); "
          "every note of the result is a source note with its written symbol and dynamics unchanged (possibly shortened), a continuation "
          "or a rest - for all scores, no hypothesis. "
          "The projection model (windowing, put_on_same_chord with rests for absent parts, keep_score dictionary merge) is tied to "
          "Score.project_on_score(voice_leading=False) by correspondence; the oracle checks on the implementation: chords, duration, written "
          "symbols and rhythm kept (plain), rhythm kept (default voice-leading mode), sound kept exactly (keep_pitch), target parts retained (keep_score).",
  "note": "Trusted: Coq kernel; adapters. The default mode (project_on_one_chord offsets) and keep_pitch are oracle-only; with keep_score the "
          "target's retained parts may outlast a shorter source (the duration clause is judged on the projected parts).",
 },
 "C15": {
  "text": "Theorems (integer ticks, any bar length L > 0, any first bar number): once a chord exists every token keeps the invariant "
          "'the chord in progress lasts to the end of its bar and the earlier chords fill exactly the time since the first chord symbol' "
          "(each chord lasts until the next symbol); hence total = (bars from first to last chord symbol) x L - pickup. The clock model "
          "(bar/beat/chord tokens, variations dropped, beat convention) is tied to ScoreFormatter(text).parse() on generated annotations over "
          "10 signatures, flush-left and indented, first bar m0/m1/m3/m5/m12. Figures: for the 104 diatonic figures x 12 keys the answer of roman_parser.analyze_one_chord is regenerated into a table on "
          "every run, and a kernel sweep proves that each returned chord has, by the pitch model of C01/C02, exactly the pitch classes and bass of "
          "the standard reading (stacked thirds of the key's scale; minor keys: V and vii from the harmonic scale); the same cases are also "
          "checked end to end by the oracle (analyze_one_chord + Chord pitches). The stated key (KeyText: tonic letter, then any '#', 'b', '-', "
          "with or without the colon) reads as the letter's pitch class moved by the accidentals, minor iff the letter is lower case - the letter b "
          "included (theorem; the pre-repair reader took 'b:' and 'bb:' for major keys: refuted); tied to CurrentTonality on all 14 letters x 6 "
          "accidental spellings, inline and as a 'Tonality:' header, with figures checked against the textbook reading in the written key. "
          "The first-bar renumbering defect and the b:/bb: key defect were repaired.",
  "note": "Trusted: Coq kernel; the line/space tokeniser (text is generated from tokens); float bar lengths (exact for these signatures). "
          "The figure PARSER (regexes, replacement tables) is not modelled: its graph on the diatonic domain is regenerated and proved correct; "
          "chromatic, applied and special figures (N6, Ger, It, Fr) are outside; i7 / v7 in minor are left out (natural vs harmonic reading). Signature "
          "changes inside an annotation are covered by the model correspondence, not by the theorem. Beat unit = the code's convention (DESIGN).",
 },
}

NOTES = ("Every check: regenerates coq/gen/Tables.v from /repo, rebuilds the property's theorems (full .vo), prints their "
         "assumptions, runs the Coq model and the real code on the same generated inputs and evaluates the property on the "
         "implementation with an independent python oracle. Fix commits made in /repo are listed in known_findings.json.")
NOT_APPLICABLE = {}
CHECKS = {
 "C01": {
  "text": "Theorems for all tonality degrees/octaves, chord octaves, note values and octaves in Z: the model's chord scale is the "
          "rotation of the tonality scale (closed form with floor division), scale/chromatic/absolute/accidental note pitches equal "
          "the documented closed forms, chord/bass notes walk the stacked-thirds / inverted arpeggio for the 11 bare figures, each "
          "octave is exactly 12, middle C is 0; the generated SCALES table equals the rotations of the major scale (finite sweep in "
          "the kernel). Model tied to Chord.to_pitch and the three pitch lists by differential execution.",
  "note": "Trusted: Coq kernel + vm_compute; gen_tables.py; harness adapters; regex parse of extension strings is glue. "
          "Accidental cells are pinned as a golden table. Chord/bass-note theorem is for bare figures; modifier sets are tied by correspondence (C02 proves their laws).",
 },
}

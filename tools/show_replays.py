#!/usr/bin/env python3
import json, sys, glob, os
for f in sorted(glob.glob('/verif/replays/*.json')):
    d = json.load(open(f))
    if sys.argv[1:] and not os.path.basename(f).startswith(sys.argv[1]): continue
    print(os.path.basename(f), d.get('kind'), d.get('stream'), d.get('signature'), '|', str(d.get('message'))[:300], '|',
          json.dumps(d.get('case'))[:500], '| impl:', str(d.get('impl_result'))[:300], '| model:', str(d.get('model_result'))[:300],
          '|', str(d.get('no_longer_checks'))[:600] if d.get('kind') != 'spec-failure-on-implementation' else '')

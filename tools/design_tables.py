#!/venv/bin/python
"""print the as-built tables of DESIGN.md (theorems / streams per property, repo fixes, seeded changes) from the committed artefacts"""
import json, glob, os, re, subprocess
V = os.path.dirname(os.path.dirname(os.path.abspath(__file__)))
print("| property | theorems | model files | correspondence / oracle streams (quick cases) |")
print("|---|---|---|---|")
for i in range(1, 21):
    p = f"C{i:02d}"
    src = open(f"{V}/coq/Properties/{p}.v").read()
    nthm = len(re.findall(r"^Theorem ", src, re.M))
    mods = importlib = __import__("importlib").import_module(f"harness.props.{p}")
    streams = []
    for st in mods.streams():
        streams.append(f"{st.name}{'' if st.checker else '°'} ({st.quick})")
    print(f"| {p} | {nthm} | {', '.join(m.split('.')[-1] for m in mods.MODEL_MODS)} | {', '.join(streams)} |")
print()
print("| commit | property | repair |")
print("|---|---|---|")
k = json.load(open(f"{V}/known_findings.json"))
for line in k["fixed"]:
    m = re.match(r"fixed: property=(C\d+) (\w+) (.*)", line)
    print(f"| {m.group(2)} | {m.group(1)} | {m.group(3)[:230]} |")
print()
print("| seed | change | needs | caught by (stream: signature) | with failing input |")
print("|---|---|---|---|---|")
for d in sorted(glob.glob(f"{V}/seeded/*/")):
    meta = json.load(open(d + "meta.json"))
    res = json.load(open(d + "result.json"))
    caught = "; ".join(sorted({f"{r[1]}: {r[2]}" if r[0] == "spec-failure-on-implementation" else f"{r[1]}: {r[0]}" for r in (res.get("replays") or [])})[:3])
    print(f"| {os.path.basename(d[:-1])} | {meta.get('title', '')[:110]} | {str(meta.get('needs', ''))[:150]} | {caught[:200] if res.get('detected') else 'MISSED'} | {'yes' if res.get('with_input') else 'no'} |")

# setup: generate tables from /repo, full .vo build of the whole development
.PHONY: setup clean
setup:
	mkdir -p _build evidence replays
	PYTHONPATH=/repo PYTHONHASHSEED=0 /venv/bin/python tools/gen_tables.py
	cd coq && coq_makefile -f _CoqProject -o Makefile.coq
	cd coq && timeout 3000 $(MAKE) -f Makefile.coq -j16
clean:
	cd coq && [ -f Makefile.coq ] && $(MAKE) -f Makefile.coq cleanall || true
	rm -rf _build

# independent re-check of every compiled property file and of all they load; lists the axioms (none expected). ~35 min.
coqchk:
	cd coq && coqchk -silent -o -R . ML $$(for i in 01 02 03 04 05 06 07 08 09 10 11 12 13 14 15 16 17 18 19 20; do echo ML.Properties.C$$i; done)

# setup: generate tables from /repo, full .vo build of the whole development
.PHONY: setup clean
setup:
	mkdir -p _build evidence replays
	PYTHONPATH=/repo PYTHONHASHSEED=0 /venv/bin/python tools/gen_tables.py
	cd coq && coq_makefile -f _CoqProject -o Makefile.coq
	cd coq && timeout 3000 $(MAKE) -f Makefile.coq -j16
clean:
	cd coq && [ -f Makefile.coq ] && $(MAKE) -f Makefile.coq cleanall || true
	rm -rf _build

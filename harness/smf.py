"""Independent reader of Standard MIDI Files (header, running status, VLQ deltas, the metas the library writes)."""
import struct


def _vlq(b, i):
    v = 0
    while True:
        c = b[i]; i += 1
        v = (v << 7) | (c & 0x7F)
        if not c & 0x80:
            return v, i


def read_smf(path):
    b = open(path, "rb").read()
    assert b[:4] == b"MThd"
    hlen, fmt, ntr, div = struct.unpack(">IHHH", b[4:14])
    i = 8 + hlen
    tracks = []
    for _ in range(ntr):
        assert b[i:i + 4] == b"MTrk", b[i:i + 4]
        (tlen,) = struct.unpack(">I", b[i + 4:i + 8])
        i += 8
        end = i + tlen
        evs, status = [], None
        while i < end:
            dt, i = _vlq(b, i)
            c = b[i]
            if c == 0xFF:
                typ = b[i + 1]
                ln, j = _vlq(b, i + 2)
                data = b[j:j + ln]
                i = j + ln
                if typ == 0x51:
                    evs.append({"dt": dt, "type": "tempo", "us": int.from_bytes(data, "big")})
                elif typ == 0x58:
                    evs.append({"dt": dt, "type": "time_signature", "num": data[0], "den": 2 ** data[1]})
                elif typ == 0x2F:
                    evs.append({"dt": dt, "type": "end"})
                else:
                    evs.append({"dt": dt, "type": "meta", "meta": typ})
                continue
            if c in (0xF0, 0xF7):
                ln, j = _vlq(b, i + 1)
                i = j + ln
                evs.append({"dt": dt, "type": "sysex"})
                continue
            if c & 0x80:
                status = c
                i += 1
            hi, ch = status & 0xF0, status & 0x0F
            if hi in (0x80, 0x90, 0xA0, 0xB0, 0xE0):
                d1, d2 = b[i], b[i + 1]
                i += 2
                if hi == 0x90:
                    evs.append({"dt": dt, "type": "note_on", "ch": ch, "key": d1, "vel": d2})
                elif hi == 0x80:
                    evs.append({"dt": dt, "type": "note_off", "ch": ch, "key": d1, "vel": d2})
                elif hi == 0xB0:
                    evs.append({"dt": dt, "type": "control", "ch": ch, "ctrl": d1, "val": d2})
                else:
                    evs.append({"dt": dt, "type": "other", "ch": ch})
            else:
                d1 = b[i]
                i += 1
                if hi == 0xC0:
                    evs.append({"dt": dt, "type": "program", "ch": ch, "program": d1})
                else:
                    evs.append({"dt": dt, "type": "other", "ch": ch})
        tracks.append(evs)
    return {"format": fmt, "division": div, "tracks": tracks}

"""./check <Cxx> [--tier quick|thorough] [--replay file]

Decision rule (DESIGN section 1):
 1. regenerate Tables.v from /repo, rebuild (full .vo) the property's theorems,
    print their assumptions;
 2. correspondence: run the real functions and the Coq model (vm_compute) on
    the same generated inputs; search: evaluate the property itself on the
    implementation (python oracle of the Spec);
 3. all green -> exit 0;   a spec failure on the implementation -> VIOLATION
    with the minimised input as replay (unless listed in known_findings.json);
    a broken theorem / correspondence with no failing input found ->
    VIOLATION ... no-failing-input-found.
"""
import warnings
warnings.simplefilter("ignore")
import os, sys, json, time, random, importlib, hashlib, traceback, argparse

sys.path.insert(0, os.path.dirname(os.path.dirname(os.path.abspath(__file__))))
from harness import core


class Stream:
    """one (python function(s), model function) pair with its input generator"""
    name = "?"
    mods = []           # Coq modules the cases file imports
    checker = None      # Coq `T -> bool`; None = python-only stream (oracle only)
    quick = 500
    thorough = 5000
    pair = ""           # "python fn <-> model fn" for the evidence

    def gen(self, rng, n):
        raise NotImplementedError

    def impl(self, case):
        raise NotImplementedError

    def term(self, case, result):
        raise NotImplementedError

    def spec(self, case, result):
        """the property itself evaluated on the implementation's answer:
        None if it holds, else dict(sig=..., msg=...)"""
        return None

    def nontrivial(self, case, result):
        return True

    def shrink(self, case):
        return iter(())

    def model_answer(self, case, result):
        """optional: Coq expression whose value is printed into a replay"""
        return None


def key_of(case):
    return json.dumps(core.canon(case), sort_keys=True)


def shrink_failure(stream, case, sig):
    """greedy shrink keeping the same failure signature"""
    cur = case
    for _ in range(200):
        progressed = False
        for cand in stream.shrink(cur):
            try:
                r = stream.impl(cand)
                f = stream.spec(cand, r)
            except Exception:
                continue
            if f is not None and f.get("sig") == sig:
                cur = cand
                progressed = True
                break
        if not progressed:
            break
    return cur


def write_replay(prop, payload):
    d = os.path.join(core.VERIF, "replays")
    os.makedirs(d, exist_ok=True)
    h = hashlib.sha1(json.dumps(core.canon(payload), sort_keys=True).encode()).hexdigest()[:10]
    path = os.path.join(d, f"{prop}_{h}.json")
    with open(path, "w") as f:
        json.dump(core.canon(payload), f, indent=1, sort_keys=True)
    return path


def load_corpus(prop):
    d = os.path.join(core.VERIF, "corpus", prop)
    out = []
    if os.path.isdir(d):
        for fn in sorted(os.listdir(d)):
            if fn.endswith(".json"):
                try:
                    out.append(core.decanon(json.load(open(os.path.join(d, fn)))))
                except Exception:
                    pass
    return out


def run_check(prop, tier, seed):
    t0 = time.time()
    mod = importlib.import_module(f"harness.props.{prop}")
    lines = []          # lines to print (VIOLATION / KNOWN-FINDING)
    violations = []     # (replay_path, suffix)
    notes = []
    ev = {"property_id": prop, "tier": tier, "seed": seed, "level": "proof"}
    cov = {}

    # ---- 1. tables, build, assumptions -----------------------------------
    ok_t, out_t = core.gen_tables()
    proof_broken = []   # descriptions of theorems/files that no longer check
    if not ok_t:
        proof_broken.append({"what": "gen_tables", "detail": out_t[-2000:]})
    forb = core.forbidden_scan()
    if forb:
        proof_broken.append({"what": "forbidden constructs in the development", "detail": forb})
    theorems = core.theorems_of(prop)
    targets = [f"Properties/{prop}.vo"] + [m.replace(".", "/") + ".vo" for m in getattr(mod, "MODEL_MODS", [])]
    ok_b, out_b = core.make(targets)
    discharged = 0
    assum = {}
    prop_vo = os.path.join(core.COQ, "Properties", prop + ".vo")
    if not ok_b:
        ff = core.failing_files(out_b)
        proof_broken.append({"what": "coq build failed", "files": ff, "detail": out_b[-3000:]})
    if os.path.exists(prop_vo) and (ok_b or f"Properties/{prop}.v" not in " ".join(core.failing_files(out_b))):
        res, out_a = core.print_assumptions(prop, theorems)
        if res is None:
            proof_broken.append({"what": "Print Assumptions failed", "detail": out_a[-2000:]})
        else:
            assum = res
            for t in theorems:
                ax = res.get(t)
                if ax is None:
                    proof_broken.append({"what": f"theorem {t}: no assumption report"})
                elif set(ax) - core.ALLOWED_AXIOMS:
                    proof_broken.append({"what": f"theorem {t} depends on axioms", "detail": ax})
                else:
                    discharged += 1
    if not theorems:
        proof_broken.append({"what": f"Properties/{prop}.v has no theorem"})

    # ---- 2. correspondence + search --------------------------------------
    rng = random.Random(seed * 1000003 + int(hashlib.sha1(prop.encode()).hexdigest()[:6], 16))
    streams = mod.streams()
    corpus = load_corpus(prop)
    known = core.load_known(prop)
    known_sigs = {e["sig"]: e for e in known if e.get("status", "open") == "open"}
    known_hit = {}
    evaluations = 0
    distinct = set()
    nontrivial = set()
    samples = []
    per_stream = {}
    spec_failures = []      # (stream, case, result, failure)
    mismatches = []         # (stream, case, result)
    model_errors = []
    hist = {}
    model_ok = all(os.path.exists(os.path.join(core.COQ, m.replace(".", "/") + ".vo"))
                   for m in getattr(mod, "MODEL_MODS", []))
    for st in streams:
        n = getattr(st, tier)
        cases = [c["case"] for c in corpus if c.get("stream") == st.name]
        ncorpus = len(cases)
        cases += list(st.gen(rng, n))
        terms, kept = [], []
        cnt = {"cases": 0, "corpus": ncorpus, "nontrivial": 0, "model_checked": 0, "impl_exceptions": 0}
        for case in cases:
            try:
                result = st.impl(case)
            except Exception as e:      # harness bug or unexpected failure: fail closed
                model_errors.append({"stream": st.name, "case": case, "error": "impl adapter raised: " + repr(e),
                                     "trace": traceback.format_exc()[-1500:]})
                continue
            evaluations += 1
            cnt["cases"] += 1
            k = st.name + "|" + key_of(case)
            distinct.add(k)
            if st.nontrivial(case, result):
                nontrivial.add(k)
                cnt["nontrivial"] += 1
            if isinstance(result, dict) and result.get("exc"):
                cnt["impl_exceptions"] += 1
            for hk in getattr(st, "hist_keys", lambda c, r: [])(case, result):
                hist[hk] = hist.get(hk, 0) + 1
            if len(samples) < 12 and (cnt["cases"] % max(1, n // 3) == 1):
                samples.append({"stream": st.name, "case": core.canon(case), "impl": core.canon(result)})
            f = st.spec(case, result)
            if f is not None:
                if f["sig"] in known_sigs:
                    known_hit[f["sig"]] = known_hit.get(f["sig"], 0) + 1
                else:
                    spec_failures.append((st, case, result, f))
            if st.checker is not None:
                terms.append(st.term(case, result))
                kept.append((case, result))
        if st.checker is not None and terms:
            if model_ok:
                bad, err = core.coq_bad_indices(prop + "_" + st.name, st.mods, st.checker, terms)
                cnt["model_checked"] = len(terms)
                if err:
                    model_errors.append({"stream": st.name, "error": err[-3000:]})
                for i in bad:
                    mismatches.append((st, kept[i][0], kept[i][1]))
            else:
                model_errors.append({"stream": st.name, "error": "model does not build; correspondence not run"})
        if cnt["cases"] == 0:
            model_errors.append({"stream": st.name, "error": "stream produced no case (fail closed)"})
        per_stream[st.name] = dict(cnt, pair=st.pair)

    # ---- 3. decide -------------------------------------------------------
    for sig, e in known_sigs.items():
        if known_hit.get(sig):
            lines.append(f"KNOWN-FINDING: property={prop} {e['what']} [{sig}; {known_hit[sig]} case(s) this run]")
        else:
            notes.append(f"known finding {sig} was not reproduced by this run")
    seen_sigs = set()
    for st, case, result, f in spec_failures:
        if f["sig"] in seen_sigs:
            continue
        seen_sigs.add(f["sig"])
        small = shrink_failure(st, case, f["sig"])
        try:
            r2 = st.impl(small)
            f2 = st.spec(small, r2) or f
        except Exception:
            small, r2, f2 = case, result, f
        payload = {"property": prop, "kind": "spec-failure-on-implementation", "stream": st.name,
                   "signature": f2["sig"], "message": f2["msg"], "case": small, "impl_result": r2,
                   "replay_cmd": f"./check {prop} --replay <this file>"}
        path = write_replay(prop, payload)
        violations.append((path, ""))
    if not violations:
        seen = set()
        for st, case, result in mismatches:
            if st.name in seen:
                continue
            seen.add(st.name)
            ans = None
            expr = st.model_answer(case, result)
            if expr:
                try:
                    ans = core.coq_eval(st.mods, expr)
                except Exception as e:
                    ans = repr(e)
            payload = {"property": prop, "kind": "correspondence-broken", "no_longer_checks": st.pair,
                       "stream": st.name, "case": case, "impl_result": result, "model_result": ans,
                       "note": "implementation and model disagree on this input; the search found no input on "
                               "which the property itself fails"}
            violations.append((write_replay(prop, payload), " no-failing-input-found"))
        if proof_broken:
            payload = {"property": prop, "kind": "proof-obligation-broken", "no_longer_checks": proof_broken,
                       "note": "the search over the implementation found no failing input"}
            violations.append((write_replay(prop, payload), " no-failing-input-found"))
        if model_errors and not violations:
            payload = {"property": prop, "kind": "correspondence-not-run", "no_longer_checks": model_errors}
            violations.append((write_replay(prop, payload), " no-failing-input-found"))
    for path, suffix in violations:
        lines.append(f"VIOLATION property={prop} replay={path}{suffix}")

    # ---- 4. evidence -----------------------------------------------------
    cov.update({
        "obligations": len(theorems), "discharged": discharged,
        "checker_cmd": f"make -f Makefile.coq Properties/{prop}.vo (coqc 8.16.1, full .vo) + Print Assumptions per theorem",
        "trusted_base": getattr(mod, "TRUSTED", []) + [
            "Coq 8.16.1 kernel incl. vm_compute (no native_compute)",
            "tools/gen_tables.py (import-and-dump of /repo tables into coq/gen/Tables.v on every run)",
            "harness adapters python object <-> Coq term; coqc evaluation of the model (vm_compute)"],
        "theorems": {t: ("closed under the global context" if assum.get(t) == [] else assum.get(t, "not checked"))
                     for t in theorems},
        "evaluations": evaluations, "distinct_nontrivial": len(nontrivial), "distinct": len(distinct),
        "rule": getattr(mod, "RULE", ""),
        "samples": samples, "per_stream": per_stream, "histogram": hist,
        "traces_validated_against_impl": sum(v["model_checked"] for v in per_stream.values()),
        "disagreements_checked": len(mismatches), "known_finding_hits": known_hit,
        "proof_broken": proof_broken, "model_errors": [core.canon(m) for m in model_errors][:5], "notes": notes,
    })
    ev["coverage"] = cov
    ev["assumptions"] = getattr(mod, "ASSUMPTIONS", [])
    ev["wall_s"] = round(time.time() - t0, 2)
    ev["violations"] = len(violations)
    os.makedirs(os.path.join(core.VERIF, "evidence"), exist_ok=True)
    with open(os.path.join(core.VERIF, "evidence", prop + ".json"), "w") as f:
        json.dump(core.canon(ev), f, indent=1, sort_keys=True)
    for l in lines:
        print(l)
    print(f"{prop} [{tier}] theorems {discharged}/{len(theorems)} discharged; {evaluations} cases, "
          f"{cov['traces_validated_against_impl']} model-checked, {len(mismatches)} mismatches, "
          f"{len(spec_failures)} spec failures, {sum(known_hit.values())} known-finding hits; {ev['wall_s']} s")
    return 1 if violations else 0


def run_replay(prop, path):
    mod = importlib.import_module(f"harness.props.{prop}")
    data = core.decanon(json.load(open(path)))
    if "case" not in data:
        print(json.dumps(data, indent=1))
        return 1
    st = [s for s in mod.streams() if s.name == data["stream"]][0]
    case = data["case"]
    r = st.impl(case)
    f = st.spec(case, r)
    print("case:", json.dumps(core.canon(case)))
    print("implementation:", json.dumps(core.canon(r)))
    print("property on implementation:", "holds" if f is None else f)
    if st.checker:
        core.gen_tables()
        core.make([m.replace(".", "/") + ".vo" for m in st.mods])
        bad, err = core.coq_bad_indices(prop + "_replay", st.mods, st.checker, [st.term(case, r)])
        print("model agrees with implementation:", (not bad) and not err, err or "")
    return 0 if f is None else 1


def main():
    ap = argparse.ArgumentParser()
    ap.add_argument("prop")
    ap.add_argument("--tier", default=os.environ.get("VERIF_TIER", "quick"))
    ap.add_argument("--replay")
    a = ap.parse_args()
    seed = int(os.environ.get("VERIF_SEED", "0") or 0)
    tier = a.tier if a.tier in ("quick", "thorough") else "quick"
    if a.replay:
        sys.exit(run_replay(a.prop, a.replay))
    sys.exit(run_check(a.prop, tier, seed))


if __name__ == "__main__":
    main()

"""Structured score generator and adapters shared by the rendering-level properties
(C03, C04, C07, C08, C11, C12, C13).  Scores are JSON-able:
  [ {chord fields..., "parts": [[name, [note, ...]], ...]}, ... ]
notes: {kind, dir?, val, oct, dur(Fraction), mode?, acc?, amp(int)}"""
from fractions import Fraction as F
from math import lcm
from harness import mlang
from harness.core import Z, S, L, O, T, B
from harness.mlang import MODES, ACCS, FIGURES

GRID = [F(1), F(1), F(1, 2), F(1, 2), F(1, 4), F(3, 2), F(2), F(1, 3), F(2, 3), F(3, 4)]
NAMES = ["piano__0", "violin__0", "flute__1", "cello__0", "piano__1"]


def rand_rnote(rng, drum=False, rel=0.2, cont=0.2, rest=0.12, systems="sssshhccbba", accs=True):
    w = rng.random()
    dur = rng.choice(GRID)
    if w < rest:
        return {"kind": "r", "val": 0, "oct": 0, "dur": dur, "amp": 66}
    if w < rest + cont:
        return {"kind": "l", "val": 0, "oct": 0, "dur": dur, "amp": 66}
    if drum:
        n = {"kind": "d", "val": rng.randrange(12), "oct": rng.choice([-2, -2, -1]), "dur": dur, "amp": rng.choice([66, 80, 100])}
        if accs and rng.random() < 0.1:
            n["acc"] = rng.choice(ACCS)        # what chord(drums=s2.min.o(-2)) stores: a drum note keeps the accidental, its pitch ignores it
        return n
    k = rng.choice(systems)
    n = {"kind": k, "val": rng.randrange(12 if k in "ha" else 7), "oct": rng.choice([0, 0, 0, 1, -1]), "dur": dur,
         "amp": rng.choice([66, 66, 40, 90, 127, 1])}
    if k in "shcb" and rng.random() < rel:
        n["dir"] = rng.choice("ud")
        n["val"] = rng.randrange(5)
        n["oct"] = rng.choice([0, 0, 0, 1])
    elif accs:
        if k == "s" and rng.random() < 0.12:
            n["acc"] = rng.choice(ACCS)
        if k in "sh" and rng.random() < 0.1:
            n["mode"] = rng.choice(MODES)
    if accs and k in "hacb" and not n.get("dir") and rng.random() < 0.08:
        n["acc"] = rng.choice(ACCS)            # an accidental on a note that is not a scale note: kept by the note, ignored by its pitch
    if accs and k in "cb" and rng.random() < 0.12:
        # a per-note mode on a chord tone or bass tone (absolute or relative): the arpeggio is the chord's own, the mode does not move it
        n["mode"] = rng.choice(MODES)
    if accs and k == "s" and n.get("dir") and rng.random() < 0.1:
        n["mode"] = rng.choice(MODES)          # relative scale steps counted in the note's own mode
    return n


def rand_rchord(rng, names, drums=False, figs=("", "", "6", "64", "7", "65", "43", "2", "9"), **kw):
    c = {"elem": rng.randrange(7), "fig": rng.choice(figs), "tdeg": rng.randrange(12), "tmode": rng.choice(MODES),
         "toct": rng.choice([0, 0, 0, -1, 1]), "coct": rng.choice([0, 0, 0, -1, 1]), "parts": []}
    for nm in names:
        if rng.random() < 0.2 and len(names) > 1:
            continue                                   # part absent from this chord
        c["parts"].append([nm, [rand_rnote(rng, **kw) for _ in range(rng.randrange(1, 6))]])
    if drums and rng.random() < 0.7:
        c["parts"].append(["drums_0__0", [rand_rnote(rng, drum=True) for _ in range(rng.randrange(1, 5))]])
    if not c["parts"]:
        c["parts"].append([names[0], [rand_rnote(rng, **kw)]])
    return c


def rand_score(rng, max_chords=5, **kw):
    names = rng.sample(NAMES, rng.randrange(1, 4))
    drums = rng.random() < 0.25
    return [rand_rchord(rng, names, drums=drums, **kw) for _ in range(rng.randrange(1, max_chords + 1))]


def equalize(score):
    """make every part last as long as its chord (pad with a rest)"""
    out = []
    for c in score:
        durs = [sum(F(n["dur"]) for n in notes) for _, notes in c["parts"]]
        m = max(durs) if durs else F(0)
        parts = []
        for (nm, notes), d in zip(c["parts"], durs):
            notes = list(notes)
            if d < m:
                notes.append({"kind": "r", "val": 0, "oct": 0, "dur": m - d, "amp": 66})
            parts.append([nm, notes])
        out.append(dict(c, parts=parts))
    return out


# ---- live objects ---------------------------------------------------------------
def mk_rnote(n):
    from musiclang import Note, Silence, Continuation
    d = F(n["dur"])
    if n["kind"] == "r":
        return Silence(d)
    if n["kind"] == "l":
        return Continuation(d)
    return Note(n["kind"] + n.get("dir", ""), n["val"], n["oct"], d, mode=n.get("mode"), accident=n.get("acc"), amp=n.get("amp", 66))


def mk_rchord(c):
    from musiclang import Melody
    ch = mlang.mk_chord(c)
    return ch(**{nm: Melody([mk_rnote(n) for n in notes]) for nm, notes in c["parts"]})


def mk_rscore(score):
    from musiclang import Score
    return Score([mk_rchord(c) for c in score])


# ---- Coq terms (integer ticks) ---------------------------------------------------
def score_tpq(score, extra=()):
    dens = [F(n["dur"]).denominator for c in score for _, notes in c["parts"] for n in notes] + [F(x).denominator for x in extra]
    return lcm(*dens) if dens else 1


def ticks(x, tpq):
    v = F(x) * tpq
    assert v.denominator == 1, (x, tpq)
    return int(v)


def coq_tnote(n, tpq):
    return f"(mkTN {mlang.coq_pnote(n)} {Z(ticks(n['dur'], tpq))} {Z(int(n.get('amp', 66)))})"


def coq_rchord(c, tpq):
    parts = L([T(S(nm), L([coq_tnote(n, tpq) for n in notes])) for nm, notes in c["parts"]])
    return f"(mkRC {mlang.coq_chord(c)} {parts})"


def coq_rscore(score, tpq):
    return L([coq_rchord(c, tpq) for c in score])


def coq_row(r, tpq):
    """r = [pitch, offset, duration, velocity, track, silence, continuation]"""
    return (f"(mkRow {Z(int(r[0]))} {Z(ticks(r[1], tpq))} {Z(ticks(r[2], tpq))} {Z(int(r[3]))} {int(r[4])}%nat "
            f"{B(bool(r[5]))} {B(bool(r[6]))})")


def impl_rows(score_obj):
    from musiclang.write.out.to_midi import get_notes
    rows = get_notes(score_obj)
    return [[int(r[0]), F(r[1]), F(r[2]), r[3], int(r[4]), int(bool(r[5])), int(bool(r[6]))] for r in rows]


def merge_rows(rows):
    """consumer-side merge of get_notes rows into sounding notes per track (what every exporter does):
    a continuation extends the previous row of its track; silent rows are dropped"""
    per = {}
    for r in rows:
        tr = r[4]
        if r[6]:
            if per.get(tr):
                per[tr][-1][2] += r[2]
            continue
        per.setdefault(tr, []).append([r[0], r[1], r[2], r[3], r[5]])
    return {tr: [[p, o, d, v] for p, o, d, v, sil in l if not sil] for tr, l in per.items()}


def shrink_score(score):
    """smaller scores: drop a chord, a part, a note; simplify a chord"""
    for i in range(len(score)):
        if len(score) > 1:
            yield score[:i] + score[i + 1:]
    for i, c in enumerate(score):
        for j in range(len(c["parts"])):
            if len(c["parts"]) > 1:
                yield score[:i] + [dict(c, parts=c["parts"][:j] + c["parts"][j + 1:])] + score[i + 1:]
        for j, (nm, notes) in enumerate(c["parts"]):
            for k in range(len(notes)):
                if len(notes) > 1:
                    np_ = c["parts"][:j] + [[nm, notes[:k] + notes[k + 1:]]] + c["parts"][j + 1:]
                    yield score[:i] + [dict(c, parts=np_)] + score[i + 1:]
        for key, val in (("toct", 0), ("coct", 0), ("tdeg", 0), ("elem", 0), ("fig", ""), ("tmode", "M")):
            if c.get(key) != val:
                yield score[:i] + [dict(c, **{key: val})] + score[i + 1:]
    for i, c in enumerate(score):
        for j, (nm, notes) in enumerate(c["parts"]):
            for k, n in enumerate(notes):
                for key, val in (("dur", F(1)), ("oct", 0), ("amp", 66)):
                    if n.get(key) != val:
                        n2 = dict(n, **{key: val})
                        np_ = c["parts"][:j] + [[nm, notes[:k] + [n2] + notes[k + 1:]]] + c["parts"][j + 1:]
                        yield score[:i] + [dict(c, parts=np_)] + score[i + 1:]
                for key in ("acc", "mode"):
                    if n.get(key):
                        n2 = {kk: v for kk, v in n.items() if kk != key}
                        np_ = c["parts"][:j] + [[nm, notes[:k] + [n2] + notes[k + 1:]]] + c["parts"][j + 1:]
                        yield score[:i] + [dict(c, parts=np_)] + score[i + 1:]


# ---- Spec oracle: the sounding notes of a score, written independently of the code -------
def spec_sounding(score, keep_ref=False):
    """{part name: [[pitch, onset, duration, velocity], ...]} per the statement of C03
    (keep_ref: the reference pitch of a part survives the chords it is absent from, as in the music21 export)"""
    from harness.props.C01 import spec_pitch, spec_chord_deg, spec_arpeggio
    from harness.props.C09 import spec_relative, spec_system
    names = []
    for c in score:
        for nm, _ in c["parts"]:
            if nm not in names:
                names.append(nm)
    out = {}
    for nm in names:
        evs = []
        ref = None            # last sounded pitch of the part in the current run of chords where it is present
        cur = None            # the event a directly following continuation extends (None after a rest / at a gap)
        t0 = F(0)
        for c in score:
            cd = max([sum(F(n["dur"]) for n in notes) for _, notes in c["parts"]], default=F(0))
            part = dict((a, b) for a, b in c["parts"]).get(nm)
            if part is None:
                ref, cur = (ref if keep_ref else None), None
            else:
                t = t0
                for n in part:
                    k = n["kind"]
                    if k == "r":
                        cur = None
                    elif k == "l":
                        if cur is not None:
                            cur[2] += F(n["dur"])
                    else:
                        if k == "d":
                            p = n["val"] + 12 * n["oct"]
                        elif n.get("dir"):
                            if k == "s":
                                sysm = [spec_chord_deg(c, j, n.get("mode")) for j in range(7)]
                            elif k == "h":
                                sysm = list(range(12))
                            else:
                                sysm = spec_arpeggio(c, inverted=(k == "b"))
                            p = spec_relative(spec_system(sysm), n["val"], n["oct"], n["dir"] == "d", ref if ref is not None else 0)
                        else:
                            p = spec_pitch(c, n)
                        cur = [p, t, F(n["dur"]), n.get("amp", 66)]
                        evs.append(cur)
                        ref = p
                    t += F(n["dur"])
            t0 += cd
        out[nm] = evs
    return out


# ---- reading live objects back into the JSON form -------------------------------------
def read_note(n):
    t = n.type
    kind, d = (t[0], t[1:]) if t not in ("r", "l", "d", "x", "a") and len(t) == 2 else (t, "")
    out = {"kind": kind, "val": int(n.val), "oct": int(n.octave), "dur": F(n.duration), "amp": n.amp if isinstance(n.amp, int) else float(n.amp)}
    if d:
        out["dir"] = d
    if n.mode is not None:
        out["mode"] = n.mode
    if n.accident is not None:
        out["acc"] = n.accident
    return out


def read_chord(ch):
    from harness.props.C02 import parse_ext_string
    e = parse_ext_string(ch.extension)
    t = ch.tonality
    c = {"elem": int(ch.element), "fig": e["fig"], "tdeg": int(t.degree) if t is not None else 0,
         "tmode": t.mode if t is not None else "M", "toct": int(t.octave) if t is not None else 0, "coct": int(ch.octave),
         "parts": [[nm, [read_note(n) for n in mel.notes]] for nm, mel in ch.score.items()]}
    for k in ("repl", "adds", "rems"):
        if e[k]:
            c[k] = e[k]
    if t is None:
        c["ton_none"] = True
    return c


def read_score(sc):
    return [read_chord(ch) for ch in sc.chords]


def total_dur(score):
    return sum((max([sum(F(n["dur"]) for n in notes) for _, notes in c["parts"]], default=F(0)) for c in score), F(0))

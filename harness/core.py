"""Shared machinery of ./check: build, model evaluation inside Coq, evidence,
known findings, replays.  Runs under /venv/bin/python with PYTHONPATH=/repo."""
import os, sys, re, json, time, fcntl, subprocess, hashlib, random, traceback
from concurrent.futures import ThreadPoolExecutor
from fractions import Fraction

VERIF = os.path.dirname(os.path.dirname(os.path.abspath(__file__)))
COQ = os.path.join(VERIF, "coq")
BUILD = os.path.join(VERIF, "_build")
REPO = os.environ.get("VERIF_REPO", "/repo")
PY = "/venv/bin/python"
ALLOWED_AXIOMS = set()       # every property theorem must be closed under the global context
NCPU = 16

os.makedirs(BUILD, exist_ok=True)


def sh(cmd, timeout=1200, cwd=None, env=None):
    p = subprocess.run(cmd, shell=isinstance(cmd, str), cwd=cwd, env=env, timeout=timeout,
                       stdout=subprocess.PIPE, stderr=subprocess.STDOUT, text=True)
    return p.returncode, p.stdout


# --------------------------------------------------------------------------
# build
# --------------------------------------------------------------------------
class Lock:
    def __enter__(self):
        self.f = open(os.path.join(BUILD, ".lock"), "w")
        fcntl.flock(self.f, fcntl.LOCK_EX)
        return self

    def __exit__(self, *a):
        fcntl.flock(self.f, fcntl.LOCK_UN)
        self.f.close()


def gen_tables():
    env = dict(os.environ, PYTHONPATH=REPO, PYTHONHASHSEED="0", VERIF_REPO=REPO)
    rc, out = sh([PY, os.path.join(VERIF, "tools", "gen_tables.py")], env=env, timeout=300)
    return rc == 0, out


def make(targets, jobs=NCPU, timeout=3000):
    """full .vo build of the given targets (paths relative to coq/)."""
    with Lock():
        if not os.path.exists(os.path.join(COQ, "Makefile.coq")) or \
           os.path.getmtime(os.path.join(COQ, "Makefile.coq")) < os.path.getmtime(os.path.join(COQ, "_CoqProject")):
            rc, out = sh("coq_makefile -f _CoqProject -o Makefile.coq", cwd=COQ)
            if rc != 0:
                return False, out
        rc, out = sh(["timeout", str(timeout), "make", "-f", "Makefile.coq", f"-j{jobs}", "-k"] + list(targets),
                     cwd=COQ, timeout=timeout + 60)
    return rc == 0, out


def failing_files(make_out):
    """files named in coqc error reports of a make log"""
    return sorted(set(re.findall(r'File "\./([^"]+)", line \d+, characters [\d-]+:\s*\n\s*Error', make_out)))


def theorems_of(prop):
    path = os.path.join(COQ, "Properties", prop + ".v")
    if not os.path.exists(path):
        return []
    return re.findall(r"^\s*Theorem\s+(\w+)", open(path).read(), re.M)


def forbidden_scan():
    """fail closed on any escape hatch anywhere in the development"""
    bad = []
    pat = re.compile(r"\b(Admitted|admit|Axiom|Axioms|Parameter|Parameters|Conjecture|Hypothesis|Variable|"
                     r"Admit Obligations|Unset Guard Checking|Unset Positivity Checking|Unset Universe Checking|"
                     r"bypass_check|type-in-type|impredicative-set|native_compute)\b")
    for root, _, files in os.walk(COQ):
        for f in files:
            if not f.endswith(".v"):
                continue
            text = open(os.path.join(root, f)).read()
            text = re.sub(r"\(\*.*?\*\)", "", text, flags=re.S)
            insec = 0
            for ln, line in enumerate(text.split("\n"), 1):
                if re.match(r"\s*Section\b", line):
                    insec += 1
                if re.match(r"\s*End\b", line) and insec:
                    insec -= 1
                for m in pat.finditer(line):
                    w = m.group(1)
                    if w in ("Variable", "Hypothesis") and insec:
                        continue
                    bad.append(f"{os.path.relpath(os.path.join(root, f), COQ)}:{ln}: {w}")
    return bad


def print_assumptions(prop, theorems):
    """compile a tiny file that prints the assumptions of every property theorem."""
    d = os.path.join(BUILD, "assum")
    os.makedirs(d, exist_ok=True)
    path = os.path.join(d, f"Assum_{prop}.v")
    with open(path, "w") as f:
        f.write(f"From ML Require Import Properties.{prop}.\n")
        for t in theorems:
            f.write(f'Goal True. idtac "@@@ {t}". exact I. Qed.\nPrint Assumptions {t}.\n')
    rc, out = sh(["timeout", "600", "coqc", "-R", COQ, "ML", path], cwd=d)
    res = {}
    if rc != 0:
        return None, out
    chunks = out.split("@@@ ")[1:]
    for ch in chunks:
        name, _, rest = ch.partition("\n")
        name = name.strip()
        if "Closed under the global context" in rest:
            res[name] = []
        else:
            ax = re.findall(r"^(\S+)\s*:", rest, re.M)
            res[name] = ax
    return res, out


# --------------------------------------------------------------------------
# Coq term encoders
# --------------------------------------------------------------------------
def Z(n):
    assert isinstance(n, int) and not isinstance(n, bool), n
    return f"({n})" if n < 0 else str(n)


def N(n):
    assert isinstance(n, int) and n >= 0
    return f"{n}%nat"


def Qc(fr):
    fr = Fraction(fr)
    return f"({fr.numerator} # {fr.denominator})%Q"


def S(s):
    assert '"' not in s and "\\" not in s
    return f'"{s}"%string'


def B(b):
    return "true" if b else "false"


def L(items):
    return "[" + "; ".join(items) + "]"


def O(x, enc=None):
    if x is None:
        return "None"
    return f"(Some {enc(x) if enc else x})"


def T(*items):
    return "(" + ", ".join(items) + ")"


def Zl(l):
    return L([Z(x) for x in l])


# --------------------------------------------------------------------------
# evaluating the model inside Coq (vm_compute), sharded
# --------------------------------------------------------------------------
HEADER = ("From ML Require Import Model.Types gen.Tables {mods}.\n"
          "From Coq Require Import QArith.\nOpen Scope Z_scope.\n")


def _run_shard(args):
    path, = args
    rc, out = sh(["timeout", "900", "coqc", "-R", COQ, "ML", path], cwd=os.path.dirname(path), timeout=960)
    return rc, out


def coq_bad_indices(tag, mods, checker, terms, shard=400):
    """terms: list of Coq terms (one per case) accepted by `checker : T -> bool`.
    returns (list of failing global indices, error text or None)"""
    if not terms:
        return [], None
    d = os.path.join(BUILD, "cases")
    os.makedirs(d, exist_ok=True)
    paths = []
    for k in range(0, len(terms), shard):
        name = re.sub(r"\W", "_", f"Cases_{tag}_{checker}_{k // shard}")
        path = os.path.join(d, name + ".v")
        with open(path, "w") as f:
            f.write(HEADER.format(mods=" ".join(mods)))
            f.write("Definition cs := [\n" + ";\n".join(terms[k:k + shard]) + "\n].\n")
            f.write(f"Eval vm_compute in (bad {checker} cs).\n")
        paths.append((path,))
    bad, err = [], None
    with ThreadPoolExecutor(max_workers=NCPU) as ex:
        for i, (rc, out) in enumerate(ex.map(_run_shard, paths)):
            if rc != 0:
                err = (err or "") + f"\n[{paths[i][0]}]\n" + out[-3000:]
                continue
            m = re.search(r"=\s*\[(.*?)\]\s*:\s*list nat", out, re.S)
            if not m:
                err = (err or "") + f"\n[{paths[i][0]}] unparsable output\n" + out[-2000:]
                continue
            body = m.group(1).strip()
            if body:
                bad += [i * shard + int(x.replace("%nat", "")) for x in re.split(r"[;\s]+", body) if x]
    for p, in paths:
        for ext in (".vo", ".vok", ".vos", ".glob"):
            try:
                os.remove(p[:-2] + ext)
            except OSError:
                pass
        aux = os.path.join(os.path.dirname(p), "." + os.path.basename(p)[:-2] + ".aux")
        try:
            os.remove(aux)
        except OSError:
            pass
    return bad, err


def coq_eval(mods, expr, timeout=300):
    """evaluate one expression, return Coq's printed answer (for replays)"""
    d = os.path.join(BUILD, "cases")
    os.makedirs(d, exist_ok=True)
    path = os.path.join(d, f"Eval_{os.getpid()}_{abs(hash(expr)) % 10**8}.v")
    with open(path, "w") as f:
        f.write(HEADER.format(mods=" ".join(mods)))
        f.write(f"Eval vm_compute in ({expr}).\n")
    rc, out = sh(["timeout", str(timeout), "coqc", "-R", COQ, "ML", path], cwd=d)
    for ext in (".v", ".vo", ".vok", ".vos", ".glob"):
        try:
            os.remove(path[:-2] + ext)
        except OSError:
            pass
    return " ".join(out.split())


# --------------------------------------------------------------------------
# known findings
# --------------------------------------------------------------------------
def load_known(prop):
    path = os.path.join(VERIF, "known_findings.json")
    if not os.path.exists(path):
        return []
    data = json.load(open(path))
    return [e for e in data.get("findings", []) if e.get("property") == prop]


# --------------------------------------------------------------------------
# JSON canonicalisation
# --------------------------------------------------------------------------
def canon(x):
    if isinstance(x, Fraction):
        return {"frac": [x.numerator, x.denominator]}
    if isinstance(x, (list, tuple)):
        return [canon(i) for i in x]
    if isinstance(x, dict):
        return {str(k): canon(v) for k, v in x.items()}
    if isinstance(x, (set, frozenset)):
        return sorted(canon(i) for i in x)
    if isinstance(x, (int, str, bool, float)) or x is None:
        return x
    return repr(x)


def exc_name(e):
    return type(e).__name__


def decanon(x):
    """inverse of canon for Fractions (replays / corpus)"""
    if isinstance(x, dict):
        if set(x.keys()) == {"frac"}:
            return Fraction(x["frac"][0], x["frac"][1])
        return {k: decanon(v) for k, v in x.items()}
    if isinstance(x, list):
        return [decanon(i) for i in x]
    return x

"""C07 - the MIDI file written for a score contains exactly its sounding notes."""
import os, tempfile
from fractions import Fraction as F
from harness.main import Stream
from harness import core, mlang, score_gen as sg
from harness.smf import read_smf
from harness.core import Z, S, L, O, T, B

MODEL_MODS = ["Model.Pitch", "Model.Rel", "Model.Render", "Model.Midi"]
RULE = ("scores from the shared generator constrained to the MIDI range (pitch 60+p in 0..127, velocities 1..127), instrument sets "
        "with repeats (several parts of one instrument), drums, up to 6 programs; tempi 40..200; signatures 4/4 3/4 6/8 2/2 5/4; "
        "onsets on the 480-tick grid and (separate stream) off it (quintuplets/septuplets); non-trivial = at least two tracks or a continuation")
TRUSTED = ["mido writes the messages it is given (the file is read back with an independent SMF reader and with mido)",
           "pandas sort_values on several keys is stable"]
ASSUMPTIONS = ["at least one sounding note, pitches in the MIDI range, velocities 1..127 (the statement's guard)", "durations > 0"]

INSTR_POOL = ["piano", "violin", "flute", "cello", "trumpet", "piano", "violin", "church_organ", "unknown_instrument",
              "steel_drums", "taiko_drum", "synth_drum"]        # melodic General MIDI programs whose NAME mentions drums: not drum parts
SIGS = [(4, 4), (3, 4), (6, 8), (2, 2), (5, 4)]


BIG_POOL = ["piano", "violin", "flute", "cello", "trumpet", "church_organ", "clarinet", "oboe", "harp", "trombone", "tuba", "viola",
            "contrabass", "french_horn", "bassoon", "piccolo", "acoustic_guitar", "vibraphone", "marimba", "harpsichord"]


def rand_midi_score(rng, offgrid=False, many=False, too_many=False):
    n = rng.randrange(1, 5)
    names = []
    if many:
        # an orchestra: 8..14 different programs, so that the channel numbering has to step over the drum channel
        names = [f"{b}__0" for b in rng.sample(BIG_POOL, rng.randrange(8, 15))]
        n = 0
    if too_many:
        # 16..19 different programs: more than MIDI has channels for (known finding: the export raises)
        names = [f"{b}__0" for b in rng.sample(BIG_POOL, rng.randrange(16, 20))]
        n = 0
    for _ in range(n):
        base = rng.choice(INSTR_POOL)
        k = sum(1 for x in names if x.startswith(base + "__"))
        names.append(f"{base}__{k}")
    if rng.random() < 0.3:
        # 'drums' is the library's alias of 'drums_0'; sometimes a second drum voice
        names.insert(rng.randrange(len(names) + 1), rng.choice(["drums_0__0", "drums_0__0", "drums__0"]))
        if rng.random() < 0.2:
            names.insert(rng.randrange(len(names) + 1), rng.choice(["drums_0__1", "drums__1"]))
    chords = []
    for _ in range(rng.randrange(1, 4)):
        c = {"elem": rng.randrange(7), "fig": rng.choice(["", "6", "7"]), "tdeg": rng.randrange(12), "tmode": rng.choice(["M", "m", "dorian"]),
             "toct": 0, "coct": rng.choice([0, 0, -1, 1]), "parts": []}
        for nm in names:
            if rng.random() < 0.15 and len(names) > 1:
                continue
            notes = []
            for _ in range(rng.randrange(1, 5)):
                nt = sg.rand_rnote(rng, drum=nm.startswith("drums"), rel=0.1, systems="sssshcb", accs=False)
                nt["oct"] = rng.choice([0, 0, 1, -1]) if nt["kind"] not in "dr l" else nt["oct"]
                nt["amp"] = rng.choice([66, 40, 90, 127, 1])
                if offgrid:
                    nt["dur"] = rng.choice([F(1, 5), F(2, 5), F(1, 7), F(3, 7), F(1, 3), F(1)])
                if rng.random() < 0.04 and not nm.startswith("drums"):
                    # the two ends of the MIDI range: key 127 (pitch 67) and key 0 (pitch -60)
                    nt = dict(nt, kind="a", val=rng.choice([7, 0]), amp=nt.get("amp", 66))
                    nt["oct"] = 5 if nt["val"] == 7 else -5
                    nt.pop("dir", None); nt.pop("acc", None); nt.pop("mode", None)
                notes.append(nt)
            c["parts"].append([nm, notes])
        if not c["parts"]:
            c["parts"].append([names[0], [sg.rand_rnote(rng, rest=0, cont=0, rel=0, systems="s", accs=False)]])
        if not many and rng.random() < 0.12:
            # a unison doubling inside one instrument: the same melody under another voice index, other dynamics
            nm, notes = next(((a, b) for a, b in c["parts"] if not a.startswith("drums")), (None, None))
            if nm is not None:
                base = nm.split("__")[0]
                twin = f"{base}__{7 + len(chords)}"
                c["parts"].append([twin, [dict(x, amp=(90 if x.get("amp", 66) != 90 else 40)) for x in notes]])
        chords.append(c)
    return chords


def read_back(path):
    smf = read_smf(path)
    import mido
    mm = mido.MidiFile(path)
    out = []
    for ti, tr in enumerate(smf["tracks"]):
        prog = [e for e in tr if e["type"] == "program"]
        notes = [(e["type"] == "note_on", e["dt"], e["key"], e["vel"], e["ch"]) for e in tr if e["type"] in ("note_on", "note_off")]
        # deltas of non-note events between notes are added to the next note event so that absolute times are kept
        evs, carry = [], 0
        for e in tr:
            if e["type"] in ("note_on", "note_off"):
                evs.append([e["type"] == "note_on", e["dt"] + carry, e["key"], e["vel"], e["ch"]])
                carry = 0
            else:
                carry += e["dt"]
        mido_notes = [[m.type == "note_on", m.note, m.velocity, m.channel] for m in mm.tracks[ti] if m.type in ("note_on", "note_off")]
        out.append({"program": prog[0]["program"] if prog else None, "program_channel": prog[0]["ch"] if prog else None,
                    "events": evs, "mido_agrees": mido_notes == [[e[0], e[2], e[3], e[4]] for e in evs],
                    "tempo": [e["us"] for e in tr if e["type"] == "tempo"],
                    "timesig": [[e["num"], e["den"]] for e in tr if e["type"] == "time_signature"]})
    return {"division": smf["division"], "tracks": out}


class MidiFile_(Stream):
    name = "to_midi"
    mods = MODEL_MODS
    checker = "check_midi"
    pair = "Score.to_midi / matrix_to_mid (merge, setup_instruments, set_tracks, prepare_df_for_events, apply_events) <-> Midi.midi_tracks"
    quick, thorough = 700, 10000

    def gen(self, rng, n):
        for i in range(n):
            sc = rand_midi_score(rng, offgrid=(i % 4 == 3), many=(i % 12 == 5), too_many=(i % 60 == 17))
            # cases stay inside the statement's guard (a pitch outside 0..127 makes mido raise, which the model does not describe)
            for _ in range(20):
                try:
                    if self.in_guard(None, sg.spec_sounding(sc)):
                        break
                except Exception:
                    pass
                sc = rand_midi_score(rng, offgrid=(i % 4 == 3), many=(i % 12 == 5), too_many=(i % 60 == 17))
            case = {"score": sc, "tempo": rng.choice([120, 60, 100, 40, 200, 77]), "sig": list(rng.choice(SIGS))}
            if len(sc) == 1 and rng.random() < 0.5:
                case["via_chord"] = True                  # the second public entry point: Chord.to_midi(path, tempo=..., time_signature=...)
            yield case

    def impl(self, case):
        def f():
            sc = sg.mk_rscore(case["score"])
            fd, path = tempfile.mkstemp(suffix=".mid", dir=os.path.join(core.BUILD))
            os.close(fd)
            try:
                (sc.chords[0] if case.get("via_chord") else sc).to_midi(path, tempo=case["tempo"], time_signature=tuple(case["sig"]))
                return read_back(path)
            finally:
                os.remove(path)
        return mlang.guarded(f)

    def names(self, case):
        return list(dict.fromkeys(nm for c in case["score"] for nm, _ in c["parts"]))

    def term(self, case, r):
        tpq = sg.score_tpq(case["score"])
        names = [nm.split("__")[0] for nm in self.names(case)]
        if mlang.is_exc(r):
            exp = "None"
        else:
            trs = []
            for t in r["tracks"]:
                ch = t["events"][0][4] if t["events"] else (t["program_channel"] if t["program_channel"] is not None else 0)
                evs = L([T(B(e[0]), Z(e[1]), Z(e[2]), Z(e[3])) for e in t["events"]])
                trs.append(f"(mkMT {Z(ch)} {Z(t['program'] if t['program'] is not None else 0)} {evs})")
            exp = "(Some " + L(trs) + ")"
        return T(sg.coq_rscore(case["score"], tpq), Z(tpq), L([S(x) for x in names]), exp)

    def in_guard(self, case, want):
        evs = [e for l in want.values() for e in l]
        return bool(evs) and all(0 <= 60 + e[0] <= 127 and 1 <= e[3] <= 127 and e[2] > 0 for e in evs)

    def spec(self, case, r):
        want = sg.spec_sounding(case["score"])
        if not self.in_guard(case, want):
            return None
        if mlang.is_exc(r):
            progs = {("drums" if nm.startswith("drums") else self.gm().get(nm.split("__")[0], 0)) for nm in self.names(case)} | {0}
            if len(progs - {"drums"}) > 15 and "channel must be in range" in str(r):
                return {"sig": "midi-export-raises:more-than-15-programs", "msg": f"{len(progs)} programs: {r}"}
            return {"sig": "midi-export-raises", "msg": str(r)}
        if r["division"] != 480:
            return {"sig": "midi-division", "msg": str(r["division"])}
        if not all(t["mido_agrees"] for t in r["tracks"]):
            return {"sig": "smf-reader-vs-mido", "msg": "the two readers disagree"}
        from musiclang.write.out.constants import INSTRUMENTS_DICT
        GM = self.gm()
        # expected grouping: one track per program, drums together
        groups = {}
        for nm in self.names(case):
            base = nm.split("__")[0]
            key = "drums" if base.startswith("drums") else GM.get(base, 0)
            groups.setdefault(key, []).append(nm)
        tracks = r["tracks"]
        first = tracks[0]
        if first["tempo"] != [round(60_000_000 / case["tempo"])] or first["timesig"] != [case["sig"]]:
            return {"sig": "midi-meta", "msg": f"tempo {first['tempo']} signature {first['timesig']}"}
        used = {}
        for gi, (key, parts) in enumerate(groups.items()):
            exp_on, exp_off = [], []
            for nm in parts:
                for p, o, d, v in want[nm]:
                    exp_on.append((o * 480, 60 + p, int(v)))
                    exp_off.append(((o + d) * 480, 60 + p, int(v)))
            if gi >= len(tracks):
                if exp_on:
                    return {"sig": "midi-missing-track", "msg": f"program {key}"}
                continue
            t = tracks[gi]
            prog = 0 if key == "drums" else key
            if t["program"] != prog:
                return {"sig": "midi-program", "msg": f"track {gi}: program {t['program']}, expected {prog}"}
            chans = {e[4] for e in t["events"]}
            if key == "drums":
                if chans - {9}:
                    return {"sig": "midi-drum-channel", "msg": str(chans)}
            else:
                if len(chans) > 1 or 9 in chans:
                    return {"sig": "midi-channel", "msg": str(chans)}
                for c in chans:
                    if c in used and used[c] != key:
                        return {"sig": "midi-channel-shared-by-two-programs", "msg": f"channel {c}"}
                    used[c] = key
            # absolute times
            tabs, acc = [], 0
            for on, dt, k, v, ch in t["events"]:
                acc += dt
                tabs.append((on, acc, k, v))
            got_on = sorted((a, k, v) for on, a, k, v in tabs if on)
            got_off = sorted((a, k, v) for on, a, k, v in tabs if not on)
            # every event on its own: an onset / end that is a whole number of ticks is written exactly there, whatever the other
            # notes of the score are; any other position is off by less than one tick (no error adds up along the track)
            for got, exp, what in ((got_on, sorted(exp_on), "note-ons"), (got_off, sorted(exp_off), "note-offs")):
                if sorted((k, v) for a, k, v in got) != sorted((k, v) for a, k, v in exp):
                    return {"sig": "midi-notes", "msg": f"track {gi}: {what} {got[:6]} expected {exp[:6]}"}
                if all(F(x[0]).denominator == 1 for x in exp):
                    if got != [(int(a), k, v) for a, k, v in exp]:
                        return {"sig": "midi-notes", "msg": f"track {gi}: {what} {got[:6]} expected {exp[:6]}"}
                else:
                    # match by (key, velocity) in time order
                    for key in {(k, v) for a, k, v in exp}:
                        ga = [a for a, k, v in got if (k, v) == key]
                        ea = sorted(a for a, k, v in exp if (k, v) == key)
                        for g1, e1 in zip(ga, ea):
                            if (F(e1).denominator == 1 and g1 != e1) or abs(F(g1) - F(e1)) >= 1:
                                return {"sig": "midi-tick-drift", "msg": f"track {gi}: {what}: key {key[0]} expected at tick {e1}, written at {g1}"}
        return None

    _gm = None

    def gm(self):
        """General MIDI level 1 program numbers (0-based) for the instrument names the generator uses"""
        return {"piano": 0, "violin": 40, "flute": 73, "cello": 42, "trumpet": 56, "church_organ": 19, "clarinet": 71, "oboe": 68, "harp": 46,
                "trombone": 57, "tuba": 58, "viola": 41, "contrabass": 43, "french_horn": 60, "bassoon": 70, "piccolo": 72,
                "acoustic_guitar": 24, "vibraphone": 11, "marimba": 12, "harpsichord": 6, "steel_drums": 114, "taiko_drum": 116, "synth_drum": 118}

    def nontrivial(self, case, r):
        return len(self.names(case)) > 1

    def hist_keys(self, case, r):
        names = self.names(case)
        bases = [n.split("__")[0] for n in names]
        return ["shared-program" if len(set(bases)) < len(bases) else "distinct-programs", "drums" if any(b.startswith("drums") for b in bases) else "no-drums",
                "exc" if mlang.is_exc(r) else "ok", "Chord.to_midi" if case.get("via_chord") else "Score.to_midi"]

    def shrink(self, case):
        for s in sg.shrink_score(case["score"]):
            if len(s) == 1 or not case.get("via_chord"):
                yield dict(case, score=s)

    def model_answer(self, case, r):
        tpq = sg.score_tpq(case["score"])
        names = [nm.split("__")[0] for nm in self.names(case)]
        return f"(do rows <- get_notes {sg.coq_rscore(case['score'], tpq)} ;; midi_tracks {Z(tpq)} {L([S(x) for x in names])} rows)"


def streams():
    return [MidiFile_()]

"""C18 - transformers change exactly what their mask selects and keep structure."""
from fractions import Fraction as F
from math import lcm
from harness.main import Stream
from harness import core, mlang, score_gen as sg
from harness.core import Z, S, L, O, T, B
from harness.mlang import MODES, MODE_C

MODEL_MODS = ["Model.Mask"]
RULE = ("scores of 1..4 chords x 1..3 parts x 1..4 notes with tags on every level; mask expressions of depth <= 4 over tags, "
        "instruments, beats, durations, chord/tonality predicates, type guards, and/or/not, both level-separable (conjunctions of "
        "single-level sub-masks: the oracle's domain) and arbitrary (model correspondence only); tracing transformers at note, melody "
        "and chord level (plain and filter variants); pipelines of 1..3 steps; library note/melody transforms on rhythm")
TRUSTED = ["Python set membership of str/int/Fraction; dict ordering of parts"]
ASSUMPTIONS = ["masks are built with & | ~ > from the Mask classmethods (a negation only wraps an atom)", "Func masks are not modelled"]

TAGS = ["a", "b", "c"]
LEVELS = ["Score", "Chord", "Melody", "Note"]
LEVEL_C = {"Score": "LScore", "Chord": "LChord", "Melody": "LMelody", "Note": "LNote"}
DURS = [F(1), F(1, 2), F(2), F(3, 2)]
INSTR = ["piano__0", "violin__0", "flute__1"]


# ---------------- scores with tags ----------------
def rand_tags(rng):
    return sorted(t for t in TAGS if rng.random() < 0.3)


def rand_mscore(rng):
    chords = []
    for _ in range(rng.randrange(1, 5)):
        parts = []
        long_ = rng.random() < 0.2          # a chord of several bars (beats 8, 12 ... are reached inside it)
        for nm in rng.sample(INSTR, rng.randrange(1, 4)):
            notes = [{"val": rng.randrange(7), "dur": rng.choice(DURS + [F(3), F(4)] if long_ else DURS), "tags": rand_tags(rng), "kind": rng.choice("ssssrl")}
                     for _ in range(rng.randrange(1, 9 if long_ else 5))]
            parts.append({"name": nm, "tags": rand_tags(rng), "notes": notes})
        chords.append({"tags": rand_tags(rng), "mode": rng.choice(["M", "m", "dorian"]), "degree": rng.randrange(7),
                       "ext": rng.choice(["", "6", "7"]), "tdeg": rng.randrange(12), "parts": parts})
    return {"tags": rand_tags(rng), "chords": chords}


def mk_mscore(ms, ids=True):
    """live score; every element also carries a unique id tag so that it can be found again in a result"""
    from musiclang import Score, Chord, Tonality, Melody, Note, Silence, Continuation
    chords = []
    for ci, c in enumerate(ms["chords"]):
        ch = Chord(c["degree"], c["ext"], Tonality(c["tdeg"], c["mode"]), tags=set(c["tags"]) | ({f"id{ci}"} if ids else set()))
        parts = {}
        for pi, p in enumerate(c["parts"]):
            notes = []
            for ni, n in enumerate(p["notes"]):
                tg = set(n["tags"]) | ({f"id{ci}_{pi}_{ni}"} if ids else set())
                if n["kind"] == "r":
                    notes.append(Silence(F(n["dur"]), tags=tg))
                elif n["kind"] == "l":
                    notes.append(Continuation(F(n["dur"]), tags=tg))
                else:
                    notes.append(Note("s", n["val"], 0, F(n["dur"]), tags=tg))
            parts[p["name"]] = Melody(notes, tags=set(p["tags"]) | ({f"id{ci}_{pi}"} if ids else set()))
        ch.score = parts
        chords.append(ch)
    return Score(chords, tags=set(ms["tags"]))


def ms_tpq(ms, extra=()):
    dens = [F(n["dur"]).denominator for c in ms["chords"] for p in c["parts"] for n in p["notes"]] + [F(x).denominator for x in extra]
    return lcm(*dens) if dens else 1


def coq_strs(l):
    return L([S(x) for x in l])


def coq_mscore(ms, tpq):
    cs = []
    for c in ms["chords"]:
        ps = []
        for p in c["parts"]:
            ns = L([f"(mkMN {coq_strs(n['tags'])} {Z(sg.ticks(n['dur'], tpq))})" for n in p["notes"]])
            ps.append(f"(mkMP {S(p['name'])} {coq_strs(p['tags'])} {ns})")
        cs.append(f"(mkMC {coq_strs(c['tags'])} {MODE_C[c['mode']]} {Z(c['degree'])} {S(c['ext'])} {Z(c['tdeg'])} {L(ps)})")
    return f"(mkMS {coq_strs(ms['tags'])} {L(cs)})"


# ---------------- mask expressions ----------------
def rand_atom(rng, lv):
    if lv == "Note":
        k = rng.choice(["has", "hasal", "beat_in", "beat_between", "dur_in", "dur_between", "beat_playing"])
    elif lv == "Melody":
        k = rng.choice(["has", "hasal", "instr", "instr"])
    elif lv == "Chord":
        k = rng.choice(["has", "hasal", "cbeat_in", "cbeat_between", "cdur_in", "mode_in", "degree_in", "ext_in", "tdeg_in", "cbeat_playing"])
    else:
        k = rng.choice(["has", "hasal"])
    a = {"atom": k}
    if k in ("has", "hasal"):
        a["tags"] = sorted(rng.sample(TAGS, rng.choice([1, 1, 2])))
    elif k == "instr":
        a["names"] = sorted(rng.sample(INSTR, rng.choice([1, 2])))
    elif k in ("beat_in", "cbeat_in", "beat_playing", "cbeat_playing"):
        # the beat list as a user writes it: 2..4 beats in any order, later bars included (4, 8, 12: bar lines)
        a["l"] = rng.sample([F(0), F(1, 2), F(1), F(3, 2), F(2), F(3), F(4), F(5), F(7), F(8), F(12), F(13)], rng.choice([2, 2, 3, 4]))
    elif k in ("beat_between", "cbeat_between", "dur_between"):
        lo = rng.choice([F(0), F(1, 2), F(1)])
        a["a"], a["b"] = lo, lo + rng.choice([F(1, 2), F(1), F(2), F(4)])
    elif k in ("dur_in", "cdur_in"):
        a["l"] = sorted(rng.sample(DURS + [F(3), F(4)], 2))
    elif k == "mode_in":
        a["l"] = sorted(rng.sample(["M", "m", "dorian"], rng.choice([1, 2])))
    elif k in ("degree_in", "tdeg_in"):
        a["l"] = sorted(rng.sample(range(12 if k == "tdeg_in" else 7), 3))
    elif k == "ext_in":
        a["l"] = sorted(rng.sample(["", "6", "7"], rng.choice([1, 2])))
    return a


def rand_inner(rng, lv, depth):
    """an expression over the atoms of one level (no guard inside)"""
    if depth <= 0 or rng.random() < 0.45:
        w = rng.random()
        if w < 0.08:
            return {"bool": rng.random() < 0.5}
        if w < 0.12:
            return {"true": 1}
        return rand_atom(rng, lv)
    op = rng.choice(["and", "or", "not"])
    if op == "not":
        return {"op": "not", "a": rand_inner(rng, lv, depth - 1)}
    return {"op": op, "a": rand_inner(rng, lv, depth - 1), "b": rand_inner(rng, lv, depth - 1)}


def rand_guarded(rng, depth=2):
    lv = rng.choice(["Chord", "Chord", "Melody", "Note", "Note", "Score"])
    return {"op": "gt", "lv": lv, "m": rand_inner(rng, lv, depth)}


def rand_mask(rng, separable):
    if separable:
        terms = [rand_guarded(rng) for _ in range(rng.choice([1, 1, 2, 3]))]
        m = terms[0]
        for t in terms[1:]:
            m = {"op": "and", "a": m, "b": t}
        return m

    def go(d):
        if d <= 0 or rng.random() < 0.35:
            w = rng.random()
            if w < 0.75:
                return rand_guarded(rng, 1)
            if w < 0.9:
                return {"atom": rng.choice(["has", "hasal"]), "tags": sorted(rng.sample(TAGS, 1))}
            return {"bool": rng.random() < 0.5}
        op = rng.choice(["and", "or", "or", "not"])
        if op == "not":
            return {"op": "not", "a": go(d - 1)}
        return {"op": op, "a": go(d - 1), "b": go(d - 1)}
    return go(3)


def mk_mask(m):
    from musiclang.transform import Mask
    from musiclang.transform import mask as mm
    if "bool" in m:
        return Mask.Bool(m["bool"])
    if "true" in m:
        return Mask()
    if "atom" in m:
        k = m["atom"]
        if k == "has": return mm.HasMask(m["tags"])
        if k == "hasal": return mm.HasAtLeastMask(m["tags"])
        if k == "instr": return mm.InstrumentsMask(m["names"])
        if k == "beat_in": return mm.BeatInMask([F(x) for x in m["l"]])
        if k == "beat_between": return mm.BeatBetweenMask(F(m["a"]), F(m["b"]))
        if k == "dur_in": return mm.DurationInMask([F(x) for x in m["l"]])
        if k == "dur_between": return mm.DurationBetweenMask(F(m["a"]), F(m["b"]))
        if k == "beat_playing": return mm.BeatPlayingInMask([F(x) for x in m["l"]])
        if k == "cbeat_playing": return mm.ChordBeatPlayingInMask([F(x) for x in m["l"]])
        if k == "cbeat_in": return mm.ChordBeatInMask([F(x) for x in m["l"]])
        if k == "cbeat_between": return mm.ChordBeatBetweenMask(F(m["a"]), F(m["b"]))
        if k == "cdur_in": return mm.ChordDurationInMask([F(x) for x in m["l"]])
        if k == "mode_in": return mm.ModeInMask(m["l"])
        if k == "degree_in": return mm.ChordDegreeInMask(m["l"])
        if k == "ext_in": return mm.ChordExtensionInMask(m["l"])
        if k == "tdeg_in": return mm.TonalityDegreeInMask(m["l"])
        raise ValueError(k)
    op = m["op"]
    if op == "not":
        return ~mk_mask(m["a"])
    if op == "and":
        return mk_mask(m["a"]) & mk_mask(m["b"])
    if op == "or":
        return mk_mask(m["a"]) | mk_mask(m["b"])
    if op == "gt":
        return getattr(Mask, m["lv"])() > mk_mask(m["m"])
    raise ValueError(op)


def mask_times(m):
    out = []
    if "atom" in m:
        for k in ("l", "a", "b"):
            if k in m and m["atom"] not in ("mode_in", "degree_in", "ext_in", "tdeg_in"):
                v = m[k]
                out += [F(x) for x in v] if isinstance(v, list) else [F(v)]
    for k in ("a", "b", "m"):
        if isinstance(m.get(k), dict):
            out += mask_times(m[k])
    return out


def coq_mask(m, tpq):
    tk = lambda x: Z(sg.ticks(x, tpq))
    if "bool" in m:
        return f"(MBool {B(m['bool'])})"
    if "true" in m:
        return "MTrue"
    if "atom" in m:
        k = m["atom"]
        zs = lambda l: L([tk(x) for x in l])
        body = {"has": lambda: f"AHas {coq_strs(m['tags'])}", "hasal": lambda: f"AHasAtLeast {coq_strs(m['tags'])}",
                "instr": lambda: f"AInstr {coq_strs(m['names'])}", "beat_in": lambda: f"ABeatIn {zs(m['l'])}",
                "beat_between": lambda: f"ABeatBetween {tk(m['a'])} {tk(m['b'])}", "dur_in": lambda: f"ADurIn {zs(m['l'])}",
                "dur_between": lambda: f"ADurBetween {tk(m['a'])} {tk(m['b'])}", "beat_playing": lambda: f"ABeatPlayingIn {zs(m['l'])}",
                "cbeat_playing": lambda: f"AChordBeatPlayingIn {zs(m['l'])}", "cbeat_in": lambda: f"AChordBeatIn {zs(m['l'])}", "cbeat_between": lambda: f"AChordBeatBetween {tk(m['a'])} {tk(m['b'])}",
                "cdur_in": lambda: f"AChordDurIn {zs(m['l'])}", "mode_in": lambda: "AModeIn " + L([MODE_C[x] for x in m["l"]]),
                "degree_in": lambda: "ADegreeIn " + core.Zl(list(m["l"])), "ext_in": lambda: f"AExtIn {coq_strs(m['l'])}",
                "tdeg_in": lambda: "ATonDegIn " + core.Zl(list(m["l"]))}[k]()
        return f"(MAtom ({body}))"
    op = m["op"]
    if op == "not":
        return f"(invert {coq_mask(m['a'], tpq)})"
    if op == "and":
        return f"(MAnd {coq_mask(m['a'], tpq)} {coq_mask(m['b'], tpq)})"
    if op == "or":
        return f"(MOr {coq_mask(m['a'], tpq)} {coq_mask(m['b'], tpq)})"
    return f"(MGt {LEVEL_C[m['lv']]} {coq_mask(m['m'], tpq)})"


# ---------------- oracle: natural evaluation of a mask on an element with its ancestors ----------------
def eval_atom(a, env, lv):
    o = env[lv]
    k = a["atom"]
    if k == "has": return set(a["tags"]) <= set(o["tags"])
    if k == "hasal": return bool(set(a["tags"]) & set(o["tags"]))
    if k == "instr": return o.get("name") in a["names"]
    if k == "beat_in": return o["beat"] in [F(x) for x in a["l"]]
    if k == "beat_between": return F(a["a"]) <= o["beat"] < F(a["b"])
    if k == "dur_in": return o["dur"] in [F(x) for x in a["l"]]
    if k == "dur_between": return F(a["a"]) <= o["dur"] < F(a["b"])
    if k == "beat_playing": return any(o["beat"] <= F(b) < o["beat"] + o["dur"] for b in a["l"])
    if k == "cbeat_playing": return any(o["cbeat"] <= F(b) < o["cbeat"] + o["cdur"] for b in a["l"])
    if k == "cbeat_in": return o["cbeat"] in [F(x) for x in a["l"]]
    if k == "cbeat_between": return F(a["a"]) <= o["cbeat"] < F(a["b"])
    if k == "cdur_in": return o["cdur"] in [F(x) for x in a["l"]]
    if k == "mode_in": return o["mode"] in a["l"]
    if k == "degree_in": return o["degree"] in a["l"]
    if k == "ext_in": return o["ext"] in a["l"]
    if k == "tdeg_in": return o["tdeg"] in a["l"]
    raise ValueError(k)


def eval_inner(m, env, lv):
    if "bool" in m: return m["bool"]
    if "true" in m: return True
    if "atom" in m: return eval_atom(m, env, lv)
    if m["op"] == "not": return not eval_inner(m["a"], env, lv)
    if m["op"] == "and": return eval_inner(m["a"], env, lv) and eval_inner(m["b"], env, lv)
    if m["op"] == "or": return eval_inner(m["a"], env, lv) or eval_inner(m["b"], env, lv)
    raise ValueError(m)


def natural(m, env):
    """a level-separable mask: conjunction of guards; each guard is judged on the ancestor of its level
    (a guard for a level below the judged element is not applicable and counts as true)"""
    if m.get("op") == "and":
        return natural(m["a"], env) and natural(m["b"], env)
    assert m["op"] == "gt"
    if m["lv"] not in env:
        return True
    return eval_inner(m["m"], env, m["lv"])


def envs(ms):
    """yield (ci, pi, ni, env) for every note, with the observations of its ancestors"""
    cbeat = F(0)
    for ci, c in enumerate(ms["chords"]):
        cdur = max([sum(F(n["dur"]) for n in p["notes"]) for p in c["parts"]], default=F(0))
        co = {"tags": c["tags"], "cbeat": cbeat, "cdur": cdur, "mode": c["mode"], "degree": c["degree"], "ext": c["ext"], "tdeg": c["tdeg"]}
        for pi, p in enumerate(c["parts"]):
            po = {"tags": p["tags"], "name": p["name"]}
            beat = F(0)
            for ni, n in enumerate(p["notes"]):
                no = {"tags": n["tags"], "beat": beat, "dur": F(n["dur"])}
                yield ci, pi, ni, {"Score": {"tags": ms["tags"]}, "Chord": co, "Melody": po, "Note": no}
                beat += F(n["dur"])
        cbeat += cdur


# ---------------- tracing transformers ----------------
def tracers():
    from musiclang.transform import NoteTransformer, MelodyTransformer, ChordTransformer
    from musiclang.transform.transformer import NoteFilterTransform, MelodyFilterTransform, ChordFilterTransform

    class NT(NoteTransformer):
        def action(self, note, **kw): return note.add_tag("HIT")

    class NF(NoteFilterTransform):
        def action(self, note, **kw): return note.add_tag("HIT")

    class MT(MelodyTransformer):
        def action(self, melody, **kw): return melody.add_tag("HIT")

    class MF(MelodyFilterTransform):
        def action(self, melody, **kw): return melody.add_tag("HIT")

    class CT(ChordTransformer):
        def action(self, chord, **kw): return chord.add_tag("HIT")

    class CF(ChordFilterTransform):
        def action(self, chord, **kw): return chord.add_tag("HIT")
    return NT, NF, MT, MF, CT, CF


def find_id(tags, prefix="id"):
    for t in tags:
        if t.startswith(prefix):
            return t
    return None


def read_note_selection(ms, res):
    """from the result of the note-level FILTER tracer: list per chord: None | list per part: None | list of bool"""
    got = {}
    for ch in (res.chords if res is not None else []):
        cid = find_id(ch.tags)
        parts = {}
        for nm, mel in ch.score.items():
            pid = find_id(mel.tags)
            parts[pid] = {find_id(n.tags): ("HIT" in n.tags) for n in mel.notes}
        got[cid] = parts
    out = []
    for ci, c in enumerate(ms["chords"]):
        if f"id{ci}" not in got:
            out.append(None); continue
        ps = []
        for pi, p in enumerate(c["parts"]):
            if f"id{ci}_{pi}" not in got[f"id{ci}"]:
                ps.append(None); continue
            d = got[f"id{ci}"][f"id{ci}_{pi}"]
            ps.append([bool(d.get(f"id{ci}_{pi}_{ni}", False)) for ni in range(len(p["notes"]))])
        out.append(ps)
    return out


class Dispatch(Stream):
    name = "dispatch"
    mods = MODEL_MODS
    checker = "check_sel_note"
    pair = "NoteTransformer/NoteFilterTransform.__call__ + apply_on_score/chord/melody + Mask.__call__/child/~ <-> Mask.sel_note_score"
    quick, thorough = 1500, 25000

    def gen(self, rng, n):
        for i in range(n):
            yield {"ms": rand_mscore(rng), "mask": rand_mask(rng, separable=(i % 2 == 0)), "separable": i % 2 == 0}

    def impl(self, case):
        NT, NF, MT, MF, CT, CF = tracers()
        def f():
            sc = mk_mscore(case["ms"])
            mk = mk_mask(case["mask"])
            try:
                filtered = NF()(sc, on=mk)
            except AttributeError as e:
                if "add_tags" not in str(e):
                    raise
                filtered = None          # every chord was dropped: apply_on_score has no score to tag (observation, see DESIGN)
            sel = read_note_selection(case["ms"], filtered)
            plain = NT()(sc, on=mk)
            # plain transformer: same structure, unselected elements unchanged
            same = (len(plain.chords) == len(sc.chords) and
                    all(list(a.score.keys()) == list(b.score.keys()) and
                        all(len(a.score[k].notes) == len(b.score[k].notes) for k in a.score) for a, b in zip(plain.chords, sc.chords)))
            hits = []
            if same:
                for a, b in zip(plain.chords, sc.chords):
                    hits.append([[("HIT" in x.tags, x.tags - {"HIT"} == y.tags and x == y and x.amp == y.amp) for x, y in
                                  zip(a.score[k].notes, b.score[k].notes)] for k in a.score])
            return {"sel": sel, "same_structure": same, "hits": hits, "type": type(plain).__name__}
        return mlang.guarded(f)

    def term(self, case, r):
        tpq = ms_tpq(case["ms"], mask_times(case["mask"]))
        def enc(sel):
            return L(["None" if c is None else "(Some " + L(["None" if p is None else "(Some " + L([B(x) for x in p]) + ")" for p in c]) + ")"
                      for c in sel])
        return T(coq_mask(case["mask"], tpq), coq_mscore(case["ms"], tpq), enc(r["sel"]) if not mlang.is_exc(r) else "[]")

    def spec(self, case, r):
        if mlang.is_exc(r):
            return {"sig": "transformer-raises", "msg": str(r)}
        if not r["same_structure"] or r["type"] != "Score":
            return {"sig": "transformer-changes-structure", "msg": str(r["type"])}
        # plain and filter variants agree on what is selected; unselected notes are unchanged
        for ci, c in enumerate(r["hits"]):
            for pi, p in enumerate(c):
                for ni, (hit, unchanged) in enumerate(p):
                    sel = r["sel"][ci] is not None and r["sel"][ci][pi] is not None and r["sel"][ci][pi][ni]
                    if hit != sel:
                        return {"sig": "plain-and-filter-transformers-disagree", "msg": f"note {ci},{pi},{ni}"}
                    if not unchanged:
                        return {"sig": "unselected-or-selected-note-damaged", "msg": f"note {ci},{pi},{ni}"}
        if case["separable"]:
            for ci, pi, ni, env in envs(case["ms"]):
                want = natural(case["mask"], env)
                got = r["sel"][ci] is not None and r["sel"][ci][pi] is not None and r["sel"][ci][pi][ni]
                if want != got:
                    return {"sig": "mask-selection:note-level", "msg": f"note ({ci},{pi},{ni}): mask says {want}, transformer applied: {got}"}
        return None

    def nontrivial(self, case, r):
        return not mlang.is_exc(r) and any(c is not None and any(p is not None and any(p) for p in c) for c in r["sel"]) \
            and any(c is None or any(p is None or not all(p) for p in c) for c in r["sel"])

    def hist_keys(self, case, r):
        return ["separable" if case["separable"] else "arbitrary"]

    def shrink(self, case):
        ms = case["ms"]
        for i in range(len(ms["chords"])):
            if len(ms["chords"]) > 1:
                yield dict(case, ms=dict(ms, chords=ms["chords"][:i] + ms["chords"][i + 1:]))
        m = case["mask"]
        if m.get("op") in ("and", "or"):
            yield dict(case, mask=m["a"]); yield dict(case, mask=m["b"])

    def model_answer(self, case, r):
        tpq = ms_tpq(case["ms"], mask_times(case["mask"]))
        return f"sel_note_score {coq_mask(case['mask'], tpq)} {coq_mscore(case['ms'], tpq)}"


class DispatchMelodyChord(Stream):
    name = "dispatch_melody_chord"
    mods = MODEL_MODS
    checker = "check_sel_melody"
    pair = "Melody/Chord (Filter)Transformer.__call__ <-> Mask.sel_melody_score / sel_chord_score"
    quick, thorough = 1000, 15000

    def gen(self, rng, n):
        for i in range(n):
            yield {"ms": rand_mscore(rng), "mask": rand_mask(rng, separable=(i % 2 == 0)), "separable": i % 2 == 0}

    def impl(self, case):
        NT, NF, MT, MF, CT, CF = tracers()
        def f():
            sc = mk_mscore(case["ms"])
            mk = mk_mask(case["mask"])
            def drop_all(fn):
                try:
                    return fn()
                except AttributeError as e:
                    if "add_tags" not in str(e):
                        raise
                    return None
            res = drop_all(lambda: MF()(sc, on=mk))
            got = {find_id(ch.tags): {find_id(mel.tags): ("HIT" in mel.tags) for mel in ch.score.values()} for ch in (res.chords if res else [])}
            mel_sel = []
            for ci, c in enumerate(case["ms"]["chords"]):
                if f"id{ci}" not in got:
                    mel_sel.append(None)
                else:
                    mel_sel.append([bool(got[f"id{ci}"].get(f"id{ci}_{pi}", False)) for pi in range(len(c["parts"]))])
            resc = drop_all(lambda: CF()(sc, on=mk))
            gc = {find_id(ch.tags): ("HIT" in ch.tags) for ch in (resc.chords if resc else [])}
            chord_sel = [bool(gc.get(f"id{ci}", False)) for ci in range(len(case["ms"]["chords"]))]
            plain_c = CT()(sc, on=mk)
            plain_m = MT()(sc, on=mk)
            ok = (len(plain_c.chords) == len(sc.chords) and len(plain_m.chords) == len(sc.chords) and
                  [("HIT" in ch.tags) for ch in plain_c.chords] == chord_sel and
                  all(a.score == b.score for a, b in zip(plain_c.chords, sc.chords)))
            return {"mel": mel_sel, "chord": chord_sel, "plain_ok": ok}
        return mlang.guarded(f)

    def term(self, case, r):
        tpq = ms_tpq(case["ms"], mask_times(case["mask"]))
        enc = L(["None" if c is None else "(Some " + L([B(x) for x in c]) + ")" for c in r["mel"]]) if not mlang.is_exc(r) else "[]"
        return T(coq_mask(case["mask"], tpq), coq_mscore(case["ms"], tpq), enc)

    def spec(self, case, r):
        if mlang.is_exc(r):
            return {"sig": "transformer-raises", "msg": str(r)}
        if not r["plain_ok"]:
            return {"sig": "chord-transformer-plain-vs-filter", "msg": ""}
        if [c is not None for c in r["mel"]] != r["chord"]:
            return {"sig": "chord-selection-differs-between-levels", "msg": f"{r['mel']} vs {r['chord']}"}
        if case["separable"]:
            seen_c, seen_m = {}, {}
            for ci, pi, ni, env in envs(case["ms"]):
                seen_c[ci] = natural(case["mask"], {k: v for k, v in env.items() if k in ("Score", "Chord")})
                envm = {k: v for k, v in env.items() if k in ("Score", "Chord", "Melody")}
                seen_m[(ci, pi)] = natural(case["mask"], envm)
            for ci, want in seen_c.items():
                if r["chord"][ci] != want:
                    return {"sig": "mask-selection:chord-level", "msg": f"chord {ci}: mask says {want}, transformer applied: {r['chord'][ci]}"}
            for (ci, pi), want in seen_m.items():
                got = r["mel"][ci] is not None and r["mel"][ci][pi]
                if got != want:
                    return {"sig": "mask-selection:melody-level", "msg": f"melody ({ci},{pi}): mask says {want}, got {got}"}
        return None

    def hist_keys(self, case, r):
        return ["separable" if case["separable"] else "arbitrary"]


class Pipelines(Stream):
    """pipelines and library transforms (python oracle)"""
    name = "pipelines_and_library"
    checker = None
    pair = "property oracle on TransformPipeline / ConcatPipeline and the library note/melody transforms"
    quick, thorough = 400, 6000

    def gen(self, rng, n):
        for i in range(n):
            yield {"ms": rand_mscore(rng), "masks": [rand_mask(rng, True) for _ in range(rng.randrange(1, 4))],
                   "lib": rng.choice(["TransposeDiatonic", "TransposeChromatic", "ReverseMelody", "InvertMelody", "LimitRegister",
                                      "ApplySilence", "CircularPermutationMelody"])}

    def impl(self, case):
        NT, NF, MT, MF, CT, CF = tracers()
        from musiclang.transform import TransformPipeline, ConcatPipeline
        import musiclang.transform.library as lib
        def f():
            sc = mk_mscore(case["ms"], ids=False)
            # steps with and without a mask: a (name, transformer) step maps every element of its level
            steps = [(f"s{i}", NT(), mk_mask(m)) if (i + len(case["masks"])) % 3 else (f"s{i}", NT()) for i, m in enumerate(case["masks"])]
            if len(case["masks"]) > 1 and len(case["ms"]["chords"]) % 2:
                # a last step that only looks at what an earlier step produced (the step_<name> tags the pipelines put on chords)
                from musiclang.transform import Mask
                steps.append(("last", NT(), Mask.OriginateFrom(["s0"])))
            all_tags = lambda x: [[sorted(ch.tags), [[sorted(mel.tags), [sorted(nt.tags) for nt in mel.notes]] for mel in ch.score.values()]] for ch in x.chords]
            tp = TransformPipeline(steps)(sc)
            manual = sc
            for st in steps:
                nm, tr = st[0], st[1]
                manual = (tr(manual, on=st[2]) if len(st) == 3 else tr(manual)).add_tag_children(f"step_{nm}")
            cp = ConcatPipeline(steps)(sc)
            manual_c = sc
            for st in steps:
                nm, tr = st[0], st[1]
                manual_c = manual_c + (tr(manual_c, on=st[2]) if len(st) == 3 else tr(manual_c)).add_tag_children(f"step_{nm}")
            out = {"tp": str(tp) == str(manual) and tp == manual and all_tags(tp) == all_tags(manual),
                   "cp": str(cp) == str(manual_c) and cp == manual_c and all_tags(cp) == all_tags(manual_c)}
            # combining a mask with others (&, |, ~, >) builds new masks: the mask itself keeps selecting the same elements
            ms = [mk_mask(m) for m in case["masks"]]
            base = ms[0] & ms[-1]
            before = str(NT()(sc, on=base))
            for other in ms + [mk_mask(rand_guarded(__import__("random").Random(len(case["masks"])), 1))]:
                _ = base & other, base | other, ~base, other & base
            out["mask_reuse"] = str(NT()(sc, on=base)) == before and str(NT()(sc, on=ms[0] & ms[-1])) == before
            # a chord-level transformer whose action returns several chords: the result is one flat score, also inside a pipeline
            from musiclang.transform import ChordTransformer, NoteFilter, MelodyFilter
            from musiclang import Chord as _Chord
            class Twice(ChordTransformer):
                def action(self, chord, **kw):
                    return chord + chord.o(1)
            tw = Twice()(sc)
            flat = all(isinstance(c, _Chord) for c in tw.chords)
            want_tw = [x for c in sc.chords for x in (str(c), str(c.o(1)))]
            out["multi_chord"] = flat and [str(c) for c in tw.chords] == want_tw
            if flat:
                tp2 = TransformPipeline([("t", Twice()), ("n", NT())])(sc)
                out["multi_chord"] = out["multi_chord"] and all(isinstance(c, _Chord) for c in tp2.chords) and len(tp2.chords) == 2 * len(sc.chords)
            # user-defined filters: exactly the notes / melodies that satisfy the predicate are kept
            class LongNotes(NoteFilter):
                def filter(self, note, **kw):
                    return note.duration >= 1
            class ShortMelodies(MelodyFilter):
                def filter(self, melody, **kw):
                    return len(melody.notes) <= 2
            kept = LongNotes()(sc)
            want_notes = [[[str(n) for n in mel.notes if n.duration >= 1] for mel in ch.score.values()] for ch in sc.chords]
            got_notes = [[[str(n) for n in mel.notes] for mel in ch.score.values()] for ch in kept.chords] if kept is not None else None
            want_notes = [[m for m in ch if m] for ch in want_notes]
            keptm = ShortMelodies()(sc)
            want_mels = [[nm for nm, mel in ch.score.items() if len(mel.notes) <= 2] for ch in sc.chords]
            got_mels = [list(ch.score.keys()) for ch in keptm.chords] if keptm is not None else None
            squeeze = lambda x: None if x is None else [c2 for c2 in ([m for m in c if m] for c in x) if c2]      # empty parts / chords may be kept or dropped
            out["filters"] = [squeeze(got_notes) == squeeze(want_notes), squeeze(got_mels) == squeeze(want_mels)]
            out["filters_detail"] = f"notes {got_notes} expected {want_notes}; melodies {got_mels} expected {want_mels}"[:400]
            # library transform keeps the rhythm
            name = case["lib"]
            tr = {"TransposeDiatonic": lambda: lib.TransposeDiatonic(1), "TransposeChromatic": lambda: lib.TransposeChromatic(2),
                  "ReverseMelody": lambda: lib.ReverseMelody(), "InvertMelody": lambda: lib.InvertMelody(),
                  "LimitRegister": lambda: lib.LimitRegister(mlang.mk_note({"kind": "s", "val": 0, "oct": -1}), mlang.mk_note({"kind": "s", "val": 0, "oct": 1})), "ApplySilence": lambda: lib.ApplySilence(),
                  "CircularPermutationMelody": lambda: lib.CircularPermutationMelody(1)}[name]()
            res = tr(sc)
            def rhythm(score):
                return [[[(n.type == "r", n.type == "l", F(n.duration)) for n in mel.notes] for mel in ch.score.values()] for ch in score.chords]
            a, b = rhythm(sc), rhythm(res)
            if name == "ReverseMelody":
                out["rhythm"] = [[list(reversed(m)) for m in ch] for ch in a] == b
            elif name == "CircularPermutationMelody":
                out["rhythm"] = [[sorted(m) for m in ch] for ch in a] == [[sorted(m) for m in ch] for ch in b]
            elif name == "ApplySilence":
                out["rhythm"] = [[[x[2] for x in m] for m in ch] for ch in a] == [[[x[2] for x in m] for m in ch] for ch in b]
            else:
                out["rhythm"] = a == b
            out["detail"] = f"{a} -> {b}"[:300]
            return out
        return mlang.guarded(f)

    def spec(self, case, r):
        if mlang.is_exc(r):
            return {"sig": f"library-or-pipeline-raises:{case['lib']}:{r['exc']}", "msg": str(r)}
        if not r["tp"]:
            return {"sig": "transform-pipeline-not-composition", "msg": ""}
        if not r["cp"]:
            return {"sig": "concat-pipeline-not-append", "msg": ""}
        if not r["mask_reuse"]:
            return {"sig": "mask-changed-by-combination", "msg": "a mask selects other elements after it was combined with another mask"}
        if not r["multi_chord"]:
            return {"sig": "chord-transformer-returning-several-chords-not-flat", "msg": "a chord transformer whose action returns two chords does not give one flat score of chords"}
        if not all(r["filters"]):
            return {"sig": "user-filter-selection:" + ("note" if not r["filters"][0] else "melody"), "msg": r["filters_detail"]}
        if not r["rhythm"]:
            return {"sig": f"library-transform-changes-rhythm:{case['lib']}", "msg": r["detail"]}
        return None

    def hist_keys(self, case, r):
        return ["lib=" + case["lib"]]

    def shrink(self, case):
        ms = case["ms"]
        for i in range(len(ms["chords"])):
            if len(ms["chords"]) > 1:
                yield dict(case, ms=dict(ms, chords=ms["chords"][:i] + ms["chords"][i + 1:]))
        for ci, c in enumerate(ms["chords"]):
            if len(c["parts"]) > 1:
                yield dict(case, ms=dict(ms, chords=ms["chords"][:ci] + [dict(c, parts=c["parts"][:1])] + ms["chords"][ci + 1:]))
        if len(case["masks"]) > 1:
            yield dict(case, masks=case["masks"][:1])


def streams():
    return [Dispatch(), DispatchMelodyChord(), Pipelines()]

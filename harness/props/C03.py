"""C03 - rendering a score yields exactly its sounding notes at the right times."""
from fractions import Fraction as F
from harness.main import Stream
from harness import core, mlang, score_gen as sg
from harness.core import Z, S, L, O, T, B, Qc

MODEL_MODS = ["Model.Pitch", "Model.Rel", "Model.Render"]
RULE = ("structured scores: 1..5 chords x 1..3 named parts with independent lengths (+ a drum part in 25%), parts absent from "
        "random chords, notes weighted to pitched kinds with rests/continuations anywhere (also at chord heads and tails), relative "
        "notes, accidentals, per-note modes; durations on a mixed grid (quarters, triplets, dotted); tempi 30..240 incl. 60 and 120, one case in four with a tempo that is not a whole number (72.5, 133.3, 59.94, 100/3 ... given as float or Fraction). "
        "non-trivial = at least 2 chords, or an absent part, or a continuation; distinct = distinct canonical JSON")
TRUSTED = ["float(seconds) is compared after recovering the exact rational (limit_denominator(10^6)); Python's sorted is stable"]
ASSUMPTIONS = ["tag-free notes (ornaments are C16), no tempo-change notes, integer amplitudes, pattern 'x' placeholders excluded"]
CONT_SCALED = True      # the continuation duration is added in seconds (after the fix in /repo)


def features(score):
    f = []
    names = {nm for c in score for nm, _ in c["parts"]}
    if any(nm not in {a for a, _ in c["parts"]} for c in score for nm in names):
        f.append("absent-part")
    if any(notes and notes[0]["kind"] == "l" for c in score[1:] for _, notes in c["parts"]):
        f.append("continuation-at-chord-head")
    if any(n.get("dir") for c in score for _, notes in c["parts"] for n in notes):
        f.append("relative")
    if any(nm.startswith("drums") for c in score for nm, _ in c["parts"]):
        f.append("drums")
    if len({sum(F(n["dur"]) for n in notes) for c in score for _, notes in c["parts"]}) > 1:
        f.append("unequal-parts")
    return f


class GetNotes(Stream):
    name = "get_notes"
    mods = MODEL_MODS
    checker = "check_get_notes"
    pair = "to_midi.get_notes (get_track_list, create_melody_for_track, melody_to_pitches, note_to_pitch) <-> Render.get_notes"
    quick, thorough = 1500, 30000

    def gen(self, rng, n):
        for i in range(n):
            sc = sg.rand_score(rng, cont=0.3 if i % 3 == 0 else 0.15, rest=0.2 if i % 4 == 0 else 0.1)
            if i % 7 == 0:
                # zero-length notes (the library's own .n suffix): still notes - a continuation prolongs them, a relative note refers to them
                for c in sc:
                    for _, notes in c["parts"]:
                        for nt in notes:
                            if nt["kind"] not in "rl" and rng.random() < 0.25:
                                nt["dur"] = F(0)
            if i % 6 == 1:
                # notes with amplitude exactly 0 (set_amp(0), the niente dynamics): still notes - they are rendered with velocity 0,
                # a continuation prolongs them and a relative note refers to them
                for c in sc:
                    for _, notes in c["parts"]:
                        for nt in notes:
                            if nt["kind"] not in "rl" and rng.random() < 0.3:
                                nt["amp"] = 0
            yield {"score": sc}

    def impl(self, case):
        def f():
            sc = sg.mk_rscore(case["score"])
            out = {"rows": sg.impl_rows(sc), "duration": F(sc.duration),
                   "tracks": [nm for nm in dict.fromkeys(nm for c in case["score"] for nm, _ in c["parts"])]}
            # a score object that has already been rendered and measured, then edited with the in-place forms
            # (chord.score[part] = melody, score[i] = chord), renders like the same score built from scratch
            js = case["score"]
            nm0, notes0 = js[0]["parts"][0]
            longer = [dict(n, dur=F(n["dur"]) * 3) for n in notes0]
            edited = [dict(js[0], parts=[[nm0, longer]] + js[0]["parts"][1:])] + js[1:]
            fresh = sg.mk_rscore(edited)
            warm = sg.mk_rscore(js)
            _ = sg.impl_rows(warm), warm.duration, [c.duration for c in warm.chords]
            warm.chords[0].score[nm0] = fresh.chords[0].score[nm0].copy()
            warm2 = sg.mk_rscore(js)
            _ = sg.impl_rows(warm2), warm2.duration, [c.duration for c in warm2.chords]
            warm2[0] = fresh.chords[0].copy()
            want = sg.impl_rows(fresh)
            out["stale"] = [sg.impl_rows(warm) == want and F(warm.duration) == F(fresh.duration),
                            sg.impl_rows(warm2) == want and F(warm2.duration) == F(fresh.duration)]
            return out
        return mlang.guarded(f)

    def term(self, case, r):
        tpq = sg.score_tpq(case["score"])
        exp = "None" if mlang.is_exc(r) else "(Some " + L([sg.coq_row(x, tpq) for x in r["rows"]]) + ")"
        return T(sg.coq_rscore(case["score"], tpq), exp)

    def spec(self, case, r):
        want = sg.spec_sounding(case["score"])
        if mlang.is_exc(r):
            return {"sig": "rendering-raises", "msg": str(r)}
        got = sg.merge_rows(r["rows"])
        for i, nm in enumerate(r["tracks"]):
            g = got.get(i, [])
            w = [[p, o, d, v] for p, o, d, v in want[nm]]
            if g != w:
                kind = "pitch" if [x[1:] for x in g] == [x[1:] for x in w] else "timing"
                return {"sig": f"sounding-notes-differ:{kind}", "msg": f"part {nm}: rendered {g[:6]}..., sounding notes {w[:6]}..."}
        tot = sum((max([sum(F(n['dur']) for n in notes) for _, notes in c['parts']], default=F(0)) for c in case["score"]), F(0))
        if r["duration"] != tot:
            return {"sig": "score-duration", "msg": f"{r['duration']} vs {tot}"}
        if not all(r["stale"]):
            how = "chord.score[part] = melody" if not r["stale"][0] else "score[i] = chord"
            return {"sig": "rendering-stale-after-in-place-edit", "msg": f"after {how} on a score that had been rendered, the rendering differs from the same score built from scratch"}
        return None

    def nontrivial(self, case, r):
        return len(case["score"]) > 1 or bool(features(case["score"]))

    def hist_keys(self, case, r):
        return features(case["score"]) + [f"chords={len(case['score'])}"]

    def shrink(self, case):
        for s in sg.shrink_score(case["score"]):
            yield {"score": s}

    def model_answer(self, case, r):
        return f"get_notes {sg.coq_rscore(case['score'], sg.score_tpq(case['score']))}"


def exact(x):
    return F(x).limit_denominator(10 ** 6)


class ToEvents(Stream):
    name = "to_events"
    mods = MODEL_MODS
    checker = "check_events"
    pair = "Score.to_events / matrix_to_events <-> Render.matrix_to_events"
    quick, thorough = 1200, 20000

    def gen(self, rng, n):
        for i in range(n):
            sc = sg.rand_score(rng, max_chords=4, cont=0.3)
            if i % 5 == 2:
                # durations off every usual MIDI grid: septuplets, ninths, 64ths (times stay exact rationals)
                for c in sc:
                    for _, notes in c["parts"]:
                        for x in notes:
                            if rng.random() < 0.4:
                                x["dur"] = rng.choice([F(1, 7), F(2, 7), F(1, 9), F(1, 16), F(3, 11), F(4, 7)])
            if i % 6 == 1:
                for c in sc:
                    for _, notes in c["parts"]:
                        for x in notes:
                            if x["kind"] not in "rl" and rng.random() < 0.3:
                                x["amp"] = 0
            tempo = rng.choice([60, 120, 120, 90, 30, 240, 72, 100])
            how = "int"
            if i % 5 != 2 and i % 3 == 0:
                # "any constant tempo": tempi that are not whole numbers of beats per minute, given as a float or as a Fraction
                # (kept off the septuplet cases so that every time in seconds has a denominator the float comparison recovers)
                tempo = rng.choice([F(145, 2), F(1333, 10), F(2997, 50), F(201, 2), F(363, 4), F(100, 3)])
                how = rng.choice(["float", "frac"]) if tempo.denominator in (2, 4) else ("frac" if tempo.denominator == 3 else "float")
            yield {"score": sc, "tempo": tempo, "tempo_as": how}

    def impl(self, case):
        def f():
            sc = sg.mk_rscore(case["score"])
            tempo = {"int": int, "float": float, "frac": F}[case.get("tempo_as", "int")](case["tempo"])
            evs = sc.to_events(tempo=tempo)
            return [[int(e["pitch"]), exact(e["offset"]), exact(e["duration"]), int(e["velocity"]), e["instrument"]] for e in evs]
        return mlang.guarded(f)

    def term(self, case, r):
        tpq = sg.score_tpq(case["score"])
        tracks = list(dict.fromkeys(nm for c in case["score"] for nm, _ in c["parts"]))
        if mlang.is_exc(r):
            exp = "None"
        else:
            # the event does not carry its track index: the model's events are compared on pitch/offset/duration/velocity
            # and on the instrument name of their track (the harness maps the index back)
            exp = "(Some " + L([f"(mkEv {Z(e[0])} {Qc(e[1])} {Qc(e[2])} {Z(e[3])} 0%nat false)" for e in r]) + ")"
        return T(B(CONT_SCALED), sg.coq_rscore(case["score"], tpq), Z(tpq), Qc(F(case["tempo"])), exp)

    def spec(self, case, r):
        if mlang.is_exc(r):
            return {"sig": "to_events-raises", "msg": str(r)}
        want = sg.spec_sounding(case["score"])
        k = F(60) / F(case["tempo"])
        exp = []
        for nm, evs in want.items():
            exp += [[p, o * k, d * k, int(v), nm.split("__")[0]] for p, o, d, v in evs]
        if sorted(map(repr, exp)) != sorted(map(repr, r)):
            missing = [e for e in exp if e not in r][:3]
            extra = [e for e in r if e not in exp][:3]
            sig = "events-seconds"
            if missing and extra and all(any(m[:2] == x[:2] and m[3:] == x[3:] for x in extra) for m in missing):
                sig = "events-seconds:duration-only"
            return {"sig": sig, "msg": f"tempo {case['tempo']}: expected {missing}, got {extra}"}
        if any(a[1] > b[1] for a, b in zip(r, r[1:])):
            return {"sig": "events-not-sorted-by-offset", "msg": ""}
        return None

    def nontrivial(self, case, r):
        return case["tempo"] != 60

    def hist_keys(self, case, r):
        return [f"tempo={case['tempo']}", f"tempo-given-as={case.get('tempo_as', 'int')}"] + features(case["score"])

    def shrink(self, case):
        for s in sg.shrink_score(case["score"]):
            yield dict(case, score=s)


def streams():
    return [GetNotes(), ToEvents()]

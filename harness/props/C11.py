"""C11 - re-notating a score never changes what is played."""
from fractions import Fraction as F
from harness.main import Stream
from harness import core, mlang, score_gen as sg
from harness.core import Z, S, L, O, T, B

MODEL_MODS = ["Model.Pitch", "Model.Rel", "Model.Render", "Model.Renote"]
RULE = ("scores from the shared generator: all note systems incl. absolute and relative notes (relative notes always have an earlier "
        "sounded note of their part in the same run of chords), accidentals, per-note modes, inverted chords, unequal parts (padded to "
        "equal parts for split/normalize), chord octaves -2..2; each re-notation and compositions of two of them; non-trivial = the "
        "re-notation changes at least one written symbol")
TRUSTED = []
ASSUMPTIONS = ["a relative note has an earlier sounded note of its part since the part was last absent (otherwise to_absolute_note has no reference)",
               "tag-free notes"]

RENOTATIONS = ["to_absolute_note", "to_scale_note", "to_standard_note", "to_chord_note", "to_extension_note", "decompose_duration",
               "normalize_instruments", "normalize_instrument_names", "replace_instruments", "correct_chord_octave",
               "split_too_long_chords", "normalize"]
NEED_EQUAL = {"split_too_long_chords", "normalize"}


def fix_relative(score, across_gaps=False):
    """make every relative note follow a sounded pitched note of its part within the current run of chords
    (across_gaps: anywhere earlier in the part, also before chords the part is absent from - the music21 export keeps the reference)"""
    seen = {}
    out = []
    for c in score:
        present = {nm for nm, _ in c["parts"]}
        for nm in list(seen):
            if nm not in present and not across_gaps:
                seen[nm] = False
        parts = []
        for nm, notes in c["parts"]:
            ns = []
            for n in notes:
                n = dict(n)
                if n.get("dir") and not seen.get(nm):
                    n.pop("dir")
                if n["kind"] in "shcba" :
                    seen[nm] = True
                ns.append(n)
            parts.append([nm, ns])
        out.append(dict(c, parts=parts))
    return out


def apply(name, sc, case):
    if name == "split_too_long_chords":
        return sc.split_too_long_chords(F(case["max_len"]))
    if name == "replace_instruments":
        parts = list(sc.parts) if hasattr(sc, "parts") else sc.instruments
        return sc.replace_instruments(**{parts[0]: "harp__7"})
    return getattr(sc, name)()


def sounding(score_obj):
    m = sg.merge_rows(sg.impl_rows(score_obj))
    names = list(dict.fromkeys(nm for ch in score_obj.chords for nm in ch.score.keys()))
    return {names[i]: v for i, v in m.items()}


class Renotate(Stream):
    name = "renotate"
    checker = None
    pair = "property oracle: get_notes(f(score)) vs get_notes(score) for each re-notation f"
    quick, thorough = 1800, 30000

    def gen(self, rng, n):
        for i in range(n):
            name = RENOTATIONS[i % len(RENOTATIONS)]
            sc = sg.rand_score(rng, max_chords=4, rel=0.15)
            for c in sc:
                c["coct"] = rng.choice([0, 0, 1, -1, 2, -2])
            if name == "decompose_duration":
                # durations that are not a single note value (5/4, 11/8, 7/4, 5 ...): these are the ones that are really decomposed
                for c in sc:
                    for _, notes in c["parts"]:
                        for nt in notes:
                            if rng.random() < 0.5:
                                nt["dur"] = rng.choice([F(5, 4), F(11, 8), F(7, 4), F(5), F(9, 8), F(7, 8), F(5, 2), F(13, 8), F(7, 2)])
                            if nt["kind"] == "s" and not nt.get("dir") and rng.random() < 0.3:
                                nt["acc"] = rng.choice(sg.ACCS)
            if name in NEED_EQUAL or rng.random() < 0.3:
                sc = sg.equalize(sc)
            sc = fix_relative(sc)
            if i % 3 == 0:
                # chord tones, bass tones and chromatic notes carrying a per-note mode or accidental (which those systems ignore)
                for c in sc:
                    for _, notes in c["parts"]:
                        for nt in notes:
                            if nt["kind"] in "cbh" and not nt.get("dir") and rng.random() < 0.4:
                                if rng.random() < 0.5: nt["mode"] = rng.choice(sg.MODES)
                                else: nt["acc"] = rng.choice(sg.ACCS)
            if i % 4 == 1:
                # zero-length notes (.n) that are not the last element of their part: inaudible, but a relative note after one refers to it,
                # and one may sit exactly on a split point
                for c in sc:
                    for _, notes in c["parts"]:
                        for j, nt in enumerate(notes[:-1]):
                            if nt["kind"] not in "rl" and rng.random() < 0.3 and any(F(x["dur"]) > 0 for x in notes[j + 1:]):
                                nt["dur"] = F(0)
            second = rng.choice(RENOTATIONS) if rng.random() < 0.25 else None
            if second in NEED_EQUAL or name in NEED_EQUAL:
                sc = fix_relative(sg.equalize(sc))
            yield {"f": name, "g": second, "score": sc, "max_len": rng.choice([F(1), F(3, 2), F(2), F(4)])}

    def impl(self, case):
        def f():
            sc = sg.mk_rscore(case["score"])
            base = sounding(sc)
            res = apply(case["f"], sc, case)
            if case["g"]:
                res = apply(case["g"], res, case)
            out = {"base": base, "res": sounding(res), "dur": [F(sc.duration), F(res.duration)],
                   "chord_durs": [F(c.duration) for c in res.chords], "bass": [int(c.bass_pitch) for c in res.chords],
                   "changed": str(res) != str(sc), "names": [list(c.score.keys()) for c in res.chords]}
            return out
        return mlang.guarded(f)

    def spec(self, case, r):
        fs = case["f"] + ("+" + case["g"] if case["g"] else "")
        if mlang.is_exc(r):
            return {"sig": f"renotation-raises:{case['f']}", "msg": f"{fs}: {r}"}
        rename = {}
        if "replace_instruments" in fs or "normalize_instrument_names" in fs or "normalize" in fs.split("+"):
            # parts may be renamed: compare the multiset of parts
            a = sorted(map(repr, r["base"].values()))
            b = sorted(repr(v) for v in r["res"].values() if v)
            a = [x for x in a if x != "[]"]
            if a != b:
                return {"sig": f"renotation-changes-sound:{case['f']}", "msg": f"{fs}: {a[:2]} vs {b[:2]}"}
        else:
            for nm, evs in r["base"].items():
                if r["res"].get(nm, []) != evs:
                    got = r["res"].get(nm, [])
                    kind = "pitch" if [x[1:] for x in got] == [x[1:] for x in evs] else "timing"
                    return {"sig": f"renotation-changes-sound:{case['f']}:{kind}", "msg": f"{fs}, part {nm}: {evs[:6]} became {got[:6]}"}
        if r["dur"][0] != r["dur"][1]:
            return {"sig": f"renotation-changes-duration:{case['f']}", "msg": str(r["dur"])}
        last = (case["g"] or case["f"])
        if last == "split_too_long_chords" and any(d > F(case["max_len"]) for d in r["chord_durs"]):
            return {"sig": "split-exceeds-max-length", "msg": str(r["chord_durs"])}
        if last in ("correct_chord_octave", "normalize") and any(not (-6 < b <= 6) for b in r["bass"]):
            return {"sig": "octave-correction-bass-out-of-range", "msg": str(r["bass"])}
        return None

    def nontrivial(self, case, r):
        return not mlang.is_exc(r) and r["changed"]

    def hist_keys(self, case, r):
        return ["f=" + case["f"], "exc" if mlang.is_exc(r) else ("changed" if r["changed"] else "unchanged")]

    def shrink(self, case):
        if case["g"]:
            yield dict(case, g=None)
        for s in sg.shrink_score(case["score"]):
            s = fix_relative(s)
            if case["f"] in NEED_EQUAL or case["g"] in NEED_EQUAL:
                s = fix_relative(sg.equalize(s))
            yield dict(case, score=s)


LEVEL_METHODS = {"to_scale_note": ("to_scale_notes", "to_scale_notes", "to_scale_note"),
                 "to_standard_note": ("to_standard_note", "to_standard_note", "to_standard_note"),
                 "to_absolute_note": ("to_absolute_note", "to_absolute_note", "to_absolute_note"),
                 "to_chord_note": ("to_chord_note", "to_chord_note", "to_chord_note"),
                 "to_extension_note": ("to_extension_note", "to_extension_note", "to_extension_note")}


class RenotateLevels(Stream):
    """the same re-notations through their chord-, melody- and note-level entry points (Chord.to_scale_notes(), Melody.to_scale_notes(chord),
    Note.to_scale_note(chord) ...): a chord is a one-chord score, and what it plays must not change.  Notes are non-relative (these entry
    points take no reference pitch) and carry per-note modes and accidentals."""
    name = "renotate_levels"
    checker = None
    pair = "property oracle: get_notes of the chord re-notated at chord / melody / note level vs get_notes of the chord"
    quick, thorough = 900, 15000

    def gen(self, rng, n):
        names = sorted(LEVEL_METHODS)
        for i in range(n):
            c = sg.rand_rchord(rng, rng.sample(sg.NAMES, rng.randrange(1, 3)), rel=0.0, cont=0.15, systems="ssssshhccbba")
            c["coct"] = rng.choice([0, 0, 1, -1])
            for _, notes in c["parts"]:
                for nt in notes:
                    if nt["kind"] == "s" and rng.random() < 0.35:
                        if rng.random() < 0.5: nt["mode"] = rng.choice(sg.MODES)
                        else: nt["acc"] = rng.choice(sg.ACCS)
            yield {"f": names[i % len(names)], "level": ["chord", "melody", "note"][(i // len(names)) % 3], "score": [c]}

    def impl(self, case):
        def f():
            from musiclang import Melody
            sc = sg.mk_rscore(case["score"])
            ch = sc.chords[0]
            cm, mm, nm_ = LEVEL_METHODS[case["f"]]
            if case["level"] == "chord":
                res = getattr(ch, cm)()
            elif case["level"] == "melody":
                res = ch(**{k: getattr(v, mm)(ch) for k, v in ch.score.items()})
            else:
                res = ch(**{k: Melody([getattr(x, nm_)(ch) for x in v.notes]) for k, v in ch.score.items()})
            res = res.to_score()
            return {"base": sounding(sc), "res": sounding(res), "dur": [F(sc.duration), F(res.duration)]}
        return mlang.guarded(f)

    def spec(self, case, r):
        fs = f"{case['f']} at {case['level']} level"
        if mlang.is_exc(r):
            return {"sig": f"renotation-raises:{case['f']}:{case['level']}-level", "msg": f"{fs}: {r}"}
        for nm, evs in r["base"].items():
            if r["res"].get(nm, []) != evs:
                got = r["res"].get(nm, [])
                kind = "pitch" if [x[1:] for x in got] == [x[1:] for x in evs] else "timing"
                return {"sig": f"renotation-changes-sound:{case['f']}:{case['level']}-level:{kind}", "msg": f"{fs}, part {nm}: {evs[:6]} became {got[:6]}"}
        if r["dur"][0] != r["dur"][1]:
            return {"sig": f"renotation-changes-duration:{case['f']}:{case['level']}-level", "msg": str(r["dur"])}
        return None

    def hist_keys(self, case, r):
        return [f"f={case['f']}@{case['level']}", "exc" if mlang.is_exc(r) else "ok"]

    def shrink(self, case):
        for s in sg.shrink_score(case["score"]):
            yield dict(case, score=s)


class ModelStream(Stream):
    """Score.to_absolute_note / Score.correct_chord_octave against the Coq model"""
    mods = MODEL_MODS
    quick, thorough = 700, 10000
    method = None

    def gen(self, rng, n):
        for i in range(n):
            sc = sg.rand_score(rng, max_chords=4, rel=0.2)
            for c in sc:
                c["coct"] = rng.choice([0, 0, 1, -1, 2, -2, 3])
                c["toct"] = rng.choice([0, 0, 1, -1])
            if i % 4:
                sc = fix_relative(sc)
            yield {"score": sc}

    def impl(self, case):
        def f():
            sc = sg.mk_rscore(case["score"])
            return sg.read_score(getattr(sc, self.method)())
        return mlang.guarded(f)

    def term(self, case, r):
        tpq = sg.score_tpq(case["score"])
        return T(sg.coq_rscore(case["score"], tpq), "None" if mlang.is_exc(r) else "(Some " + sg.coq_rscore(r, tpq) + ")")

    def shrink(self, case):
        for s in sg.shrink_score(case["score"]):
            yield {"score": s}


class ToAbsolute(ModelStream):
    name = "to_absolute_note"
    checker = "check_to_absolute"
    method = "to_absolute_note"
    pair = "Score/Chord/Melody/Note.to_absolute_note <-> Renote.score_to_absolute"


class CorrectOctave(ModelStream):
    name = "correct_chord_octave"
    checker = "check_correct_octave"
    method = "correct_chord_octave"
    pair = "Score.correct_chord_octave / inverse_recursive_correct_octave <-> Renote.score_correct_octave"


class ToStandard(Stream):
    """Note.to_standard_note on chord tones and bass tones (any figure, any modifier set) against Renote.note_to_standard;
    oracle: the written note has the pitch of the chord / bass tone"""
    name = "to_standard_note"
    mods = MODEL_MODS
    checker = "check_to_standard"
    pair = "Note.to_standard_note (c / b notes: chord.chord_notes / extension_notes, Note.o; a notes: Chord.parse) <-> Renote.note_to_standard"
    quick, thorough = 1500, 25000

    def gen(self, rng, n):
        from harness.props.C01 import rand_chord
        for i in range(n):
            c = rand_chord(rng, modifiers=0.35)
            c.pop("ton_none", None)
            k = rng.choice("ccbbsa")
            nt = {"kind": k, "val": rng.randrange(-9, 17) if rng.random() < 0.5 else rng.randrange(0, 5), "oct": rng.choice([0, 0, 0, 1, -1, 2, -3])}
            if k == "a":
                nt["val"] = rng.randrange(12)
            if i % 5 == 0 and k != "s":
                nt["mode"] = rng.choice(mlang.MODES)        # a per-note mode or accidental on a chord tone / absolute note is ignored by its pitch
            if i % 7 == 0 and k != "s":
                nt["acc"] = rng.choice(mlang.ACCS)
            yield {"chord": c, "note": nt}

    def impl(self, case):
        def f():
            ch = mlang.mk_chord(case["chord"])
            n = mlang.mk_note(case["note"])
            r = n.to_standard_note(ch)
            return {"note": sg.read_note(r), "pitch": [int(ch.to_pitch(n)), int(ch.to_pitch(r))], "dur_amp": [F(r.duration) == F(n.duration), r.amp == n.amp]}
        return mlang.guarded(f)

    def term(self, case, r):
        return T(mlang.coq_chord(case["chord"]), mlang.coq_pnote(case["note"]), "None" if mlang.is_exc(r) else "(Some " + mlang.coq_pnote(r["note"]) + ")")

    def spec(self, case, r):
        if mlang.is_exc(r):
            # the chord itself may be invalid for this modifier set (C02 decides that); a valid chord must not raise
            try:
                mlang.mk_chord(case["chord"]).chord_extension_pitches
            except Exception:
                return None
            return {"sig": "to-standard-note-raises", "msg": str(r)}
        if r["pitch"][0] != r["pitch"][1]:
            return {"sig": "to-standard-note-changes-pitch:" + case["note"]["kind"], "msg": f"{case['note']} in {case['chord']}: pitch {r['pitch'][0]} -> {r['note']} pitch {r['pitch'][1]}"}
        if not all(r["dur_amp"]):
            return {"sig": "to-standard-note-changes-duration-or-dynamics", "msg": str(r)}
        return None

    def nontrivial(self, case, r):
        return case["note"]["kind"] in "cba"

    def hist_keys(self, case, r):
        return ["kind=" + case["note"]["kind"], "modifiers" if any(case["chord"].get(k) for k in ("repl", "adds", "rems")) else "bare", "exc" if mlang.is_exc(r) else "ok"]

    def shrink(self, case):
        c = case["chord"]
        for key in ("repl", "adds", "rems"):
            if c.get(key):
                yield dict(case, chord={k: v for k, v in c.items() if k != key})
        for key, val in (("toct", 0), ("coct", 0), ("tdeg", 0)):
            if c.get(key) != val:
                yield dict(case, chord=dict(c, **{key: val}))


class ToScaleNote(ToStandard):
    """Note.to_scale_note(chord) - the note-level form behind Melody.to_scale_notes(chord) and Chord.to_scale_notes() - on non-relative
    notes of every system, with per-note modes and accidentals, against Renote.to_scale_note (= Import.parse of Pitch.to_pitch_abs)"""
    name = "to_scale_note"
    checker = "check_to_scale_note"
    pair = "Note.to_scale_note (Chord.to_pitch, Chord.parse) <-> Renote.to_scale_note"
    quick, thorough = 1500, 25000

    def gen(self, rng, n):
        from harness.props.C01 import rand_chord, rand_note
        for i in range(n):
            c = rand_chord(rng, modifiers=0.2)
            c.pop("ton_none", None)
            yield {"chord": c, "note": rand_note(rng)}

    def impl(self, case):
        def f():
            ch = mlang.mk_chord(case["chord"])
            n = mlang.mk_note(case["note"])
            r = n.to_scale_note(ch)
            return {"note": sg.read_note(r), "pitch": [int(ch.to_pitch(n)), int(ch.to_pitch(r))], "dur_amp": [F(r.duration) == F(n.duration), r.amp == n.amp]}
        return mlang.guarded(f)

    def spec(self, case, r):
        if mlang.is_exc(r):
            try:
                ch = mlang.mk_chord(case["chord"])
                ch.chord_extension_pitches
                ch.to_pitch(mlang.mk_note(case["note"]))
            except Exception:
                return None                        # the chord is invalid for its modifier set, or the note has no pitch on it (C01 / C02 decide those)
            return {"sig": "to-scale-note-raises", "msg": str(r)}
        if r["pitch"][0] != r["pitch"][1]:
            return {"sig": "to-scale-note-changes-pitch:" + case["note"]["kind"], "msg": f"{case['note']} in {case['chord']}: pitch {r['pitch'][0]} -> {r['note']} pitch {r['pitch'][1]}"}
        if not all(r["dur_amp"]):
            return {"sig": "to-scale-note-changes-duration-or-dynamics", "msg": str(r)}
        return None

    def nontrivial(self, case, r):
        return bool(case["note"].get("mode") or case["note"].get("acc")) or case["note"]["kind"] != "s"


class ToChordNote(ToScaleNote):
    """Note.to_chord_note(chord) against Renote.note_to_chord_note: notes of every system, half of them drawn from the chord's own tones
    (moved by octaves) so that the rewriting branch is taken"""
    name = "to_chord_note"
    checker = "check_to_chord_note"
    method = "to_chord_note"
    pair = "Note.to_chord_note (chord.chord_notes, list.index with Note.__eq__) <-> Renote.note_to_chord_note"
    quick, thorough = 1200, 20000

    def gen(self, rng, n):
        from harness.props.C01 import rand_chord, rand_note
        for i in range(n):
            c = rand_chord(rng, modifiers=0.3)
            c.pop("ton_none", None)
            nt = rand_note(rng)
            if i % 2 == 0:
                try:
                    ch = mlang.mk_chord(c)
                    tones = ch.chord_notes if self.method == "to_chord_note" else ch.extension_notes
                    t = rng.choice(list(tones))
                    nt = {"kind": t.type, "val": int(t.val), "oct": int(t.octave) + rng.choice([0, 0, 1, -1, 2])}
                    if rng.random() < 0.15: nt["mode"] = rng.choice(mlang.MODES)
                    if rng.random() < 0.15 and nt["kind"] == "s": nt["acc"] = rng.choice(mlang.ACCS)
                except Exception:
                    pass
            yield {"chord": c, "note": nt}

    def impl(self, case):
        def f():
            ch = mlang.mk_chord(case["chord"])
            n = mlang.mk_note(case["note"])
            r = getattr(n, self.method)(ch)
            try:
                before = int(ch.to_pitch(n))
            except Exception:
                before = None                      # a note without a pitch on this chord (an accidental the table lacks): it is copied
            return {"note": sg.read_note(r), "pitch": [before, int(ch.to_pitch(r)) if before is not None else None],
                    "dur_amp": [F(r.duration) == F(n.duration), r.amp == n.amp]}
        return mlang.guarded(f)

    def spec(self, case, r):
        out = ToScaleNote.spec(self, case, r)
        if out:
            out["sig"] = out["sig"].replace("to-scale-note", self.method.replace("_", "-"))
        return out

    def nontrivial(self, case, r):
        return not mlang.is_exc(r) and r["note"]["kind"] in "cb" and case["note"]["kind"] not in "cb"

    def hist_keys(self, case, r):
        return ToScaleNote.hist_keys(self, case, r) + (["rewritten" if self.nontrivial(case, r) else "kept"])


class ToExtensionNote(ToChordNote):
    name = "to_extension_note"
    checker = "check_to_extension_note"
    method = "to_extension_note"
    pair = "Note.to_extension_note (chord.extension_notes, list.index with Note.__eq__) <-> Renote.note_to_extension_note"


def streams():
    return [Renotate(), RenotateLevels(), ToAbsolute(), CorrectOctave(), ToStandard(), ToScaleNote(), ToChordNote(), ToExtensionNote()]

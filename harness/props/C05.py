"""C05 - the text form of any object evaluates back to an equal object."""
import copy
import os
import pickle
from fractions import Fraction as F
from harness.main import Stream
from harness import core, mlang, score_gen as sg
from harness.core import Z, S, L, O, T, B, Qc
from harness.mlang import MODES, ACCS, KIND_C, DIR_C, MODE_C, ACC_C

MODEL_MODS = ["Model.Code", "Model.Text"]
RULE = ("notes over every library family (s h c b a, su sd hu hd cu cd bu bd, d, x, r, l) x values inside and just outside the library "
        "range x octaves -3..3 x all named durations, augment durations (5, 7/3, 9/8, 1/12, 16, 999/1000...) x per-note modes x "
        "accidentals x amplitudes on and between the dynamics thresholds (incl. 0 and 127) x 0..2 tags; chords over 7 degrees x all "
        "figures with replacements/additions/removals x 12 tonics (sharps/flats) x 9 modes x octaves, custom chords; scores of 1..4 "
        "chords with drums; non-trivial = the text has at least one attribute after the base symbol")
TRUSTED = ["Python's eval (lexer/parser) of the printed text", "pickle / copy.deepcopy / file I/O of the standard library",
           "pandas for the tabular form"]
ASSUMPTIONS = ["objects are built from library symbols: note values inside the library range of their family, tonality degree 0..11, "
               "durations with denominator <= 1000 (Note.__init__ limits every duration to that)",
               "rests and continuations carry no dynamics (their amplitude is never printed nor used)",
               "the re-read sound is compared up to the dynamics figure (the text form quantises the amplitude to its figure)"]

DURS = [F(1), F(1), F(1, 2), F(1, 4), F(1, 8), F(2), F(4), F(3, 2), F(3), F(6), F(3, 4), F(3, 8), F(3, 16), F(8, 3), F(4, 3), F(2, 3), F(1, 3),
        F(1, 6), F(1, 12), F(8, 5), F(4, 5), F(2, 5), F(1, 5), F(1, 10), F(1, 20), F(8, 7), F(4, 7), F(2, 7), F(1, 7), F(1, 14), F(1, 28),
        F(5), F(7, 3), F(9, 8), F(16), F(5, 4), F(999, 1000), F(11, 8), F(7), F(0)]
AMPS = [66, 0, 1, 19, 20, 31, 32, 43, 44, 60, 61, 78, 79, 96, 97, 108, 109, 114, 120, 127, "ppp", "pp", "p", "mp", "mf", "f", "ff", "fff"]
FAMILIES = ["s", "h", "c", "b", "a", "su", "sd", "hu", "hd", "cu", "cd", "bu", "bd", "d", "x", "r", "l"]
LIBMAX = {"s": 7, "h": 12, "c": 12, "b": 12, "a": 15, "d": 12, "x": 23}


def spec_figure(amp):
    x = F(mlang.amp_q(amp)) / 120
    for bound, nm in ((F(0), "n"), (F(16, 100), "ppp"), (F(26, 100), "pp"), (F(36, 100), "p"), (F(1, 2), "mp"), (F(65, 100), "mf"),
                      (F(8, 10), "f"), (F(9, 10), "ff")):
        if x <= bound:
            return nm
    return "fff"


def live_figure(a):
    if isinstance(a, str):
        return a
    return spec_figure(F(a).limit_denominator(10 ** 6))


def lib_namespace():
    import musiclang.library as lib
    return {k: getattr(lib, k) for k in dir(lib) if not k.startswith("_")}


def rand_note(rng, families=FAMILIES, inside=True):
    t = rng.choice(families)
    k, d = t[0], t[1:]
    n = {"kind": k, "val": 0, "oct": 0, "dur": rng.choice(DURS), "amp": 66, "tags": []}
    if d:
        n["dir"] = d
    if k in "rl" and rng.random() < 0.3:
        n["oct"] = rng.choice([1, -1, 2, -3])              # r.oabs(k): == compares the octave of a rest too
    if k not in "rl":
        top = 12 if d else LIBMAX[k]
        n["val"] = rng.randrange(top) if inside or rng.random() < 0.7 else rng.choice([top, top + 3, -1])
        n["oct"] = rng.choice([0, 0, 0, 1, -1, 2, -3, 3])
        if k in "sh" and rng.random() < 0.25:
            n["mode"] = rng.choice(MODES)
        if k == "s" and rng.random() < 0.25:
            n["acc"] = rng.choice(ACCS)
        n["amp"] = rng.choice(AMPS) if rng.random() < 0.6 else 66
    if k not in "sh" and rng.random() < 0.08:
        n["mode"] = rng.choice(MODES)                         # r.m, l.dorian, x0.m, d3.lydian, c1.m: == compares the mode of every note
    if k != "s" and rng.random() < 0.05:
        n["acc"] = rng.choice(ACCS)
    if rng.random() < 0.2:
        n["tags"] = rng.sample(["a", "b", "staccato", "x1", "B", "a1", "a10", "a_b", "ab", "step_s0", "Z", "t7", "t13"], rng.choice([1, 1, 2, 3, 5]))
    return n


def mk_note(n):
    from musiclang import Note, Silence, Continuation
    tags = set(n.get("tags", []))
    if n["kind"] in "rl":
        x = Silence(F(n["dur"]), tags=tags) if n["kind"] == "r" else Continuation(F(n["dur"]), tags=tags)
        x = x.oabs(n["oct"]) if n.get("oct") else x
        if n.get("mode"): x = getattr(x, n["mode"])
        if n.get("acc"): x = getattr(x, n["acc"])
        return x
    return Note(n["kind"] + n.get("dir", ""), n["val"], n["oct"], F(n["dur"]), mode=n.get("mode"), accident=n.get("acc"),
                amp=mlang.amp_live(n.get("amp", 66)), tags=tags)


def read_note(m, tag_order=None):
    t = m.type
    k, d = (t[0], t[1:]) if len(t) == 2 and t[1] in "ud" and t[0] in "shcb" else (t, "")
    out = {"kind": k, "val": int(m.val), "oct": int(m.octave), "dur": F(m.duration), "amp": m.amp, "tags": list(m.tags)}
    if d:
        out["dir"] = d
    if m.mode is not None:
        out["mode"] = m.mode
    if m.accident is not None:
        out["acc"] = m.accident
    return out


def coq_note(n, tags=None):
    amp = n.get("amp", 66)
    ampq = F(amp).limit_denominator(10 ** 6) if isinstance(amp, float) else mlang.amp_q(amp)
    tg = L([S(t) for t in (tags if tags is not None else n.get("tags", []))])
    return (f"(mkF {KIND_C[n['kind']]} {DIR_C[n.get('dir', '')]} {Z(n.get('val', 0))} {Z(n.get('oct', 0))} {Qc(F(n.get('dur', 1)))} "
            f"{O(n.get('mode'), lambda m: MODE_C[m])} {O(n.get('acc'), lambda a: ACC_C[a])} {Qc(ampq)} {tg})")


def same_fields(a, b):
    """the fields the statement lists; dynamics by figure, not for rests/continuations"""
    keys = ("kind", "val", "oct", "mode", "acc", "dir")
    if any(a.get(k) != b.get(k) for k in keys) or F(a["dur"]) != F(b["dur"]) or set(a.get("tags", [])) != set(b.get("tags", [])):
        return False
    return a["kind"] in "rl" or live_figure(a.get("amp", 66)) == live_figure(b.get("amp", 66))


class NoteText(Stream):
    name = "note_text"
    mods = MODEL_MODS
    checker = "check_note_text"
    pair = "Note.to_code <-> Text.note_text / ntext_str (string equality); eval(str(note)) <-> Text.eval_note (field equality)"
    quick, thorough = 2500, 40000

    def gen(self, rng, n):
        for i in range(n):
            yield {"note": rand_note(rng, inside=(i % 10 != 0))}

    def impl(self, case):
        def f():
            n = mk_note(case["note"])
            s = str(n)
            order = list(n.tags)                          # the set as it iterates: the model sorts it (Tags.sort_tags), like the text
            try:
                m = eval(s, lib_namespace())
                back = read_note(m)
            except Exception:
                # the text of a note that is not a library symbol need not evaluate: 'bd-1' is the library's bass drum minus one
                # (TypeError), 's-1' a NameError, ... ; for library symbols spec() demands a re-read note, so nothing is hidden
                back = None
            return {"str": s, "back": back, "order": order}
        return mlang.guarded(f)

    def term(self, case, r):
        if mlang.is_exc(r):
            return T(coq_note(case["note"]), S("<exception>"), "None")
        back = "None" if r["back"] is None else "(Some " + coq_note(r["back"], tags=[t for t in r["order"] if t in r["back"]["tags"]]) + ")"
        return T(coq_note(case["note"], tags=r["order"]), S(r["str"]), back)

    def in_library(self, n):
        if n["kind"] in "rl":
            return True
        return 0 <= n["val"] < (12 if n.get("dir") else LIBMAX[n["kind"]])

    def spec(self, case, r):
        n = case["note"]
        if mlang.is_exc(r):
            return {"sig": "note-text-raises", "msg": str(r)}
        if not self.in_library(n):
            return None                      # not built from a library symbol
        if r["back"] is None:
            return {"sig": "note-text-not-evaluable", "msg": r["str"]}
        if not same_fields(n, r["back"]):
            which = [k for k in ("kind", "dir", "val", "oct", "dur", "mode", "acc", "tags") if
                     (F(n[k]) != F(r["back"][k]) if k == "dur" else (set(n.get(k, [])) != set(r["back"].get(k, [])) if k == "tags" else n.get(k) != r["back"].get(k)))]
            which = which or ["dynamics"]
            return {"sig": f"note-text-roundtrip:{n['kind']}:{'+'.join(which)}", "msg": f"{r['str']} re-reads as {r['back']}"}
        return None

    def nontrivial(self, case, r):
        return not mlang.is_exc(r) and "." in r["str"]

    def hist_keys(self, case, r):
        n = case["note"]
        return ["family=" + n["kind"] + n.get("dir", ""), "named-dur" if mlang.is_exc(r) or ".augment" not in r["str"] else "augment"]

    def shrink(self, case):
        n = case["note"]
        for key, val in (("tags", []), ("amp", 66), ("dur", F(1)), ("oct", 0)):
            if n.get(key) != val:
                yield {"note": dict(n, **{key: val})}
        for key in ("mode", "acc"):
            if n.get(key):
                yield {"note": {k: v for k, v in n.items() if k != key}}


# =====================================================================================
REPL = ["sus2", "sus4", "b5", "+", "m3", "M3"]
ADDS = ["add2", "add4", "add6", "add9", "add11", "m7", "M7", "b9", "#11"]
REMS = ["-1", "-3", "-5"]


def rand_text_chord(rng, names):
    c = {"elem": rng.randrange(7), "fig": rng.choice(["", "", "5", "6", "64", "7", "65", "43", "2", "9", "11", "13"]),
         "tdeg": rng.randrange(12), "tmode": rng.choice(MODES), "toct": rng.choice([0, 0, 1, -1, 2]), "coct": rng.choice([0, 0, 1, -2]),
         "parts": []}
    if rng.random() < 0.3:
        c["repl"] = sorted(rng.sample(REPL, 1))
    if rng.random() < 0.3:
        c["adds"] = sorted(rng.sample(ADDS, rng.choice([1, 2])))
    if rng.random() < 0.15:
        c["rems"] = sorted(rng.sample(REMS, 1))
    for nm in names:
        drum = nm.startswith("drums")
        fams = ["d", "d", "r", "l"] if drum else ["s", "s", "h", "c", "b", "a", "su", "sd", "cu", "bd", "hu", "r", "l", "x"]
        c["parts"].append([nm, [dict(rand_note(rng, families=fams), tags=[]) for _ in range(rng.randrange(1, 5))]])
    return c


def valid_chord(c):
    try:
        ch = mlang.mk_chord(c)
        ch.chord_extension_pitches
        return True
    except Exception:
        return False


def mk_text_chord(c):
    from musiclang import Melody
    ch = mlang.mk_chord(c)
    return ch(**{nm: Melody([mk_note(n) for n in notes]) for nm, notes in c["parts"]})


def read_text_chord(ch):
    from harness.props.C02 import parse_ext_string
    e = parse_ext_string(ch.extension)
    t = ch.tonality
    c = {"elem": int(ch.element), "fig": e["fig"], "tdeg": int(t.degree), "tmode": t.mode, "toct": int(t.octave), "coct": int(ch.octave),
         "parts": [[nm, [read_note(n) for n in mel.notes]] for nm, mel in ch.score.items()]}
    for k in ("repl", "adds", "rems"):
        if e[k]:
            c[k] = e[k]
    return c


def coq_text_chord(c):
    parts = L([T(S(nm), L([coq_note(n) for n in notes])) for nm, notes in c["parts"]])
    return f"(mkFC {mlang.coq_chord(c)} {parts})"


def same_chord(a, b):
    if [a.get(k) for k in ("elem", "fig", "tdeg", "tmode", "toct", "coct")] != [b.get(k) for k in ("elem", "fig", "tdeg", "tmode", "toct", "coct")]:
        return False
    if any(sorted(a.get(k, [])) != sorted(b.get(k, [])) for k in ("repl", "adds", "rems")):
        return False
    if [nm for nm, _ in a["parts"]] != [nm for nm, _ in b["parts"]]:
        return False
    return all(len(x) == len(y) and all(same_fields(p, q) for p, q in zip(x, y)) for (_, x), (_, y) in zip(a["parts"], b["parts"]))


class ChordText(Stream):
    name = "chord_text"
    mods = MODEL_MODS
    checker = "check_chord_text"
    pair = ("Chord.__repr__ / to_code / extension_to_str / tonality_to_str / melody_to_str <-> Text.chord_text / ctext_str (string "
            "equality); eval(str(chord)) <-> Text.eval_chord (field equality)")
    quick, thorough = 900, 15000

    def gen(self, rng, n):
        k = 0
        while k < n:
            names = rng.sample(sg.NAMES, rng.randrange(1, 3)) + (["drums_0__0"] if rng.random() < 0.2 else [])
            c = rand_text_chord(rng, names)
            if valid_chord(c):
                k += 1
                yield {"chord": c}

    def impl(self, case):
        def f():
            ch = mk_text_chord(case["chord"])
            s = str(ch)
            back = read_text_chord(eval(s.replace("\n", ""), lib_namespace()))
            return {"str": s, "back": back, "as_read": read_text_chord(ch)}
        return mlang.guarded(f)

    def term(self, case, r):
        if mlang.is_exc(r):
            return T(coq_text_chord(case["chord"]), S("<exception>"), "None")
        return T(coq_text_chord(r["as_read"]), S(r["str"]), "(Some " + coq_text_chord(r["back"]) + ")")

    def spec(self, case, r):
        if mlang.is_exc(r):
            return {"sig": "chord-text-raises", "msg": str(r)}
        if not same_chord(r["as_read"], r["back"]):
            return {"sig": "chord-text-roundtrip", "msg": f"{r['str']!r} re-reads as {r['back']}"}
        return None

    def nontrivial(self, case, r):
        return not mlang.is_exc(r)

    def hist_keys(self, case, r):
        c = case["chord"]
        return ["fig=" + c["fig"], "modified" if any(c.get(k) for k in ("repl", "adds", "rems")) else "bare"]

    def shrink(self, case):
        c = case["chord"]
        for j, (nm, notes) in enumerate(c["parts"]):
            if len(c["parts"]) > 1:
                yield {"chord": dict(c, parts=c["parts"][:j] + c["parts"][j + 1:])}
            if len(notes) > 1:
                yield {"chord": dict(c, parts=c["parts"][:j] + [[nm, notes[:-1]]] + c["parts"][j + 1:])}
        for key in ("repl", "adds", "rems"):
            if c.get(key):
                c2 = {k: v for k, v in c.items() if k != key}
                if valid_chord(c2):
                    yield {"chord": c2}


# =====================================================================================
def sounding_by_figure(score_obj):
    """sounding notes with the velocity replaced by its dynamics figure"""
    try:
        m = sg.merge_rows(sg.impl_rows(score_obj))
    except IndexError:                     # a pitch outside the renderer's range: nothing to compare
        return None
    return {tr: [[p, o, d, spec_figure(int(v))] for p, o, d, v in evs] for tr, evs in m.items()}


class RoundTrips(Stream):
    name = "score_round_trips"
    mods = MODEL_MODS
    checker = "check_score_text"
    pair = ("Score.__repr__ <-> Text.score_str (string equality); property oracle: Score.from_str, eval, to_text_file/from_file, "
            "pickle, deepcopy give an equal score with the same sounding notes")
    quick, thorough = 300, 5000

    def gen(self, rng, n):
        k = 0
        while k < n:
            names = rng.sample(sg.NAMES, rng.randrange(1, 3)) + (["drums_0__0"] if rng.random() < 0.25 else [])
            sc = []
            for _ in range(rng.randrange(1, 5)):
                c = rand_text_chord(rng, [nm for nm in names if rng.random() < 0.85] or names[:1])
                for nm, notes in c["parts"]:              # renderable: relative notes only after a sounded note
                    seen = False
                    for x in notes:
                        if x.get("dir") and not seen:
                            x.pop("dir")
                            x["val"] = x["val"] % LIBMAX[x["kind"]]
                        if x["kind"] in "shcba":
                            seen = True
                        if x["kind"] == "x":
                            x["kind"], x["val"] = "s", x["val"] % 7
                        x["oct"] = max(-1, min(1, x["oct"]))
                sc.append(c)
            if all(valid_chord(c) for c in sc):
                k += 1
                yield {"score": sc}

    def impl(self, case):
        def f():
            from musiclang import Score, Chord
            sc = Score([mk_text_chord(c) for c in case["score"]])
            s = str(sc)
            base = [read_text_chord(c) for c in sc.chords]
            base_sound = sounding_by_figure(sc)
            out = {"str": s, "as_read": base, "ways": {}}

            def way(name, fn):
                try:
                    o = fn()
                    if isinstance(o, Chord):
                        o = Score([o])
                    out["ways"][name] = {"same": [same_chord(a, b) for a, b in zip(base, [read_text_chord(c) for c in o.chords])] +
                                                 [len(o.chords) == len(base)],
                                         "eq": bool(o == sc), "sound": sounding_by_figure(o) == base_sound}
                except Exception as e:
                    out["ways"][name] = {"exc": type(e).__name__ + ": " + str(e)[:120]}
            way("from_str", lambda: Score.from_str(s))
            way("eval", lambda: eval(s.replace("\n", ""), lib_namespace()))
            way("pickle", lambda: pickle.loads(pickle.dumps(sc)))
            way("deepcopy", lambda: copy.deepcopy(sc))

            def by_file():
                d = os.path.join(core.BUILD, "tmp")
                os.makedirs(d, exist_ok=True)
                fn = os.path.join(d, f"c05_{os.getpid()}.txt")
                try:
                    sc.to_text_file(fn)
                    return Score.from_text_file(fn) if hasattr(Score, "from_text_file") else Score.from_file(fn)
                finally:
                    if os.path.exists(fn):
                        os.unlink(fn)
            way("text_file", by_file)
            return out
        return mlang.guarded(f)

    def term(self, case, r):
        if mlang.is_exc(r):
            return T("[]", S("<exception>"))
        return T(L([coq_text_chord(c) for c in r["as_read"]]), S(r["str"]))

    def spec(self, case, r):
        if mlang.is_exc(r):
            return {"sig": "score-text-raises", "msg": str(r)}
        for name, w in r["ways"].items():
            if "exc" in w:
                return {"sig": f"roundtrip-raises:{name}", "msg": w["exc"]}
            if not all(w["same"]):
                return {"sig": f"roundtrip-fields:{name}", "msg": f"chord {w['same'].index(False)} differs after {name}"}
            if not w["eq"]:
                return {"sig": f"roundtrip-not-equal:{name}", "msg": ""}
            if not w["sound"]:
                return {"sig": f"roundtrip-sound:{name}", "msg": ""}
        return None

    def nontrivial(self, case, r):
        return not mlang.is_exc(r) and len(case["score"]) > 1

    def shrink(self, case):
        sc = case["score"]
        for i in range(len(sc)):
            if len(sc) > 1:
                yield {"score": sc[:i] + sc[i + 1:]}
        for i, c in enumerate(sc):
            for j, (nm, notes) in enumerate(c["parts"]):
                if len(c["parts"]) > 1:
                    yield {"score": sc[:i] + [dict(c, parts=c["parts"][:j] + c["parts"][j + 1:])] + sc[i + 1:]}
                if len(notes) > 1:
                    yield {"score": sc[:i] + [dict(c, parts=c["parts"][:j] + [[nm, notes[:-1]]] + c["parts"][j + 1:])] + sc[i + 1:]}


class CustomChords(Stream):
    name = "custom_chords"
    checker = None
    pair = "property oracle: eval(str(custom chord)) and Score.from_str / pickle of scores of custom chords"
    quick, thorough = 150, 2500

    def gen(self, rng, n):
        for _ in range(n):
            yield {"notes": [[rng.choice("sh"), rng.randrange(7), rng.choice([0, 0, 1])] for _ in range(rng.randrange(2, 5))],
                   "tdeg": rng.randrange(12), "tmode": rng.choice(MODES), "toct": rng.choice([0, 1, -1]), "coct": rng.choice([0, 1, -1]),
                   "melody": [dict(rand_note(rng, families=["b", "s", "c", "r", "l", "h"]), tags=[]) for _ in range(rng.randrange(1, 4))],
                   # a score mixing ordinary (o) and custom (c) chords in any order
                   "layout": "".join(rng.choice("oc") for _ in range(rng.randrange(1, 6)))}

    def impl(self, case):
        def f():
            from musiclang import Note, Tonality, Melody, Score
            notes = [Note(k, v, o, 1) for k, v, o in case["notes"]]
            cc = Tonality(case["tdeg"], case["tmode"], case["toct"])(*notes)(piano__0=Melody([mk_note(n) for n in case["melody"]]))
            cc = cc.o(case["coct"])
            ns = lib_namespace()
            c2 = eval(str(cc).replace("\n", ""), ns)
            sc = Score([cc, cc])
            s3 = Score.from_str(str(sc))
            p = pickle.loads(pickle.dumps(sc))
            from musiclang.library import V, I
            oc = (V % I.M)(violin__0=Melody([mk_note(n) for n in case["melody"]]))
            mixed = Score([cc.copy() if ch == "c" else oc.copy() for ch in case.get("layout", "")])
            mixed_ok = True
            if mixed.chords:
                back = Score.from_str(str(mixed))
                back = back.to_score() if not isinstance(back, Score) else back
                mixed_ok = [type(c).__name__ for c in back.chords] == [type(c).__name__ for c in mixed.chords] and bool(back == mixed) \
                    and bool(eval(str(mixed).replace("\n", ""), ns).to_score() == mixed)
            desc = lambda c: [type(c).__name__, [str(n) for n in c.notes], c.tonality.degree, c.tonality.mode, c.tonality.octave, c.octave,
                              [[nm, [read_note(n) for n in m.notes]] for nm, m in c.score.items()]]
            same = lambda a, b: a[:6] == b[:6] and all(x[0] == y[0] and all(same_fields(p_, q_) for p_, q_ in zip(x[1], y[1]))
                                                      for x, y in zip(a[6], b[6]))
            return {"str": str(cc), "one": same(desc(cc), desc(c2)), "score": [same(desc(cc), desc(c)) for c in s3.chords] + [len(s3.chords) == 2],
                    "pickle": [same(desc(cc), desc(c)) for c in p.chords], "eq": bool(s3 == sc), "mixed": mixed_ok}
        return mlang.guarded(f)

    def spec(self, case, r):
        if mlang.is_exc(r):
            return {"sig": "custom-chord-raises", "msg": str(r)}
        if not (r["one"] and all(r["score"]) and all(r["pickle"]) and r["eq"]):
            return {"sig": "custom-chord-roundtrip", "msg": r["str"]}
        if not r["mixed"]:
            return {"sig": "custom-chord-roundtrip:mixed-score", "msg": f"layout {case.get('layout')} (o = ordinary chord, c = custom chord): from_str / eval of the text is not the score"}
        return None


class Tabular(Stream):
    name = "tabular"
    checker = None
    pair = "property oracle: Score.from_sequence(score.to_sequence()) sounds like the score (non-relative notes, denominators up to 8)"
    quick, thorough = 200, 3000

    def gen(self, rng, n):
        for _ in range(n):
            sc = sg.rand_score(rng, max_chords=3, rel=0, accs=False)
            for c in sc:
                for nm, notes in c["parts"]:
                    for x in notes:
                        x["dur"] = rng.choice([F(1), F(1, 2), F(1, 4), F(3, 2), F(1, 8), F(3, 8), F(2), F(3, 4)])
                        if _ % 4 == 1 and rng.random() < 0.25:
                            x["dur"] = F(0)             # the empty duration (.n): two rows of one part then share their start time
            yield {"score": sg.equalize(sc), "sort": _ % 2 == 1}
            if _ % 25 == 0:
                # a table of a few hundred rows, the parts of every chord in another order
                names = ["piano__0", "violin__0", "flute__0", "cello__0", "harp__0", "oboe__0", "viola__0"][:rng.randrange(4, 8)]
                big = []
                for _c in range(rng.randrange(8, 14)):
                    order = names[:]; rng.shuffle(order)
                    big.append({"elem": rng.randrange(7), "fig": "", "tdeg": rng.randrange(12), "tmode": "M", "toct": 0, "coct": 0,
                                "parts": [[nm, [{"kind": "s", "val": rng.randrange(7), "oct": 0, "dur": rng.choice([F(1), F(1, 2)]), "amp": 66}
                                                for _n in range(rng.randrange(2, 5))]] for nm in order]})
                yield {"score": sg.equalize(big), "sort": _ % 50 == 0}

    def impl(self, case):
        def f():
            from musiclang import Score
            sc = sg.mk_rscore(case["score"])
            # half of the cases with the documented option sort_by_time=True: re-sorting a table that is already in time order changes nothing
            opts = {"sort_by_time": True} if case.get("sort") else {}
            s2 = Score.from_sequence(sc.to_sequence(), **opts)
            a = sg.merge_rows(sg.impl_rows(sc))
            b = sg.merge_rows(sg.impl_rows(s2))
            hdr = lambda x: [[int(c.element), str(c.extension), int(c.tonality.degree), c.tonality.mode, int(c.tonality.octave), int(c.octave)] for c in x.chords]
            return {"a": sorted(map(repr, a.values())), "b": sorted(map(repr, b.values())), "dur": [F(sc.duration), F(s2.duration)],
                    "parts": [[list(c.score.keys()) for c in sc.chords], [list(c.score.keys()) for c in s2.chords]],
                    "chords": [hdr(sc), hdr(s2)], "eq": bool(s2 == sc)}
        return mlang.guarded(f)

    def spec(self, case, r):
        if mlang.is_exc(r):
            return {"sig": "tabular-raises", "msg": str(r)}
        if [x for x in r["a"] if x != "[]"] != [x for x in r["b"] if x != "[]"]:
            return {"sig": "tabular-roundtrip-sound", "msg": f"{r['a'][:2]} vs {r['b'][:2]}"}
        if r["chords"][0] != r["chords"][1]:
            return {"sig": "tabular-roundtrip-chords", "msg": f"(degree, extension, tonality degree / mode / octave, chord octave): {r['chords'][0][:3]} came back as {r['chords'][1][:3]}"}
        if r["parts"][0] != r["parts"][1]:
            return {"sig": "tabular-roundtrip-part-order", "msg": f"{r['parts'][0][:2]} came back as {r['parts'][1][:2]}"}
        return None

    def shrink(self, case):
        for s in sg.shrink_score(case["score"]):
            yield dict(case, score=sg.equalize(s))


class OperationTexts(Stream):
    """texts of objects reached through library operations rather than written directly: windows cut with integer bounds (notes with
    int durations), chords without tonality moved by octaves, custom chords carrying a figure"""
    name = "operation_texts"
    checker = None
    pair = "property oracle: Score.from_str(str(x)) == x and sounds the same, for x = score.get_score_between(int, int), Chord(e, octave=k)(...), custom chord[figure]"
    quick, thorough = 300, 4000

    def gen(self, rng, n):
        for i in range(n):
            kind = ["window", "toneless", "custom_figure", "window", "toneless", "custom_figure", "empty_part", "suffix_chain", "empty_text"][i % 9]
            if kind == "suffix_chain":
                # a note written as a library symbol followed by two or three rhythmic suffixes (s0.e3.e5, s0.t7.t7.t7): its text reads back equal
                yield {"kind": kind, "base": rng.choice(["s0", "s4", "h3", "c1", "r", "l", "su1"]),
                       "sufs": [rng.choice(["t7", "e7", "s5", "t3", "e3", "q3", "h5", "t5", "s7", "qd", "ed", "e5", "q7"]) for _ in range(rng.choice([2, 2, 3]))]
                               if i != 7 else ["t7", "t7", "t7"]}            # the first case is the listed finding's own example, whatever the seed
                continue
            if kind == "empty_text":
                # objects without a note: a chord holding a part emptied by slicing (melody[k:]), the empty score (score * 0)
                yield {"kind": kind, "which": rng.choice(["part", "part", "score"]) if i > 17 else ["part", "score"][i // 9 % 2], "elem": rng.randrange(7),
                       "melody": [dict(rand_note(rng, families=["s", "h", "r", "l", "c"]), tags=[]) for _ in range(rng.randrange(1, 4))]}
                continue
            if kind == "empty_part":
                # a part emptied by slicing past its end (melody[k:]): not written in the text form, but deep copies and pickles of the
                # chord and of its score are equal objects
                yield {"kind": kind, "elem": rng.randrange(7), "melody": [dict(rand_note(rng, families=["s", "h", "r", "l", "c"]), tags=[]) for _ in range(rng.randrange(1, 4))]}
                continue
            if kind == "window":
                sc = sg.equalize(sg.rand_score(rng, max_chords=3, rel=0, accs=False, rest=0.1, cont=0.1))
                for c in sc:
                    for nm, notes in c["parts"]:
                        for x in notes:
                            x["dur"] = F(rng.choice([1, 2, 3, 5, 8]))
                    c["parts"] = [p for p in c["parts"] if not p[0].startswith("drums")] or c["parts"]
                sc = sg.equalize(sc)
                tot = int(sg.total_dur(sc))
                a = rng.randrange(0, max(tot, 1)); b = rng.randrange(a + 1, tot + 2)
                yield {"kind": kind, "score": sc, "a": a, "b": b}
            elif kind == "toneless":
                yield {"kind": kind, "elem": rng.randrange(7), "fig": rng.choice(["", "", "6", "7", "64"]), "coct": rng.choice([1, -1, 2, -2, 0]),
                       "melody": [dict(rand_note(rng, families=["s", "h", "r", "l", "c"]), tags=[]) for _ in range(rng.randrange(1, 4))]}
            else:
                yield {"kind": kind, "notes": [[rng.choice("sh"), rng.randrange(7), rng.choice([0, 0, 1])] for _ in range(rng.randrange(2, 5))],
                       "tdeg": rng.randrange(12), "tmode": rng.choice(MODES), "fig": rng.choice(["6", "64", "7", "65", "(sus2)", "7[add9]"]),
                       "coct": rng.choice([0, 1, -1]), "melody": [dict(rand_note(rng, families=["s", "h", "r"]), tags=[]) for _ in range(rng.randrange(1, 3))]}

    def impl(self, case):
        def f():
            from musiclang import Score, Chord, Note, Tonality, Melody
            if case["kind"] == "window":
                x = sg.mk_rscore(case["score"]).get_score_between(case["a"], case["b"])
                if x is None:
                    return {"none": True}
            elif case["kind"] == "toneless":
                x = Chord(case["elem"], extension=case["fig"], octave=case["coct"])(piano__0=Melody([mk_note(n) for n in case["melody"]])).to_score()
            elif case["kind"] == "suffix_chain":
                import musiclang.library as lib
                n = getattr(lib, case["base"])
                for sf in case["sufs"]:
                    n = getattr(n, sf)
                try:
                    back = eval(str(n), vars(lib))
                    ok = bool(back == n and n == back and F(back.duration) == F(n.duration))
                except Exception as e:
                    ok = False
                return {"chain": True, "text": str(n), "ok": ok, "den": F(n.duration).denominator}
            elif case["kind"] == "empty_text":
                mel = Melody([mk_note(n) for n in case["melody"]])
                ch = Chord(case["elem"], tonality=Tonality(0))(piano__0=mel, violin__0=mel[len(mel.notes):])
                x = ch.to_score() if case["which"] == "part" else ch.to_score() * 0
                try:
                    back = Score.from_str(str(x))
                    back = back.to_score() if not isinstance(back, Score) else back
                    ok = bool(back == x)
                except Exception as e:
                    ok = False
                return {"empty": True, "text": str(x)[:120], "ok": ok}
            elif case["kind"] == "empty_part":
                import copy as _copy, pickle as _pickle
                mel = Melody([mk_note(n) for n in case["melody"]])
                x = Chord(case["elem"], tonality=Tonality(0))(piano__0=mel, violin__0=mel[len(mel.notes):]).to_score()
                objs = [x, x.chords[0], x.chords[0].score["violin__0"]]
                return {"copies": [[bool(_copy.deepcopy(o) == o), bool(_pickle.loads(_pickle.dumps(o)) == o), bool(o.copy() == o)] for o in objs]}
            else:
                notes = [Note(k, v, o, 1) for k, v, o in case["notes"]]
                x = Tonality(case["tdeg"], case["tmode"], 0)(*notes)[case["fig"]].o(case["coct"])(piano__0=Melody([mk_note(n) for n in case["melody"]])).to_score()
            text = str(x)
            back = Score.from_str(text)
            back = back.to_score() if not isinstance(back, Score) else back
            desc = lambda sc: [[type(c).__name__, int(c.element), str(c.extension), None if c.tonality is None else (c.tonality.degree, c.tonality.mode, c.tonality.octave),
                                int(c.octave), [[nm, [read_note(n) for n in m.notes]] for nm, m in c.score.items()]] for c in sc.chords]
            da, db = desc(x), desc(back)
            same = len(da) == len(db) and all(p[:5] == q[:5] and [u[0] for u in p[5]] == [u[0] for u in q[5]] and
                                             all(len(u[1]) == len(w[1]) and all(same_fields(g, h) for g, h in zip(u[1], w[1])) for u, w in zip(p[5], q[5]))
                                             for p, q in zip(da, db))
            return {"text": text[:300], "eq": bool(back == x), "same": same}
        return mlang.guarded(f)

    def spec(self, case, r):
        if mlang.is_exc(r):
            return {"sig": f"operation-text-raises:{case['kind']}", "msg": str(r)}
        if r.get("none"):
            return None
        if r.get("chain"):
            if not r["ok"]:
                if r["den"] > 1000:
                    return {"sig": "text-roundtrip:duration-finer-than-1/1000", "msg": f"{r['text']} (stored denominator {r['den']})"}
                return {"sig": "operation-text-roundtrip:suffix_chain", "msg": r["text"]}
            return None
        if r.get("empty"):
            if not r["ok"]:
                return {"sig": "text-roundtrip:object-without-notes", "msg": f"{case['which']}: {r['text']!r}"}
            return None
        if "copies" in r:
            if not all(all(c) for c in r["copies"]):
                return {"sig": "copy-of-object-with-empty-part", "msg": f"[deepcopy, pickle, copy] equal to the original, for the score, its chord and the empty part: {r['copies']}"}
            return None
        if not (r["eq"] and r["same"]):
            return {"sig": f"operation-text-roundtrip:{case['kind']}", "msg": r["text"]}
        return None

    def hist_keys(self, case, r):
        return ["kind=" + case["kind"]]


def streams():
    return [NoteText(), ChordText(), RoundTrips(), CustomChords(), Tabular(), OperationTexts()]

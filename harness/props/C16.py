"""C16 - realising ornaments keeps every note's time span."""
from fractions import Fraction as F
from harness.main import Stream
from harness import core, mlang
from harness.core import Z, S, L, O, T, B, Qc

MODEL_MODS = ["Model.Dur", "Model.Orn"]
ALL_MODS = MODEL_MODS + ["Model.OrnAll"]
RULE = ("15 tags x durations (every value of the duration table, dotted/tuplet products, arbitrary rationals incl. very short ones) x "
        "previous context (none / note / rest) x next context (none / scale note / chromatic note / rest); pairs of tags on one note; "
        "tagged melodies and scores rendered end to end; non-trivial = the tag changes the note")
TRUSTED = ["int(7*val/12) on floats = truncation of the exact quotient for |val| < 10^6"]
ASSUMPTIONS = ["durations >= 0 with denominators <= 1000"]

TAGS = ["accent", "mordant", "inv_mordant", "chroma_mordant", "inv_chroma_mordant", "grupetto", "inv_grupetto", "chroma_grupetto",
        "inv_chroma_grupetto", "roll", "roll_fast", "suspension_prev", "suspension_prev_repeat", "retarded", "interpolate"]
TAG_C = dict(zip(TAGS, ["TAccent", "TMordant", "TInvMordant", "TChromaMordant", "TInvChromaMordant", "TGrupetto", "TInvGrupetto",
                        "TChromaGrupetto", "TInvChromaGrupetto", "TRoll", "TRollFast", "TSuspensionPrev", "TSuspensionPrevRepeat",
                        "TRetarded", "TInterpolate"]))


def durations():
    from harness.props.C10 import SPEC_TABLE
    base = sorted(set(SPEC_TABLE.values()))          # the table's "n" (zero length) included
    extra = [F(1, 12), F(1, 13), F(1, 24), F(5, 4), F(11, 8), F(7, 3), F(13, 6), F(5, 12), F(1, 2), F(1), F(3, 2), F(17, 12), F(29, 20), F(9, 2), F(10)]
    return base + extra


def ctx_note(rng, kind):
    if kind == "none":
        return None
    if kind == "rest":
        return {"kind": "r", "val": 0, "oct": 0, "dur": F(1)}
    k = "s" if kind == "s" else rng.choice("hcb")
    n = {"kind": k, "val": rng.randrange(-3, 12), "oct": rng.choice([0, 0, 1, -1]), "dur": F(1)}
    if kind == "rel":
        n = {"kind": "s", "dir": "u", "val": rng.randrange(4), "oct": 0, "dur": F(1)}
    return n


def is_note_kind(n):
    return n is not None and n["kind"] not in "rldx"


def coq_ctx(cur, last, nxt):
    def plain_s(n):
        return n is not None and n["kind"] == "s" and not n.get("dir")
    return (f"(mkCtx {B(last is not None)} {B(is_note_kind(cur))} {B(plain_s(cur))} {Z(cur['val'])} {Z(cur['oct'])} "
            f"{B(nxt is not None)} {B(is_note_kind(nxt))} {B(plain_s(nxt))} {Z(nxt['val'] if nxt else 0)} {Z(nxt['oct'] if nxt else 0)})")


def pieces(res):
    notes = res.notes if hasattr(res, "notes") else [res]
    return [[n.type, F(n.duration)] for n in notes]


class Realize(Stream):
    name = "realize_tags"
    mods = MODEL_MODS
    checker = "check_realize"
    pair = "Note.realize_tags / ornementation.realize_tags (one tag) <-> Orn.realize"
    quick, thorough = 3000, 40000

    def gen(self, rng, n):
        ds = durations()
        k = 0
        # the full grid tag x duration x contexts, in an order that covers every tag early (the quick tier takes a prefix)
        grid = [(tg, d, lk, nk) for d in ds for lk in ("none", "note", "rest") for nk in ("none", "s", "h", "rest") for tg in TAGS]
        rng.shuffle(grid)
        grid.sort(key=lambda g: 0)            # stable no-op: keeps the shuffled order explicit
        for tg, d, lk, nk in grid[:max(0, n - n // 4)]:
            cur = {"kind": rng.choice("sssh"), "val": rng.randrange(7), "oct": rng.choice([0, 0, 1]), "dur": d}
            yield {"tag": tg, "cur": cur, "last": ctx_note(rng, "s" if lk == "note" else lk), "next": ctx_note(rng, nk)}
            k += 1
        while k < n:
            cur = {"kind": rng.choice("sshcb"), "val": rng.randrange(7), "oct": rng.choice([0, 0, 1, -1]),
                   "dur": F(rng.randrange(1, 200), rng.choice([1, 2, 3, 4, 6, 8, 12, 16, 24, 48]))}
            if rng.random() < 0.2:
                cur["dir"] = "u"
            yield {"tag": rng.choice(TAGS), "cur": cur, "last": ctx_note(rng, rng.choice(["none", "s", "rest", "h"])),
                   "next": ctx_note(rng, rng.choice(["none", "s", "h", "rest", "rel"]))}
            k += 1

    def impl(self, case):
        from harness.score_gen import mk_rnote
        def f():
            nt = mk_rnote(dict(case["cur"], amp=66)).add_tag(case["tag"])
            last = mk_rnote(dict(case["last"], amp=66)) if case["last"] else None
            nxt = mk_rnote(dict(case["next"], amp=66)) if case["next"] else None
            return pieces(nt.realize_tags(last_note=last, next_note=nxt))
        return mlang.guarded(f)

    def term(self, case, r):
        exp = "None" if mlang.is_exc(r) else "(Some " + L([Qc(p[1]) for p in r]) + ")"
        return T(TAG_C[case["tag"]], coq_ctx(case["cur"], case["last"], case["next"]), Qc(F(case["cur"]["dur"])), exp)

    def spec(self, case, r):
        d = F(case["cur"]["dur"])
        if mlang.is_exc(r):
            return {"sig": f"realize-raises:{case['tag']}", "msg": f"duration {d}: {r}"}
        if sum(p[1] for p in r) != d:
            return {"sig": f"realize-changes-span:{case['tag']}", "msg": f"{d} -> {r}"}
        if any(p[1] < 0 for p in r):
            return {"sig": f"realize-negative-duration:{case['tag']}", "msg": f"duration {d}: pieces {[str(p[1]) for p in r]}"}
        return None

    def nontrivial(self, case, r):
        return not mlang.is_exc(r) and len(r) > 1

    def hist_keys(self, case, r):
        return ["tag=" + case["tag"], "pieces=" + ("exc" if mlang.is_exc(r) else str(min(len(r), 6)))]

    def shrink(self, case):
        for key in ("last", "next"):
            if case[key] is not None:
                yield dict(case, **{key: None})
        c = case["cur"]
        for key, val in (("oct", 0), ("val", 0)):
            if c[key] != val:
                yield dict(case, cur=dict(c, **{key: val}))


class Pairs(Stream):
    """two tags on one note, and tagged melodies / scores rendered end to end (python oracle)"""
    name = "tag_combinations"
    checker = None
    pair = "property oracle on Note.realize_tags with two tags, Melody.realize_tags, Score.realize_tags and get_notes of tagged scores"
    quick, thorough = 700, 10000

    def gen(self, rng, n):
        ds = durations()
        k = 0
        exotic = [F(13, 5), F(5, 7), F(7, 5), F(11, 7), F(9, 5), F(17, 5), F(13, 7), F(3, 7)]
        for i, a in enumerate(TAGS):
            for b in TAGS[i + 1:]:
                if k < n // 2:
                    yield {"tags": [a, b], "d": rng.choice(ds), "mel": None}
                    yield {"tags": [a, b], "d": rng.choice(exotic), "mel": None}
                    k += 2
        while k < n:
            mel = []
            for _ in range(rng.randrange(2, 6)):
                nt = {"kind": rng.choice("sssshr"), "val": rng.randrange(7), "oct": 0, "dur": rng.choice(ds)}
                if nt["kind"] != "r" and rng.random() < 0.6:
                    nt["tag"] = rng.choice(TAGS)
                mel.append(nt)
            yield {"tags": [], "d": F(1), "mel": mel}
            k += 1

    def impl(self, case):
        from harness.score_gen import mk_rnote, impl_rows
        from musiclang import Melody, Score
        from musiclang.library import I
        def f():
            if case["mel"] is None:
                def one():
                    nt = mk_rnote({"kind": "s", "val": 2, "oct": 0, "dur": case["d"], "amp": 66}).add_tags(case["tags"])
                    last = mk_rnote({"kind": "s", "val": 0, "oct": 0, "dur": F(1), "amp": 66})
                    return pieces(nt.realize_tags(last_note=last, next_note=mk_rnote({"kind": "s", "val": 5, "oct": 0, "dur": F(1), "amp": 66})))
                try:
                    return {"pieces": one()}
                except AssertionError as e:
                    # does it fail only because durations are rounded to denominators <= LIMIT_DENOM?  Re-run with the limit lifted.
                    from musiclang.write import note as NM
                    old = NM.LIMIT_DENOM
                    NM.LIMIT_DENOM = 10 ** 12
                    try:
                        p2 = one()
                        exact = sum(x[1] for x in p2) == F(case["d"]) and all(x[1] >= 0 for x in p2)
                    except Exception:
                        exact = False
                    finally:
                        NM.LIMIT_DENOM = old
                    return {"exc": "AssertionError", "msg": str(e)[:200], "only_resolution": exact}
            notes = []
            for n in case["mel"]:
                x = mk_rnote(dict(n, amp=66))
                if n.get("tag"):
                    x = x.add_tag(n["tag"])
                notes.append(x)
            mel = Melody(notes)
            sc = Score([(I % I.M)(piano__0=mel), (I % I.M)(piano__0=mel)])
            real = sc.realize_tags()
            # parts entering and leaving between chords (the neighbour-note contexts are looked up in the neighbouring chords)
            from musiclang.library import V
            sc3 = Score([(I % I.M)(piano__0=mel, flute__0=mel), (V % I.M)(violin__0=mel, piano__0=mel), (I % I.M)(flute__0=mel)])
            real3 = sc3.realize_tags()
            rows = impl_rows(sc)
            return {"ragged": [F(real3.duration), F(sc3.duration), [sorted(c.score.keys()) for c in real3.chords] == [sorted(c.score.keys()) for c in sc3.chords]],
                    "mel": F(mel.realize_tags().duration), "score": F(real.duration), "orig": F(mel.duration),
                    "rows_end": max((r[1] + r[2] for r in rows), default=F(0)), "neg": any(r[2] < 0 for r in rows)}
        return mlang.guarded(f)

    def spec(self, case, r):
        if case["mel"] is None:
            key = "+".join(case["tags"])
            if mlang.is_exc(r):
                if r.get("only_resolution"):
                    return {"sig": "realize-exceeds-duration-resolution", "msg": f"{key} on duration {case['d']}: {r['msg']}"}
                return {"sig": f"realize-raises:{key}", "msg": f"duration {case['d']}: {r}"}
            if sum(p[1] for p in r["pieces"]) != F(case["d"]):
                return {"sig": f"realize-changes-span:{key}", "msg": str(r)}
            if any(p[1] < 0 for p in r["pieces"]):
                return {"sig": f"realize-negative-duration:{key}", "msg": str(r)}
            return None
        if mlang.is_exc(r):
            tg = sorted({n.get("tag") for n in case["mel"] if n.get("tag")})
            return {"sig": "melody-realize-raises:" + "+".join(tg[:1]), "msg": str(r)}
        if r["mel"] != r["orig"] or r["score"] != 2 * r["orig"] or r["rows_end"] > 2 * r["orig"] or r["neg"]:
            return {"sig": "melody-realize-changes-span", "msg": str(r)}
        if r["ragged"][0] != r["ragged"][1] or not r["ragged"][2]:
            return {"sig": "score-realize-changes-span:parts-entering-and-leaving", "msg": str(r["ragged"])}
        return None

    def hist_keys(self, case, r):
        return ["pair" if case["mel"] is None else "melody", "exc" if mlang.is_exc(r) else "ok"]

    def shrink(self, case):
        if case["mel"]:
            for i in range(len(case["mel"])):
                if len(case["mel"]) > 1:
                    yield dict(case, mel=case["mel"][:i] + case["mel"][i + 1:])


class Combos(Stream):
    """1..4 tags on one note (realize_tags runs the builders in its fixed order, each on what the previous ones produced),
    durations from 0 (the table's .n) upwards, every kind of neighbour: against OrnAll.realize_all"""
    name = "realize_tag_sets"
    mods = ALL_MODS
    checker = "check_realize_all"
    pair = "Note.realize_tags / ornementation.realize_tags (sets of tags; Melody.set_duration, .n, .duration on the intermediate melodies) <-> OrnAll.realize_all"
    quick, thorough = 1500, 25000

    def gen(self, rng, n):
        ds = [F(0), F(0)] + durations() + [F(13, 5), F(5, 7), F(7, 5), F(11, 7), F(1, 7), F(2, 9)]
        k = 0
        # every pair once on a zero-length note (a previous note present: the suspensions fire whatever the length)
        for i, a in enumerate(TAGS):
            for b in TAGS[i + 1:]:
                if k < n // 3:
                    yield {"tags": [a, b], "cur": {"kind": "s", "val": 2, "oct": 0, "dur": F(0)}, "last": ctx_note(rng, "s"), "next": ctx_note(rng, rng.choice(["s", "none"]))}
                    k += 1
        while k < n:
            tags = sorted(rng.sample(TAGS, rng.choice([1, 2, 2, 3, 3, 4])), key=TAGS.index)
            cur = {"kind": rng.choice("sssh"), "val": rng.randrange(7), "oct": rng.choice([0, 0, 1]), "dur": rng.choice(ds)}
            yield {"tags": tags, "cur": cur, "last": ctx_note(rng, rng.choice(["none", "s", "s", "rest"])),
                   "next": ctx_note(rng, rng.choice(["none", "s", "h", "rest"]))}
            k += 1

    def impl(self, case):
        from harness.score_gen import mk_rnote
        def one():
            nt = mk_rnote(dict(case["cur"], amp=66)).add_tags(case["tags"])
            last = mk_rnote(dict(case["last"], amp=66)) if case["last"] else None
            nxt = mk_rnote(dict(case["next"], amp=66)) if case["next"] else None
            return pieces(nt.realize_tags(last_note=last, next_note=nxt))
        def f():
            try:
                return {"pieces": one()}
            except AssertionError as e:
                # the final assertion of realize_tags: only because durations are rounded to denominators <= LIMIT_DENOM?
                from musiclang.write import note as NM
                old = NM.LIMIT_DENOM
                NM.LIMIT_DENOM = 10 ** 12
                try:
                    p2 = one()
                    exact = sum(x[1] for x in p2) == F(case["cur"]["dur"]) and all(x[1] >= 0 for x in p2)
                except Exception:
                    exact = False
                finally:
                    NM.LIMIT_DENOM = old
                return {"exc": "AssertionError", "msg": str(e)[:200], "only_resolution": exact}
        return mlang.guarded(f)

    def term(self, case, r):
        exp = "None" if mlang.is_exc(r) else "(Some " + L([Qc(p[1]) for p in r["pieces"]]) + ")"
        return T(coq_ctx(case["cur"], case["last"], case["next"]), L([TAG_C[t] for t in case["tags"]]), Qc(F(case["cur"]["dur"])), exp)

    def spec(self, case, r):
        key, d = "+".join(case["tags"]), F(case["cur"]["dur"])
        if mlang.is_exc(r):
            if r.get("only_resolution"):
                return {"sig": "realize-exceeds-duration-resolution", "msg": f"{key} on duration {d}: {r['msg']}"}
            return {"sig": f"realize-raises:{key}", "msg": f"duration {d}: {r}"}
        if sum(p[1] for p in r["pieces"]) != d:
            return {"sig": f"realize-changes-span:{key}", "msg": str(r)}
        if any(p[1] < 0 for p in r["pieces"]):
            return {"sig": f"realize-negative-duration:{key}", "msg": str(r)}
        return None

    def nontrivial(self, case, r):
        return not mlang.is_exc(r) and len(r["pieces"]) > 1

    def hist_keys(self, case, r):
        return [f"tags={len(case['tags'])}", "zero-length" if F(case["cur"]["dur"]) == 0 else "positive-length", "exc" if mlang.is_exc(r) else "ok"]

    def shrink(self, case):
        if len(case["tags"]) > 1:
            for i in range(len(case["tags"])):
                yield dict(case, tags=case["tags"][:i] + case["tags"][i + 1:])
        for key in ("last", "next"):
            if case[key] is not None:
                yield dict(case, **{key: None})


def streams():
    return [Realize(), Pairs(), Combos()]

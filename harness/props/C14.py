"""C14 - turning pitches and timed notes into notation is lossless."""
from fractions import Fraction as F
from math import lcm
from harness.main import Stream
from harness import core, mlang, score_gen as sg
from harness.core import Z, S, L, O, T, B
from harness.mlang import MODES
from harness.props.C01 import rand_chord

MODEL_MODS = ["Model.Pitch", "Model.Rel", "Model.Render", "Model.Slice", "Model.Import"]
RULE = ("Chord.parse: chords from the C01 generator (all modes, figures, octaves) x pitches -40..60; import: 1..3 monophonic voices with "
        "notes on rational grids (halves, thirds, quarters), bars of length 2..6, notes crossing 0, 1 or several bar lines, silent bars, "
        "leading rests, notes ending exactly on bar lines; chords of random harmony per bar; non-trivial = a note crosses a bar line or a bar is silent")
TRUSTED = ["set iteration order of small ints (voices are visited in ascending order)"]
ASSUMPTIONS = ["monophonic voices (start_i < end_i <= start_{i+1}), chord durations equal to bar lengths, notes end within the last bar",
               "Items are passed to infer_score_with_chords_durations directly (the MIDI file front-end is not installed)"]


class Parse(Stream):
    name = "chord_parse"
    mods = MODEL_MODS
    checker = "check_parse"
    pair = "Chord.parse (+ Chord.to_pitch on the result) <-> Import.parse"
    quick, thorough = 2500, 40000

    def gen(self, rng, n):
        for _ in range(n):
            c = rand_chord(rng, modifiers=0.1)
            c.pop("ton_none", None)
            yield {"chord": c, "p": rng.randrange(-40, 61)}

    def impl(self, case):
        def f():
            ch = mlang.mk_chord(case["chord"])
            n = ch.parse(case["p"])
            out = {"note": sg.read_note(n), "back": int(ch.to_pitch(n)), "scale": [int(x) % 12 for x in ch.scale_pitches]}
            # the importer and the projections edit the note they are handed (duration, amplitude): the next answer of the same chord
            # object for the same pitch is again the plain quarter note
            n.duration, n.amp = F(3, 2), 17
            again = ch.parse(case["p"])
            out["again"] = [sg.read_note(again), F(again.duration), int(again.amp)]
            out["first"] = [out["note"], F(1), 66]
            return out
        return mlang.guarded(f)

    def term(self, case, r):
        if mlang.is_exc(r):
            exp = "None"
        else:
            exp = f"(Some ({mlang.coq_pnote(r['note'])}, Some (Some {Z(r['back'])})))"
        return T(mlang.coq_chord(case["chord"]), Z(case["p"]), exp)

    def spec(self, case, r):
        if mlang.is_exc(r):
            return {"sig": "parse-raises", "msg": str(r)}
        p = case["p"]
        if r["back"] != p:
            return {"sig": "parse-roundtrip", "msg": f"{p} -> {r['note']} -> {r['back']}"}
        n = r["note"]
        if r["again"][0] != n or r["again"][1] != 1:
            return {"sig": "parse-depends-on-earlier-result", "msg": f"{p}: first {n}, after the caller edited that note: {r['again']}"}
        if (n["kind"] == "s") != (p % 12 in r["scale"]):
            return {"sig": "parse-scale-note-iff-in-scale", "msg": f"{p}: {n}"}
        if not (0 <= n["val"] < (7 if n["kind"] == "s" else 12)):
            return {"sig": "parse-not-normalised", "msg": str(n)}
        return None

    def nontrivial(self, case, r):
        return case["p"] != 0

    def hist_keys(self, case, r):
        return ["parse-exc"] if mlang.is_exc(r) else ["parse-" + r["note"]["kind"]]


def rand_voices(rng, nbars, lens):
    total = sum(lens)
    grid = rng.choice([F(1, 2), F(1, 3), F(1, 4), F(1), F(1, 2), F(1, 3), F(1, 4), F(1), F(1, 5), F(1, 6), F(1, 12), F(1, 16), F(3, 16)])
    voices = []
    for v in range(rng.randrange(1, 4)):
        t = F(0)
        notes = []
        if rng.random() < 0.5:
            t += grid * rng.randrange(0, 6)
        while t < total:
            d = grid * rng.choice([1, 1, 2, 3, 4, 5, 8, 12, 17])
            if t + d > total:
                d = total - t
            if d <= 0:
                break
            if rng.random() < 0.8:
                notes.append({"start": t, "end": t + d, "pitch": rng.randrange(-12, 25), "vel": rng.choice([40, 66, 80, 100, 127])})
            t += d
            if rng.random() < 0.3:
                t += grid * rng.choice([1, 2, 6, 9])
        voices.append(notes)
    return voices


class Import(Stream):
    name = "import"
    mods = MODEL_MODS
    checker = "check_import"
    pair = "to_musiclang.infer_score_with_chords_durations / _parse_voice <-> Import.import_score / parse_voice"
    quick, thorough = 1200, 20000

    def gen(self, rng, n):
        for _ in range(n):
            nb = rng.randrange(1, 6)
            lens = [F(rng.choice([2, 3, 4, 4, 6]))] * nb if rng.random() < 0.7 else [F(rng.choice([2, 3, 4, 6])) for _ in range(nb)]
            chords = []
            for _ in range(nb):
                c = rand_chord(rng, modifiers=0.0)
                c.pop("ton_none", None)
                c["toct"] = 0; c["coct"] = rng.choice([0, 0, -1]); c["fig"] = rng.choice(["", "6", "7"])
                chords.append(c)
            voices = rand_voices(rng, nb, lens)
            while not any(voices):
                voices = rand_voices(rng, nb, lens)
            yield {"chords": chords, "lens": lens, "voices": voices, "order": rng.choice(["onset", "onset", "voice", "voice_rev"]),
                   "via_matrix": rng.random() < 0.4}

    def impl(self, case):
        from musiclang.analyze.to_musiclang import infer_score_with_chords_durations
        from musiclang.analyze.item import Item
        def f():
            items = []
            for v, notes in enumerate(case["voices"]):
                for n in notes:
                    items.append(Item("n", F(n["start"]), F(n["end"]), vel=n["vel"], pitch=60 + n["pitch"], track=0, channel=0, voice=v))
            if case.get("order") == "voice":
                pass                                     # voice after voice, as a writer that walks the voices would list them
            elif case.get("order") == "voice_rev":
                items.sort(key=lambda x: (-x.track, -x.voice, x.start))   # the last voice first; inside a voice always by onset
            else:
                items.sort(key=lambda x: x.start)
            if case.get("via_matrix") and not case.get("via_table"):
                # the alternative constructor of the voice-separation path: rows in the column order of Item.array()
                items = Item.frommatrix([it.array() for it in items])
            if case.get("via_table"):
                # the entry point of the MIDI import: a table of notes (exact quarter-note positions) turned into items by convert_to_items
                import pandas as pd
                from musiclang.analyze.item import convert_to_items
                rows = [{"onset_quarter": it.start, "duration_quarter": it.end - it.start, "velocity": it.vel, "pitch": it.pitch,
                         "track": it.track, "channel": it.channel, "voice": it.voice} for it in items]
                items = convert_to_items(pd.DataFrame(rows, dtype=object))
            chords = [mlang.mk_chord(c).set_duration(F(l)) for c, l in zip(case["chords"], case["lens"])]
            bars, t = [], F(0)
            for l in case["lens"]:
                bars.append((t, t + F(l))); t += F(l)
            sc = infer_score_with_chords_durations(items, chords, {0: "piano"}, bars)
            m = sg.merge_rows(sg.impl_rows(sc))
            names = list(dict.fromkeys(nm for ch in sc.chords for nm in ch.score.keys()))
            return {"score": sg.read_score(sc), "sound": {names[i]: v for i, v in m.items()},
                    "part_durs": [[F(mel.duration) for mel in ch.score.values()] for ch in sc.chords]}
        if not any(case["voices"]):
            return {"exc": "skip-empty", "msg": ""}
        return mlang.guarded(f)

    def tpq(self, case, r):
        xs = list(case["lens"]) + [n[k] for v in case["voices"] for n in v for k in ("start", "end")]
        if not mlang.is_exc(r):
            xs += [n["dur"] for c in r["score"] for _, notes in c["parts"] for n in notes]
        return lcm(*[F(x).denominator for x in xs])

    def term(self, case, r):
        tpq = self.tpq(case, r)
        tk = lambda x: Z(sg.ticks(x, tpq))
        bars = L([T(mlang.coq_chord(c), tk(l), tk(l)) for c, l in zip(case["chords"], case["lens"])])
        voices = L([T(S(f"piano__{v}"), L([f"(mkIN {tk(n['start'])} {tk(n['end'])} {Z(n['pitch'])} {Z(n['vel'])})" for n in notes]))
                    for v, notes in enumerate(case["voices"])])
        exp = "None" if mlang.is_exc(r) else "(Some " + sg.coq_rscore(r["score"], tpq) + ")"
        return T(bars, voices, exp)

    def spec(self, case, r):
        if mlang.is_exc(r):
            if r["exc"] == "skip-empty":
                return None
            return {"sig": "import-raises", "msg": str(r)}
        # every produced part lasts its bar
        for ci, (durs, l) in enumerate(zip(r["part_durs"], case["lens"])):
            if any(d != F(l) for d in durs):
                return {"sig": "import-bar-length", "msg": f"bar {ci}: parts last {durs}, bar is {l}"}
        for v, notes in enumerate(case["voices"]):
            want = [[n["pitch"], F(n["start"]), F(n["end"]) - F(n["start"]), n["vel"]] for n in notes]
            got = r["sound"].get(f"piano__{v}", [])
            if got != want:
                crossing = [w for w, g in zip(want, got) if w != g][:1]
                return {"sig": "import-loses-note-data", "msg": f"voice {v}: imported {got[:5]}, input {want[:5]}; first difference {crossing}"}
        return None

    def features(self, case):
        f = []
        bounds, t = [], F(0)
        for l in case["lens"]:
            t += F(l); bounds.append(t)
        cross = max((sum(1 for b in bounds if F(n["start"]) < b < F(n["end"])) for v in case["voices"] for n in v), default=0)
        f.append(f"max-bar-lines-crossed={min(cross, 3)}")
        return f

    def nontrivial(self, case, r):
        return "max-bar-lines-crossed=0" not in self.features(case)

    def hist_keys(self, case, r):
        return self.features(case) + (["import-exc"] if mlang.is_exc(r) else [])

    def shrink(self, case):
        vs = case["voices"]
        for i in range(len(vs)):
            if len(vs) > 1:
                yield dict(case, voices=vs[:i] + vs[i + 1:])
        for i, v in enumerate(vs):
            for j in range(len(v)):
                yield dict(case, voices=vs[:i] + [v[:j] + v[j + 1:]] + vs[i + 1:])

    def model_answer(self, case, r):
        return None


class ImportTracks(Stream):
    """several MIDI tracks / channels, possibly mapped to the same instrument: every input note comes back exactly once"""
    name = "import_tracks"
    checker = None
    pair = "property oracle: the multiset of sounding notes of infer_score_with_chords_durations over 2..3 tracks = the input notes"
    quick, thorough = 300, 5000

    def gen(self, rng, n):
        for _ in range(n):
            nb = rng.randrange(1, 5)
            lens = [F(rng.choice([2, 3, 4, 4]))] * nb
            chords = []
            for _ in range(nb):
                c = rand_chord(rng, modifiers=0.0)
                c.pop("ton_none", None)
                c["toct"] = 0; c["coct"] = 0; c["fig"] = rng.choice(["", "6", "7"])
                chords.append(c)
            ntr = rng.randrange(2, 4)
            tracks = [rand_voices(rng, nb, lens) for _ in range(ntr)]
            while not all(any(v) for v in tracks):
                tracks = [rand_voices(rng, nb, lens) for _ in range(ntr)]
            instr = rng.choice([["piano"] * ntr, ["piano", "violin", "piano"][:ntr], ["flute", "flute", "cello"][:ntr],
                                # pitched General MIDI instruments whose name contains 'drum': not drum kits
                                ["steel_drums", "piano", "taiko_drum"][:ntr], ["synth_drum", "synth_drum", "violin"][:ntr]])
            yield {"chords": chords, "lens": lens, "tracks": tracks, "instr": instr, "via_table": rng.random() < 0.5,
                   "order": rng.choice(["onset", "onset", "voice", "voice_rev"]), "via_matrix": rng.random() < 0.5}

    def impl(self, case):
        from musiclang.analyze.to_musiclang import infer_score_with_chords_durations
        from musiclang.analyze.item import Item
        def f():
            items = []
            for ti, voices in enumerate(case["tracks"]):
                for v, notes in enumerate(voices):
                    for n in notes:
                        items.append(Item("n", F(n["start"]), F(n["end"]), vel=n["vel"], pitch=60 + n["pitch"], track=ti, channel=ti, voice=v))
            if case.get("order") == "voice":
                pass                                     # voice after voice, as a writer that walks the voices would list them
            elif case.get("order") == "voice_rev":
                items.sort(key=lambda x: (-x.track, -x.voice, x.start))   # the last voice first; inside a voice always by onset
            else:
                items.sort(key=lambda x: x.start)
            if case.get("via_matrix") and not case.get("via_table"):
                # the alternative constructor of the voice-separation path: rows in the column order of Item.array()
                items = Item.frommatrix([it.array() for it in items])
            if case.get("via_table"):
                # the entry point of the MIDI import: a table of notes (exact quarter-note positions) turned into items by convert_to_items
                import pandas as pd
                from musiclang.analyze.item import convert_to_items
                rows = [{"onset_quarter": it.start, "duration_quarter": it.end - it.start, "velocity": it.vel, "pitch": it.pitch,
                         "track": it.track, "channel": it.channel, "voice": it.voice} for it in items]
                items = convert_to_items(pd.DataFrame(rows, dtype=object))
            chords = [mlang.mk_chord(c).set_duration(F(l)) for c, l in zip(case["chords"], case["lens"])]
            bars, t = [], F(0)
            for l in case["lens"]:
                bars.append((t, t + F(l))); t += F(l)
            sc = infer_score_with_chords_durations(items, chords, {i: nm for i, nm in enumerate(case["instr"])}, bars)
            m = sg.merge_rows(sg.impl_rows(sc))
            names = list(dict.fromkeys(nm for ch in sc.chords for nm in ch.score.keys()))
            return {"sound": {names[i]: v for i, v in m.items()}, "names": names}
        return mlang.guarded(f)

    def spec(self, case, r):
        if mlang.is_exc(r):
            return {"sig": "import-tracks-raises", "msg": str(r)}
        want = sorted([n["pitch"], F(n["start"]), F(n["end"]) - F(n["start"]), n["vel"]] for voices in case["tracks"] for v in voices for n in v)
        got = sorted(e for evs in r["sound"].values() for e in evs)
        if got != want:
            missing = [w for w in want if w not in got][:3]
            return {"sig": "import-tracks-lose-notes", "msg": f"{len(want)} notes in, {len(got)} out; e.g. missing {missing}; parts {r['names']}"}
        # a part belongs to the instrument of its track
        by_instr = {}
        for nm in r["names"]:
            if not r["sound"].get(nm):
                continue        # a bar in which nothing sounds is written as a rest on a placeholder part (piano__0): not a note of any track
            by_instr.setdefault(nm.split("__")[0], 0)
            by_instr[nm.split("__")[0]] += 1
        if set(by_instr) - set(case["instr"]):
            return {"sig": "import-tracks-wrong-instrument", "msg": str(r["names"])}
        return None

    def nontrivial(self, case, r):
        return len(set(case["instr"])) < len(case["instr"])

    def shrink(self, case):
        for ti, voices in enumerate(case["tracks"]):
            for vi, v in enumerate(voices):
                if len(v) > 1:
                    t2 = [list(x) for x in case["tracks"]]
                    t2[ti] = voices[:vi] + [v[:-1]] + voices[vi + 1:]
                    yield dict(case, tracks=t2)


def streams():
    return [Parse(), Import(), ImportTracks()]

"""C20 - equality is an equivalence and agrees with hashing."""
import copy
from fractions import Fraction as F
from harness.main import Stream
from harness import core, mlang
from harness.core import Z, S, L, O, T, B, Qc
from harness.mlang import MODES, ACCS, DYN, AMPFIG_C, rand_fnote
from harness.props.C01 import rand_chord
from harness.props.C04 import rand_ton, mk_ton, coq_t

MODEL_MODS = ["Model.Pitch", "Model.Ton", "Model.Code"]
RULE = ("pairs/triples of notes, tonalities, melodies, chords and scores that are equal, copies, enharmonic re-spellings, part "
        "re-orderings or differ in exactly one field (kind, value, octave, duration, mode, accidental, amplitude, tags, extension, "
        "tonality spelling); non-trivial = the two objects are not the same JSON; distinct = distinct canonical JSON")
TRUSTED = ["Python: equal tuples / strings / frozensets hash equal; set membership = hash equality and =="]
ASSUMPTIONS = ["Score defines __eq__ without __hash__ and is unhashable: the hash clause is stated for notes, tonalities, melodies, chords"]


def mutate_note(rng, n):
    m = dict(n)
    f = rng.choice(["kind", "val", "oct", "dur", "dur_near", "mode", "acc", "amp", "tags", "same", "same"])
    if f == "kind" and n["kind"] not in "rl":
        m["kind"] = rng.choice([k for k in "shcba" if k != n["kind"]]); m.pop("acc", None)
        if m["kind"] == "a": m.pop("dir", None)
    elif f == "val" and n["kind"] not in "rl":
        m["val"] = (n["val"] + 1) % 7
    elif f == "oct" and n["kind"] not in "rl":
        m["oct"] = n["oct"] + 1
    elif f == "dur":
        m["dur"] = F(n["dur"]) * 2
    elif f == "dur_near":
        # a duration less than 1/1000 of a quarter away, itself stored exactly (denominator <= 1000): 1/3 vs 333/1000, 1/2 vs 499/999 ...
        d = (F(n["dur"]) + rng.choice([1, -1]) * F(rng.choice([4, 5, 6, 7, 8, 9]), 10000)).limit_denominator(1000)
        m["dur"] = d if d > 0 and d != F(n["dur"]) else F(n["dur"]) * 2
    elif f == "mode" and n["kind"] in "sh":
        m["mode"] = rng.choice([x for x in MODES if x != n.get("mode")])
    elif f == "acc" and n["kind"] == "s" and not n.get("dir"):
        m["acc"] = rng.choice([x for x in ACCS if x != n.get("acc")])
    elif f == "amp" and n["kind"] not in "rl":
        m["amp"] = rng.choice([x for x in list(DYN) + [30, 90] if x != n.get("amp")])
    elif f == "tags":
        m["tags"] = sorted(set(n.get("tags", [])) ^ {"z"})
    return m


def hash_or_exc(x):
    try:
        return hash(x)
    except Exception as e:
        return "exc:" + type(e).__name__


def relation_report(objs, mask_factory=None):
    """objs = [a, b, c] live objects of one kind: eq matrix, hashes, set membership, copy equality"""
    a, b, c = objs
    eq = [[bool(x == y) for y in objs] for x in objs]
    hs = [hash_or_exc(x) for x in objs]
    out = {"eq": eq, "hash_equal": [[hs[i] == hs[j] and not str(hs[i]).startswith("exc") for j in range(3)] for i in range(3)],
           "hash_exc": [str(h) for h in hs if str(h).startswith("exc")],
           "copy": [bool(x.copy() == x) and bool(copy.deepcopy(x) == x) for x in objs]}
    try:
        out["in_set"] = [[bool(x in {y}) for y in objs] for x in objs]
        out["dict_key"] = bool({a: 1}.get(b) == 1) if eq[0][1] else None
    except Exception as e:
        out["in_set"] = "exc:" + type(e).__name__
    if mask_factory:
        out["mask"] = [[bool(mask_factory([y])(x)) for y in objs] for x in objs]
    return out


def judge(r, kind, hashable=True):
    eq = r["eq"]
    for i in range(3):
        if not eq[i][i]:
            return {"sig": f"{kind}-eq-not-reflexive", "msg": str(eq)}
        if not r["copy"][i]:
            return {"sig": f"{kind}-copy-not-equal", "msg": str(r["copy"])}
        for j in range(3):
            if eq[i][j] != eq[j][i]:
                return {"sig": f"{kind}-eq-not-symmetric", "msg": str(eq)}
            for k in range(3):
                if eq[i][j] and eq[j][k] and not eq[i][k]:
                    return {"sig": f"{kind}-eq-not-transitive", "msg": str(eq)}
    if hashable:
        if r["hash_exc"]:
            return {"sig": f"{kind}-hash-raises", "msg": str(r["hash_exc"])}
        for i in range(3):
            for j in range(3):
                if eq[i][j] and not r["hash_equal"][i][j]:
                    return {"sig": f"{kind}-equal-but-different-hash", "msg": f"objects {i},{j} compare equal, hashes differ"}
                if isinstance(r.get("in_set"), list) and r["in_set"][i][j] != eq[i][j]:
                    return {"sig": f"{kind}-set-membership-disagrees-with-eq", "msg": f"{i} in {{{j}}} = {r['in_set'][i][j]}, == is {eq[i][j]}"}
                if "mask" in r and r["mask"][i][j] != eq[i][j]:
                    return {"sig": f"{kind}-in-mask-disagrees-with-eq", "msg": f"mask([{j}])({i}) = {r['mask'][i][j]}, == is {eq[i][j]}"}
        if r.get("dict_key") is False:
            return {"sig": f"{kind}-dict-key-not-interchangeable", "msg": ""}
    return None


class NoteEq(Stream):
    name = "note_eq"
    mods = MODEL_MODS
    checker = "check_note_eq"
    pair = "Note.__eq__ (+ __hash__, set membership, Mask.NoteIn) <-> Code.note_eqb"
    quick, thorough = 2500, 40000

    def gen(self, rng, n):
        for _ in range(n):
            a = rand_fnote(rng, kinds="ssshhcbarl")
            b = mutate_note(rng, a)
            c = mutate_note(rng, b)
            yield {"a": a, "b": b, "c": c}

    def impl(self, case):
        from musiclang.transform.mask import NoteInMask
        objs = [mlang.mk_fnote(case[k]) for k in "abc"]
        return relation_report(objs, lambda l: NoteInMask(l))

    def term(self, case, r):
        return T(mlang.coq_fnote(case["a"]), mlang.coq_fnote(case["b"]), B(r["eq"][0][1]))

    def spec(self, case, r):
        return judge(r, "note")

    def nontrivial(self, case, r):
        return case["a"] != case["b"]

    def hist_keys(self, case, r):
        return ["note-pair-equal" if r["eq"][0][1] else "note-pair-different"]

    def shrink(self, case):
        for k in "abc":
            for f in ("tags", "mode", "acc", "amp", "dir"):
                if case[k].get(f):
                    yield dict(case, **{k: {kk: v for kk, v in case[k].items() if kk != f}})


class AmpFigure(Stream):
    name = "amp_figure"
    mods = MODEL_MODS
    checker = "check_amp_figure"
    pair = "NoteProperties.amp_figure (floats) <-> Code.amp_figure (exact rationals)"
    quick, thorough = 140, 140

    def gen(self, rng, n):
        for a in range(128):
            yield {"amp": a}
        for d in DYN:
            yield {"amp": d}

    def impl(self, case):
        from musiclang import Note
        return Note("s", 0, 0, 1, amp=mlang.amp_live(case["amp"])).amp_figure

    def term(self, case, r):
        return T(Qc(mlang.amp_q(case["amp"])), AMPFIG_C[r])

    def spec(self, case, r):
        if isinstance(case["amp"], str) and r != case["amp"]:
            return {"sig": "dynamics-figure-roundtrip", "msg": f".{case['amp']} reads back as {r}"}
        return None


class TonEq(Stream):
    name = "tonality_eq"
    checker = None
    pair = "property oracle on Tonality.__eq__/__hash__/TonalityInMask (the model of __eq__ is tied in C04)"
    quick, thorough = 1500, 20000

    def gen(self, rng, n):
        for i in range(n):
            a = rand_ton(rng)
            sh = rng.randrange(-2, 3)
            b = {"deg": a["deg"] + 12 * sh, "mode": a["mode"], "oct": a["oct"] - sh} if i % 2 else rand_ton(rng)
            c = {"deg": b["deg"] % 12, "mode": b["mode"], "oct": b["oct"] + b["deg"] // 12} if i % 3 else rand_ton(rng)
            yield {"a": a, "b": b, "c": c}

    def impl(self, case):
        from musiclang.transform.mask import TonalityInMask
        from musiclang import Chord
        objs = [mk_ton(case[k]) for k in "abc"]
        return relation_report(objs, lambda l: (lambda t: TonalityInMask(l)(Chord(0, tonality=t))))

    def spec(self, case, r):
        f = judge(r, "tonality")
        if f:
            return f
        nm = lambda t: (t["deg"] % 12, t["mode"], t["oct"] + t["deg"] // 12)
        if r["eq"][0][1] != (nm(case["a"]) == nm(case["b"])):
            return {"sig": "enharmonic-equality", "msg": f"{case['a']} == {case['b']} is {r['eq'][0][1]}"}
        return None

    def nontrivial(self, case, r):
        return case["a"] != case["b"]


def rand_melody(rng, plain=False):
    return [rand_fnote(rng, plain=plain) for _ in range(rng.randrange(1, 5))]


class MelodyEq(Stream):
    name = "melody_eq"
    mods = MODEL_MODS
    checker = "check_melody_eq"
    pair = "Melody.__eq__ (equality of printed code) (+ __hash__) <-> Code.melody_eqb over Code.note_code"
    quick, thorough = 2000, 30000

    def gen(self, rng, n):
        for _ in range(n):
            a = rand_melody(rng)
            b = list(a)
            if rng.random() < 0.7:
                i = rng.randrange(len(b))
                b[i] = mutate_note(rng, b[i])
            c = list(b)
            if rng.random() < 0.4:
                c = c + [rand_fnote(rng)]
            yield {"a": a, "b": b, "c": c}

    def impl(self, case):
        objs = [mlang.mk_melody(case[k]) for k in "abc"]
        r = relation_report(objs)
        r["codes"] = [str(o) for o in objs]
        return r

    def term(self, case, r):
        return T(mlang.coq_melody(case["a"]), mlang.coq_melody(case["b"]), B(r["eq"][0][1]))

    def spec(self, case, r):
        return judge(r, "melody")

    def nontrivial(self, case, r):
        return case["a"] != case["b"]

    def hist_keys(self, case, r):
        return ["melody-pair-equal" if r["eq"][0][1] else "melody-pair-different"]

    def shrink(self, case):
        for k in "abc":
            if len(case[k]) > 1:
                yield dict(case, **{k: case[k][1:]})
                yield dict(case, **{k: case[k][:-1]})


def rand_fchord(rng):
    c = rand_chord(rng, modifiers=0.15)
    c.pop("ton_none", None)
    names = rng.sample(["piano__0", "violin__0", "flute__1", "cello__0"], rng.randrange(0, 4))
    c["parts"] = [[nm, rand_melody(rng, plain=rng.random() < 0.5)] for nm in names]
    return c


def mutate_chord(rng, c):
    m = copy.deepcopy(c)
    f = rng.choice(["same", "order", "respell", "elem", "fig", "fig5", "oct", "part", "mode", "same"])
    if f == "order":
        rng.shuffle(m["parts"])
    elif f == "respell":
        sh = rng.choice([-1, 1])
        m["tdeg"], m["toct"] = m["tdeg"] + 12 * sh, m["toct"] - sh
    elif f == "elem":
        m["elem"] = (m["elem"] + 1) % 7
    elif f == "fig":
        m["fig"] = "7" if m["fig"] != "7" else "6"; m.pop("repl", None); m.pop("adds", None); m.pop("rems", None)
    elif f == "fig5" and not (m.get("repl") or m.get("adds") or m.get("rems")):
        # the two spellings of a root position triad
        m["fig"] = {"": "5", "5": ""}.get(m["fig"], "5")
    elif f == "oct":
        m["coct"] += 1
    elif f == "part" and m["parts"]:
        i = rng.randrange(len(m["parts"]))
        j = rng.randrange(len(m["parts"][i][1]))
        m["parts"][i][1][j] = mutate_note(rng, m["parts"][i][1][j])
    elif f == "mode":
        m["tmode"] = "m" if m["tmode"] != "m" else "M"
    return m


class ChordEq(Stream):
    name = "chord_eq"
    mods = MODEL_MODS
    checker = "check_chord_eq"
    pair = "Chord.__eq__ (chord_equals + score_equals) (+ __hash__, Mask.ChordIn) <-> Code.fchord_eqb"
    quick, thorough = 1500, 20000

    def gen(self, rng, n):
        for _ in range(n):
            a = rand_fchord(rng)
            b = mutate_chord(rng, a)
            c = mutate_chord(rng, b)
            yield {"a": a, "b": b, "c": c}

    def impl(self, case):
        from musiclang.transform.mask import ChordInMask
        def f():
            objs = [mlang.mk_fchord(case[k]) for k in "abc"]
            return relation_report(objs, lambda l: ChordInMask(l))
        return mlang.guarded(f)

    def term(self, case, r):
        return T(mlang.coq_fchord(case["a"]), mlang.coq_fchord(case["b"]), B(r["eq"][0][1]))

    def spec(self, case, r):
        if mlang.is_exc(r):
            return {"sig": "chord-eq-raises", "msg": str(r)}
        return judge(r, "chord")

    def nontrivial(self, case, r):
        return case["a"] != case["b"]

    def hist_keys(self, case, r):
        return ["chord-pair-equal" if (not mlang.is_exc(r) and r["eq"][0][1]) else "chord-pair-different"]

    def shrink(self, case):
        for k in "abc":
            c = case[k]
            if c.get("parts"):
                yield dict(case, **{k: dict(c, parts=c["parts"][1:])})
            for f in ("repl", "adds", "rems"):
                if c.get(f):
                    yield dict(case, **{k: {kk: v for kk, v in c.items() if kk != f}})


class ScoreEq(Stream):
    name = "score_eq"
    mods = MODEL_MODS
    checker = "check_score_eq"
    pair = "Score.__eq__ <-> Code.score_eqb"
    quick, thorough = 600, 8000

    def gen(self, rng, n):
        for _ in range(n):
            a = [rand_fchord(rng) for _ in range(rng.randrange(1, 4))]
            b = [mutate_chord(rng, c) if rng.random() < 0.5 else copy.deepcopy(c) for c in a]
            c = b + ([rand_fchord(rng)] if rng.random() < 0.3 else [])
            yield {"a": a, "b": b, "c": c}

    def impl(self, case):
        def f():
            objs = [mlang.mk_score(case[k]) for k in "abc"]
            eq = [[bool(x == y) for y in objs] for x in objs]
            return {"eq": eq, "copy": [bool(x.copy() == x) and bool(copy.deepcopy(x) == x) for x in objs]}
        return mlang.guarded(f)

    def term(self, case, r):
        # the pair (b, c) when c is b extended by a chord (scores of different lengths), else (a, b)
        if len(case["c"]) != len(case["b"]):
            return T(L([mlang.coq_fchord(c) for c in case["b"]]), L([mlang.coq_fchord(c) for c in case["c"]]), B(r["eq"][1][2]))
        return T(L([mlang.coq_fchord(c) for c in case["a"]]), L([mlang.coq_fchord(c) for c in case["b"]]), B(r["eq"][0][1]))

    def spec(self, case, r):
        if mlang.is_exc(r):
            return {"sig": "score-eq-raises", "msg": str(r)}
        objs = [case[k] for k in "abc"]
        for i in range(3):
            for j in range(3):
                if len(objs[i]) != len(objs[j]) and r["eq"][i][j]:
                    return {"sig": "score-eq-different-length", "msg": f"scores of {len(objs[i])} and {len(objs[j])} chords compare equal"}
        return judge(r, "score", hashable=False)

    def nontrivial(self, case, r):
        return case["a"] != case["b"]


BASES = ["s0", "s3", "h5", "c1", "b0", "a4", "su1", "hd2", "cu1", "bd1", "r", "l", "x0", "d3"]
SUFFIXES = ["w", "h", "q", "e", "s", "t", "t7", "e5", "s3", "q7", "t5", "d", "dd"]


def rand_steps(rng):
    out = []
    for _ in range(rng.randrange(0, 5)):
        k = rng.choice(["suf", "suf", "o", "oabs", "aug", "dur", "amp", "tag", "tag", "untag", "tags", "dyn", "acc", "mode"])
        if k == "suf": out.append(["suf", rng.choice(SUFFIXES)])
        elif k == "o": out.append(["o", rng.randrange(-2, 3)])
        elif k == "oabs": out.append(["oabs", rng.randrange(-2, 3)])
        elif k == "aug": out.append(["aug", str(F(rng.randrange(1, 9), rng.randrange(1, 9)))])
        elif k == "dur": out.append(["dur", str(F(rng.randrange(1, 40), rng.choice([1, 2, 3, 7, 16, 1001, 4096])))])
        elif k == "amp": out.append(["amp", rng.randrange(0, 128)])
        elif k == "tag": out.append(["tag", rng.choice(["x", "y"] + ["t%d" % j for j in range(40)])])
        elif k == "untag": out.append(["untag", rng.randrange(8)])
        elif k == "tags": out.append(["tags", ["t%d" % rng.randrange(40) for _j in range(rng.randrange(2, 6))]])
        elif k == "dyn": out.append(["dyn", rng.choice(list(DYN))])
        elif k == "acc": out.append(["acc", rng.choice(ACCS)])
        elif k == "mode": out.append(["mode", rng.choice(MODES)])
    return out


def build_note(base, steps):
    import musiclang.library as lib
    n = getattr(lib, base)
    for k, v in steps:
        if k == "suf": n = getattr(n, v)
        elif k == "o": n = n.o(v)
        elif k == "oabs": n = n.oabs(v)
        elif k == "aug": n = n.augment(F(v))
        elif k == "dur": n = n.set_duration(F(v))
        elif k == "amp": n = n.set_amp(v)
        elif k == "tag": n = n.add_tag(v)
        elif k == "untag":
            if n.tags: n = n.remove_tag(sorted(n.tags)[v % len(n.tags)])     # a tag set that has lost a member (its hash table keeps the hole)
        elif k == "tags": n = n.add_tags(v)
        elif k in ("dyn", "acc", "mode"): n = getattr(n, v)
    return n


class BuiltEq(Stream):
    """objects reached through the library's own operations (suffix chains, octave moves, dynamics, tags...) rather than through
    the constructor: each must equal its copy and its deep copy, hash like them, and so must melodies, chords and scores made of them"""
    name = "built_eq"
    checker = None
    pair = "property oracle: x == x.copy() == deepcopy(x), equal hashes, for notes/melodies/chords/scores built by chained library operations"
    quick, thorough = 1500, 20000

    def gen(self, rng, n):
        for _ in range(n):
            case = {"notes": [[rng.choice(BASES), rand_steps(rng)] for _ in range(rng.randrange(1, 4))]}
            if rng.random() < 0.5:
                # a chord written with the figure syntax chord['...']: the modifiers in any order, several removals included
                from musiclang.write import library as wl
                mods = (["(%s)" % x for x in rng.sample(sorted(wl.DICT_REPLACEMENT), rng.choice([0, 0, 1]))] +
                        ["[%s]" % x for x in rng.sample(sorted(wl.DICT_ADDITION), rng.choice([0, 0, 1, 2]))] +
                        ["{%s}" % x for x in rng.sample(sorted(wl.DICT_REMOVAL), rng.choice([0, 1, 2, 2, 3]))])
                rng.shuffle(mods)
                case["figure"] = [rng.choice(["I", "II", "IV", "V", "VII"]), rng.choice(["", "6", "64", "7", "65", "2", "9", "11", "13"]) + "".join(mods)]
            yield case

    def impl(self, case):
        from musiclang import Melody
        import musiclang.library as lib
        def f():
            notes = [build_note(b, st) for b, st in case["notes"]]
            mel = Melody([x.copy() for x in notes])
            chord = (lib.I % lib.I.M)(piano__0=mel, violin__0=notes[0])
            score = chord + (lib.V % lib.I.M)(piano__0=mel)
            out = {}
            # a part holding an empty melody (the tail of a slice), and an object hashed BEFORE it is edited with the in-place forms
            hollow = (lib.I % lib.I.M)(piano__0=mel, violin__0=mel[len(mel.notes):])
            if not (hollow == hollow.copy() and hash(hollow) == hash(hollow.copy()) and list(hollow.copy().score.keys()) == list(hollow.score.keys())):
                out.setdefault("chord", "copy-not-equal:empty-part")
            edited = (lib.V % lib.I.M)(piano__0=mel, violin__0=notes[0])
            _ = hash(edited), {edited: 1}
            edited.score["violin__0"] = Melody([notes[-1].copy(), notes[0].copy()])
            fresh = (lib.V % lib.I.M)(piano__0=mel, violin__0=Melody([notes[-1].copy(), notes[0].copy()]))
            if not (edited == fresh and hash(edited) == hash(fresh) and edited in {fresh}):
                out.setdefault("chord", "stale-hash-after-in-place-edit")
            # a custom chord (a tonality called with notes): it equals its copies, hashes like them and can be looked up in a set
            pitched = [x for x in notes if x.type in ("s", "h")]
            if pitched:
                try:
                    custom = lib.I.M(*[x.copy() for x in pitched])(piano__0=mel)
                except Exception:
                    custom = None
                if custom is not None:
                    cc, dc = custom.copy(), copy.deepcopy(custom)
                    if not (custom == cc and cc == custom and custom == dc): out.setdefault("chord", "copy-not-equal:custom-chord")
                    else:
                        try:
                            ok = hash(custom) == hash(cc) == hash(dc) and cc in {custom}
                        except TypeError:
                            ok = False                     # equal objects must have equal hashes: a chord that compares but cannot be hashed has none
                        if not ok: out.setdefault("chord", "copy-hash-differs:custom-chord")
            if case.get("figure"):
                try:
                    fc = (getattr(lib, case["figure"][0]) % lib.II.m)(piano__0=mel)[case["figure"][1]]       # the figure is the last thing written
                except Exception:
                    fc = None                              # a figure the library rejects builds nothing to compare
                if fc is not None:
                    for other, how in ((fc.copy(), "copy"), (copy.deepcopy(fc), "deepcopy"), (fc.o(1).o(-1), "o(1).o(-1)"), ((fc + fc).copy().chords[0], "Score.copy")):
                        if not (fc == other and other == fc): out.setdefault("chord", f"{how}-not-equal:figure-syntax")
                        elif not (hash(fc) == hash(other) and other in {fc}): out.setdefault("chord", f"{how}-hash-differs:figure-syntax")
            for nm, objs in (("note", notes), ("melody", [mel]), ("chord", [chord]), ("score", [score])):
                for x in objs:
                    cp, dc = x.copy(), copy.deepcopy(x)
                    if not (x == x): out.setdefault(nm, "not-reflexive")
                    if not (cp == x and x == cp): out.setdefault(nm, "copy-not-equal")
                    if not (dc == x and x == dc): out.setdefault(nm, "deepcopy-not-equal")
                    if nm != "score" and not (hash(cp) == hash(x) == hash(dc)): out.setdefault(nm, "copy-hash-differs")
            return out
        return mlang.guarded(f)

    def spec(self, case, r):
        if mlang.is_exc(r):
            return None     # an operation the library rejects (e.g. an accidental on a rest) builds nothing to compare
        for nm in ("note", "melody", "chord", "score"):
            if nm in r:
                return {"sig": f"{nm}-built-{r[nm]}", "msg": f"{nm} built from {case['notes']}: {r[nm]}"}
        return None

    def nontrivial(self, case, r):
        return not mlang.is_exc(r) and any(st for _, st in case["notes"])

    def hist_keys(self, case, r):
        return ["built-raises" if mlang.is_exc(r) else "built-ok"] + ["step-" + st[0] for _, sts in case["notes"] for st in sts]

    def shrink(self, case):
        ns = case["notes"]
        if len(ns) > 1:
            for i in range(len(ns)):
                yield {"notes": ns[:i] + ns[i + 1:]}
        for i, (b, st) in enumerate(ns):
            for j in range(len(st)):
                yield {"notes": ns[:i] + [[b, st[:j] + st[j + 1:]]] + ns[i + 1:]}


def read_fnote(n):
    """every field of a live note, exactly (the dynamics as the rational the stored int/float denotes)"""
    t = n.type
    kind, d = (t[0], t[1:]) if len(t) == 2 and t[1] in "ud" and t[0] in "shcb" else (t, "")
    out = {"kind": kind, "dir": d, "val": int(n.val), "oct": int(n.octave), "dur": F(n.duration), "amp": F(n.amp), "tags": sorted(n.tags)}
    if n.mode is not None: out["mode"] = n.mode
    if n.accident is not None: out["acc"] = n.accident
    return out


def coq_fnote_exact(n):
    tags = L([S(t) for t in n["tags"]])
    return (f"(mkF {mlang.KIND_C[n['kind']]} {mlang.DIR_C[n['dir']]} {Z(n['val'])} {Z(n['oct'])} {Qc(n['dur'])} "
            f"{O(n.get('mode'), lambda m: mlang.MODE_C[m])} {O(n.get('acc'), lambda a: mlang.ACC_C[a])} {Qc(n['amp'])} {tags})")


class NoteCopy(Stream):
    """Note.copy / Silence.copy / Continuation.copy field by field against Copy.note_copy"""
    name = "note_copy"
    mods = MODEL_MODS + ["Model.Copy"]
    checker = "check_note_copy"
    pair = "Note.copy / Silence.copy / Continuation.copy (every field of the copy) <-> Copy.note_copy"
    quick, thorough = 1500, 20000

    def gen(self, rng, n):
        for _ in range(n):
            yield {"base": rng.choice(BASES), "steps": rand_steps(rng)}

    def impl(self, case):
        def f():
            x = build_note(case["base"], case["steps"])
            return {"note": read_fnote(x), "copy": read_fnote(x.copy())}
        return mlang.guarded(f)

    def skip(self, case, r):
        return mlang.is_exc(r) or r["note"]["kind"] not in mlang.KIND_C

    def term(self, case, r):
        if self.skip(case, r):
            # an operation the library rejects builds no note: a trivially true instance keeps the case stream aligned
            z = {"kind": "s", "dir": "", "val": 0, "oct": 0, "dur": F(1), "amp": F(66), "tags": []}
            return T(coq_fnote_exact(z), coq_fnote_exact(z))
        return T(coq_fnote_exact(r["note"]), coq_fnote_exact(r["copy"]))

    def spec(self, case, r):
        if self.skip(case, r):
            return None
        a, b = r["note"], r["copy"]
        for k in ("kind", "dir", "val", "oct", "dur", "mode"):
            if a.get(k) != b.get(k):
                return {"sig": f"copy-changes:{k}", "msg": f"{case}: {k} {a.get(k)} -> {b.get(k)} (a field == compares)"}
        return None

    def nontrivial(self, case, r):
        return not self.skip(case, r) and bool(case["steps"])

    def hist_keys(self, case, r):
        return ["copy-skip" if self.skip(case, r) else "copy-kind=" + r["note"]["kind"]]

    def shrink(self, case):
        st = case["steps"]
        for j in range(len(st)):
            yield dict(case, steps=st[:j] + st[j + 1:])


class TagText(Stream):
    """the text of a note lists its tag SET in sorted order whatever the history of the set (insertions in any order, members removed
    in between): the printed list against Tags.sort_tags, and against the text of a note that received the same set in one go"""
    name = "tag_text"
    mods = MODEL_MODS + ["Model.Tags"]
    checker = "check_sort_tags"
    pair = "the tag list printed by Note.to_code (sorted(repr(tag))) <-> Tags.sort_tags; oracle: same set => same text, equal melodies, equal hashes"
    quick, thorough = 600, 8000
    WORDS = ["a", "b", "ab", "aB", "Ab", "a_b", "a1", "a10", "a2", "staccato", "accent", "x", "X", "z9", "_t", "t_", "step_s0", "step_s1", "T", "0", "10", "9", "a!", "a b", "a#", "ab!"] + ["t%d" % j for j in range(40)]

    def gen(self, rng, n):
        for _ in range(n):
            k = rng.randrange(1, 9)
            tags = rng.sample(self.WORDS, k)
            drop = [t for t in tags if rng.random() < 0.25]
            extra = rng.sample(self.WORDS, 2)
            yield {"add": tags, "drop": drop, "extra": extra}

    def impl(self, case):
        import ast, re
        import musiclang.library as lib
        from musiclang import Score
        def f():
            n = lib.s0
            for t in case["add"] + case["extra"]:
                n = n.add_tag(t)
            for t in case["extra"] + case["drop"]:
                if t in n.tags:
                    n = n.remove_tag(t)
            final = [t for t in case["add"] if t not in case["drop"] and not (t in case["extra"])]
            other = lib.s0.add_tags(list(reversed(final))) if final else lib.s0
            m1, m2 = n + lib.s1, other + lib.s1
            txt = str(n)
            mt = re.search(r"add_tags\((\{.*\})\)", txt)
            printed = [] if mt is None else list(ast.literal_eval("[" + mt.group(1)[1:-1] + "]"))
            back = Score.from_str(str(m1))
            return {"raw": list(n.tags), "printed": printed, "final": sorted(final), "same_text": str(m1) == str(m2), "eq": bool(m1 == m2 and m2 == m1),
                    "hash": hash(m1) == hash(m2), "copy": bool(m1 == m1.copy() and hash(m1) == hash(m1.copy())),
                    "reread": bool(back == m1) and set(back.notes[0].tags) == set(n.tags)}
        return mlang.guarded(f)

    def term(self, case, r):
        return T(L([S(t) for t in r["raw"]]), L([S(t) for t in r["printed"]]))

    def spec(self, case, r):
        if mlang.is_exc(r):
            return {"sig": "tag-text-raises", "msg": str(r)}
        if sorted(r["printed"]) != r["final"] or sorted(r["raw"]) != r["final"]:
            return {"sig": "tag-text-members", "msg": f"the set is {r['final']}, the text lists {r['printed']}"}
        for k, sig in (("same_text", "tag-text-depends-on-history"), ("eq", "melody-equal-tags-not-equal"), ("hash", "melody-equal-tags-different-hash"),
                       ("copy", "melody-with-tags-not-equal-to-copy"), ("reread", "melody-with-tags-text-not-equal")):
            if not r[k]:
                return {"sig": sig, "msg": f"tags added {case['add'] + case['extra']}, removed {case['extra'] + case['drop']}: printed {r['printed']}"}
        return None

    def nontrivial(self, case, r):
        return not mlang.is_exc(r) and len(r["final"]) > 1

    def hist_keys(self, case, r):
        return ["tags=%d" % (len(r["final"]) if not mlang.is_exc(r) else -1)]

    def shrink(self, case):
        for i in range(len(case["add"])):
            if len(case["add"]) > 1:
                yield dict(case, add=case["add"][:i] + case["add"][i + 1:])


def streams():
    return [NoteEq(), AmpFigure(), TonEq(), MelodyEq(), ChordEq(), ScoreEq(), BuiltEq(), NoteCopy(), TagText()]

"""C10 - durations are exact and add up."""
from fractions import Fraction as F
from harness.main import Stream
from harness import core, mlang
from harness.core import Z, S, L, O, T, Qc

MODEL_MODS = ["Model.Dur"]
RULE = ("durations = table values, products of up to 3 suffixes, arbitrary rationals (in-domain: denominators <= 1000 after every "
        "operation; a separate out-of-domain stream exercises the limit_denominator model); melodies of 1..12 notes; scores of 1..4 "
        "chords x 0..3 parts; factors = random rationals; non-trivial = duration not in {1} / factor != 1")
TRUSTED = ["CPython 3.12 fractions.Fraction arithmetic and normalisation"]
ASSUMPTIONS = ["durations are non-negative rationals", "in-domain = every stored duration keeps a denominator <= 1000"]


def table():
    from musiclang.write.constants import STR_TO_DURATION
    return {k: F(v) for k, v in STR_TO_DURATION.items()}


SPEC_TABLE = {}
for _b, _v in zip("whqest", [F(4), F(2), F(1), F(1, 2), F(1, 4), F(1, 8)]):
    SPEC_TABLE[_b] = _v
    SPEC_TABLE[_b + "d"] = _v * F(3, 2)
    for _n in (3, 5, 7):
        SPEC_TABLE[_b + str(_n)] = _v * F(2, _n)
SPEC_TABLE["n"] = F(0)


def rand_dur(rng, in_domain=True):
    t = [v for v in SPEC_TABLE.values() if v > 0]
    w = rng.random()
    if w < 0.45:
        return rng.choice(t)
    if w < 0.65:
        return rng.choice(t) * rng.choice([1, 2, 3, 5, 7]) / rng.choice([1, 1, 2, 3])
    if w < 0.85 or in_domain:
        return F(rng.randrange(1, 60), rng.choice([1, 2, 3, 4, 5, 6, 7, 8, 9, 12, 16, 24, 28, 100, 999]))
    return F(rng.randrange(1, 5000), rng.randrange(1001, 200000))


def rand_factor(rng, in_domain=True):
    if in_domain:
        return F(rng.randrange(1, 30), rng.choice([1, 1, 2, 3, 4, 5, 7, 8, 11]))
    return F(rng.randrange(1, 3000), rng.randrange(1, 3000))


def fits(x):
    return F(x).denominator <= 1000


def Ql(l):
    return L([Qc(x) for x in l])


class NoteDur(Stream):
    name = "note_duration"
    mods = ["Model.Dur"]
    checker = "check_note_dur"
    pair = "Note.__init__/augment/set_duration (+ Fraction.limit_denominator) <-> Dur.note_new/note_augment/note_set_duration"
    quick, thorough = 2500, 50000

    def gen(self, rng, n):
        for i in range(n):
            dom = i % 3 != 0
            yield {"d": rand_dur(rng, dom), "k": rand_factor(rng, dom), "v": rand_dur(rng, dom)}

    def impl(self, case):
        from musiclang import Note
        nt = Note("s", 0, 0, F(case["d"]))
        return [F(nt.duration), F(nt.augment(F(case["k"])).duration), F(nt.set_duration(F(case["v"])).duration)]

    def term(self, case, r):
        return T(Qc(case["d"]), Qc(case["k"]), Qc(case["v"]), T(Qc(r[0]), Qc(r[1]), Qc(r[2])))

    def spec(self, case, r):
        d, k, v = F(case["d"]), F(case["k"]), F(case["v"])
        if fits(d) and r[0] != d:
            return {"sig": "note-duration-not-exact", "msg": f"{d} stored as {r[0]}"}
        if fits(d) and fits(d * k) and r[1] != d * k:
            return {"sig": "augment-not-exact", "msg": f"{d} * {k} = {r[1]}"}
        if fits(v) and r[2] != v:
            return {"sig": "set-duration-not-exact", "msg": f"set_duration({v}) = {r[2]}"}
        return None

    def nontrivial(self, case, r):
        return F(case["d"]) != 1 or F(case["k"]) != 1

    def hist_keys(self, case, r):
        return ["in-domain" if fits(case["d"]) and fits(F(case["d"]) * F(case["k"])) else "out-of-domain"]

    def shrink(self, case):
        for k in ("d", "k", "v"):
            if F(case[k]) != 1:
                yield dict(case, **{k: F(1)})


class Suffix(Stream):
    name = "suffix"
    mods = ["Model.Dur"]
    checker = "check_suffix"
    pair = "Note.__getattr__ (rhythmic suffix) <-> Dur.note_suffix"
    quick, thorough = 600, 5000

    def gen(self, rng, n):
        names = sorted(SPEC_TABLE) + ["zz", "q9"]
        for i in range(n):
            yield {"d": rand_dur(rng), "s": names[i % len(names)]}

    def impl(self, case):
        from musiclang import Note
        nt = Note("s", 0, 0, F(case["d"]))
        try:
            return F(getattr(nt, case["s"]).duration)
        except AttributeError:
            return {"exc": "AttributeError"}

    def term(self, case, r):
        return T(Qc(F(case["d"])), S(case["s"]), "None" if mlang.is_exc(r) else f"(Some {Qc(r)})")

    def spec(self, case, r):
        if case["s"] in SPEC_TABLE:
            want = F(case["d"]) * SPEC_TABLE[case["s"]]
            if mlang.is_exc(r) or r != want:
                return {"sig": f"suffix:{case['s']}", "msg": f"{case['d']}.{case['s']} = {r}, documented {want}"}
        return None


class MelodyDur(Stream):
    name = "melody_duration"
    mods = ["Model.Dur"]
    checker = "check_melody_dur"
    pair = "Melody.duration/get_onset_times/augment/set_duration <-> Dur.mel_dur/onset_times/mel_augment/mel_set_duration"
    quick, thorough = 1500, 30000

    def gen(self, rng, n):
        for i in range(n):
            dom = i % 4 != 0
            m = [rand_dur(rng, dom) for _ in range(rng.randrange(1, 13))]
            if i % 50 == 0:
                m = [F(0)] * rng.randrange(1, 3)
            # the target 0 (the ornaments ask for it on zero-length notes): never a division by the melody's length
            yield {"m": m, "k": rand_factor(rng, dom), "d": F(0) if i % 25 == 0 else rand_dur(rng, True)}

    def impl(self, case):
        from musiclang import Note, Melody
        mel = Melody([Note("s", i % 7, 0, F(d)) for i, d in enumerate(case["m"])])
        try:
            sd = [F(x.duration) for x in mel.set_duration(F(case["d"])).notes]
        except ZeroDivisionError:
            sd = None
        two = mel + mel
        # a melody written bar by bar with | (two bars here: it remembers its number of bars): set_duration(d) still yields exactly d
        try:
            barred = mel | mel
            bars = [int(barred.nb_bars), F(barred.duration), sum((F(x.duration) for x in barred.set_duration(F(case["d"])).notes), F(0))]
        except (ZeroDivisionError, AssertionError):
            bars = None
        return {"bars": bars, "dur": F(mel.duration), "onsets": [F(t) for t in mel.get_onset_times()],
                "aug": [F(x.duration) for x in mel.augment(F(case["k"])).notes], "set": sd,
                "concat": F(two.duration), "repeat": F((mel * 3).duration), "stored": [F(x.duration) for x in mel.notes],
                "pieces": [[F(mel[i].duration) for i in range(len(mel.notes))], F(mel[1:].duration), F(Melody(mel.notes[0]).duration),
                           F((mel * 0).duration), F((mel * 0 + mel).duration)]}

    def term(self, case, r):
        # the model starts from the stored durations (Note.__init__ already applied)
        return T(Ql(r["stored"]), Qc(case["k"]), Qc(case["d"]),
                 T(Qc(r["dur"]), Ql(r["onsets"]), Ql(r["aug"]), "None" if r["set"] is None else f"(Some {Ql(r['set'])})"))

    def spec(self, case, r):
        m, k, d = [F(x) for x in case["m"]], F(case["k"]), F(case["d"])
        if not all(fits(x) for x in m):
            return None
        if r["dur"] != sum(m):
            return {"sig": "melody-duration-not-sum", "msg": f"{r['dur']} vs {sum(m)}"}
        if r["onsets"] != [sum(m[:i]) for i in range(len(m))]:
            return {"sig": "onsets-not-partial-sums", "msg": str(r["onsets"])}
        if r["concat"] != 2 * sum(m) or r["repeat"] != 3 * sum(m):
            return {"sig": "concat-repeat-duration", "msg": f"{r['concat']} {r['repeat']}"}
        if r["pieces"] != [m, sum(m[1:]), m[0], 0, sum(m)]:
            return {"sig": "melody-pieces-duration", "msg": f"[melody[i]], melody[1:], Melody(first note), melody * 0, melody * 0 + melody last {r['pieces']}; the notes last {m}"}
        if all(fits(x * k) for x in m) and r["aug"] != [x * k for x in m]:
            return {"sig": "melody-augment-not-exact", "msg": str(r["aug"])}
        if d == 0 and (r["set"] is None or any(x != 0 for x in r["set"]) or len(r["set"]) != len(m)):
            return {"sig": "melody-set-duration-zero", "msg": f"set_duration(0) on {m}: {r['set']}"}
        if r.get("bars") is not None and sum(m) != 0 and fits(d / (2 * sum(m))) and all(fits(x * (d / (2 * sum(m)))) for x in m):
            if r["bars"][1] != 2 * sum(m) or r["bars"][2] != d:
                return {"sig": "melody-set-duration-not-exact:bars", "msg": f"(m | m) with m = {m}: {r['bars'][0]} bars lasting {r['bars'][1]}; set_duration({d}) lasts {r['bars'][2]}"}
        if sum(m) != 0 and fits(d / sum(m)) and all(fits(x * (d / sum(m))) for x in m):
            if r["set"] is None or sum(r["set"]) != d:
                return {"sig": "melody-set-duration-not-exact", "msg": f"asked {d}, got {None if r['set'] is None else sum(r['set'])}"}
        return None

    def nontrivial(self, case, r):
        return len(case["m"]) > 1

    def hist_keys(self, case, r):
        return [f"len={min(len(case['m']), 12)}", "melody-in-domain" if all(fits(x) for x in case["m"]) else "melody-out-of-domain"]

    def shrink(self, case):
        m = case["m"]
        for i in range(len(m)):
            if len(m) > 1:
                yield dict(case, m=m[:i] + m[i + 1:])
        for i in range(len(m)):
            if F(m[i]) != 1:
                yield dict(case, m=m[:i] + [F(1)] + m[i + 1:])


class ScoreDur(Stream):
    name = "score_duration"
    mods = ["Model.Dur"]
    checker = "check_score_dur"
    pair = "Chord.duration / Score.duration (+ __add__, __mul__) <-> Dur.chord_dur / score_dur"
    quick, thorough = 800, 10000

    def gen(self, rng, n):
        for _ in range(n):
            yield {"s": [[[rand_dur(rng) for _ in range(rng.randrange(1, 5))] for _ in range(rng.randrange(0, 4))]
                         for _ in range(rng.randrange(1, 5))], "k": rng.randrange(1, 4)}

    def impl(self, case):
        from musiclang import Note, Melody, Score, Chord
        chords = []
        for parts in case["s"]:
            ch = Chord(0, tonality=None)
            ch = ch(**{f"piano__{i}": Melody([Note("s", 0, 0, F(d)) for d in p]) for i, p in enumerate(parts)})
            chords.append(ch)
        sc = Score(chords)
        out = {"dur": F(sc.duration), "chords": [F(c.duration) for c in sc.chords], "concat": F((sc + sc).duration),
               "repeat": F((sc * case["k"]).duration), "chord_plus": F((chords[0] + chords[-1]).duration),
               "times0": [F(x.duration) if x is not None else None for x in (sc * 0, chords[0] * 0, sc * 0 + sc)],
               "chord_mul": F((chords[0] * case["k"]).duration)}
        # every note of a chord / score is multiplied by k, whatever the lengths of the parts
        k = F(case["k"], 2)
        out["aug_chord"] = [[[F(n.duration) for n in m.notes] for m in c.augment(k).score.values()] for c in chords]
        out["aug_score"] = [[[F(n.duration) for n in m.notes] for m in c.score.values()] for c in sc.augment(k).chords] if hasattr(sc, "augment") else None
        # the same score object after its duration has been read, edited with the in-place form score[i] = chord
        edited = Score(list(chords))
        _ = edited.duration, [c.duration for c in edited.chords]
        edited[0] = chords[-1] * 2 if not isinstance(chords[-1] * 2, Score) else (chords[-1] * 2).chords[0]
        out["edited"] = [F(edited.duration), sum((F(c.duration) for c in edited.chords), F(0)), F(Score(list(edited.chords)).duration)]
        # a score that carries a pickup in its config (as annotations starting after beat 1 do) still lasts the sum of its chords
        pk = Score(list(chords), config={"pickup": case["k"]}) if "config" in Score.__init__.__code__.co_varnames else None
        out["pickup"] = None if pk is None else [F(pk.duration), F((pk + pk).duration), F((pk * 2).duration)]
        # a chord without parts takes exactly the duration it is given
        d = F(case["k"], 12) + F(1, 16)
        out["empty_chord"] = [F(Chord(0, tonality=None).set_duration(d).duration), d]
        # a chord holding a part of length 0 beside its other parts: set_duration(d) still yields exactly d (chord and score level)
        from musiclang import Silence
        zc = Chord(0, tonality=None)(piano__0=Melody([Note("s", 0, 0, F(1)), Note("s", 1, 0, F(1, 2))]), violin__0=Melody([Silence(F(0))]))
        out["zero_part"] = [F(zc.set_duration(F(case["k"])).duration), F(case["k"])]
        return out

    def term(self, case, r):
        return T(L([L([Ql(p) for p in parts]) for parts in case["s"]]), Qc(r["dur"]))

    def spec(self, case, r):
        cd = [max([sum(F(x) for x in p) for p in parts], default=F(0)) for parts in case["s"]]
        if r["chords"] != cd:
            return {"sig": "chord-duration-not-longest-part", "msg": f"{r['chords']} vs {cd}"}
        if r["dur"] != sum(cd):
            return {"sig": "score-duration-not-sum", "msg": f"{r['dur']} vs {sum(cd)}"}
        if r["concat"] != 2 * sum(cd) or r["repeat"] != case["k"] * sum(cd) or r["chord_plus"] != cd[0] + cd[-1] \
                or r["chord_mul"] != case["k"] * cd[0]:
            return {"sig": "score-concat-repeat-duration", "msg": str(r)}
        if r["times0"] != [0, 0, sum(cd)]:
            return {"sig": "repeat-zero-times", "msg": f"score * 0, chord * 0, score * 0 + score last {r['times0']}, expected [0, 0, {sum(cd)}]"}
        k = F(case["k"], 2)
        want = [[[(F(x) * k).limit_denominator(1000) for x in p] for p in parts] for parts in case["s"]]      # 1/1000 resolution of durations
        # a chord without parts has no note to multiply (its augment builds a rest): not judged
        keep = [i for i, parts in enumerate(case["s"]) if parts]
        want = [want[i] for i in keep]
        r = dict(r, aug_chord=[r["aug_chord"][i] for i in keep], aug_score=None if r["aug_score"] is None or len(keep) != len(case["s"]) else r["aug_score"])
        if r["aug_chord"] != want:
            return {"sig": "chord-augment-not-per-note", "msg": f"augment({k}): {r['aug_chord']} expected {want}"}
        if r["aug_score"] is not None and r["aug_score"] != want:
            return {"sig": "score-augment-not-per-note", "msg": f"augment({k}): {r['aug_score']} expected {want}"}
        if r.get("zero_part") and r["zero_part"][0] != r["zero_part"][1]:
            return {"sig": "set-duration-with-a-zero-length-part", "msg": f"chord(piano = s0 + s1.e, violin = r.n).set_duration({r['zero_part'][1]}) lasts {r['zero_part'][0]}"}
        tot = sum(cd)
        if r["pickup"] is not None and r["pickup"] != [tot, 2 * tot, 2 * tot]:
            return {"sig": "score-duration-counts-pickup", "msg": f"score with config pickup: durations {r['pickup']}, chords sum to {tot}"}
        if r["empty_chord"][0] != r["empty_chord"][1]:
            return {"sig": "empty-chord-set-duration", "msg": f"set_duration({r['empty_chord'][1]}) on a chord without parts gives {r['empty_chord'][0]}"}
        if len(set(r["edited"])) != 1:
            return {"sig": "score-duration-stale-after-item-assignment", "msg": f"duration {r['edited'][0]}, sum of chords {r['edited'][1]}, rebuilt {r['edited'][2]}"}
        return None

    def nontrivial(self, case, r):
        return len(case["s"]) > 1

    def shrink(self, case):
        s = case["s"]
        for i in range(len(s)):
            if len(s) > 1:
                yield dict(case, s=s[:i] + s[i + 1:])


class Decompose(Stream):
    name = "decompose_duration"
    mods = ["Model.Dur"]
    checker = "check_decompose"
    pair = "Note.decompose_duration <-> Dur.decompose"
    quick, thorough = 1200, 20000

    def gen(self, rng, n):
        for i in range(n):
            w = rng.random()
            if w < 0.5:
                d = F(rng.randrange(1, 130), rng.choice([1, 2, 4, 8, 16]))
            elif w < 0.8:
                d = F(rng.randrange(1, 60), rng.choice([3, 5, 6, 7, 10, 12, 14, 20, 24, 28]))
            else:
                d = rand_dur(rng, i % 5 != 0)
            yield {"d": d}

    def impl(self, case):
        from musiclang import Note, Melody
        nt = Note("s", 3, 1, F(case["d"]))
        res = nt.decompose_duration()
        notes = res.notes if hasattr(res, "notes") else [res]
        mel = Melody([Note("s", 0, 0, 1), nt, Note("s", 1, 0, F(1, 2))]).decompose_duration()
        # zero-length elements (the table's .n) are elements too: each keeps its onset
        from musiclang import Silence
        src = Melody([Note("s", 0, 0, 1), Note("s", 4, 0, 0), nt, Silence(0), Note("s", 1, 0, F(1, 2)), Note("s", 2, 0, 0)])
        dz = src.decompose_duration()
        heads = lambda m: [[x.type, int(x.val), F(t)] for x, t in zip(m.notes, m.get_onset_times()) if x.type != "l"]
        return {"zero_heads": [heads(src), heads(dz)], "durs": [F(x.duration) for x in notes], "types": [x.type for x in notes],
                "first": [notes[0].type, notes[0].val, notes[0].octave], "stored": F(nt.duration),
                "melody_total": F(mel.duration), "melody_onset_last": F(mel.get_onset_times()[-1]),
                "all_table": all(F(x.duration) in set(SPEC_TABLE.values()) for x in notes)}

    def term(self, case, r):
        return T(Qc(case["d"]), Ql(r["durs"]))

    def spec(self, case, r):
        d = F(case["d"])
        if not fits(d):
            return None
        if sum(r["durs"]) != d:
            return {"sig": "decompose-changes-total", "msg": f"{d} -> {r['durs']}"}
        if any(x <= 0 for x in r["durs"]):
            return {"sig": "decompose-non-positive-piece", "msg": str(r["durs"])}
        if r["first"] != ["s", 3, 1] or any(t != "l" for t in r["types"][1:]):
            return {"sig": "decompose-not-note-then-continuations", "msg": str(r["types"])}
        if r["melody_total"] != 1 + d + F(1, 2) or r["melody_onset_last"] != 1 + d:
            return {"sig": "decompose-moves-onsets", "msg": f"{r['melody_total']} {r['melody_onset_last']}"}
        if r["zero_heads"][0] != r["zero_heads"][1]:
            return {"sig": "decompose-moves-onsets:zero-length-elements", "msg": f"{r['zero_heads'][0]} became {r['zero_heads'][1]}"}
        return None

    def nontrivial(self, case, r):
        return len(r["durs"]) > 1

    def hist_keys(self, case, r):
        return [f"pieces={min(len(r['durs']), 6)}", "all-table" if r["all_table"] else "residue-not-in-table"]


def streams():
    return [NoteDur(), Suffix(), MelodyDur(), ScoreDur(), Decompose()]

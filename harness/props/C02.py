"""C02 - chord scales, chord tones, inversions and extension modifiers."""
import re, itertools
from harness.main import Stream
from harness import core, mlang
from harness.core import Z, S, L, O, T, Zl
from harness.mlang import MODES, FIGURES, SPEC_MODES
from harness.props.C01 import spec_chord_deg, spec_arpeggio, rand_chord

MODEL_MODS = ["Model.Pitch", "Model.Ext"]
RULE = ("written extensions = figure x modifier multisets (size 0..3 from the 16 replacement, 24 addition, 6 omission names, "
        "valid and invalid) in random written orders; chords = element x tonic x mode x octaves; inversion counts -9..9; "
        "non-trivial = at least one modifier or a non-root figure or k != 0; distinct = distinct canonical JSON")
TRUSTED = ["regex tokenisation / printing of the extension string (glue, exercised end to end: the implementation gets the "
           "string, the model the token lists)"]
ASSUMPTIONS = ["element in 0..6", "modifier names come from the three library dictionaries"]
THREE = ["", "6", "64"]
FOUR = ["7", "65", "43", "2"]


def parse_ext_string(s):
    repl = re.findall(r"\((.*?)\)", s)
    adds = re.findall(r"\[(.*?)\]", s)
    rems = re.findall(r"\{(.*?)\}", s)
    fig = re.sub(r"\(.*?\)|\[.*?\]|\{.*?\}", "", s)
    return {"fig": fig, "repl": repl, "adds": adds, "rems": rems}


def coq_wext(e):
    """written (unsorted) extension"""
    return (f"(mkE {S(e['fig'])} {L([S(x) for x in e.get('repl', [])])} {L([S(x) for x in e.get('adds', [])])} "
            f"{L([S(x) for x in e.get('rems', [])])})")


def pools():
    from musiclang.write import library as lib
    return sorted(lib.DICT_REPLACEMENT), sorted(lib.DICT_ADDITION), sorted(lib.DICT_REMOVAL)


def rand_wext(rng, figs=FIGURES, maxmod=3):
    R, A, M = pools()
    k = rng.choice([0, 1, 1, 2, 2, 3][:maxmod + 3])
    e = {"fig": rng.choice(figs), "repl": [], "adds": [], "rems": []}
    for _ in range(k):
        w = rng.random()
        if w < 0.4:
            e["repl"].append(rng.choice(R))
        elif w < 0.8:
            e["adds"].append(rng.choice(A))
        else:
            e["rems"].append(rng.choice(M))
    return e


def base_chord(rng):
    return {"elem": rng.randrange(7), "fig": "", "tdeg": rng.randrange(12), "tmode": rng.choice(MODES),
            "toct": rng.choice([0, 0, -1, 1]), "coct": rng.choice([0, 0, -1, 2])}


def chord_with(c, e):
    return dict(c, fig=e["fig"], repl=e.get("repl", []), adds=e.get("adds", []), rems=e.get("rems", []))


def mk_written(c):
    """live chord whose extension string is written in the given order"""
    from musiclang import Chord
    return Chord(element=c["elem"], extension=mlang.ext_string(c["fig"], c.get("repl", ()), c.get("adds", ()), c.get("rems", ())),
                 tonality=mlang.mk_tonality(c), octave=c["coct"])


def coq_ext_result(e):
    return coq_wext(e)


def nmods(e):
    return len(e.get("repl", [])) + len(e.get("adds", [])) + len(e.get("rems", []))


def shuffled(rng, e):
    e2 = dict(e)
    for k in ("repl", "adds", "rems"):
        l = list(e.get(k, []))
        rng.shuffle(l)
        e2[k] = l
    return e2


class Normalize(Stream):
    name = "normalize"
    mods = ["Model.Pitch", "Model.Ext"]
    checker = "check_normalize"
    pair = "Chord.__init__/normalize_extension/get_extension_properties <-> Ext.parse_ext"
    quick, thorough = 1500, 20000

    def gen(self, rng, n):
        for _ in range(n):
            e = rand_wext(rng)
            yield {"w": e, "w2": shuffled(rng, e)}

    def impl(self, case):
        def f():
            from musiclang import Chord
            e = case["w"]
            s1 = Chord(0, mlang.ext_string(e["fig"], e["repl"], e["adds"], e["rems"])).extension
            e2 = case["w2"]
            s2 = Chord(0, mlang.ext_string(e2["fig"], e2["repl"], e2["adds"], e2["rems"])).extension
            s3 = Chord(0, s1).extension
            return {"norm": parse_ext_string(s1), "s1": s1, "s2": s2, "s3": s3}
        return mlang.guarded(f)

    def term(self, case, r):
        return T(coq_wext(case["w"]), coq_wext(r["norm"]))

    def spec(self, case, r):
        if mlang.is_exc(r):
            return {"sig": "normalize-raises", "msg": str(r)}
        if r["s1"] != r["s2"]:
            return {"sig": "normalize-order-dependent", "msg": f"{r['s1']} vs {r['s2']}"}
        if r["s1"] != r["s3"]:
            return {"sig": "normalize-not-idempotent", "msg": f"{r['s1']} -> {r['s3']}"}
        for k in ("repl", "adds", "rems"):
            if sorted(case["w"][k]) != sorted(r["norm"][k]) or r["norm"]["fig"] != case["w"]["fig"]:
                return {"sig": "normalize-changes-content", "msg": f"{case['w']} -> {r['norm']}"}
        return None

    def nontrivial(self, case, r):
        return nmods(case["w"]) >= 1

    def hist_keys(self, case, r):
        return [f"nmods={nmods(case['w'])}"]

    def shrink(self, case):
        e = case["w"]
        for k in ("repl", "adds", "rems"):
            for i in range(len(e[k])):
                e2 = dict(e, **{k: e[k][:i] + e[k][i + 1:]})
                yield {"w": e2, "w2": dict(e2, **{kk: list(reversed(e2[kk])) for kk in ("repl", "adds", "rems")})}


class GetItem(Stream):
    name = "getitem"
    mods = ["Model.Pitch", "Model.Ext"]
    checker = "check_getitem"
    pair = "Chord.__getitem__ + chord_extension_pitches <-> Ext.getitem + Pitch.chord_extension_pitches"
    quick, thorough = 2500, 40000

    def gen(self, rng, n):
        for _ in range(n):
            e = rand_wext(rng)
            yield {"chord": base_chord(rng), "w": e, "w2": shuffled(rng, e)}

    @staticmethod
    def _get(c, e):
        ch = mlang.mk_chord(c)[mlang.ext_string(e["fig"], e["repl"], e["adds"], e["rems"])]
        return ch, [parse_ext_string(ch.extension), [int(p) for p in ch.chord_extension_pitches]]

    def impl(self, case):
        def f():
            ch, r1 = self._get(case["chord"], case["w"])
            return {"r": r1, "perm": mlang.guarded(lambda: self._get(case["chord"], case["w2"])[1]),
                    "again": mlang.guarded(lambda: [parse_ext_string(ch[ch.extension].extension),
                                                    [int(p) for p in ch[ch.extension].chord_extension_pitches]])}
        return mlang.guarded(f)

    def term(self, case, r):
        exp = "None" if mlang.is_exc(r) else f"(Some ({coq_wext(r['r'][0])}, {Zl(r['r'][1])}))"
        return T(mlang.coq_chord(case["chord"]), coq_wext(case["w"]), exp)

    def spec(self, case, r):
        if mlang.is_exc(r):
            if nmods(case["w"]) == 0:
                return {"sig": "getitem-bare-raises", "msg": str(r)}
            r2 = mlang.guarded(lambda: self._get(case["chord"], case["w2"])[1])
            if not mlang.is_exc(r2):
                return {"sig": "modifier-order-validity", "msg": f"one order raises {r}, another gives {r2}"}
            return None
        if r["perm"] != r["r"]:
            return {"sig": "modifier-order-dependent", "msg": f"{case['w']} -> {r['r']} but {case['w2']} -> {r['perm']}"}
        if r["again"] != r["r"]:
            return {"sig": "getitem-not-idempotent", "msg": f"{r['r']} then {r['again']}"}
        return None

    def nontrivial(self, case, r):
        return nmods(case["w"]) >= 1 or case["w"]["fig"] != ""

    def hist_keys(self, case, r):
        return ["invalid-modifier-set" if mlang.is_exc(r) else "valid-modifier-set", f"nmods={nmods(case['w'])}"]

    def shrink(self, case):
        e = case["w"]
        for k in ("repl", "adds", "rems"):
            for i in range(len(e[k])):
                e2 = dict(e, **{k: e[k][:i] + e[k][i + 1:]})
                yield {"chord": case["chord"], "w": e2,
                       "w2": dict(e2, **{kk: list(reversed(e2[kk])) for kk in ("repl", "adds", "rems")})}
        c = case["chord"]
        for key, val in (("toct", 0), ("coct", 0), ("tdeg", 0), ("elem", 0), ("tmode", "M")):
            if c[key] != val:
                yield dict(case, chord=dict(c, **{key: val}))

    def model_answer(self, case, r):
        return f"getitem {mlang.coq_chord(case['chord'])} {coq_wext(case['w'])}"


class Invert(Stream):
    name = "invert"
    mods = ["Model.Pitch", "Model.Ext"]
    checker = "check_invert"
    pair = "Chord.invert + get_inversion_index <-> Ext.invert + Ext.get_inversion_index"
    quick, thorough = 2500, 40000

    def gen(self, rng, n):
        for i in range(n):
            figs = (THREE + FOUR + ["5"]) if i % 8 else FIGURES
            e = rand_wext(rng, figs=figs, maxmod=2)
            e = {k: (sorted(v) if isinstance(v, list) else v) for k, v in e.items()}
            yield {"chord": chord_with(base_chord(rng), e), "k": rng.randrange(-9, 10), "k2": rng.randrange(-9, 10)}

    def impl(self, case):
        def f():
            ch = mlang.mk_chord(case["chord"])
            c1 = ch.invert(case["k"])
            out = {"r": [parse_ext_string(c1.extension), int(c1.get_inversion_index())],
                   "pitches": [int(p) for p in c1.chord_extension_pitches],
                   "root_pitches": [int(p) for p in c1.chord_pitches]}
            c2 = c1.invert(case["k2"])
            c12 = ch.invert(case["k"] + case["k2"])
            out["compose"] = [c2.extension, c12.extension]
            n = 4 if parse_ext_string(ch.extension)["fig"] in FOUR else 3
            out["full_turn"] = [ch.invert(n).extension, ch["" + ch.extension[1:]].extension if ch.extension.startswith("5") else ch.extension]
            return out
        return mlang.guarded(f)

    def term(self, case, r):
        exp = "None" if mlang.is_exc(r) else f"(Some ({coq_wext(r['r'][0])}, {Z(r['r'][1])}))"
        return T(mlang.coq_chord(case["chord"]), Z(case["k"]), exp)

    def spec(self, case, r):
        c = case["chord"]
        if c["fig"] == "5":
            c = dict(c, fig="")            # the explicit root position triad inverts like ''
        fam = THREE if c["fig"] in THREE else FOUR if c["fig"] in FOUR else None
        if mlang.is_exc(r):
            if fam and nmods(c) == 0:
                return {"sig": "invert-raises", "msg": str(r)}
            return None
        if fam is None:
            return None
        want = fam[(fam.index(c["fig"]) + case["k"]) % len(fam)]
        got = r["r"][0]
        if got["fig"] != want or any(sorted(got[k]) != sorted(c.get(k, [])) for k in ("repl", "adds", "rems")):
            return {"sig": "invert-wrong-figure", "msg": f"invert({case['k']}) of {c['fig']} should be {want}, got {got}"}
        if r["r"][1] != fam.index(want):
            return {"sig": "inversion-index", "msg": f"index {r['r'][1]} for figure {want}"}
        if r["compose"][0] != r["compose"][1]:
            return {"sig": "invert-not-additive", "msg": str(r["compose"])}
        if r["full_turn"][0] != r["full_turn"][1]:
            return {"sig": "invert-full-turn", "msg": str(r["full_turn"])}
        if nmods(c) == 0:
            cw = dict(c, fig=want)
            if r["pitches"] != spec_arpeggio(cw, True) or r["root_pitches"] != spec_arpeggio(cw, False):
                return {"sig": "inverted-arpeggio", "msg": f"{r['pitches']} vs {spec_arpeggio(cw, True)}"}
        return None

    def nontrivial(self, case, r):
        return case["k"] != 0

    def hist_keys(self, case, r):
        return ["invert-exc" if mlang.is_exc(r) else "invert-ok", f"k mod 12={case['k'] % 12}"]

    def shrink(self, case):
        c = case["chord"]
        for k in ("repl", "adds", "rems"):
            if c.get(k):
                yield dict(case, chord=dict(c, **{k: []}))
        for key, val in (("toct", 0), ("coct", 0), ("tdeg", 0), ("elem", 0), ("tmode", "M")):
            if c[key] != val:
                yield dict(case, chord=dict(c, **{key: val}))
        if case["k2"] != 0:
            yield dict(case, k2=0)

    def model_answer(self, case, r):
        return f"option_map cext (invert {mlang.coq_chord(case['chord'])} {Z(case['k'])})"


class Root(Stream):
    name = "root_extension"
    mods = ["Model.Pitch", "Model.Ext"]
    checker = "check_root"
    pair = "Chord.to_root_extension <-> Ext.to_root_extension"
    quick, thorough = 800, 10000

    def gen(self, rng, n):
        for _ in range(n):
            e = rand_wext(rng, maxmod=2)
            e = {k: (sorted(v) if isinstance(v, list) else v) for k, v in e.items()}
            yield {"chord": chord_with(base_chord(rng), e)}

    def impl(self, case):
        return mlang.guarded(lambda: parse_ext_string(mlang.mk_chord(case["chord"]).to_root_extension().extension))

    def term(self, case, r):
        return T(mlang.coq_chord(case["chord"]), "None" if mlang.is_exc(r) else f"(Some {coq_wext(r)})")

    def nontrivial(self, case, r):
        return case["chord"]["fig"] != ""


class InversionProps(Stream):
    """python-only oracle: the inversion clauses of the statement evaluated on the implementation"""
    name = "inversion_props"
    checker = None
    pair = "property oracle on Chord.chord_pitches / chord_extension_pitches / bass_pitch across a figure family"
    quick, thorough = 1200, 20000

    def gen(self, rng, n):
        for i in range(n):
            fam = rng.choice([THREE, FOUR])
            e = rand_wext(rng, figs=[fam[0]], maxmod=(0 if i % 3 == 0 else 2))
            e = {k: (sorted(v) if isinstance(v, list) else v) for k, v in e.items()}
            yield {"chord": chord_with(base_chord(rng), e)}

    def impl(self, case):
        c = case["chord"]
        fam = THREE if c["fig"] in THREE else FOUR

        def f():
            out = []
            for fg in fam:
                ch = mlang.mk_chord(dict(c, fig=fg))
                ch = ch[ch.extension]
                out.append({"fig": fg, "cp": [int(p) for p in ch.chord_pitches],
                            "ep": [int(p) for p in ch.chord_extension_pitches], "bass": int(ch.bass_pitch)})
            return out
        return mlang.guarded(f)

    def spec(self, case, r):
        if mlang.is_exc(r):
            return None if nmods(case["chord"]) else {"sig": "bare-family-raises", "msg": str(r)}
        root = r[0]
        for i, x in enumerate(r):
            if x["cp"] != root["cp"]:
                return {"sig": "chord-pitches-depend-on-inversion", "msg": f"{root} vs {x}"}
            if sorted(p % 12 for p in x["ep"]) != sorted(p % 12 for p in root["ep"]):
                return {"sig": "inversion-changes-pitch-classes", "msg": f"{root} vs {x}"}
            if x["bass"] != x["ep"][0]:
                return {"sig": "bass-not-lowest-listed", "msg": str(x)}
            if nmods(case["chord"]) == 0:
                ep = x["ep"]
                if any(a >= b for a, b in zip(ep, ep[1:])) or ep[-1] - ep[0] >= 12:
                    return {"sig": "inversion-not-ascending-within-octave", "msg": str(x)}
                if x["bass"] != root["cp"][i]:
                    return {"sig": "bass-not-named-tone", "msg": f"figure {x['fig']}: bass {x['bass']}, chord tones {root['cp']}"}
        return None

    def nontrivial(self, case, r):
        return True

    def hist_keys(self, case, r):
        return ["family-invalid" if mlang.is_exc(r) else "family-valid", f"family-nmods={nmods(case['chord'])}"]

    def shrink(self, case):
        c = case["chord"]
        for k in ("repl", "adds", "rems"):
            if c.get(k):
                yield dict(case, chord=dict(c, **{k: []}))
        for key, val in (("toct", 0), ("coct", 0), ("tdeg", 0), ("elem", 0), ("tmode", "M")):
            if c[key] != val:
                yield dict(case, chord=dict(c, **{key: val}))


class Scales(Stream):
    """chord scale = tonality scale started on the degree; church modes = rotations of major"""
    name = "chord_scale"
    mods = ["Model.Pitch"]
    checker = "check_pitch_lists"
    pair = "Chord.scale_pitches <-> Pitch.chord_scale (with the rotation oracle)"
    quick, thorough = 920, 920

    def gen(self, rng, n):
        for md in MODES:
            for e in range(7):
                for t in range(12):
                    yield {"chord": {"elem": e, "fig": "", "tdeg": t, "tmode": md, "toct": 0, "coct": 0}}
        # every base figure: the root position view (chord_pitches) and the figured view (chord_extension_pitches)
        for f in FIGURES:
            for md in MODES:
                yield {"chord": {"elem": rng.randrange(7), "fig": f, "tdeg": rng.randrange(12), "tmode": md, "toct": rng.choice([0, 1, -1]), "coct": rng.choice([0, 0, 1])}}
        # chords moved by octaves, with and without an explicit tonality (a bare degree such as II.o(1) is read in C major)
        for e in range(7):
            for co in (-2, -1, 1, 2):
                yield {"chord": {"elem": e, "fig": rng.choice(["", "6", "64"]), "tdeg": 0, "tmode": "M", "toct": 0, "coct": co, "ton_none": True}}
                yield {"chord": {"elem": e, "fig": rng.choice(["", "64", "6"]), "tdeg": rng.randrange(12), "tmode": rng.choice(MODES),
                                 "toct": rng.choice([-1, 0, 1]), "coct": co}}
                # ... and the same kind of chord reached by Chord.modulate(key) / chord % key from the degree in the neutral key
                for via in ("modulate", "%"):
                    yield {"chord": {"elem": e, "fig": rng.choice(["", "64", "6", "7"]), "tdeg": rng.randrange(12), "tmode": rng.choice(MODES),
                                     "toct": rng.choice([-1, 0, 1]), "coct": co}, "via": via}

    def impl(self, case):
        ch = mlang.mk_chord(case["chord"])
        c = case["chord"]
        if case.get("via") and not c.get("ton_none"):
            # the same chord reached through the named method / the operator: the degree (with its own octave) in the neutral key of the
            # mode, then modulated to the key - the chord's octave and the key's add up whichever of the two holds them afterwards
            from musiclang import Chord, Tonality
            base = Chord(c["elem"], extension=mlang.ext_string(c["fig"]), tonality=Tonality(0, c["tmode"], 0), octave=c["coct"])
            key = Tonality(c["tdeg"], c["tmode"], c["toct"])
            ch = base.modulate(key) if case["via"] == "modulate" else base % key
        return [[int(x) for x in ch.scale_pitches], [int(x) for x in ch.chord_pitches],
                [int(x) for x in ch.chord_extension_pitches]]

    def term(self, case, r):
        return T(mlang.coq_chord(case["chord"]), f"(Some ({Zl(r[0])}, {Zl(r[1])}, {Zl(r[2])}))")

    def spec(self, case, r):
        c = case["chord"]
        want = [spec_chord_deg(c, j) for j in range(7)]
        if r[0] != want:
            return {"sig": f"scale:mode={c['tmode']}", "msg": f"chord scale should be {want}, library gives {r[0]}"}
        if c["fig"] in THREE and r[1] != [want[0], want[2], want[4]]:
            return {"sig": "chord-tones-not-stacked-thirds", "msg": f"{r[1]} vs scale {want}"}
        from harness.props.C01 import spec_arpeggio
        if r[1] != spec_arpeggio(c, False) or r[2] != spec_arpeggio(c, True):
            return {"sig": "chord-tones-not-stacked-thirds:" + c["fig"], "msg": f"figure {c['fig']!r}: chord tones {r[1]} / figured {r[2]}, stacked thirds {spec_arpeggio(c, False)} / {spec_arpeggio(c, True)}"}
        return None

    def nontrivial(self, case, r):
        return case["chord"]["elem"] != 0 or case["chord"]["tmode"] != "M"


class DerivedAfterUse(Stream):
    """a chord derived (octave, mode, degree, modulation, figure, copy) from a chord whose scales and tones have ALREADY been read
    has the scale and tones of the same chord built from scratch (memoised properties must not travel with the copy)"""
    name = "derived_after_use"
    checker = None
    pair = "property oracle: pitch lists of op(used chord) vs op(fresh chord), against the closed forms of the statement"
    quick, thorough = 600, 10000

    OPS = ["o", "set_octave", "change_mode", "set_degree", "mod", "getitem", "copy", "invert", "transpose", "pars_target", "pars_source"]

    def gen(self, rng, n):
        for _ in range(n):
            c = base_chord(rng)
            c["fig"] = rng.choice(THREE + FOUR)
            yield {"chord": c, "op": rng.choice(self.OPS), "k": rng.choice([1, -1, 2]), "mode": rng.choice(MODES), "deg": rng.randrange(7),
                   "t": [rng.randrange(12), rng.choice(MODES), rng.choice([0, 1, -1])], "fig2": rng.choice(THREE + FOUR)}

    def apply(self, ch, case):
        from musiclang import Tonality
        op = case["op"]
        if op == "o":
            return ch.o(case["k"])
        if op == "set_octave":
            return ch.set_octave(case["k"])
        if op == "change_mode":
            return ch.change_mode(case["mode"])
        if op == "set_degree":
            return ch.set_degree(case["deg"])
        if op == "mod":
            return ch % Tonality(*case["t"])
        if op == "getitem":
            return ch[case["fig2"]]
        if op == "invert":
            return ch.invert(case["k"])
        if op == "transpose":
            return ch.transpose(case["k"] + 2)
        if op in ("pars_target", "pars_source"):
            from musiclang import Chord
            other = Chord(element=case["deg"], extension=case["fig2"], tonality=Tonality(*case["t"]))
            return other.get_parsimonious_voice_leading(ch) if op == "pars_target" else ch.get_parsimonious_voice_leading(other)
        return ch.copy()

    def impl(self, case):
        def f():
            lists = lambda c: [[int(x) for x in c.scale_pitches], [int(x) for x in c.chord_pitches], [int(x) for x in c.chord_extension_pitches],
                               [int(x) for x in c.chromatic_scale_pitches]]
            used = mlang.mk_chord(case["chord"])
            lists(used)
            used.to_pitch(mlang.mk_note({"kind": "s", "val": 3, "oct": 0}))
            derived = self.apply(used, case)
            fresh = self.apply(mlang.mk_chord(case["chord"]), case)
            same_obj = mlang.mk_chord(case["chord"])
            first = lists(same_obj)
            # the chord the operation was applied to is still the chord it was: same fields, and a copy of it has the same scale and tones
            ident = lambda c: [int(c.element), str(c.extension), int(c.tonality.degree), c.tonality.mode, int(c.tonality.octave), int(c.octave)]
            operand_kept = ident(used) == ident(same_obj) and lists(used) == first and lists(used.copy()) == first
            # analyses of the chord (voicings with more voices than chord tones, patterns) leave its tones alone
            voiced = mlang.mk_chord(case["chord"])
            for nb in (4, 5, 6):
                voiced.to_voicing(nb_voices=nb)
            tones = lambda c: [[str(x) for x in c.extension_notes], [str(x) for x in c.chord_notes]]
            untouched = lists(voiced) == first and tones(voiced) == tones(mlang.mk_chord(case["chord"]))
            return {"derived": lists(derived), "fresh": lists(fresh), "stable": lists(same_obj) == first and untouched, "operand_kept": operand_kept,
                    "id": [int(derived.element), derived.tonality.degree, derived.tonality.mode, derived.tonality.octave, derived.octave]}
        return mlang.guarded(f)

    def spec(self, case, r):
        if mlang.is_exc(r):
            return {"sig": f"derived-chord-raises:{case['op']}", "msg": str(r)}
        if r["derived"] != r["fresh"] or not r["stable"]:
            return {"sig": f"derived-chord-stale:{case['op']}", "msg": f"after use {r['derived'][0]} ; from scratch {r['fresh'][0]}"}
        if not r["operand_kept"]:
            return {"sig": f"operand-chord-changed:{case['op']}", "msg": "the chord the operation was applied to no longer has the scale / tones / fields it had"}
        # and the scale is the closed form of the statement for the derived chord
        e, td, tm, to, co = r["id"]
        want = [spec_chord_deg({"elem": e, "tdeg": td, "tmode": tm, "toct": to, "coct": co}, j) for j in range(7)]
        if r["derived"][0] != want:
            return {"sig": f"derived-chord-scale:{case['op']}", "msg": f"{r['derived'][0]} expected {want}"}
        return None

    def hist_keys(self, case, r):
        return ["op=" + case["op"]]


def streams():
    return [Normalize(), GetItem(), Invert(), Root(), InversionProps(), Scales(), DerivedAfterUse()]

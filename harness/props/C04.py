"""C04 - transposition is exact: modulation, octaves and their composition laws."""
from harness.main import Stream
from harness import core, mlang
from harness.core import Z, S, L, O, T, Zl, B
from harness.mlang import MODES, MODE_C
from harness.props.C01 import rand_chord, rand_note

MODEL_MODS = ["Model.Pitch", "Model.Ton", "Model.Render", "Model.Octave"]
RULE = ("tonality pairs/triples with degrees -30..30 (un-normalised on purpose) x 9 modes x octaves -3..3; chords from the C01 "
        "generator (incl. modifier sets) x modulating tonality (same mode 70%, other mode 30%) x octave shifts -4..4 x "
        "non-relative notes of every kind; non-trivial = non-zero degree/octave or k != 0; distinct = distinct canonical JSON")
TRUSTED = []
ASSUMPTIONS = ["the model's chords carry a tonality; the library's bare degree symbols (no tonality, read in C major) are judged by the oracle stream tonality_less_chords"]


def rand_ton(rng, normalised=False):
    return {"deg": rng.randrange(12) if normalised or rng.random() < 0.6 else rng.randrange(-30, 31),
            "mode": rng.choice(MODES), "oct": rng.choice([0, 0, 0, 1, -1, 2, -3, 3])}


def mk_ton(t):
    from musiclang import Tonality
    return Tonality(t["deg"], t["mode"], t["oct"])


def coq_t(t):
    return f"(mkT {Z(t['deg'])} {MODE_C[t['mode']]} {Z(t['oct'])})"


def fields(t):
    return {"deg": int(t.degree), "mode": t.mode, "oct": int(t.octave)}


def norm(t):
    return {"deg": t["deg"] % 12, "mode": t["mode"], "oct": t["oct"] + t["deg"] // 12}


class TonAlgebra(Stream):
    name = "ton_algebra"
    mods = ["Model.Pitch", "Model.Ton"]
    checker = "check_ton"
    pair = "Tonality.__add__/__sub__/__eq__/b/s <-> Ton.ton_add/ton_sub/ton_eqb/ton_b/ton_s"
    quick, thorough = 3000, 60000

    def gen(self, rng, n):
        for i in range(n):
            a, b, c = rand_ton(rng), rand_ton(rng), rand_ton(rng)
            if i % 5 == 0:      # pairs that are enharmonically equal
                sh = rng.randrange(-2, 3)
                b = {"deg": a["deg"] + 12 * sh, "mode": a["mode"], "oct": a["oct"] - sh}
            yield {"a": a, "b": b, "c": c}

    def impl(self, case):
        a, b, c = mk_ton(case["a"]), mk_ton(case["b"]), mk_ton(case["c"])
        return {"add": fields(a + b), "sub": fields(a - b), "eq": bool(a == b), "b": fields(a.b), "s": fields(a.s),
                "assoc": [fields((a + b) + c), fields(a + (b + c))],
                "undo": [bool(b + (a - b) == a), bool((a + b) - a == b), fields(b + (a - b)), fields((a + b) - a)],
                "neutral": [fields(mk_ton({"deg": 0, "mode": case["c"]["mode"], "oct": 0}) + a),
                            fields(a + mk_ton({"deg": 0, "mode": case["a"]["mode"], "oct": 0}))],
                "o": fields(a.o(case["c"]["oct"]))}

    def term(self, case, r):
        return T(coq_t(case["a"]), coq_t(case["b"]),
                 T(coq_t(r["add"]), coq_t(r["sub"]), B(r["eq"]), coq_t(r["b"]), coq_t(r["s"])))

    def spec(self, case, r):
        a, b = case["a"], case["b"]
        if not (0 <= r["add"]["deg"] < 12):
            return {"sig": "add-not-normalised", "msg": str(r["add"])}
        want = {"deg": (a["deg"] + b["deg"]) % 12, "mode": b["mode"], "oct": a["oct"] + b["oct"] + (a["deg"] + b["deg"]) // 12}
        if r["add"] != want:
            return {"sig": "add-wrong-interval", "msg": f"{a} + {b} = {r['add']}, expected {want}"}
        if r["assoc"][0] != r["assoc"][1]:
            return {"sig": "add-not-associative", "msg": str(r["assoc"])}
        if not (r["undo"][0] and r["undo"][1]):
            return {"sig": "sub-does-not-undo", "msg": str(r["undo"])}
        if r["undo"][2] != norm(a) or r["undo"][3] != norm(b):
            return {"sig": "sub-does-not-undo-fields", "msg": str(r["undo"])}
        if r["neutral"][0] != norm(a) or r["neutral"][1] != norm(a):
            return {"sig": "neutral-element", "msg": str(r["neutral"])}
        if r["eq"] != (norm(a) == norm(b)):
            return {"sig": "enharmonic-equality", "msg": f"{a} == {b} gave {r['eq']}"}
        if r["o"] != {"deg": a["deg"], "mode": a["mode"], "oct": a["oct"] + case["c"]["oct"]}:
            return {"sig": "tonality-octave", "msg": str(r["o"])}
        return None

    def nontrivial(self, case, r):
        return case["a"]["deg"] != 0 or case["b"]["deg"] != 0

    def hist_keys(self, case, r):
        return ["eq" if r["eq"] else "neq", "unnormalised" if not 0 <= case["a"]["deg"] < 12 else "normalised"]

    def shrink(self, case):
        for k in "abc":
            for f, v in (("deg", 0), ("oct", 0), ("mode", "M")):
                if case[k][f] != v:
                    yield dict(case, **{k: dict(case[k], **{f: v})})


def pres(r):
    return "None" if mlang.is_exc(r) else f"(Some {O(r, Z)})"


class Modulate(Stream):
    name = "modulate"
    mods = ["Model.Pitch", "Model.Ton"]
    checker = "check_modulate"
    pair = "Chord.__mod__ / Chord.o / Note.o then Chord.to_pitch <-> Ton.chord_mod / chord_o / Pitch.note_o then to_pitch_abs"
    quick, thorough = 4000, 80000

    def gen(self, rng, n):
        for i in range(n):
            c = rand_chord(rng, modifiers=0.2)
            c.pop("ton_none", None)
            t = rand_ton(rng, normalised=(i % 4 != 0))
            if rng.random() < 0.7:
                t["mode"] = c["tmode"]
            nt = rand_note(rng)
            if rng.random() < 0.1:
                nt = {"kind": "d", "val": rng.randrange(12), "oct": 0}
            yield {"chord": c, "t": t, "k": rng.randrange(-4, 5), "note": nt, "t2": rand_ton(rng, True)}

    def impl(self, case):
        def pitch(f):
            r = mlang.guarded(f)
            return r if mlang.is_exc(r) else (None if r is None else int(r))
        c = mlang.mk_chord(case["chord"])
        t = mk_ton(case["t"])
        n = mlang.mk_note(case["note"])
        cm = mlang.guarded(lambda: c % t)
        if mlang.is_exc(cm):
            return cm
        t2 = mk_ton(case["t2"])
        comp = mlang.guarded(lambda: [bool((c % t) % t2 == c % (t + t2)), fields(((c % t) % t2).tonality),
                                      fields((c % (t + t2)).tonality)])
        meth = mlang.guarded(lambda: c.modulate(t))
        return {"ton": fields(cm.tonality), "oct": int(cm.octave), "ext": cm.extension == c.extension and cm.element == c.element,
                "method": None if mlang.is_exc(meth) else [fields(meth.tonality), int(meth.octave), meth.extension, int(meth.element)],
                "p0": pitch(lambda: c.to_pitch(n)), "p1": pitch(lambda: cm.to_pitch(n)),
                "p2": pitch(lambda: c.o(case["k"]).to_pitch(n)), "p3": pitch(lambda: c.to_pitch(n.o(case["k"]))),
                "compose": comp}

    def term(self, case, r):
        return T(mlang.coq_chord(case["chord"]), coq_t(case["t"]), Z(case["k"]), mlang.coq_pnote(case["note"]),
                 T(coq_t(r["ton"]), Z(r["oct"]), pres(r["p1"]), pres(r["p2"]), pres(r["p3"])))

    def spec(self, case, r):
        if mlang.is_exc(r):
            return {"sig": "modulate-raises", "msg": str(r)}
        c, t, n, k = case["chord"], case["t"], case["note"], case["k"]
        p0 = r["p0"]
        if not r["ext"]:
            return {"sig": "modulate-changes-chord", "msg": "degree or extension changed"}
        if r["method"] != [r["ton"], r["oct"], mlang.mk_chord(c).extension, c["elem"]]:
            return {"sig": "modulate-method-differs-from-operator", "msg": f"chord.modulate(t) gives {r['method']}, chord % t gives {[r['ton'], r['oct']]}"}
        if mlang.is_exc(r["compose"]) or not r["compose"][0] or r["compose"][1] != r["compose"][2]:
            return {"sig": "modulation-does-not-compose", "msg": str(r["compose"])}
        if mlang.is_exc(p0) or p0 is None:
            return None
        rel = n["kind"] in "shcb"
        if t["mode"] == c["tmode"]:
            want = p0 + (t["deg"] + 12 * t["oct"] if rel else 0)
            if r["p1"] != want:
                return {"sig": f"modulate-pitch:{n['kind']}", "msg": f"pitch {p0} -> {r['p1']}, expected {want}"}
        elif not rel and r["p1"] != p0:
            return {"sig": f"modulate-pitch:{n['kind']}", "msg": f"absolute pitch moved {p0} -> {r['p1']}"}
        want2 = p0 + (12 * k if rel else 0)
        if r["p2"] != want2:
            return {"sig": f"chord-octave:{n['kind']}", "msg": f"chord.o({k}): {p0} -> {r['p2']}, expected {want2}"}
        if r["p3"] != p0 + 12 * k:
            return {"sig": f"note-octave:{n['kind']}", "msg": f"note.o({k}): {p0} -> {r['p3']}"}
        return None

    def nontrivial(self, case, r):
        return case["t"]["deg"] != 0 or case["t"]["oct"] != 0 or case["k"] != 0

    def hist_keys(self, case, r):
        return ["same-mode" if case["t"]["mode"] == case["chord"]["tmode"] else "other-mode", "kind=" + case["note"]["kind"]]

    def shrink(self, case):
        c, n, t = case["chord"], case["note"], case["t"]
        for key, val in (("toct", 0), ("coct", 0), ("tdeg", 0), ("elem", 0), ("fig", "")):
            if c.get(key) != val:
                yield dict(case, chord=dict(c, **{key: val}))
        for key in ("repl", "adds", "rems"):
            if c.get(key):
                yield dict(case, chord={k: v for k, v in c.items() if k != key})
        for key, val in (("oct", 0), ("val", 0)):
            if n.get(key) != val:
                yield dict(case, note=dict(n, **{key: val}))
        for key in ("acc", "mode"):
            if n.get(key):
                yield dict(case, note={k: v for k, v in n.items() if k != key})
        for f, v in (("deg", 0), ("oct", 0)):
            if t[f] != v:
                yield dict(case, t=dict(t, **{f: v}))
        if case["k"] != 0:
            yield dict(case, k=0)

    def model_answer(self, case, r):
        return (f"(chord_mod {mlang.coq_chord(case['chord'])} {coq_t(case['t'])}, "
                f"to_pitch_abs (chord_mod {mlang.coq_chord(case['chord'])} {coq_t(case['t'])}) {mlang.coq_pnote(case['note'])})")


class Invariance(Stream):
    """python-only oracle: a melody placed on another chord keeps its written degrees; Melody.o / Score.o / Score % t are maps"""
    name = "structure"
    checker = None
    pair = "property oracle on Chord.__call__, Melody.o, Chord.o_melody, Score.o, Score.__mod__"
    quick, thorough = 400, 5000

    def gen(self, rng, n):
        for _ in range(n):
            c1, c2 = rand_chord(rng, 0.1), rand_chord(rng, 0.1)
            c1.pop("ton_none", None); c2.pop("ton_none", None)
            notes = []
            for _ in range(rng.randrange(1, 6)):
                nt = rand_note(rng)
                if rng.random() < 0.3:
                    nt = {"kind": rng.choice("shcb"), "dir": rng.choice("ud"), "val": rng.randrange(4), "oct": 0}
                if rng.random() < 0.15:
                    nt = {"kind": rng.choice("rl"), "val": 0, "oct": 0}
                notes.append(nt)
            yield {"c1": c1, "c2": c2, "notes": notes, "k": rng.randrange(-3, 4), "t": rand_ton(rng, True)}

    def impl(self, case):
        from musiclang import Melody, Score
        def f():
            mel = Melody([mlang.mk_note(n) for n in case["notes"]])
            a = mlang.mk_chord(case["c1"])(piano__0=mel, violin__1=mel)
            b = mlang.mk_chord(case["c2"])(piano__0=mel)
            k = case["k"]
            sc = Score([a, b])
            so = sc.o(k)
            t = mk_ton(case["t"])
            sm = sc % t
            return {
                "kept": bool(a.score["piano__0"] == mel and b.score["piano__0"] == mel and
                             [repr(x) for x in a.score["piano__0"].notes] == [repr(x) for x in mel.notes]),
                "melody_o": [repr(x) for x in mel.o(k).notes] == [repr(x.o(k)) for x in mel.notes],
                "score_o": all(so.chords[i].score[p] == sc.chords[i].score[p].o(k) and so.chords[i].octave == sc.chords[i].octave
                               and so.chords[i].tonality == sc.chords[i].tonality
                               for i in range(2) for p in sc.chords[i].score),
                "score_mod": all(sm.chords[i] == (sc.chords[i] % t) and sm.chords[i].score == sc.chords[i].score for i in range(2)),
                "durations": [str(so.duration), str(sm.duration), str(sc.duration)],
            }
        return mlang.guarded(f)

    def spec(self, case, r):
        if mlang.is_exc(r):
            return {"sig": "structure-raises", "msg": str(r)}
        for k in ("kept", "melody_o", "score_o", "score_mod"):
            if not r[k]:
                return {"sig": "structure:" + k, "msg": k}
        if len(set(r["durations"])) != 1:
            return {"sig": "transposition-changes-timing", "msg": str(r["durations"])}
        return None


class RenderShift(Stream):
    """rendering level: score % t and score.o(k) against the rendered note events (python oracle on get_notes)"""
    name = "render_shift"
    checker = None
    pair = "property oracle on get_notes(score % t), get_notes(score.o(k)) vs get_notes(score)"
    quick, thorough = 500, 8000

    def gen(self, rng, n):
        from harness import score_gen as sg
        for _ in range(n):
            sc = sg.rand_score(rng, max_chords=4)
            md = rng.choice(MODES)
            sc = [dict(c, tmode=md) for c in sc]
            yield {"score": sc, "t": {"deg": rng.randrange(12), "mode": md, "oct": rng.choice([0, 0, 1, -1])}, "k": rng.randrange(-2, 3)}

    def impl(self, case):
        from harness import score_gen as sg
        def f():
            sc = sg.mk_rscore(case["score"])
            base = sg.merge_rows(sg.impl_rows(sc))
            mod = sg.merge_rows(sg.impl_rows(sc % mk_ton(case["t"])))
            octv = sg.merge_rows(sg.impl_rows(sc.o(case["k"])))
            # every chord through Chord.transpose(j) (j semitones, a method of its own: the tonality degree is moved, not a tonality added)
            from musiclang import Score
            j = case["t"]["deg"] + 12 * case["t"]["oct"] + case["k"]
            try:
                trs = Score([c.transpose(j) for c in sc.chords])
                tr = sg.merge_rows(sg.impl_rows(trs))
                _ = str(trs), [c.tonality.degree for c in trs.chords]
                if any(not (0 <= c.tonality.degree < 12) for c in trs.chords) or Score.from_str(str(trs)) != trs:
                    return {"exc": "transposed chord has no readable text / an unnormalised degree", "base": base}
            except AttributeError:
                tr = None                     # a chord without a tonality has no degree to move
            return {"base": base, "mod": mod, "oct": octv, "tr": tr, "j": j, "tracks": list(dict.fromkeys(nm for c in case["score"] for nm, _ in c["parts"]))}
        return mlang.guarded(f)

    @staticmethod
    def part_class(score, nm):
        """'relative' = every pitch of the part is chord-relative (relative notes rooted in a chord-relative note),
        'free' = only absolute/drum notes, None = mixed (not claimed)"""
        kinds, rooted, ok = set(), False, True
        for c in score:
            part = dict((a, b) for a, b in c["parts"]).get(nm)
            if part is None:
                rooted = False
                continue
            for n in part:
                if n["kind"] in "rl":
                    continue
                if n.get("dir"):
                    if not rooted:
                        ok = False
                    kinds.add("rel")
                else:
                    kinds.add(n["kind"])
                    rooted = n["kind"] in "shcb"
                    if n["kind"] in "ad":
                        rooted = False
        if not ok:
            return None
        if kinds <= set("shcb") | {"rel"}:
            return "relative"
        if kinds <= set("ad"):
            return "free"
        return None

    def spec(self, case, r):
        if mlang.is_exc(r):
            if "IndexError" in str(r):
                return None
            return {"sig": "render-shift-raises", "msg": str(r)}
        t, k = case["t"], case["k"]
        for i, nm in enumerate(r["tracks"]):
            cls = self.part_class(case["score"], nm)
            b, m, o = r["base"].get(i, []), r["mod"].get(i, []), r["oct"].get(i, [])
            if [x[1:] for x in b] != [x[1:] for x in m] or [x[1:] for x in b] != [x[1:] for x in o]:
                return {"sig": "transposition-changes-timing", "msg": f"part {nm}"}
            if cls == "relative":
                d = t["deg"] + 12 * t["oct"]
                if [x[0] + d for x in b] != [x[0] for x in m]:
                    return {"sig": "score-modulation-interval", "msg": f"part {nm}: {[x[0] for x in b][:8]} -> {[x[0] for x in m][:8]}, expected +{d}"}
            if cls == "free" and [x[0] for x in b] != [x[0] for x in m]:
                return {"sig": "score-modulation-moves-absolute", "msg": f"part {nm}"}
            if r.get("tr") is not None:
                tr = r["tr"].get(i, [])
                if [x[1:] for x in b] != [x[1:] for x in tr]:
                    return {"sig": "transposition-changes-timing", "msg": f"part {nm} (Chord.transpose)"}
                if cls == "relative" and [x[0] + r["j"] for x in b] != [x[0] for x in tr]:
                    return {"sig": "chord-transpose-interval", "msg": f"part {nm}: transpose({r['j']}): {[x[0] for x in b][:8]} -> {[x[0] for x in tr][:8]}"}
                if cls == "free" and [x[0] for x in b] != [x[0] for x in tr]:
                    return {"sig": "chord-transpose-moves-absolute", "msg": f"part {nm}"}
            # Score.o(k) raises the melodies: s h c b a move by 12k, drums and relative notes do not
            # (a relative note is not rewritten: it follows its reference, which moved by 12k, inside an octave-periodic system)
            if cls in ("relative", "free") and not nm.startswith("drums"):
                if [x[0] + 12 * k for x in b] != [x[0] for x in o]:
                    return {"sig": "score-octave", "msg": f"part {nm}: o({k}): {[x[0] for x in b][:8]} -> {[x[0] for x in o][:8]}"}
        return None

    def hist_keys(self, case, r):
        if mlang.is_exc(r):
            return ["render-exc"]
        return ["class=" + str(self.part_class(case["score"], nm)) for nm in r["tracks"]]

    def shrink(self, case):
        from harness import score_gen as sg
        for s in sg.shrink_score(case["score"]):
            yield dict(case, score=s)


class TonalityLess(Stream):
    """the library's bare degree symbols (I, V['6'] ...: chords without a tonality, read in C major) obey the same octave and modulation
    arithmetic: chord.o(k) moves chord-relative notes by 12k, and the bare chord sounds like the chord % C major"""
    name = "tonality_less_chords"
    checker = None
    pair = "property oracle: Chord(element, extension, octave) WITHOUT tonality: o(k), % t and the C major reading, through Chord.to_pitch"
    quick, thorough = 600, 8000

    def gen(self, rng, n):
        for i in range(n):
            c = rand_chord(rng, modifiers=0.2)
            c.update(ton_none=True, tdeg=0, tmode="M", toct=0)
            nt = rand_note(rng)
            nt.pop("mode", None)                       # a per-note mode needs a tonality to change (AttributeError otherwise: C01 false alarm)
            yield {"chord": c, "k": rng.choice([1, -1, 2, -2, 3]), "note": nt, "t": rand_ton(rng, True)}

    def impl(self, case):
        def pitch(f):
            r = mlang.guarded(f)
            return r if mlang.is_exc(r) else (None if r is None else int(r))
        from musiclang import Tonality
        c = mlang.mk_chord(case["chord"])
        n = mlang.mk_note(case["note"])
        k, t = case["k"], mk_ton(case["t"])
        return {"p0": pitch(lambda: c.to_pitch(n)), "pk": pitch(lambda: c.o(k).to_pitch(n)), "pc": pitch(lambda: (c % Tonality(0)).to_pitch(n)),
                "pkk": pitch(lambda: c.o(k).o(-k).to_pitch(n)), "pt": pitch(lambda: (c % t).to_pitch(n)),
                "ptk": pitch(lambda: (c.o(k) % t).to_pitch(n)), "pset": pitch(lambda: c.set_octave(c.octave + k).to_pitch(n))}

    def spec(self, case, r):
        if mlang.is_exc(r["p0"]) or r["p0"] is None:
            return None                                   # the note has no pitch on this chord at all (e.g. an accidental on a degree the table lacks)
        if any(mlang.is_exc(v) for v in r.values()):
            return {"sig": "tonality-less-raises", "msg": str({k: str(v) for k, v in r.items() if mlang.is_exc(v)})}
        rel, k = case["note"]["kind"] in "shcb", case["k"]
        if r["pc"] != r["p0"]:
            return {"sig": "tonality-less:not-c-major", "msg": f"bare chord {r['p0']}, chord % C major {r['pc']}"}
        for key, lab in (("pk", "o(k)"), ("pset", "set_octave")):
            if r[key] != r["p0"] + (12 * k if rel else 0):
                return {"sig": f"tonality-less:chord-octave:{case['note']['kind']}", "msg": f"{lab} with k={k}: {r['p0']} -> {r[key]}"}
        if r["pkk"] != r["p0"]:
            return {"sig": "tonality-less:octave-not-inverse", "msg": f"o(k).o(-k): {r['p0']} -> {r['pkk']}"}
        if r["ptk"] != r["pt"] + (12 * k if rel else 0):
            return {"sig": "tonality-less:octave-then-modulate", "msg": f"(c.o({k}) % t) {r['ptk']} vs (c % t) {r['pt']}"}
        return None

    def hist_keys(self, case, r):
        return ["kind=" + case["note"]["kind"], "fig=" + case["chord"]["fig"]]

    def shrink(self, case):
        c = case["chord"]
        for key in ("repl", "adds", "rems"):
            if c.get(key):
                yield dict(case, chord={k2: v for k2, v in c.items() if k2 != key})
        for key, val in (("coct", 0), ("elem", 0), ("fig", "")):
            if c.get(key) != val:
                yield dict(case, chord=dict(c, **{key: val}))


class ScoreOctave(Stream):
    """Score.o(k) against Octave.score_o: every note of every part through Note.o(k) (relative notes, drums, rests, continuations copied)"""
    name = "score_octave"
    mods = ["Model.Pitch", "Model.Ton", "Model.Render", "Model.Slice", "Model.Octave"]
    checker = "check_score_o"
    pair = "Score.o / Chord.o_melody / Melody.o / Note.o <-> Octave.score_o"
    quick, thorough = 600, 10000

    def gen(self, rng, n):
        from harness import score_gen as sg
        for _ in range(n):
            yield {"score": sg.rand_score(rng, max_chords=3), "k": rng.choice([1, -1, 2, -2, 3, 0])}

    def impl(self, case):
        from harness import score_gen as sg
        def f():
            return sg.read_score(sg.mk_rscore(case["score"]).o(case["k"]))
        return mlang.guarded(f)

    def term(self, case, r):
        from harness import score_gen as sg
        tpq = sg.score_tpq(case["score"])
        return T(sg.coq_rscore(case["score"], tpq), Z(case["k"]), "None" if mlang.is_exc(r) else "(Some " + sg.coq_rscore(r, tpq) + ")")

    def spec(self, case, r):
        if mlang.is_exc(r):
            return {"sig": "score-octave-raises", "msg": str(r)}
        return None

    def nontrivial(self, case, r):
        return case["k"] != 0

    def shrink(self, case):
        from harness import score_gen as sg
        for s in sg.shrink_score(case["score"]):
            yield dict(case, score=s)


def streams():
    return [TonAlgebra(), Modulate(), Invariance(), RenderShift(), TonalityLess(), ScoreOctave()]

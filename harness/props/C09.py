"""C09 - relative notes move by exactly k steps from the previous sounded pitch."""
from harness.main import Stream
from harness import core, mlang
from harness.core import Z, S, L, O, T, Zl, B
from harness.mlang import MODES
from harness.props.C01 import rand_chord

MODEL_MODS = ["Model.Pitch", "Model.Rel"]
RULE = ("chords from the C01 generator (bare and modified, all modes) x previous pitch (-30..30 dense, -130..130 window-edge "
        "stream) x 8 relative kinds (s/h/c/b x up/down) x value 0..15 x octave -2..2; raw systems of 1..12 pitch classes for "
        "get_relative_scale_value; non-trivial = total step count != 0 or previous pitch outside the system")
TRUSTED = ["numpy boolean filtering/indexing of an int array behaves as list filtering/indexing (IndexError out of range)"]
ASSUMPTIONS = ["previous pitch and answer inside the +-10 octave window of the implementation (|p| <= 96, |answer| <= 108)"]


# ---- Spec (closed form, written independently of the code) -----------------
def spec_system(pitches):
    return sorted(set(p % 12 for p in pitches))


def idx(sig, j):
    n = len(sig)
    return sig[j % n] + 12 * (j // n)


def rank_ge(sig, p):
    """least j with idx(j) >= p"""
    q, r = divmod(p, 12)
    return len(sig) * q + sum(1 for s in sig if s < r)


def rank_le(sig, p):
    """greatest j with idx(j) <= p"""
    q, r = divmod(p, 12)
    return len(sig) * q + sum(1 for s in sig if s <= r) - 1


def spec_relative(sig, val, octave, down, last):
    n = len(sig)
    k = val + n * octave
    if down:
        k = -k
    insys = (last % 12) in sig
    if k > 0:
        return idx(sig, rank_ge(sig, last) + k - (0 if insys else 1))
    if k < 0:
        return idx(sig, rank_le(sig, last) + k + (0 if insys else 1))
    if insys:
        return last
    u, d = idx(sig, rank_ge(sig, last)), idx(sig, rank_le(sig, last))
    return u if abs(u - last) <= abs(d - last) else d


def in_window(last, ans):
    return abs(last) <= 96 and abs(ans) <= 108


def rand_rel_note(rng):
    k = rng.choice("sshhccbb")
    return {"kind": k, "dir": rng.choice("ud"), "val": rng.choice([0, 1, 1, 2, 3, 4, 5, 6, 7, 9, 12, 15]),
            "oct": rng.choice([0, 0, 0, 1, -1, 2, -2]),
            **({"mode": rng.choice(MODES)} if k == "s" and rng.random() < 0.2 else {})}


class Relative(Stream):
    name = "to_pitch_relative"
    mods = ["Model.Pitch", "Model.Rel"]
    checker = "check_relative"
    pair = "Chord.to_pitch(note, last_pitch) / note_to_pitch_result (relative) <-> Rel.to_pitch_rel"
    quick, thorough = 4000, 80000

    def gen(self, rng, n):
        for i in range(n):
            c = rand_chord(rng, modifiers=0.25)
            c.pop("ton_none", None)
            if i % 3:
                c["toct"], c["coct"] = rng.choice([0, 0, 1, -1]), rng.choice([0, 0, 1, -1])
            last = rng.randrange(-30, 31) if i % 6 else rng.randrange(-130, 131)
            yield {"chord": c, "note": rand_rel_note(rng), "last": last}

    def system(self, case, ch):
        k = case["note"]["kind"]
        if k == "s":
            ch2 = ch.change_mode(case["note"]["mode"]) if case["note"].get("mode") else ch
            return ch2.scale_pitches
        return {"c": lambda: ch.chord_pitches, "b": lambda: ch.chord_extension_pitches,
                "h": lambda: ch.chromatic_pitches}[k]()

    def impl(self, case):
        def f():
            ch = mlang.mk_chord(case["chord"])
            sysm = [int(x) for x in self.system(case, ch)]
            try:
                p = int(ch.to_pitch(mlang.mk_note(case["note"]), last_pitch=case["last"]))
            except IndexError:
                p = {"exc": "IndexError"}
            return {"p": p, "system": sysm}
        return mlang.guarded(f)

    def term(self, case, r):
        exp = "None" if mlang.is_exc(r) or mlang.is_exc(r["p"]) else f"(Some {Z(r['p'])})"
        return T(mlang.coq_chord(case["chord"]), mlang.coq_pnote(case["note"]), Z(case["last"]), exp)

    def spec(self, case, r):
        if mlang.is_exc(r):
            if any(case["chord"].get(k) for k in ("repl", "adds", "rems")):
                return None           # invalid modifier set
            return {"sig": "relative-raises", "msg": str(r)}
        n = case["note"]
        sig = spec_system(r["system"])
        want = spec_relative(sig, n["val"], n["oct"], n["dir"] == "d", case["last"])
        if not in_window(case["last"], want):
            return None               # outside the implementation's window: not claimed
        if r["p"] != want:
            return {"sig": f"relative:{n['kind']}{n['dir']}", "msg": f"from {case['last']} in system {sig}: expected {want}, got {r['p']}"}
        return None

    def nontrivial(self, case, r):
        n = case["note"]
        return n["val"] != 0 or n["oct"] != 0

    def hist_keys(self, case, r):
        n = case["note"]
        out = [f"rel={n['kind']}{n['dir']}", "window-edge" if abs(case["last"]) > 96 else "in-window"]
        if not mlang.is_exc(r):
            out.append("prev-in-system" if case["last"] % 12 in spec_system(r["system"]) else "prev-outside-system")
            out.append("IndexError" if mlang.is_exc(r["p"]) else "pitch")
        return out

    def shrink(self, case):
        c, n = case["chord"], case["note"]
        for key, val in (("toct", 0), ("coct", 0), ("tdeg", 0), ("elem", 0), ("fig", ""), ("tmode", "M")):
            if c.get(key) != val:
                yield dict(case, chord=dict(c, **{key: val}))
        for key in ("repl", "adds", "rems"):
            if c.get(key):
                yield dict(case, chord={k: v for k, v in c.items() if k != key})
        for key, val in (("oct", 0), ("val", 0), ("val", 1)):
            if n.get(key) != val:
                yield dict(case, note=dict(n, **{key: val}))
        if n.get("mode"):
            yield dict(case, note={k: v for k, v in n.items() if k != "mode"})
        if case["last"] != 0:
            yield dict(case, last=0)
            yield dict(case, last=case["last"] // 2)

    def model_answer(self, case, r):
        return f"to_pitch_rel {mlang.coq_chord(case['chord'])} {mlang.coq_pnote(case['note'])} {Z(case['last'])}"


class RawSystem(Stream):
    """get_relative_scale_value on arbitrary systems of 1..12 pitch classes (duplicates, any octave)"""
    name = "get_relative_scale_value"
    mods = ["Model.Pitch", "Model.Rel"]
    checker = "check_get_relative"
    pair = "pitches_utils.get_relative_scale_value <-> Rel.get_relative"
    quick, thorough = 3000, 60000

    def gen(self, rng, n):
        for i in range(n):
            size = rng.randrange(1, 13)
            sysm = [rng.randrange(-24, 36) for _ in range(size)]
            if rng.random() < 0.2:
                sysm.append(sysm[0] + 12)
            last = rng.randrange(-40, 41) if i % 5 else rng.randrange(-130, 131)
            yield {"system": sysm, "val": rng.choice([0, 0, 1, 1, 2, 3, 5, 8, 13]), "oct": rng.choice([0, 0, 1, -1, 2]),
                   "down": rng.random() < 0.5, "last": last, "back": True}

    def impl(self, case):
        from musiclang.write.pitches.pitches_utils import get_relative_scale_value
        from musiclang import Note

        def one(val, octave, down, last):
            try:
                return int(get_relative_scale_value(Note("sd" if down else "su", val, octave, 1), last, list(case["system"])))
            except IndexError:
                return {"exc": "IndexError"}
        p = one(case["val"], case["oct"], case["down"], case["last"])
        back = None
        if not mlang.is_exc(p):
            back = one(case["val"], case["oct"], not case["down"], p)
        return {"p": p, "back": back}

    def term(self, case, r):
        exp = "None" if mlang.is_exc(r["p"]) else f"(Some {Z(r['p'])})"
        return T(Z(case["val"]), Z(case["oct"]), B(case["down"]), Z(case["last"]), Zl(case["system"]), exp)

    def spec(self, case, r):
        sig = spec_system(case["system"])
        want = spec_relative(sig, case["val"], case["oct"], case["down"], case["last"])
        if not in_window(case["last"], want):
            return None
        if r["p"] != want:
            return {"sig": "relative-raw", "msg": f"system {sig} from {case['last']}: expected {want}, got {r['p']}"}
        if r["p"] % 12 not in sig:
            return {"sig": "relative-result-outside-system", "msg": f"{r['p']} not in {sig}"}
        if case["last"] % 12 in sig and r["back"] != case["last"]:
            return {"sig": "relative-up-down-not-inverse", "msg": f"{case['last']} -> {r['p']} -> {r['back']}"}
        return None

    def nontrivial(self, case, r):
        return case["val"] != 0 or case["oct"] != 0

    def hist_keys(self, case, r):
        return [f"system-size={len(spec_system(case['system']))}", "raw-IndexError" if mlang.is_exc(r["p"]) else "raw-pitch"]

    def shrink(self, case):
        s = case["system"]
        for i in range(len(s)):
            if len(s) > 1:
                yield dict(case, system=s[:i] + s[i + 1:])
        for key, val in (("oct", 0), ("val", 0), ("val", 1), ("last", 0)):
            if case[key] != val:
                yield dict(case, **{key: val})

    def model_answer(self, case, r):
        return f"get_relative {Z(case['val'])} {Z(case['oct'])} {B(case['down'])} {Z(case['last'])} {Zl(case['system'])}"


class ReferenceSurvives(Stream):
    """melodies with relative notes, rests and chord changes: the rendered pitches and the pitches written by to_absolute_note
    both follow the reference pitch the statement describes (python oracle: score_gen.spec_sounding, independent of the code)"""
    name = "reference_pitch"
    checker = None
    pair = "property oracle on get_notes(score) and on Score.to_absolute_note() vs the sounding notes of the statement"
    quick, thorough = 500, 8000

    def gen(self, rng, n):
        from harness import score_gen as sg
        from harness.props.C11 import fix_relative
        for _ in range(n):
            sc = sg.rand_score(rng, max_chords=4, rel=0.45, cont=0.1, rest=0.15, accs=False)
            for c in sc:
                c["coct"] = rng.choice([0, 0, 0, 1, -1])
                c["tdeg"] = rng.choice([0, 0, c["tdeg"]])          # pitch 0 (the tonic of C) is a reference like any other
            yield {"score": fix_relative([dict(c, parts=[p for p in c["parts"] if not p[0].startswith("drums")] or c["parts"][:1]) for c in sc])}

    def impl(self, case):
        from harness import score_gen as sg
        def f():
            sc = sg.mk_rscore(case["score"])
            names = list(dict.fromkeys(nm for ch in sc.chords for nm in ch.score.keys()))
            ev = lambda s: {names[i]: [[p, o, d] for p, o, d, v in l] for i, l in sg.merge_rows(sg.impl_rows(s)).items()}
            ab = sc.to_absolute_note()
            written = {}
            for ch in ab.chords:
                for nm, mel in ch.score.items():
                    for nt in mel.notes:
                        if nt.type not in ("r", "l"):
                            written.setdefault(nm, []).append([nt.type, int(nt.val) + 12 * int(nt.octave)])
            return {"rendered": ev(sc), "absolute": ev(ab), "written": written}
        return mlang.guarded(f)

    def spec(self, case, r):
        from harness import score_gen as sg
        if mlang.is_exc(r):
            if "IndexError" in str(r):
                return None
            return {"sig": "relative-render-raises", "msg": str(r)}
        want = {nm: [[p, o, d] for p, o, d, v in l] for nm, l in sg.spec_sounding(case["score"]).items()}
        for nm, evs in want.items():
            if nm.startswith("drums"):
                continue
            if r["rendered"].get(nm, []) != evs:
                return {"sig": "relative-reference:rendering", "msg": f"part {nm}: {r['rendered'].get(nm, [])[:6]} expected {evs[:6]}"}
            if r["absolute"].get(nm, []) != evs:
                return {"sig": "relative-reference:to_absolute_note", "msg": f"part {nm}: {r['absolute'].get(nm, [])[:6]} expected {evs[:6]}"}
            w = r["written"].get(nm, [])
            if any(t != "a" for t, _ in w) or [p for _, p in w] != [e[0] for e in evs]:
                return {"sig": "relative-reference:written-absolute-notes", "msg": f"part {nm}: {w[:6]} expected {[e[0] for e in evs][:6]}"}
        return None

    def nontrivial(self, case, r):
        return any(n.get("dir") for c in case["score"] for _, notes in c["parts"] for n in notes)

    def shrink(self, case):
        from harness import score_gen as sg
        from harness.props.C11 import fix_relative
        for s2 in sg.shrink_score(case["score"]):
            yield {"score": fix_relative(s2)}


def streams():
    return [Relative(), RawSystem(), ReferenceSurvives()]

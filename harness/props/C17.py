"""C17 - metric grids place notes exactly on their pulses; Euclidean rhythms are even."""
from fractions import Fraction as F
from harness.main import Stream
from harness import core, mlang
from harness.core import Z, S, L, O, T, B

MODEL_MODS = ["Model.Metric"]
RULE = ("grids over the 9 signatures x tatums {1, 1/2, 1/4, 1/3, 1/8, 1/6} x 1..3 bars (random binary arrays, leading rests, all-ones, "
        "all-zeros-but-one); melodies of 1..7 notes incl. rests; every (steps, pulses) with 1 <= pulses <= steps <= 40 (quick) / 128 "
        "(thorough); shifts -20..20; non-trivial = grid with at least 2 pulses / pulses not in {1, steps}")
TRUSTED = ["Fraction arithmetic of signature/tatum (the model works in tatum units)"]
ASSUMPTIONS = ["the whole metric is applied (start/end None), expand=True", "array length = duration / tatum (enforced by Metric.__init__)"]

SIGS = [(4, 4), (3, 4), (2, 4), (6, 4), (3, 8), (6, 8), (9, 8), (12, 8), (2, 2)]
TATUMS = [F(1), F(1, 2), F(1, 4), F(1, 3), F(1, 8), F(1, 6)]


def rand_grid(rng):
    for _ in range(100):
        sig = rng.choice(SIGS)
        tat = rng.choice(TATUMS)
        bars = rng.choice([1, 1, 2, 3])
        n = bars * sig[0] * F(4, sig[1]) / tat
        if n.denominator == 1 and 1 <= n <= 48:
            n = int(n)
            w = rng.random()
            if w < 0.1:
                arr = [1] * n
            elif w < 0.2:
                arr = [0] * n
                arr[rng.randrange(n)] = 1
            else:
                p = rng.choice([0.2, 0.4, 0.6])
                arr = [1 if rng.random() < p else 0 for _ in range(n)]
            if sum(arr) == 0:
                arr[rng.randrange(n)] = 1
            return sig, tat, bars, arr
    return (4, 4), F(1), 1, [1, 0, 0, 1]


class Apply(Stream):
    name = "apply_to_melody"
    mods = MODEL_MODS
    checker = "check_apply"
    pair = "Metric.apply_to_melody / get_beat_durations / _apply_durations_to_melody <-> Metric.apply_metric"
    quick, thorough = 1500, 25000

    def gen(self, rng, n):
        for _ in range(n):
            sig, tat, bars, arr = rand_grid(rng)
            m = rng.randrange(1, 8)
            mel = [{"kind": rng.choice("sssshr"), "val": i % 7, "oct": i // 7} for i in range(m)]
            if rng.random() < 0.2:
                # a drum or pattern melody: every element that is not a rest or a continuation is a pulse of the extracted grid
                mel = [{"kind": rng.choice("ddx"), "val": i % 7, "oct": i // 7} for i in range(m)]
            case = {"sig": list(sig), "tatum": tat, "bars": bars, "array": arr, "mel": mel}
            if rng.random() < 0.3:
                # a window [start, end) in tatums, possibly several grid lengths long (the grid repeats cyclically)
                a = rng.randrange(0, 2 * len(arr))
                case["window"] = [a, a + rng.randrange(1, 3 * len(arr) + 1)]
            if rng.random() < 0.3:
                case["reused"] = True
            yield case

    def impl(self, case):
        from musiclang import Metric, Melody, Note, Silence
        def f():
            met = Metric(list(case["array"]), tuple(case["sig"]), tatum=F(case["tatum"]), nb_bars=case["bars"])
            notes = [Silence(1) if n["kind"] == "r" else Note(n["kind"], n["val"], n["oct"], 1) for n in case["mel"]]
            mel = Melody(notes)
            if case.get("reused"):
                # the caller's melody object has already been through the other public form of the call (and its result thrown away)
                try:
                    met.apply_to_melody(mel, expand=False)
                except Exception:
                    pass
            if case.get("window"):
                res = met.apply_to_melody(mel, start=case["window"][0] * F(case["tatum"]), end=case["window"][1] * F(case["tatum"]))
            else:
                res = met.apply_to_melody(mel)
            out = []
            for x in res.notes:
                k = F(x.duration) / F(case["tatum"])
                src = None
                for i, n in enumerate(notes):
                    if x.type == n.type and x.val == n.val and x.octave == n.octave and x.type != "r":
                        src = i
                out.append([src, k, x.type])
            back = [] if case.get("window") else \
                Metric.FromMelody(res, signature=tuple(case["sig"]), tatum=F(case["tatum"]), nb_bars=case["bars"]).array
            return {"entries": out, "duration": F(res.duration), "metric_duration": F(met.duration), "back": [int(b) for b in back],
                    "onsets": [F(t) for t in res.get_onset_times()]}
        return mlang.guarded(f)

    @staticmethod
    def grid(case):
        """the pulse grid actually applied: the array, or its cyclic repetition over the window"""
        arr = case["array"]
        if case.get("window"):
            a, b = case["window"]
            return [arr[i % len(arr)] for i in range(a, b)]
        return arr

    def expected_entries(self, case, r):
        """the implementation's entries as (source index or None, tatums); a melody rest that lands on a pulse is (its index)"""
        ent = []
        for (src, k, typ), _ in zip(r["entries"], range(10 ** 6)):
            ent.append((src, k))
        return ent

    def term(self, case, r):
        if mlang.is_exc(r):
            exp = "None"
        else:
            # rests coming from the melody itself are reported by the model as Some index: recover the index from the position
            items = []
            for i, (src, k, typ) in enumerate(r["entries"]):
                assert F(k).denominator == 1
                first_rest = (i == 0 and self.grid(case)[0] != 1)
                if src is None and not first_rest and self.group_is_note(self.grid(case), i):
                    src = i % len(case["mel"])
                items.append(T(O(src, Z), Z(int(k))))
            exp = "(Some " + L(items) + ")"
        return T(core.Zl(self.grid(case)), Z(len(case["mel"])), exp)

    @staticmethod
    def group_is_note(arr, i):
        """is the i-th group of the grid a pulse group?"""
        starts = [0] + [j for j in range(1, len(arr)) if arr[j] != 0]
        return i < len(starts) and arr[starts[i]] == 1

    def spec(self, case, r):
        if mlang.is_exc(r):
            return {"sig": "apply-raises", "msg": str(r)}
        arr, tat = self.grid(case), F(case["tatum"])
        if (not case.get("window") and r["duration"] != r["metric_duration"]) or r["duration"] != len(arr) * tat:
            return {"sig": "apply-duration", "msg": f"{r['duration']} vs metric {r['metric_duration']}"}
        pulses = [i * tat for i, b in enumerate(arr) if b == 1]
        # onsets of the entries that come from the melody = the pulse positions
        on = [t for t, (src, k, typ) in zip(r["onsets"], r["entries"])
              if not (typ == "r" and (src is None) and not self.is_melody_rest(case, r, t))]
        note_onsets = [t for t, e in zip(r["onsets"], r["entries"]) if self.entry_on_pulse(case, t)]
        if note_onsets != pulses:
            return {"sig": "apply-onsets", "msg": f"onsets {note_onsets} vs pulses {pulses}"}
        # notes taken in order, cyclically (from the first note when the grid starts on a pulse)
        m = len(case["mel"])
        k0 = 0 if arr[0] == 1 else 1
        for j, t in enumerate(pulses):
            idx = r["onsets"].index(t)
            want = case["mel"][(j + k0) % m]
            typ = r["entries"][idx][2]
            src = r["entries"][idx][0]
            if want["kind"] == "r":
                if typ != "r":
                    return {"sig": "apply-order", "msg": f"pulse {j}: expected the melody's rest"}
            elif src != (j + k0) % m:
                return {"sig": "apply-order", "msg": f"pulse {j} took note {src}, expected {(j + k0) % m}"}
        if not case.get("window") and all(n["kind"] != "r" for n in case["mel"]) and r["back"] != [1 if b == 1 else 0 for b in arr]:
            return {"sig": "from-melody-roundtrip", "msg": f"{r['back']} vs {arr}"}
        return None

    def entry_on_pulse(self, case, t):
        i = t / F(case["tatum"])
        return i.denominator == 1 and self.grid(case)[int(i)] == 1

    def is_melody_rest(self, case, r, t):
        return self.entry_on_pulse(case, t)

    def nontrivial(self, case, r):
        return sum(self.grid(case)) >= 2

    def hist_keys(self, case, r):
        return ["leading-rest" if self.grid(case)[0] != 1 else "starts-on-pulse", f"sig={case['sig'][0]}/{case['sig'][1]}",
                "window" if case.get("window") else "whole-grid"]

    def shrink(self, case):
        if len(case["mel"]) > 1:
            yield dict(case, mel=case["mel"][:-1])


def max_even(pattern):
    """Clough-Douthett: every generic span (k consecutive onsets) takes at most two consecutive sizes"""
    n = len(pattern)
    ons = [i for i, b in enumerate(pattern) if b == 1]
    p = len(ons)
    for k in range(1, p):
        sizes = {(ons[(i + k) % p] - ons[i]) % n for i in range(p)}
        if len(sizes) > 2 or max(sizes) - min(sizes) > 1:
            return False
    return True


class Euclid(Stream):
    name = "bjorklund"
    mods = MODEL_MODS
    checker = "check_bjorklund"
    pair = "utils_metric.bjorklund_algorithm / Metric.Euclidian <-> Metric.bjorklund"
    quick, thorough = 820, 8256

    def gen(self, rng, n):
        top = 40 if n < 2000 else 128
        k = 0
        for s in range(1, top + 1):
            for p in range(1, s + 1):
                if k >= n:
                    return
                yield {"steps": s, "pulses": p}
                k += 1

    def impl(self, case):
        from musiclang.write.rhythm.utils_metric import bjorklund_algorithm
        from musiclang import Metric
        def f():
            s_, p_ = case["steps"], case["pulses"]
            direct = [int(x) for x in bjorklund_algorithm(s_, p_)]
            # the same rhythm through the public constructor, for every split of the steps into 1..4 bars of k quarter notes
            for bars in (1, 2, 3, 4):
                if s_ % bars == 0:
                    for sig in SIGS:
                        for tat in TATUMS + [F(1, 16), F(1, 12), F(1, 24)]:
                            if F(sig[0]) * F(4, sig[1]) / tat == s_ // bars:
                                earlier = Metric.Euclidian(p_, sig, tat, nb_bars=bars)
                                for j in range(len(earlier.array)):
                                    earlier.array[j] = 1 - earlier.array[j]          # its owner edits the array it was given, in place
                                m = Metric.Euclidian(p_, sig, tat, nb_bars=bars)
                                if [int(x) for x in m.array] != direct:
                                    return {"direct": direct, "metric": [int(x) for x in m.array], "bars": bars, "sig": list(sig), "tatum": str(tat)}
                                # and through the instance method of an existing metric of the same shape
                                m2 = Metric.Full(sig, tat, nb_bars=bars).euclidian(p_)
                                if [int(x) for x in m2.array] != direct:
                                    return {"direct": direct, "metric": [int(x) for x in m2.array], "bars": bars, "sig": list(sig), "tatum": str(tat)}
            return direct
        return mlang.guarded(f)

    def term(self, case, r):
        if isinstance(r, dict) and not mlang.is_exc(r):
            r = r["metric"]
        return T(Z(case["steps"]), Z(case["pulses"]), "None" if mlang.is_exc(r) else f"(Some {core.Zl(r)})")

    def spec(self, case, r):
        s, p = case["steps"], case["pulses"]
        if mlang.is_exc(r):
            return {"sig": "euclid-raises", "msg": f"({s},{p}): {r}"}
        if isinstance(r, dict):
            if not max_even(r["metric"]) or sum(r["metric"]) != p or r["metric"][0] != 1:
                return {"sig": "euclid-metric-not-maximally-even", "msg": f"Metric.Euclidian({p}, {tuple(r['sig'])}, {r['tatum']}, nb_bars={r['bars']}) = {r['metric']}"}
            return {"sig": "euclid-metric-differs-from-bjorklund", "msg": f"({s},{p}) in {r['bars']} bars: {r['metric']} vs {r['direct']}"}
        if len(r) != s:
            return {"sig": "euclid-length", "msg": f"({s},{p}): {len(r)} steps"}
        if sum(r) != p or any(b not in (0, 1) for b in r):
            return {"sig": "euclid-pulse-count", "msg": f"({s},{p}): {sum(r)} pulses"}
        if r[0] != 1:
            return {"sig": "euclid-downbeat", "msg": f"({s},{p}) starts with {r[0]}"}
        if not max_even(r):
            return {"sig": "euclid-not-maximally-even", "msg": f"({s},{p}): {r}"}
        return None

    def nontrivial(self, case, r):
        return 1 < case["pulses"] < case["steps"]


class Algebra(Stream):
    name = "metric_algebra"
    mods = MODEL_MODS
    checker = "check_algebra"
    pair = "Metric.complementary / reversed / circular_shift <-> Metric.complementary / reversed / circular_shift"
    quick, thorough = 800, 10000

    def gen(self, rng, n):
        for _ in range(n):
            sig, tat, bars, arr = rand_grid(rng)
            yield {"sig": list(sig), "tatum": tat, "bars": bars, "array": arr, "n": rng.randrange(-20, 21)}

    def impl(self, case):
        from musiclang import Metric
        met = Metric(list(case["array"]), tuple(case["sig"]), tatum=F(case["tatum"]), nb_bars=case["bars"])
        n = case["n"]
        return {"c": met.complementary().array, "r": met.reversed().array, "s": met.circular_shift(n).array,
                "cc": met.complementary().complementary().array, "rr": met.reversed().reversed().array,
                "ss": met.circular_shift(n).circular_shift(-n).array}

    def term(self, case, r):
        return T(core.Zl(case["array"]), Z(case["n"]), T(core.Zl(r["c"]), core.Zl(r["r"]), core.Zl(r["s"])))

    def spec(self, case, r):
        a = case["array"]
        if r["cc"] != a or r["rr"] != a or r["ss"] != a:
            return {"sig": "metric-operation-not-invertible", "msg": str(r)}
        n, ln = case["n"], len(a)
        if r["s"] != [a[(i - n) % ln] for i in range(ln)]:
            return {"sig": "circular-shift", "msg": f"shift {n}: {r['s']}"}
        return None


class ApplyNoExpand(Stream):
    """expand=False: the melody is not repeated, missing notes are rests; the result still lasts the grid and has one element per pulse"""
    name = "apply_no_expand"
    mods = MODEL_MODS
    checker = "check_apply_ne"
    pair = "Metric.apply_to_melody(expand=False) (padding with rests, _apply_durations_to_melody) <-> Metric.apply_metric_ne; oracle: duration, one element per pulse, notes in order then rests"
    quick, thorough = 600, 8000

    def gen(self, rng, n):
        for _ in range(n):
            sig, tat, bars, arr = rand_grid(rng)
            m = rng.randrange(1, 8)
            yield {"sig": list(sig), "tatum": tat, "bars": bars, "array": arr, "mel": [{"kind": "s", "val": i % 7, "oct": i // 7} for i in range(m)]}

    def impl(self, case):
        from musiclang import Metric, Melody, Note
        def f():
            met = Metric(list(case["array"]), tuple(case["sig"]), tatum=F(case["tatum"]), nb_bars=case["bars"])
            notes = [Note("s", n["val"], n["oct"], 1) for n in case["mel"]]
            res = met.apply_to_melody(Melody(notes), expand=False)
            return {"duration": F(res.duration), "metric_duration": F(met.duration), "onsets": [F(t) for t in res.get_onset_times()],
                    "elems": [[x.type, int(x.val), int(x.octave)] for x in res.notes], "mel_unchanged": len(notes) == len(case["mel"])}
        return mlang.guarded(f)

    def term(self, case, r):
        if mlang.is_exc(r):
            return T(core.Zl(case["array"]), Z(len(case["mel"])), "None")
        tat, items = F(case["tatum"]), []
        ends = r["onsets"][1:] + [r["duration"]]
        for e, t0, t1 in zip(r["elems"], r["onsets"], ends):
            k = (F(t1) - F(t0)) / tat
            assert k.denominator == 1
            items.append(T(O(None if e[0] == "r" else e[2] * 7 + e[1], Z), Z(int(k))))
        return T(core.Zl(case["array"]), Z(len(case["mel"])), "(Some " + L(items) + ")")

    def spec(self, case, r):
        if mlang.is_exc(r):
            return {"sig": "apply-noexpand-raises", "msg": str(r)}
        arr, tat = case["array"], F(case["tatum"])
        if r["duration"] != len(arr) * tat or r["duration"] != r["metric_duration"]:
            return {"sig": "apply-noexpand-duration", "msg": f"{r['duration']} vs {len(arr) * tat}"}
        pulses = [i * tat for i, b in enumerate(arr) if b == 1]
        lead = arr[0] != 1
        want_on = ([F(0)] if lead else []) + pulses
        if r["onsets"] != want_on:
            return {"sig": "apply-noexpand-onsets", "msg": f"{r['onsets']} vs {want_on}"}
        body = r["elems"][1:] if lead else r["elems"]
        # the code indexes notes by beat position (a leading rest counts as position 0): documented here as observed on the clean
        # tree, only the ORDER and the rests after the melody are judged
        sounded = [e for e in body if e[0] != "r"]
        k0 = 1 if lead else 0
        want = [["s", n["val"], n["oct"]] for n in case["mel"]][k0:k0 + len(sounded)] if len(case["mel"]) > k0 else []
        if sounded[:len(want)] != want:
            return {"sig": "apply-noexpand-order", "msg": f"{sounded} vs melody {case['mel']}"}
        return None

    def nontrivial(self, case, r):
        return sum(case["array"]) >= 2



class ScoreRhythmStream(Stream):
    """ScoreRhythm: one metric per part, applied chord after chord over a whole score (each chord takes the window of its part's
    grid that lies under it, the grid repeating cyclically): every pulse of the repeated grid carries a note, nothing else does,
    and every part still lasts its chord"""
    name = "score_rhythm"
    checker = None
    pair = "property oracle on ScoreRhythm({part: Metric})(score): global note onsets of each part = the pulse positions of its cyclically repeated grid"
    quick, thorough = 300, 4000

    def gen(self, rng, n):
        for _ in range(n):
            tat = rng.choice([F(1), F(1, 2), F(1, 4)])
            grids = {}
            for nm in rng.sample(["piano__0", "violin__0", "flute__0"], rng.randrange(1, 4)):
                for _t in range(50):
                    sig, t2, bars, arr = rand_grid(rng)
                    if t2 == tat and sum(arr) >= 1:
                        grids[nm] = {"sig": list(sig), "bars": bars, "array": arr}
                        break
            if not grids:
                continue
            chords = [{"elem": rng.randrange(7), "dur": tat * rng.randrange(1, 13)} for _c in range(rng.randrange(1, 6))]
            if rng.random() < 0.4:
                # parts that rest for whole chords (absent from them) or enter late: the grid keeps running under the silence
                for c in chords:
                    c["absent"] = [nm for nm in grids if rng.random() < 0.35]
            yield {"tatum": tat, "grids": grids, "chords": chords, "mel": rng.randrange(1, 6)}

    def impl(self, case):
        from musiclang import Metric, Melody, Note, Score, Chord, Tonality
        from musiclang.write.rhythm.score_rythm import ScoreRhythm
        def f():
            tat = F(case["tatum"])
            metrics = {nm: Metric(list(g["array"]), tuple(g["sig"]), tatum=tat, nb_bars=g["bars"]) for nm, g in case["grids"].items()}
            mel = Melody([Note("s", i % 7, i // 7, 1) for i in range(case["mel"])])
            chords = []
            for c in case["chords"]:
                ch = Chord(c["elem"], tonality=Tonality(0))(**{nm: mel.set_duration(F(c["dur"])) for nm in list(metrics) + ["cello__5"]
                                                                  if nm not in c.get("absent", [])})
                chords.append(ch)
            sc = Score(chords)
            res = ScoreRhythm(metrics)(sc)
            out = {"durs": [[F(ch.duration), {nm: F(m.duration) for nm, m in ch.score.items()}] for ch in res.chords], "onsets": {}}
            for nm in metrics:
                t, ons = F(0), []
                for ch in res.chords:
                    tt = t
                    for x in (ch.score[nm].notes if nm in ch.score else []):
                        if x.type not in ("r", "l"):
                            ons.append(tt)
                        tt += F(x.duration)
                    t += F(ch.duration)
                out["onsets"][nm] = ons
            return out
        return mlang.guarded(f)

    def spec(self, case, r):
        if mlang.is_exc(r):
            return {"sig": "score-rhythm-raises", "msg": str(r)}
        tat = F(case["tatum"])
        total = sum(F(c["dur"]) for c in case["chords"])
        for (cd, parts), c in zip(r["durs"], case["chords"]):
            if cd != F(c["dur"]) or any(d != cd for d in parts.values()):
                return {"sig": "score-rhythm-duration", "msg": f"chord of {c['dur']}: {cd} {parts}"}
        starts, t0 = [], F(0)
        for c in case["chords"]:
            starts.append((t0, t0 + F(c["dur"]), c.get("absent", []))); t0 += F(c["dur"])
        for nm, g in case["grids"].items():
            arr = g["array"]
            want = [i * tat for i in range(int(total / tat)) if arr[i % len(arr)] == 1
                    and not any(a <= i * tat < b and nm in ab for a, b, ab in starts)]
            if r["onsets"][nm] != want:
                return {"sig": "score-rhythm-onsets", "msg": f"part {nm}, grid {arr}: notes at {[str(x) for x in r['onsets'][nm]][:12]}, pulses at {[str(x) for x in want][:12]}"}
        return None

    def nontrivial(self, case, r):
        return len(case["chords"]) > 1

    def hist_keys(self, case, r):
        return [f"parts={len(case['grids'])}", f"chords={len(case['chords'])}", "some-part-absent" if any(c.get("absent") for c in case["chords"]) else "all-parts-present"]

def streams():
    return [Apply(), Euclid(), Algebra(), ApplyNoExpand(), ScoreRhythmStream()]

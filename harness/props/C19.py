"""C19 - voice leading, parsimonious chord voice leading and counterpoint only re-voice."""
from fractions import Fraction as F
from harness.main import Stream
from harness import core, mlang, score_gen as sg
from harness.core import Z, S, L, O, T, B

MODEL_MODS = ["Model.Pitch", "Model.Ext", "Model.Render", "Model.Renote", "Model.Voice"]
RULE = ("progressions of 2..5 chords (7 degrees x 7 invertible figures (+ '9' for the error path) x 12 tonics x 9 modes, chord octave "
        "-2..2) voiced for 1..4 parts in every note system (s h c b a, rests, continuations, accidentals, per-note modes), fixed-voice "
        "subsets x change_octave_fixed x 4 optimiser methods x seeds x iteration budgets 0..30; parsimonious leading with from_first and "
        "directions none/up/down/per-chord lists; counterpoint on 1..2 fixed and 1..2 moving diatonic voices with rests and ties and on "
        "whole scores (s/h/a notes) x fixed parts; non-trivial = at least one written note or chord changed")
TRUSTED = ["numpy's RandomState (the optimiser's search is not modelled: the deltas it returns are read from the implementation and "
           "checked against the mask, the rest of the pipeline is modelled)",
           "the projections of the subjects on the moving voice's rhythm (project_on_rhythm) are read from the implementation"]
ASSUMPTIONS = ["voice leading: notes are not relative (su/sd...: KeyError in VoiceLeading.init), no drums; at least two chords "
               "(voices_optim raises on a single chord: np.max of an empty array)",
               "parsimonious leading: chords without replacements/additions/removals",
               "counterpoint: voices made of scale notes, rests and continuations (c/b notes raise in parse_relative_to_absolute)"]

INV_FIGS = ("", "", "6", "64", "7", "65", "43", "2")


def chord_id(c):
    return (c["elem"], c["fig"], c["tdeg"] % 12, c["tmode"])


def live_sys_len(ch, kind):
    return {"s": 7, "h": 12, "a": 12, "c": len(ch.chord_pitches), "b": len(ch.chord_extension_pitches)}[kind]


# =====================================================================================
class VoiceLeadingStream(Stream):
    name = "voice_leading"
    mods = MODEL_MODS
    checker = "check_vl"
    pair = ("VoiceLeading.__call__ = find_optimal_octaves ; init ; <search> ; get_score / get_corrected_note <-> "
            "Voice.vl_normalise_score ; vl_apply (deltas read from the implementation, mask checked by fixed_zero)")
    quick, thorough = 500, 8000

    def gen(self, rng, n):
        for i in range(n):
            names = rng.sample(sg.NAMES, rng.randrange(1, 5))
            nch = rng.randrange(2, 6)
            score = []
            for _ in range(nch):
                c = sg.rand_rchord(rng, names, rel=0, figs=INV_FIGS + ("9",), systems="ssshhccbba")
                have = {nm for nm, _ in c["parts"]}
                for nm in names:                      # every part present (a missing fixed voice is a KeyError)
                    if nm not in have:
                        c["parts"].append([nm, [sg.rand_rnote(rng, rel=0, systems="ssshhccbba")]])
                c["parts"].sort(key=lambda p: names.index(p[0]))
                if i % 4 == 2:
                    rng.shuffle(c["parts"])                 # the chords do not all list their parts in the same order
                c["coct"] = rng.choice([0, 0, 1, -1, 2, -2])
                c["toct"] = rng.choice([0, 0, 0, 1, -1])
                score.append(c)
            score = sg.equalize(score)
            fixed = [nm for nm in names if rng.random() < 0.35]
            if i % 4 == 3 and len(names) > 1:
                # a voice that is not declared fixed rests for a whole chord (absent from it)
                free = [nm for nm in names if nm not in fixed]
                if free:
                    c = score[rng.randrange(len(score))]
                    gone = rng.choice(free)
                    if len(c["parts"]) > 1:
                        c["parts"] = [p2 for p2 in c["parts"] if p2[0] != gone]
            yield {"score": score, "fixed": fixed, "cof": rng.random() < 0.5, "seed": rng.randrange(1000),
                   "method": rng.choice(["voices_and_rules", "voices_and_rules", "voices", "rules", "random"]),
                   "max_iter": rng.choice([0, 5, 30]) if i % 7 else 1, "max_iter_rules": rng.choice([0, 5, 20])}

    def run_vl(self, case, sc, spy=None):
        from musiclang.transform import VoiceLeading
        vl = VoiceLeading(fixed_voices=list(case["fixed"]), change_octave_fixed=case["cof"], seed=case["seed"], method=case["method"],
                          max_iter=max(case["max_iter"], 1 if case["method"] == "random" else 0), max_iter_rules=case["max_iter_rules"])
        if spy is not None:
            orig = vl.get_score

            def get_score(score, dvals):
                spy["norm"], spy["dvals"], spy["instruments"] = score, dvals.copy(), list(vl.instruments)
                return orig(score, dvals)
            vl.get_score = get_score
        out = vl(sc)
        if spy is not None:
            spy["same_object_again"] = str(vl(sc)) == str(out)      # the same optimiser object, used twice
            if case["seed"] % 3 == 0:
                # ... and once more after a call that brought its own optimiser parameters (its result is thrown away): the same request
                # to the same object still gives the same answer
                try:
                    vl(sc, max_iter=2, max_iter_rules=1, temperature=5, max_norm=1)
                except Exception:
                    pass
                spy["same_object_again"] = spy["same_object_again"] and str(vl(sc)) == str(out)
        return out

    def impl(self, case):
        def f():
            sc = sg.mk_rscore(case["score"])
            spy = {}
            out = self.run_vl(case, sc, spy)
            again = self.run_vl(case, sg.mk_rscore(case["score"]))
            ins = spy["instruments"]
            dss = [[int(spy["dvals"][ins.index(nm), j]) for nm in ch.score.keys()] for j, ch in enumerate(spy["norm"].chords)]
            return {"norm": sg.read_score(spy["norm"]), "dss": dss, "out": sg.read_score(out), "same_again": str(out) == str(again) and spy["same_object_again"],
                    "unchanged_input": sg.read_score(sc) == sg.read_score(sg.mk_rscore(case["score"])),
                    "bass": [int(c.bass_pitch) for c in out.chords],
                    "sys": [[[live_sys_len(ch, m.notes[0].type) if m.notes[0].type in "shcba" else 0, int(m.notes[0].val)]
                             for m in ch.score.values()] for ch in out.chords],
                    "tones": [[(int(ch.to_pitch(m.notes[0])) % 12 in {p % 12 for p in ch.chord_pitches}) if m.notes[0].type in "cb" else True
                               for m in ch.score.values()] for ch in out.chords]}
        return mlang.guarded(f)

    def term(self, case, r):
        tpq = sg.score_tpq(case["score"])
        keep = [] if case["cof"] else case["fixed"]
        if mlang.is_exc(r):
            exp = "None"
        else:
            exp = (f"(Some ({sg.coq_rscore(r['norm'], tpq)}, {L([core.Zl(ds) for ds in r['dss']])}, {sg.coq_rscore(r['out'], tpq)}))")
        return T(sg.coq_rscore(case["score"], tpq), L([S(x) for x in keep]), L([S(x) for x in case["fixed"]]), exp)

    def spec(self, case, r):
        has9 = any(c["fig"] == "9" for c in case["score"])
        if mlang.is_exc(r):
            return {"sig": "voice-leading-raises", "msg": str(r)}
        a, b = case["score"], r["out"]
        if [chord_id(c) + (c["toct"],) for c in a] != [chord_id(c) + (c["toct"],) for c in b]:
            return {"sig": "vl-chord-progression", "msg": f"{[chord_id(c) for c in a]} became {[chord_id(c) for c in b]}"}
        if not r["same_again"]:
            return {"sig": "vl-not-reproducible", "msg": f"seed {case['seed']}"}
        for j, (ca, cb) in enumerate(zip(a, b)):
            if [nm for nm, _ in ca["parts"]] != [nm for nm, _ in cb["parts"]]:
                return {"sig": "vl-parts", "msg": f"chord {j}"}
            k = cb["coct"] - ca["coct"]
            for (nm, na), (_, nb) in zip(ca["parts"], cb["parts"]):
                if [(n["kind"], F(n["dur"]), n["amp"], n.get("mode"), n.get("acc")) for n in na] != \
                        [(n["kind"], F(n["dur"]), n["amp"], n.get("mode"), n.get("acc")) for n in nb]:
                    return {"sig": "vl-rhythm-or-system", "msg": f"chord {j} part {nm}: {na} became {nb}"}
                comp = -k if (nm in case["fixed"] and not case["cof"]) else 0
                for i, (x, y) in enumerate(zip(na, nb)):
                    if x["kind"] in "rl":
                        continue
                    want_oct = x["oct"] + (comp if x["kind"] != "a" else 0)
                    if i > 0 or nm in case["fixed"]:
                        # only the first note of a free voice may be re-voiced; a fixed voice keeps its pitches
                        pa = spec_pitch_of(ca, x)
                        pb = spec_pitch_of(cb, y)
                        shift = 0 if (x["kind"] == "a" or comp) else 12 * k
                        if pa is not None and pb != pa + shift:
                            which = "fixed-voice" if nm in case["fixed"] else "later-note"
                            return {"sig": f"vl-{which}-pitch", "msg": f"chord {j} part {nm} note {i}: {pa} became {pb} (chord octave {k:+d})"}
                        if i > 0 and (y["val"], y["oct"]) != (x["val"], want_oct):
                            return {"sig": "vl-later-note-rewritten", "msg": f"chord {j} part {nm} note {i}: {x} became {y}"}
            for (ln, val), (nm, nb) in zip(r["sys"][j], cb["parts"]):
                if ln and not (0 <= val < ln):
                    return {"sig": "vl-note-outside-system", "msg": f"chord {j} part {nm}: value {val} in a system of {ln}"}
            if not all(r["tones"][j]):
                return {"sig": "vl-chord-tone-lost", "msg": f"chord {j}"}
        if any(not (-6 < x <= 6) for x in r["bass"]):
            return {"sig": "vl-bass-out-of-range", "msg": str(r["bass"])}
        if sg.total_dur(a) != sg.total_dur(b):
            return {"sig": "vl-duration", "msg": ""}
        return None

    def nontrivial(self, case, r):
        return not mlang.is_exc(r) and r["out"] != case["score"]

    def hist_keys(self, case, r):
        if mlang.is_exc(r):
            return ["exc", "method=" + case["method"]]
        moved = sum(1 for ds in r["dss"] for d in ds if d)
        return ["method=" + case["method"], "fixed=%d" % len(case["fixed"]), "moved>0" if moved else "moved=0",
                "octave-normalised" if any(x["coct"] != y["coct"] for x, y in zip(case["score"], r["out"])) else "octaves-kept"]

    def shrink(self, case):
        for s in sg.shrink_score(case["score"]):
            names = [nm for nm, _ in s[0]["parts"]]
            if len(s) >= 2 and all([nm for nm, _ in c["parts"]] == names for c in s):
                yield dict(case, score=sg.equalize(s), fixed=[f for f in case["fixed"] if f in names])
        if case["fixed"]:
            yield dict(case, fixed=case["fixed"][1:])


def spec_pitch_of(c, n):
    """pitch of a non-relative note by the independent oracle of C01 (None when it has none)"""
    from harness.props.C01 import spec_pitch
    if n["kind"] in "rl":
        return None
    try:
        return spec_pitch(c, n)
    except Exception:
        return None


# =====================================================================================
class Parsimonious(Stream):
    name = "parsimonious"
    mods = MODEL_MODS
    checker = "check_pars"
    pair = "Score.get_parsimonious_voice_leading / Chord.get_parsimonious_voice_leading / invert <-> Voice.pars_score / parsimonious"
    quick, thorough = 700, 12000

    def gen(self, rng, n):
        for i in range(n):
            names = rng.sample(sg.NAMES, rng.randrange(1, 3))
            figs = INV_FIGS if i % 15 else INV_FIGS + ("9",)
            score = [sg.rand_rchord(rng, names, figs=figs) for _ in range(rng.randrange(1, 6))]
            for c in score:
                c["coct"] = rng.choice([0, 0, 1, -1, 2, -3])
                c["toct"] = rng.choice([0, 0, 0, 1, -1])
            if i % 4 == 3:
                # chords with replacements / additions / removals (kept when the library accepts the combination)
                for c in score[1:]:
                    c2 = dict(c)
                    if rng.random() < 0.4:
                        c2["repl"] = [rng.choice(["sus2", "sus4", "b5", "+"])]
                    if rng.random() < 0.6:
                        c2["adds"] = sorted(rng.sample(["add2", "add4", "add6", "add9", "add11", "m7", "M7"], rng.choice([1, 2])))
                    if rng.random() < 0.2:
                        c2["rems"] = [rng.choice(["-1", "-3", "-5"])]
                    try:
                        mlang.mk_chord(c2).chord_extension_pitches
                        c.update(c2)
                    except Exception:
                        pass
            w = rng.random()
            if w < 0.3:
                dirs = None
            elif w < 0.5:
                dirs = rng.choice(["up", "down"])
            else:
                dirs = [rng.choice([None, "up", "down"]) for _ in score[1:]]
            ff = rng.random() < 0.3
            yield {"score": score, "from_first": ff, "dirs": dirs}

    def dir_list(self, case):
        d = case["dirs"]
        n = len(case["score"]) - 1
        if d is None:
            return [None] * n
        if isinstance(d, str):
            return [d] * n
        return list(d)

    def impl(self, case):
        def f():
            sc = sg.mk_rscore(case["score"])
            out = sc.get_parsimonious_voice_leading(from_first=case["from_first"], directions=case["dirs"])
            return {"out": sg.read_score(out), "bass": [int(c.bass_pitch) for c in out.chords],
                    "pcs": [sorted({int(p) % 12 for p in c.chord_pitches}) for c in out.chords],
                    "pcs_in": [sorted({int(p) % 12 for p in c.chord_pitches}) for c in sc.chords],
                    "unchanged_input": sg.read_score(sc) == sg.read_score(sg.mk_rscore(case["score"]))}
        return mlang.guarded(f)

    def term(self, case, r):
        tpq = sg.score_tpq(case["score"])
        ds = [{None: 0, "up": 1, "down": 2}[d] for d in self.dir_list(case)]
        exp = "None" if mlang.is_exc(r) else "(Some " + sg.coq_rscore(r["out"], tpq) + ")"
        return T(sg.coq_rscore(case["score"], tpq), B(case["from_first"]), core.Zl(ds), exp)

    def spec(self, case, r):
        if any(c["fig"] == "9" for c in case["score"][1:]):
            return None                               # documented: only three and four note chords are supported
        if mlang.is_exc(r):
            return {"sig": "parsimonious-raises", "msg": str(r)}
        a, b = case["score"], r["out"]
        if len(a) != len(b) or b[0] != a[0]:
            return {"sig": "pars-first-chord", "msg": f"{a[0]} became {b[0] if b else None}"}
        fam = lambda f: "7" if f in ("7", "65", "43", "2") else ("" if f in ("", "6", "64") else f)
        dirs = self.dir_list(case)
        for j in range(1, len(a)):
            if (a[j]["elem"], a[j]["tdeg"] % 12, a[j]["tmode"], fam(a[j]["fig"])) != (b[j]["elem"], b[j]["tdeg"] % 12, b[j]["tmode"], fam(b[j]["fig"])):
                return {"sig": "pars-chord-identity", "msg": f"chord {j}: {chord_id(a[j])} became {chord_id(b[j])}"}
            if r["pcs"][j] != r["pcs_in"][j]:
                return {"sig": "pars-pitch-classes", "msg": f"chord {j}: {r['pcs_in'][j]} became {r['pcs'][j]}"}
            if a[j]["parts"] != b[j]["parts"]:
                return {"sig": "pars-parts-changed", "msg": f"chord {j}"}
            ref = r["bass"][0] if case["from_first"] else r["bass"][j - 1]
            mv = r["bass"][j] - ref
            # the bound is a theorem for plain triads and sevenths; a chord with modifiers is a separate class of input
            modified = ":modified-chord" if any(a[j].get(k) for k in ("repl", "adds", "rems")) else ""
            if abs(mv) > 7:
                return {"sig": "pars-bass-leap" + modified, "msg": f"chord {j} ({mlang.ext_string(a[j]['fig'], a[j].get('repl', ()), a[j].get('adds', ()), a[j].get('rems', ()))}): bass moves {mv:+d}"}
            if (dirs[j - 1] == "up" and mv < 0) or (dirs[j - 1] == "down" and mv > 0):
                return {"sig": "pars-direction" + modified, "msg": f"chord {j} ({mlang.ext_string(a[j]['fig'], a[j].get('repl', ()), a[j].get('adds', ()), a[j].get('rems', ()))}): asked {dirs[j - 1]}, bass moves {mv:+d}"}
        if not r["unchanged_input"]:
            return {"sig": "pars-mutates-input", "msg": ""}
        return None

    def nontrivial(self, case, r):
        return not mlang.is_exc(r) and len(case["score"]) > 1 and r["out"] != case["score"]

    def hist_keys(self, case, r):
        d = case["dirs"]
        return ["exc" if mlang.is_exc(r) else "ok", "dirs=" + ("none" if d is None else d if isinstance(d, str) else "list"),
                "from_first" if case["from_first"] else "chained"]

    def shrink(self, case):
        dl = self.dir_list(case)
        for i in range(1, len(case["score"])):
            yield dict(case, score=case["score"][:i] + case["score"][i + 1:], dirs=dl[:i - 1] + dl[i:])
        for s in sg.shrink_score(case["score"]):
            if len(s) == len(case["score"]):
                yield dict(case, score=s, dirs=dl)


# =====================================================================================
def rand_voice(rng, n, base_oct):
    out = []
    for i in range(n):
        w = rng.random()
        dur = rng.choice([F(1), F(1), F(1, 2), F(2), F(3, 2)])
        if w < 0.12:
            out.append({"kind": "r", "val": 0, "oct": 0, "dur": dur, "amp": 66})
        elif w < 0.25 and i:
            out.append({"kind": "l", "val": 0, "oct": 0, "dur": dur, "amp": 66})
        else:
            out.append({"kind": "s", "val": rng.randrange(7), "oct": base_oct + rng.choice([0, 0, 1, -1]), "dur": dur,
                        "amp": rng.choice([66, 40, 100])})
    return out


class Counterpoint(Stream):
    name = "counterpoint"
    mods = MODEL_MODS
    checker = "check_cps"
    pair = ("counterpoint.create_counterpoint / get_counterpoint / scorer / interval / convert_array_to_melody <-> "
            "Voice.cp_run (every chosen delta maximises cp_score) / cp_convert")
    quick, thorough = 500, 8000

    def gen(self, rng, n):
        for i in range(n):
            nf, nv = rng.randrange(1, 3), rng.randrange(1, 3)
            ln = rng.randrange(1, 8)
            yield {"fixed": [rand_voice(rng, rng.randrange(1, 8), rng.choice([-1, 0])) for _ in range(nf)],
                   "voices": [rand_voice(rng, ln if rng.random() < 0.5 else rng.randrange(1, 8), rng.choice([0, 1])) for _ in range(nv)],
                   "seed": rng.randrange(10 ** 6)}

    def impl(self, case):
        def f():
            import numpy as np
            from musiclang import Melody
            from musiclang.transform.composing import counterpoint as cp
            from musiclang.transform.composing.project import get_absolute_voices, get_absolute_voice
            mk = lambda v: Melody([sg.mk_rnote(n) for n in v])
            fixed = [mk(v) for v in case["fixed"]]
            voices = [mk(v) for v in case["voices"]]
            np.random.seed(case["seed"])
            res = cp.create_counterpoint([m.copy() for m in fixed], [m.copy() for m in voices])
            # the subjects each voice was written against: the fixed voices and the voices already written
            subjects = get_absolute_voices([m.copy() for m in fixed])
            steps = []
            for v, out in zip(voices, res):
                cols = cp.get_projections_on_voice(subjects, get_absolute_voice(v))
                cols = [[None if x is None else int(x) for x in row] for row in cols]
                steps.append({"cols": [list(col) for col in zip(*cols)] if cols else [], "out": [sg.read_note(n) for n in out.notes]})
                subjects.append(out)
            return {"steps": steps, "fixed_after": [[sg.read_note(n) for n in m.notes] for m in fixed],
                    "voices_after": [[sg.read_note(n) for n in m.notes] for m in voices]}
        return mlang.guarded(f)

    def pairs(self, case, r):
        """one model case per moving voice"""
        out = []
        tpq = sg.score_tpq([{"parts": [["v", v] for v in case["fixed"] + case["voices"]]}])
        for v, st in zip(case["voices"], r["steps"]):
            chosen = [None if n["kind"] in "rl" else n["val"] + 7 * n["oct"] for n in st["out"]]
            out.append(T(L([sg.coq_tnote(n, tpq) for n in v]), L([L([O(x, Z) for x in col]) for col in st["cols"]]),
                         L([O(x, Z) for x in chosen]), "(Some " + L([sg.coq_tnote(n, tpq) for n in st["out"]]) + ")"))
        return out

    def term(self, case, r):
        # one model case per moving voice, all must pass; an exception is reported by the oracle
        return "[]" if mlang.is_exc(r) else L(self.pairs(case, r))

    def spec(self, case, r):
        if mlang.is_exc(r):
            return {"sig": "counterpoint-raises", "msg": str(r)}
        for v, st in zip(case["voices"], r["steps"]):
            o = st["out"]
            if [(F(n["dur"]), n["amp"]) for n in v] != [(F(n["dur"]), n["amp"]) for n in o]:
                return {"sig": "cp-rhythm", "msg": f"{v} became {o}"}
            for x, y in zip(v, o):
                if x["kind"] in "rl":
                    if y != x:
                        return {"sig": "cp-rest-or-tie-changed", "msg": f"{x} became {y}"}
                else:
                    if y["kind"] != "s" or not (0 <= y["val"] < 7):
                        return {"sig": "cp-note-outside-scale", "msg": f"{x} became {y}"}
                    if abs((y["val"] + 7 * y["oct"]) - (x["val"] + 7 * x["oct"])) > 4:
                        return {"sig": "cp-leap", "msg": f"{x} became {y}"}
        if r["fixed_after"] != case["fixed"] or r["voices_after"] != case["voices"]:
            return {"sig": "cp-mutates-input", "msg": ""}
        return None

    def nontrivial(self, case, r):
        return not mlang.is_exc(r) and any(st["out"] != v for v, st in zip(case["voices"], r["steps"]))

    def shrink(self, case):
        if len(case["voices"]) > 1:
            yield dict(case, voices=case["voices"][:1])
        if len(case["fixed"]) > 1:
            yield dict(case, fixed=case["fixed"][:1])
        for i, v in enumerate(case["voices"]):
            if len(v) > 1:
                yield dict(case, voices=case["voices"][:i] + [v[:-1]] + case["voices"][i + 1:])


def fix_cp_relative(score):
    """only scale steps may be relative in a counterpoint voice (su / sd), and only after a scale or absolute note of the same
    part on the timeline (parse_relative_to_absolute keeps no reference across h notes, rests do not reset it)"""
    seen = {}
    out = []
    for c in score:
        parts = []
        for nm, notes in c["parts"]:
            ns = []
            for x in notes:
                x = dict(x)
                if x.get("dir") and (x["kind"] != "s" or not seen.get(nm)):
                    x.pop("dir")
                if x["kind"] in "sa":
                    seen[nm] = True
                ns.append(x)
            parts.append([nm, ns])
        out.append(dict(c, parts=parts))
    return out


class CounterpointScore(Stream):
    name = "counterpoint_on_score"
    checker = None
    pair = "property oracle: Score.get_counterpoint(fixed_parts) keeps chords, parts, onsets, durations and the fixed parts"
    quick, thorough = 250, 4000

    def gen(self, rng, n):
        for i in range(n):
            names = rng.sample(sg.NAMES, rng.randrange(2, 4))
            score = []
            for _ in range(rng.randrange(1, 5)):
                c = sg.rand_rchord(rng, names, rel=0.25 if i % 3 == 0 else 0, accs=False, systems="sssha", figs=INV_FIGS)
                have = {nm for nm, _ in c["parts"]}
                for nm in names:
                    if nm not in have:
                        c["parts"].append([nm, [sg.rand_rnote(rng, rel=0, accs=False, systems="sssha")]])
                c["parts"].sort(key=lambda p: names.index(p[0]))
                score.append(c)
            score = fix_cp_relative(sg.equalize(score))
            if i % 4 == 1:
                # drum kits beside the pitched parts (drums_8 is the name the MIDI loader gives to drum program 8): taken out before the
                # counterpoint is written and put back afterwards, every one of them
                kits = rng.choice([["drums_0__0"], ["drums_8__0"], ["drums_8__0", "drums_0__0"], ["drums_0__0", "drums_16__1"]])
                for c in score:
                    cd = max([sum(F(x["dur"]) for x in notes) for _, notes in c["parts"]], default=F(0))
                    if cd > 0:
                        for kit in kits:
                            c["parts"].append([kit, [{"kind": "d", "val": rng.randrange(12), "oct": -2, "dur": cd, "amp": 80}]])
            fixed = [nm for nm in names if rng.random() < 0.4] or [names[0]]
            if len(fixed) == len(names):
                fixed = fixed[:-1]
            yield {"score": score, "fixed": fixed, "seed": rng.randrange(10 ** 6)}

    def impl(self, case):
        def f():
            import numpy as np
            sc = sg.mk_rscore(case["score"])
            np.random.seed(case["seed"])
            out = sc.get_counterpoint(fixed_parts=list(case["fixed"]))
            names = list(sc.instruments)
            names2 = list(out.instruments)
            ev = lambda s, nms: {nms[i]: v for i, v in sg.merge_rows(sg.impl_rows(s)).items()}
            return {"out": sg.read_score(out), "ev_in": ev(sc, names), "ev_out": ev(out, names2), "names": [names, names2],
                    "unchanged_input": sg.read_score(sc) == sg.read_score(sg.mk_rscore(case["score"]))}
        return mlang.guarded(f)

    def spec(self, case, r):
        if mlang.is_exc(r):
            return {"sig": "counterpoint-score-raises", "msg": str(r)}
        a, b = case["score"], r["out"]
        if [chord_id(c) + (c["toct"], c["coct"]) for c in a] != [chord_id(c) + (c["toct"], c["coct"]) for c in b]:
            return {"sig": "cps-chord-progression", "msg": ""}
        if sorted(r["names"][0]) != sorted(r["names"][1]):
            return {"sig": "cps-parts", "msg": str(r["names"])}
        for nm, evs in r["ev_in"].items():
            got = r["ev_out"].get(nm, [])
            if [(o, d) for p, o, d, v in evs] != [(o, d) for p, o, d, v in got]:
                return {"sig": "cps-onsets-durations", "msg": f"part {nm}: {evs[:5]} became {got[:5]}"}
            if (nm in case["fixed"] or nm.startswith("drums")) and [p for p, o, d, v in evs] != [p for p, o, d, v in got]:
                return {"sig": "cps-fixed-part-changed", "msg": f"part {nm}: {evs[:5]} became {got[:5]}"}
        if not r["unchanged_input"]:
            return {"sig": "cps-mutates-input", "msg": ""}
        return None

    def nontrivial(self, case, r):
        return not mlang.is_exc(r) and r["ev_in"] != r["ev_out"]

    def shrink(self, case):
        for s in sg.shrink_score(case["score"]):
            names = [nm for nm, _ in s[0]["parts"]]
            if all([nm for nm, _ in c["parts"]] == names for c in s) and len(names) >= 2:
                fx = [f for f in case["fixed"] if f in names]
                if fx and len(fx) < len(names):
                    yield dict(case, score=fix_cp_relative(sg.equalize(s)), fixed=fx)



CHILD = r"""
import sys, json
from fractions import Fraction as F
sys.path.insert(0, "/verif")
from harness import score_gen as sg
from harness.core import decanon as load_case
from musiclang.transform import VoiceLeading
case = load_case(json.loads(sys.stdin.read()))
sc = sg.mk_rscore(case["score"])
vl = VoiceLeading(seed=case["seed"], method=case["method"], max_iter=case["max_iter"], max_iter_rules=case["max_iter_rules"])
print(json.dumps(str(vl(sc))))
"""


class AcrossProcesses(Stream):
    """reproducible for a given seed - also from one interpreter run to the next: the same score, seed and options in two fresh
    Python processes with different PYTHONHASHSEED (parts entering after the first chord used to be added in set order)"""
    name = "vl_across_processes"
    checker = None
    pair = "property oracle: VoiceLeading(seed=s)(score) in two fresh processes with PYTHONHASHSEED 1 and 2 gives the same score"
    quick, thorough = 6, 40

    def gen(self, rng, n):
        for i in range(n):
            names = rng.sample(sg.NAMES, rng.randrange(3, 6))
            score = []
            for j in range(rng.randrange(2, 5)):
                present = names[:1] if j == 0 else names          # the first chord lacks the other parts: they are added as rests
                c = sg.rand_rchord(rng, present, rel=0, figs=INV_FIGS, systems="ssshhccb", rest=0, cont=0)
                have = {nm for nm, _ in c["parts"]}
                for nm in present:
                    if nm not in have:
                        c["parts"].append([nm, [sg.rand_rnote(rng, rel=0, rest=0, cont=0, systems="ssshhccb")]])
                score.append(c)
            yield {"score": sg.equalize(score), "seed": rng.randrange(1000), "method": rng.choice(["voices_and_rules", "voices", "random"]),
                   "max_iter": rng.choice([5, 30]), "max_iter_rules": rng.choice([0, 5])}

    def impl(self, case):
        import subprocess, os, json as _json
        outs = []
        for hs in ("1", "2"):
            env = dict(os.environ, PYTHONHASHSEED=hs)
            p = subprocess.run(["/venv/bin/python", "-c", CHILD], input=_json.dumps(core.canon(case)), capture_output=True, text=True, env=env, timeout=300)
            outs.append(p.stdout.strip() if p.returncode == 0 else "exc:" + p.stderr.strip().splitlines()[-1][:200] if p.stderr.strip() else "exc")
        return {"outs": outs}

    def spec(self, case, r):
        a, b = r["outs"]
        if a.startswith("exc") or b.startswith("exc"):
            return {"sig": "voice-leading-raises:fresh-process", "msg": f"{a[:200]} / {b[:200]}"}
        if a != b:
            return {"sig": "vl-not-reproducible:across-processes", "msg": "the same score, seed and options give different results under PYTHONHASHSEED=1 and 2"}
        return None

    def nontrivial(self, case, r):
        return len(case["score"][0]["parts"]) + 2 <= len({nm for c in case["score"] for nm, _ in c["parts"]})

def streams():
    return [VoiceLeadingStream(), Parsimonious(), Counterpoint(), CounterpointScore(), AcrossProcesses()]

"""C13 - harmonic projection takes the target's harmony and keeps the source's music."""
from fractions import Fraction as F
from harness.main import Stream
from harness import core, mlang, score_gen as sg
from harness.core import Z, S, L, O, T, B

MODEL_MODS = ["Model.Pitch", "Model.Rel", "Model.Render", "Model.Slice", "Model.Project"]
RULE = ("sources: scores from the shared generator padded so that every part lasts its chord, parts absent from some chords; targets: "
        "progressions of 1..5 chords with different chord counts and boundaries (misaligned with the source), shorter and longer than the "
        "source, different tonalities/modes/octaves, with their own parts (disjoint names) for keep_score, these opening later chords with "
        "relative notes in the keep_score cases of the modes stream; one-chord sources through Chord.project_on_score; modes: plain, default "
        "(voice leading), keep_pitch, keep_score (with both); non-trivial = a target boundary cuts a source note")
TRUSTED = ["tick scaling"]
ASSUMPTIONS = ["every part of the source lasts as long as its chord (the statement's guard)", "tag-free notes; keep_pitch sources have no leading relative notes"]

TARGET_NAMES = ["harp__0", "oboe__0"]


def rand_target(rng):
    out = []
    for _ in range(rng.randrange(1, 6)):
        d = rng.choice([F(1), F(2), F(3), F(4), F(3, 2), F(5, 2), F(4, 3)])
        c = {"elem": rng.randrange(7), "fig": rng.choice(["", "6", "7"]), "tdeg": rng.randrange(12), "tmode": rng.choice(mlang.MODES),
             "toct": rng.choice([0, 0, 1, -1]), "coct": rng.choice([0, 0, -1]), "parts": []}
        for nm in rng.sample(TARGET_NAMES, rng.randrange(1, 3)):
            c["parts"].append([nm, [{"kind": "s", "val": rng.randrange(7), "oct": 0, "dur": d, "amp": 66}]])
        out.append(c)
    return out


def relative_heads(rng, tgt):
    """give the target's parts relative notes at chord heads (their reference pitch lies in the previous chord); the parts are made present
    in every chord so that the reference exists"""
    names = [nm for nm, _ in tgt[0]["parts"]]
    for k, c in enumerate(tgt):
        d = F(c["parts"][0][1][0]["dur"])
        c["parts"] = [[nm, [{"kind": "s", "val": rng.randrange(7), "oct": 0, "dur": d, "amp": 66}]] for nm in names]
        if k > 0:
            for _, notes in c["parts"]:
                if rng.random() < 0.6:
                    notes[0].update(dir=rng.choice("ud"), val=rng.randrange(4))
    return tgt


def chord_key(c):
    return (c["elem"], c["fig"], c["tdeg"] % 12, c["tmode"], c["toct"] + c["tdeg"] // 12, c["coct"])


def sounding(score_obj):
    m = sg.merge_rows(sg.impl_rows(score_obj))
    names = list(dict.fromkeys(nm for ch in score_obj.chords for nm in ch.score.keys()))
    return {names[i]: v for i, v in m.items()}


def truncate(snd, T):
    return {nm: [[p, o, min(o + d, T) - o, v] for p, o, d, v in evs if o < T] for nm, evs in snd.items()}


class Plain(Stream):
    name = "project_plain"
    mods = MODEL_MODS
    checker = "check_project"
    pair = "Score.project_on_score(voice_leading=False) / time_utils.project_on_score / put_on_same_chord <-> Project.project_plain"
    quick, thorough = 900, 15000

    def gen(self, rng, n):
        for i in range(n):
            src = sg.equalize(sg.rand_score(rng, max_chords=4, rel=0.0, accs=False))
            tgt = rand_target(rng)
            if i % 5 == 4:
                # the target follows the SAME chord progression as the source, with another harmonic rhythm (and maybe fewer chords)
                keep_n = rng.randrange(1, len(src) + 1)
                tgt = [{**{k: c[k] for k in ("elem", "fig", "tdeg", "tmode", "toct", "coct")},
                        "parts": [[TARGET_NAMES[0], [{"kind": "s", "val": rng.randrange(7), "oct": 0,
                                                      "dur": rng.choice([F(1), F(1, 2), F(2), F(3), F(3, 2)]), "amp": 66}]]]} for c in src[:keep_n]]
            case = {"src": src, "tgt": tgt, "keep": i % 3 == 0}
            if i % 7 == 5:
                # the second public entry point: a one-chord source projected through Chord.project_on_score
                case["src"], case["via_chord"] = src[:1], True
            yield case

    def impl(self, case):
        def f():
            s, g = sg.mk_rscore(case["src"]), sg.mk_rscore(case["tgt"])
            res = (s.chords[0] if case.get("via_chord") else s).project_on_score(g, voice_leading=False, keep_score=case["keep"])
            return {"score": sg.read_score(res), "dur": F(res.duration), "sdur": F(s.duration), "gdur": F(g.duration)}
        return mlang.guarded(f)

    def term(self, case, r):
        extra = [] if mlang.is_exc(r) else [n["dur"] for c in r["score"] for _, notes in c["parts"] for n in notes]
        tpq = sg.score_tpq(case["src"] + case["tgt"], extra)
        exp = "None" if mlang.is_exc(r) else "(Some " + sg.coq_rscore(r["score"], tpq) + ")"
        return T(sg.coq_rscore(case["src"], tpq), sg.coq_rscore(case["tgt"], tpq), B(case["keep"]), exp)

    def spec(self, case, r):
        if mlang.is_exc(r):
            return {"sig": "projection-raises", "msg": str(r)}
        res = r["score"]
        want_dur = min(r["sdur"], r["gdur"])
        if case["keep"]:
            # the target's parts are retained unchanged (they may outlast a shorter source): the duration claim is about the projected parts
            src_names0 = {nm for c in case["src"] for nm, _ in c["parts"]}
            pd = sum((max([sum(F(n["dur"]) for n in notes) for nm, notes in c["parts"] if nm in src_names0], default=F(0)) for c in res), F(0))
            if pd != want_dur:
                return {"sig": "projection-duration", "msg": f"projected parts last {pd} vs min({r['sdur']}, {r['gdur']})"}
        elif r["dur"] != want_dur:
            return {"sig": "projection-duration", "msg": f"{r['dur']} vs min({r['sdur']}, {r['gdur']})"}
        # chords: the target's, for as long as both last
        for i, c in enumerate(res):
            if chord_key(c) != chord_key(case["tgt"][i]):
                return {"sig": "projection-chords", "msg": f"chord {i}: {chord_key(c)} vs target {chord_key(case['tgt'][i])}"}
        # plain projection keeps every written note symbol and the rhythm of every part
        src_names = list(dict.fromkeys(nm for c in case["src"] for nm, _ in c["parts"]))
        for nm in src_names:
            def symbols(score, cut):
                out, t0 = [], F(0)
                for c in score:
                    cd = max([sum(F(n["dur"]) for n in notes) for _, notes in c["parts"]], default=F(0))
                    part = dict((a, b) for a, b in c["parts"]).get(nm)
                    t = t0
                    for n in (part or [{"kind": "r", "val": 0, "oct": 0, "dur": cd}]):
                        if t < cut and n["kind"] not in "rl":
                            out.append((t, n["kind"], n.get("dir", ""), n["val"], n["oct"]))
                        t += F(n["dur"])
                    t0 += cd
                return out
            if symbols(res, want_dur) != symbols(case["src"], want_dur):
                return {"sig": "projection-symbols", "msg": f"part {nm}: {symbols(res, want_dur)[:5]} vs {symbols(case['src'], want_dur)[:5]}"}
        if case["keep"]:
            for i, c in enumerate(res):
                tp = dict((a, b) for a, b in case["tgt"][i]["parts"])
                rp = dict((a, b) for a, b in c["parts"])
                for nm, notes in tp.items():
                    if [(n["kind"], n["val"], F(n["dur"])) for n in rp.get(nm, [])] != [(n["kind"], n["val"], F(n["dur"])) for n in notes]:
                        return {"sig": "projection-keep-score", "msg": f"target part {nm} of chord {i} changed"}
        return None

    def nontrivial(self, case, r):
        return len(case["tgt"]) > 1

    def hist_keys(self, case, r):
        return ["keep_score" if case["keep"] else "no_keep", "exc" if mlang.is_exc(r) else "ok", "Chord.project_on_score" if case.get("via_chord") else "Score.project_on_score"]

    def shrink(self, case):
        for s in sg.shrink_score(case["src"]):
            yield dict(case, src=sg.equalize(s))
        if len(case["tgt"]) > 1:
            yield dict(case, tgt=case["tgt"][:-1]); yield dict(case, tgt=case["tgt"][1:])


class Modes(Stream):
    """default (voice leading) and keep_pitch projections: python oracle on the rendered result"""
    name = "project_modes"
    checker = None
    pair = "property oracle on Score.project_on_score(default / keep_pitch=True)"
    quick, thorough = 500, 8000

    def gen(self, rng, n):
        from harness.props.C11 import fix_relative
        for i in range(n):
            src = fix_relative(sg.equalize(sg.rand_score(rng, max_chords=3, rel=0.1 if i % 2 else 0.0, accs=False, systems="sssshh")))
            case = {"src": src, "tgt": rand_target(rng), "keep_pitch": i % 2 == 1}
            if i % 6 >= 4:
                case["repeat"] = True        # repeat_to_duration=True: a source shorter than the target is repeated first
            elif i % 6 >= 2:
                # keep_score with either mode: the target's own parts (relative notes at chord heads included) stay beside the projected ones
                case["keep_score"] = True
                case["tgt"] = relative_heads(rng, case["tgt"])
                case["voice_leading"] = rng.random() < 0.5
            yield case

    def impl(self, case):
        def f():
            s, g = sg.mk_rscore(case["src"]), sg.mk_rscore(case["tgt"])
            kw = {"repeat_to_duration": True} if case.get("repeat") else {}
            if case.get("keep_score"):
                kw.update(keep_score=True, voice_leading=case["voice_leading"])
            res = s.project_on_score(g, keep_pitch=case["keep_pitch"], **kw)
            return {"chords": [chord_key(c) for c in sg.read_score(res)], "dur": F(res.duration), "sdur": F(s.duration), "gdur": F(g.duration),
                    "sound": sounding(res), "src_sound": sounding(s), "tgt_sound": sounding(g)}
        return mlang.guarded(f)

    def spec(self, case, r):
        if mlang.is_exc(r):
            if "IndexError" in str(r):
                return None          # relative-pitch window of C09
            return {"sig": "projection-raises:" + ("keep_pitch" if case["keep_pitch"] else "default"), "msg": str(r)}
        want_dur = min(r["sdur"], r["gdur"])
        if case.get("repeat") and r["sdur"] < r["gdur"]:
            # the source may have been repeated: the result lasts the source or the target, its chords are the target's, and every
            # note that starts where a source note starts (modulo the source length) has, with keep_pitch, that note's pitch
            if r["dur"] not in (r["sdur"], r["gdur"]):
                return {"sig": "projection-duration:repeat", "msg": f"{r['dur']} vs {r['sdur']} or {r['gdur']}"}
            if r["chords"] != [chord_key(c) for c in case["tgt"]][:len(r["chords"])]:
                return {"sig": "projection-chords:repeat", "msg": str(r["chords"])}
            if case["keep_pitch"] and r["sdur"] > 0:
                for nm, evs in r["src_sound"].items():
                    at = {x[1]: x[0] for x in evs}
                    for x in r["sound"].get(nm, []):
                        w = at.get(x[1] % r["sdur"])
                        if w is not None and w != x[0]:
                            return {"sig": "projection-keep-pitch:repeat", "msg": f"part {nm} at {x[1]}: pitch {x[0]}, the source plays {w} there"}
            return None
        if case.get("keep_score"):
            # the target's parts are retained unchanged: they sound as they do in the target (the result may last as long as they do)
            kept = sg.total_dur(case["tgt"][:len(r["chords"])])            # the result holds the target's chords up to the one the source ends in
            for nm, evs in r["tgt_sound"].items():
                evs = [x for x in evs if x[1] < kept]
                if r["sound"].get(nm, []) != evs:
                    return {"sig": "projection-keep-score:target-part-changed", "msg": f"target part {nm}: {r['sound'].get(nm, [])[:5]} vs {evs[:5]}"}
            r = dict(r, sound={nm: [x for x in evs if x[1] < want_dur] for nm, evs in r["sound"].items()})
        elif r["dur"] != want_dur:
            return {"sig": "projection-duration", "msg": f"{r['dur']} vs {want_dur}"}
        if r["chords"] != [chord_key(c) for c in case["tgt"]][:len(r["chords"])]:
            return {"sig": "projection-chords", "msg": str(r["chords"])}
        src = truncate(r["src_sound"], want_dur)
        for nm, evs in src.items():
            got = r["sound"].get(nm, [])
            if [x[1:] for x in got] != [x[1:] for x in evs]:
                return {"sig": "projection-rhythm", "msg": f"part {nm}: {[x[1:3] for x in got][:5]} vs {[x[1:3] for x in evs][:5]}"}
            if case["keep_pitch"] and [x[0] for x in got] != [x[0] for x in evs]:
                return {"sig": "projection-keep-pitch", "msg": f"part {nm}: {[x[0] for x in got][:8]} vs {[x[0] for x in evs][:8]}"}
        return None

    def hist_keys(self, case, r):
        return [("keep_pitch" if case["keep_pitch"] else "default") + (":repeat" if case.get("repeat") else "") + (":keep_score" if case.get("keep_score") else "")]

    def shrink(self, case):
        from harness.props.C11 import fix_relative
        for s in sg.shrink_score(case["src"]):
            yield dict(case, src=fix_relative(sg.equalize(s)))
        if len(case["tgt"]) > 1:
            yield dict(case, tgt=case["tgt"][:-1])


def streams():
    return [Plain(), Modes()]

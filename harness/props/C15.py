"""C15 - roman-numeral annotations parse to the right chords at the right times."""
from fractions import Fraction as F
from harness.main import Stream
from harness import core, mlang
from harness.core import Z, S, L, O, T, B

MODEL_MODS = ["Model.Roman"]
RULE = ("annotations generated from token streams: 10 time signatures x 1..6 bars x first bar number in {0, 1, 3, 5, 12} x chords at "
        "bar starts and at beats inside bars (incl. a pickup: first chord after the downbeat), repeated bar variations, both flush-left and "
        "indented text; figures: diatonic triads and sevenths x inversions x 12 keys x 2 modes against textbook pitch classes; "
        "non-trivial = more than one bar or a chord inside a bar")
TRUSTED = ["line/space tokenisation of the annotation text (glue: the text is generated from the tokens)",
           "float arithmetic of the bar length 4*n/d (exact for the supported signatures)"]
ASSUMPTIONS = ["the beat unit is the code's convention: b k = k-1 quarter notes into the bar, except 6/8 and 2/2 where a bar has two beats",
               "one constant signature per annotation in the oracle (signature changes are model correspondence only)"]

SIGS = [(4, 4), (3, 4), (2, 4), (6, 4), (3, 8), (6, 8), (9, 8), (12, 8), (2, 2), (5, 4)]
TICK = 48            # ticks per quarter note in the model (beats are multiples of 1/8 quarter, x 3/2 in 6/8)


def barlen(sig):
    return F(4 * sig[0], sig[1])


def beat_label(sig, pos):
    """the b-number whose position in the bar is `pos` quarter notes (code convention)"""
    conv = {(6, 8): 2, (2, 2): 2}
    nb = F(conv[sig]) if sig in conv else barlen(sig)
    ratio = nb / barlen(sig)
    v = pos * ratio + 1
    return ("%g" % float(v)) if v.denominator in (1, 2, 4, 8) else None


def rand_annotation(rng):
    sig = rng.choice(SIGS)
    Lb = barlen(sig)
    first = rng.choice([0, 1, 1, 3, 5, 12])
    nb = rng.randrange(1, 7)
    grid = [p for p in [F(i, 2) for i in range(0, int(Lb * 2))] if p < Lb and beat_label(sig, p)]
    bars = []
    for i in range(nb):
        k = rng.choice([1, 1, 2, 3])
        pos = sorted(rng.sample(grid, min(k, len(grid))))
        if i > 0 or rng.random() < 0.7:
            pos = [F(0)] + [p for p in pos if p > 0]
        bars.append({"num": first + i, "pos": pos})
    return {"sig": list(sig), "bars": bars, "indent": rng.random() < 0.5, "variation": rng.random() < 0.2}


FIGS = ["I", "V", "IV", "ii", "vi", "V7", "I6", "V65", "iii", "viio"]


def to_text(a, rng_figs):
    sig = tuple(a["sig"])
    lines = [f"Time Signature: {sig[0]}/{sig[1]}"]
    fi = 0
    for bi, b in enumerate(a["bars"]):
        parts = [f"m{b['num']}"]
        if bi == 0:
            parts.append("C:")
        for j, p in enumerate(b["pos"]):
            if p > 0 or j > 0:
                parts.append("b" + beat_label(sig, p))
            parts.append(rng_figs[fi % len(rng_figs)]); fi += 1
        lines.append(" ".join(parts))
        if a["variation"] and bi == 0:
            lines.append(f"m{b['num']}var1 V b2 I")
    if a["indent"]:
        lines = ["    " + l for l in lines]
    return "\n".join(lines)


def tokens_of(a):
    sig = tuple(a["sig"])
    toks = [f"(TSig {Z(int(barlen(sig) * TICK))})"]
    for b in a["bars"]:
        toks.append(f"(TBar {Z(b['num'])})")
        for j, p in enumerate(b["pos"]):
            if p > 0 or j > 0:
                toks.append(f"(TBeat {Z(int(p * TICK))})")
            toks.append("TChord")
    return toks


class Clock(Stream):
    name = "annotation_clock"
    mods = MODEL_MODS
    checker = "check_clock"
    pair = "ScoreFormatter(text).parse() (init, set_bar_number, set_current_beat, add_chord, Beat.get_real_value) <-> Roman.run_tokens"
    quick, thorough = 1200, 20000

    def gen(self, rng, n):
        for _ in range(n):
            a = rand_annotation(rng)
            figs = [rng.choice(FIGS) for _ in range(12)]
            # never the same figure twice in a row: equal consecutive chords are legitimate but make the chord count ambiguous to read back
            yield {"ann": a, "figs": figs}

    def impl(self, case):
        from musiclang.analyze.score_formatter import ScoreFormatter
        def f():
            sc = ScoreFormatter(to_text(case["ann"], case["figs"])).parse()
            return {"durs": [F(c.duration) for c in sc.chords], "pickup": F(sc.config["pickup"]), "total": F(sc.duration)}
        return mlang.guarded(f)

    def term(self, case, r):
        if mlang.is_exc(r):
            return T(Z(4 * TICK), L(tokens_of(case["ann"])), T("[]", Z(-1)))
        durs = [int(F(d) * TICK) for d in r["durs"]]
        return T(Z(4 * TICK), L(tokens_of(case["ann"])), T(core.Zl(durs), Z(int(r["pickup"] * TICK))))

    def spec(self, case, r):
        if mlang.is_exc(r):
            return {"sig": "annotation-raises", "msg": str(r)}
        a = case["ann"]
        Lb = barlen(tuple(a["sig"]))
        # one chord per symbol, each from its position to the next symbol, the last one to the end of its bar
        starts = [(b["num"] - a["bars"][0]["num"]) * Lb + p for b in a["bars"] for p in b["pos"]]
        end = (a["bars"][-1]["num"] - a["bars"][0]["num"] + 1) * Lb
        want = [b - c for c, b in zip(starts, starts[1:] + [end])]
        if r["durs"] != want:
            kind = "first-bar-number" if a["bars"][0]["num"] != 1 else "positions"
            return {"sig": f"annotation-chord-times:{kind}", "msg": f"{to_text(a, case['figs'])!r}: durations {r['durs']} expected {want}"}
        pickup = a["bars"][0]["pos"][0]
        if r["total"] != len(a["bars"]) * Lb - pickup or r["pickup"] != pickup:
            return {"sig": "annotation-total-duration", "msg": f"{r['total']} vs {len(a['bars'])} bars of {Lb} minus pickup {pickup}"}
        return None

    def nontrivial(self, case, r):
        return len(case["ann"]["bars"]) > 1

    def hist_keys(self, case, r):
        a = case["ann"]
        return [f"sig={a['sig'][0]}/{a['sig'][1]}", f"first=m{a['bars'][0]['num']}", "indented" if a["indent"] else "flush-left"]

    def shrink(self, case):
        a = case["ann"]
        if len(a["bars"]) > 1:
            yield dict(case, ann=dict(a, bars=a["bars"][:-1]))
        for i, b in enumerate(a["bars"]):
            if len(b["pos"]) > 1:
                yield dict(case, ann=dict(a, bars=a["bars"][:i] + [dict(b, pos=b["pos"][:-1])] + a["bars"][i + 1:]))
        if a["variation"]:
            yield dict(case, ann=dict(a, variation=False))


# ---- figures: textbook pitch classes ----
MAJOR = [0, 2, 4, 5, 7, 9, 11]
NATMIN = [0, 2, 3, 5, 7, 8, 10]
HARMMIN = [0, 2, 3, 5, 7, 8, 11]


def stack(scale, deg, n):
    return [scale[(deg + 2 * i) % 7] for i in range(n)]


def figure_cases():
    out = []
    inv3 = [("", 0), ("6", 1), ("64", 2), ("5/3", 0), ("6/3", 1), ("6/4", 2)]                  # the full, slashed figures of the triads too
    inv4 = [("7", 0), ("65", 1), ("43", 2), ("2", 3), ("42", 3), ("6/5", 1), ("4/3", 2)]      # the long and the slashed spellings too
    maj_tri = ["I", "ii", "iii", "IV", "V", "vi", "viio"]
    for d, f in enumerate(maj_tri):
        for suf, i in inv3:
            out.append(("major", f + suf, stack(MAJOR, d, 3), i))
    maj7 = ["I", "ii", "iii", "IV", "V", "vi", "viiø"]
    for d, f in enumerate(maj7):
        for suf, i in inv4:
            out.append(("major", f + suf, stack(MAJOR, d, 4), i))
    min_tri = [("i", 0, NATMIN), ("iio", 1, NATMIN), ("III", 2, NATMIN), ("iv", 3, NATMIN), ("v", 4, NATMIN), ("V", 4, HARMMIN),
               ("VI", 5, NATMIN), ("VII", 6, NATMIN), ("viio", 6, HARMMIN)]
    for f, d, sc in min_tri:
        for suf, i in inv3:
            out.append(("minor", f + suf, stack(sc, d, 3), i))
    for f, d, sc in [("V", 4, HARMMIN), ("viio", 6, HARMMIN), ("iiø", 1, NATMIN), ("III", 2, NATMIN), ("iv", 3, NATMIN),
                     ("VI", 5, NATMIN), ("VII", 6, NATMIN)]:
        # i7 and v7 are left out: their seventh is the 7th degree itself, which the natural and the harmonic reading of a minor
        # key spell differently (the library reads harmonic minor: i7 = C Eb G B); the statement does not decide between them
        for suf, i in inv4:
            out.append(("minor", f + suf, stack(sc, d, 4), i))
    return out


class Figures(Stream):
    name = "figures"
    checker = None
    pair = "property oracle on roman_parser.analyze_one_chord + Chord[...].chord_extension_pitches vs textbook pitch classes"
    quick, thorough = 2400, 2400

    def gen(self, rng, n):
        cases = figure_cases()
        for key in range(12):
            for mode, fig, pcs, inv in cases:
                yield {"key": key, "mode": mode, "fig": fig, "pcs": pcs, "inv": inv}

    def impl(self, case):
        from musiclang.analyze.roman_parser import analyze_one_chord
        from musiclang import Chord, Tonality
        def f():
            d, e, k, m = analyze_one_chord(case["fig"], case["key"], case["mode"])
            c = Chord(d, tonality=Tonality(k, m))[e]
            return {"pcs": [int(p) % 12 for p in c.chord_extension_pitches], "bass": int(c.bass_pitch) % 12}
        return mlang.guarded(f)

    def spec(self, case, r):
        if mlang.is_exc(r):
            return {"sig": f"figure-raises:{case['mode']}:{case['fig']}", "msg": str(r)}
        want = sorted((p + case["key"]) % 12 for p in case["pcs"])
        bass = (case["pcs"][case["inv"]] + case["key"]) % 12
        if sorted(r["pcs"]) != want or r["bass"] != bass:
            return {"sig": f"figure:{case['mode']}:{case['fig']}", "msg": f"key {case['key']}: pitch classes {sorted(r['pcs'])} bass {r['bass']}, standard reading {want} bass {bass}"}
        return None

    def nontrivial(self, case, r):
        return case["inv"] != 0 or case["key"] != 0

    def hist_keys(self, case, r):
        return ["mode=" + case["mode"]]


LETTERS = {"C": 0, "D": 2, "E": 4, "F": 5, "G": 7, "A": 9, "B": 11}


class KeyText(Stream):
    """the key as it is written in the annotation (inline 'eb:' or a 'Tonality: eb' header): every letter x {natural, sharp, flat}
    x {major = upper case, minor = lower case}, a sample of diatonic figures read in that key against the textbook pitch classes"""
    name = "key_text"
    mods = ["Model.KeyText"]
    checker = "check_key_text"
    pair = ("CurrentTonality(text).key / .mode <-> KeyText.key_of_text; oracle: ScoreFormatter(text).parse() (CurrentTonality.init, TonalityLine) "
            "vs textbook pitch classes in the written key")
    quick, thorough = 1200, 1200

    def gen(self, rng, n):
        cases = figure_cases()
        for letter, base in LETTERS.items():
            for acc, sh in (("", 0), ("#", 1), ("b", -1), ("-", -1), ("##", 2), ("bb", -2)):
                for minor in (False, True):
                    mode = "minor" if minor else "major"
                    pool = [c for c in cases if c[0] == mode]
                    for header in (False, True):
                        for _ in range(3 if header else 4):
                            _, fig, pcs, inv = rng.choice(pool)
                            yield {"key_text": (letter.lower() if minor else letter) + acc, "key": (base + sh) % 12, "mode": mode, "fig": fig,
                                   "pcs": pcs, "inv": inv, "header": header}

    def impl(self, case):
        from musiclang.analyze.score_formatter import ScoreFormatter
        def f():
            if case["header"]:
                text = f"Time Signature: 4/4\nTonality: {case['key_text']}\nm1 {case['fig']}"
            else:
                text = f"Time Signature: 4/4\nm1 {case['key_text']}: {case['fig']}"
            sc = ScoreFormatter(text).parse()
            c = sc.chords[0]
            from musiclang.analyze.score_formatter_elements import CurrentTonality
            try:
                ct = CurrentTonality(self.raw_text(case))
                raw = [int(ct.key), ct.mode]
            except Exception as e:
                raw = None
            return {"n": len(sc.chords), "pcs": [int(p) % 12 for p in c.chord_extension_pitches], "bass": int(c.bass_pitch) % 12, "raw": raw}
        return mlang.guarded(f)

    @staticmethod
    def raw_text(case):
        # what CurrentTonality receives: the token with its colon (inline) or the header's value without it
        return case["key_text"] + ("" if case["header"] else ":")

    def term(self, case, r):
        if mlang.is_exc(r):
            raw = None
            try:
                from musiclang.analyze.score_formatter_elements import CurrentTonality
                ct = CurrentTonality(self.raw_text(case)); raw = [int(ct.key), ct.mode]
            except Exception:
                pass
        else:
            raw = r["raw"]
        exp = "None" if raw is None else f"(Some ({Z(raw[0])}, {B(raw[1] == 'minor')}))"
        return T(S(self.raw_text(case)), exp)

    def spec(self, case, r):
        where = "header" if case["header"] else "inline"
        if mlang.is_exc(r):
            return {"sig": f"key-text-raises:{where}", "msg": f"{case['key_text']}: {r}"}
        want = sorted((p + case["key"]) % 12 for p in case["pcs"])
        bass = (case["pcs"][case["inv"]] + case["key"]) % 12
        if r["n"] != 1 or sorted(r["pcs"]) != want or r["bass"] != bass:
            return {"sig": f"key-text:{where}:{case['mode']}", "msg": f"{case['fig']} in the key written {case['key_text']!r}: pitch classes {sorted(r['pcs'])} bass {r['bass']}, "
                                                                     f"standard reading {want} bass {bass}"}
        return None

    def nontrivial(self, case, r):
        return len(case["key_text"]) > 1 or case["key_text"] in "bB"

    def hist_keys(self, case, r):
        return ["key=" + case["key_text"]]


def streams():
    return [Clock(), Figures(), KeyText()]

"""C01 - a note's pitch in a chord."""
from harness.main import Stream
from harness import core, mlang
from harness.core import Z, S, L, O, T, Zl
from harness.mlang import MODES, ACCS, FIGURES, SPEC_MODES, spec_deg

MODEL_MODS = ["Model.Pitch"]
RULE = ("chords = element x figure(+modifier sets) x tonic x mode x octaves, notes = 5 non-relative systems x values "
        "(in and out of table range) x octaves x accidentals x per-note modes, drawn stratified from one PRNG; "
        "a case is non-trivial when the chord is not (I, '', C major, octave 0) or the note has value/octave/"
        "accidental/mode different from s0's defaults; distinct = distinct canonical JSON")
TRUSTED = ["regex tokenisation of the extension string (glue, exercised end to end)"]
ASSUMPTIONS = ["element in 0..6 (library elements)", "accidental cells are a golden table (DESIGN C01)"]

# golden accidental cells (DESIGN: the statement leaves them to the table)
ACC_GOLDEN = {0: dict(min=0, maj=0, natural=0, dim=0, aug=1), 1: dict(min=1, maj=2, natural=2, dim=1, aug=2),
              2: dict(min=3, maj=4, natural=4, dim=3, aug=4), 3: dict(min=5, maj=5, natural=5, dim=5, aug=6),
              4: dict(min=7, maj=7, natural=7, dim=6, aug=7), 5: dict(min=8, maj=9, natural=9, dim=8, aug=9),
              6: dict(min=10, maj=11, natural=11, dim=10, aug=11)}
ROOT_DEGS = {"": [0, 2, 4], "5": [0, 2, 4], "6": [0, 2, 4], "64": [0, 2, 4], "7": [0, 2, 4, 6], "65": [0, 2, 4, 6],
             "43": [0, 2, 4, 6], "2": [0, 2, 4, 6], "9": [0, 2, 4, 6, 8], "11": [0, 2, 4, 6, 8, 10],
             "13": [0, 2, 4, 6, 8, 10, 12]}
INVERSION = {"": 0, "5": 0, "6": 1, "64": 2, "7": 0, "65": 1, "43": 2, "2": 3, "9": 0, "11": 0, "13": 0}


def spec_chord_deg(c, j, mode=None):
    """j-th degree of the chord's (infinite) scale"""
    md = mode or ("M" if c.get("ton_none") else c["tmode"])
    base = 0 if c.get("ton_none") else c["tdeg"] + 12 * c["toct"]
    return spec_deg(base, SPEC_MODES[md], c["elem"] + j) + 12 * c["coct"]


def spec_arpeggio(c, inverted):
    degs = ROOT_DEGS[c["fig"]]
    if inverted:
        i = INVERSION[c["fig"]]
        degs = degs[i:] + [d + 7 for d in degs[:i]]
    return [spec_chord_deg(c, d) for d in degs]


def spec_pitch(c, n):
    """documented pitch of a non-relative note; None when the spec does not speak (modifiers for c/b)"""
    k, v, o = n["kind"], n["val"], n["oct"]
    if k == "a":
        return v + 12 * o
    if k == "h":
        return spec_chord_deg(c, 0, n.get("mode")) + v + 12 * o
    if k == "s":
        if n.get("acc"):
            if v not in ACC_GOLDEN:
                return "raises"
            return spec_chord_deg(c, 0, n.get("mode")) + ACC_GOLDEN[v][n["acc"]] + 12 * o
        return spec_chord_deg(c, v + 7 * o, n.get("mode"))
    if k in "cb":
        if c.get("repl") or c.get("adds") or c.get("rems"):
            return None
        arp = spec_arpeggio(c, inverted=(k == "b"))
        m = len(arp)
        return arp[v % m] + 12 * (v // m + o)
    return None


def rand_chord(rng, modifiers=0.25):
    c = {"elem": rng.randrange(7), "fig": rng.choice(FIGURES), "tdeg": rng.randrange(12),
         "tmode": rng.choice(MODES), "toct": rng.choice([0, 0, 0, -1, 1, -2, 2, 5, -7]),
         "coct": rng.choice([0, 0, 0, -1, 1, -2, 2, 3, -4])}
    if rng.random() < 0.05:
        c["tdeg"] = rng.randrange(-30, 31)          # un-normalised degree
    if rng.random() < 0.04:
        c.update(ton_none=True, tdeg=0, tmode="M", toct=0)
    if rng.random() < modifiers:
        from musiclang.write import library as lib
        if rng.random() < 0.6:
            c["repl"] = sorted(rng.sample(sorted(lib.DICT_REPLACEMENT), rng.choice([1, 1, 2])))
        if rng.random() < 0.6:
            c["adds"] = sorted(rng.sample(sorted(lib.DICT_ADDITION), rng.choice([1, 1, 2])))
        if rng.random() < 0.3:
            c["rems"] = sorted(rng.sample(sorted(lib.DICT_REMOVAL), 1))
    return c


def rand_note(rng):
    k = rng.choice("sssshhccbba")
    n = {"kind": k, "val": rng.randrange(-9, 17) if rng.random() < 0.4 else rng.randrange(0, 12 if k in "ha" else 7),
         "oct": rng.choice([0, 0, 0, 1, -1, 2, -2, 6, -9])}
    if k == "s" and rng.random() < 0.35:
        n["acc"] = rng.choice(ACCS)
    if k in "sh" and rng.random() < 0.35:
        n["mode"] = rng.choice(MODES)
    if k in "hcba" and rng.random() < 0.1:
        n["acc"] = rng.choice(ACCS)            # an accidental on a note that is not a scale note is kept by the note and ignored by its pitch
    if k in "cba" and rng.random() < 0.15:
        n["mode"] = rng.choice(MODES)          # chord tones, bass tones and absolute notes are counted along the chord's own arpeggio: a per-note mode does not move them
    return n


class ToPitch(Stream):
    name = "to_pitch"
    mods = ["Model.Pitch"]
    checker = "check_to_pitch"
    pair = "Chord.to_pitch / note_to_pitch_result (non-relative) <-> Pitch.to_pitch_abs"
    quick, thorough = 6000, 120000

    def gen(self, rng, n):
        # systematic sweep part: every (mode, element, figure) once with a random note
        k = 0
        for md in MODES:
            for e in range(7):
                for f in FIGURES:
                    if k >= n // 3:
                        break
                    c = {"elem": e, "fig": f, "tdeg": rng.randrange(12), "tmode": md, "toct": 0, "coct": 0}
                    yield {"chord": c, "note": rand_note(rng)}
                    k += 1
        while k < n:
            c, nt = rand_chord(rng), rand_note(rng)
            if c.get("ton_none"):
                nt.pop("mode", None)      # a chord without tonality is an internal form; no per-note mode on it
            yield {"chord": c, "note": nt}
            k += 1

    def impl(self, case):
        def f():
            return mlang.mk_chord(case["chord"]).to_pitch(mlang.mk_note(case["note"]))
        r = mlang.guarded(f)
        return r if mlang.is_exc(r) else (None if r is None else int(r))

    def term(self, case, r):
        exp = "None" if mlang.is_exc(r) else f"(Some {O(r, Z)})"
        return T(mlang.coq_chord(case["chord"]), mlang.coq_pnote(case["note"]), exp)

    def spec(self, case, r):
        want = spec_pitch(case["chord"], case["note"])
        if want is None:
            return None
        c, n = case["chord"], case["note"]
        if want == "raises":
            if mlang.is_exc(r):
                return None
            return {"sig": "accident-out-of-range-no-error", "msg": f"accidental on value {n['val']} gave {r}"}
        if mlang.is_exc(r) or r != want:
            md = n.get("mode") or c["tmode"]
            return {"sig": f"pitch:{n['kind']}:{'acc' if n.get('acc') else 'plain'}:mode={md}",
                    "msg": f"documented pitch {want}, library gives {r}"}
        return None

    def nontrivial(self, case, r):
        c, n = case["chord"], case["note"]
        return (c["elem"], c["fig"], c["tdeg"], c["tmode"], c["toct"], c["coct"]) != (0, "", 0, "M", 0, 0) or \
               (n["val"], n["oct"], n.get("acc"), n.get("mode")) != (0, 0, None, None)

    def hist_keys(self, case, r):
        n = case["note"]
        return ["kind=" + n["kind"], "mode=" + case["chord"]["tmode"], "fig=" + case["chord"]["fig"],
                "acc=" + str(n.get("acc")), "exc" if mlang.is_exc(r) else "ok",
                "modifiers" if any(case["chord"].get(k) for k in ("repl", "adds", "rems")) else "bare"]

    def shrink(self, case):
        c, n = case["chord"], case["note"]
        for key, val in (("toct", 0), ("coct", 0), ("tdeg", 0), ("elem", 0), ("fig", "")):
            if c.get(key) != val:
                yield {"chord": dict(c, **{key: val}), "note": n}
        for key in ("repl", "adds", "rems"):
            if c.get(key):
                yield {"chord": {k: v for k, v in c.items() if k != key}, "note": n}
        for key, val in (("oct", 0), ("val", 0)):
            if n.get(key) != val:
                yield {"chord": c, "note": dict(n, **{key: val})}
        for key in ("acc", "mode"):
            if n.get(key):
                yield {"chord": c, "note": {k: v for k, v in n.items() if k != key}}

    def model_answer(self, case, r):
        return f"to_pitch_abs {mlang.coq_chord(case['chord'])} {mlang.coq_pnote(case['note'])}"


class PitchLists(Stream):
    name = "pitch_lists"
    mods = ["Model.Pitch"]
    checker = "check_pitch_lists"
    pair = "Chord.scale_pitches/chord_pitches/chord_extension_pitches <-> Pitch.chord_scale/chord_pitches/chord_extension_pitches"
    quick, thorough = 2500, 40000

    def gen(self, rng, n):
        k = 0
        for md in MODES:
            for e in range(7):
                for f in FIGURES:
                    if k >= n // 2:
                        break
                    yield {"chord": {"elem": e, "fig": f, "tdeg": rng.randrange(12), "tmode": md, "toct": 0, "coct": 0}}
                    k += 1
        while k < n:
            yield {"chord": rand_chord(rng, modifiers=0.5)}
            k += 1

    def impl(self, case):
        def f():
            ch = mlang.mk_chord(case["chord"])
            return [[int(x) for x in ch.scale_pitches], [int(x) for x in ch.chord_pitches],
                    [int(x) for x in ch.chord_extension_pitches]]
        return mlang.guarded(f)

    def term(self, case, r):
        exp = "None" if mlang.is_exc(r) else f"(Some ({Zl(r[0])}, {Zl(r[1])}, {Zl(r[2])}))"
        return T(mlang.coq_chord(case["chord"]), exp)

    def spec(self, case, r):
        c = case["chord"]
        if mlang.is_exc(r):
            if c.get("repl") or c.get("adds") or c.get("rems"):
                return None
            return {"sig": "pitch-lists-raise", "msg": f"bare chord raised {r}"}
        want = [spec_chord_deg(c, j) for j in range(7)]
        if r[0] != want:
            return {"sig": f"scale:mode={c['tmode']}", "msg": f"chord scale should be {want}, library gives {r[0]}"}
        if not (c.get("repl") or c.get("adds") or c.get("rems")):
            if r[1] != spec_arpeggio(c, False) or r[2] != spec_arpeggio(c, True):
                return {"sig": f"arpeggio:fig={c['fig']}:mode={c['tmode']}",
                        "msg": f"arpeggios should be {spec_arpeggio(c, False)} / {spec_arpeggio(c, True)}, library gives {r[1]} / {r[2]}"}
        return None

    def nontrivial(self, case, r):
        c = case["chord"]
        return (c["elem"], c["fig"], c["tdeg"], c["tmode"]) != (0, "", 0, "M")

    def shrink(self, case):
        c = case["chord"]
        for key, val in (("toct", 0), ("coct", 0), ("tdeg", 0), ("elem", 0), ("fig", "")):
            if c.get(key) != val:
                yield {"chord": dict(c, **{key: val})}
        for key in ("repl", "adds", "rems"):
            if c.get(key):
                yield {"chord": {k: v for k, v in c.items() if k != key}}

    def model_answer(self, case, r):
        cc = mlang.coq_chord(case["chord"])
        return f"(chord_scale {cc}, chord_pitches {cc}, chord_extension_pitches {cc})"


class SharedChord(Stream):
    """the pitch of a note is a function of (chord, note): asking one Chord object for several notes in a row - notes that agree in
    everything Note.__eq__ looks at but differ in accidental, or differ in one field only - gives what a fresh chord gives for each"""
    name = "to_pitch_shared_chord"
    checker = None
    pair = "property oracle: [c.to_pitch(n) for n in notes] on one Chord object - also after transpose / copy / o / % / invert / voice leading from and towards it - vs a fresh Chord per note vs the documented pitch"
    quick, thorough = 800, 15000

    def gen(self, rng, n):
        for _ in range(n):
            c = rand_chord(rng)
            c.pop("ton_none", None)
            base = rand_note(rng)
            notes = [base]
            for _ in range(rng.randrange(1, 5)):
                m = dict(rng.choice(notes))
                f = rng.choice(["acc", "acc", "mode", "oct", "val", "kind", "same"])
                if f == "acc" and m["kind"] == "s":
                    m["acc"] = rng.choice([a for a in ACCS if a != m.get("acc")] + [None])
                    if m["acc"] is None: m.pop("acc")
                elif f == "mode" and m["kind"] in "sh":
                    m["mode"] = rng.choice(MODES)
                elif f == "oct":
                    m["oct"] = m["oct"] + rng.choice([-1, 1])
                elif f == "val":
                    m["val"] = m["val"] + 1
                elif f == "kind":
                    m = dict(rand_note(rng), val=m["val"], oct=m["oct"])
                notes.append(m)
            case = {"chord": c, "notes": notes}
            if rng.random() < 0.3:
                case["shared_key"] = rng.choice([1, -1, 2])
            if rng.random() < 0.4:
                # public operations performed ON the chord (results thrown away) before its pitches are asked: none of them may move it
                case["pre"] = [rng.choice([["transpose", rng.choice([1, 2, 3, 5, 7, -2, 12])], ["copy"], ["o", rng.choice([1, -1])],
                                           ["mod", rng.randrange(12), rng.choice(["M", "m"]), rng.choice([0, 0, 1])], ["invert", rng.choice([1, 2, -1])],
                                           ["pars_target", rng.randrange(7), rng.choice(["", "6", "7"]), rng.choice([None, "up", "down"])],
                                           ["pars_source", rng.randrange(7), rng.choice(["", "64", "65"]), rng.choice([None, "up", "down"])],
                                           ["read", rng.choice(["scale_pitches", "chord_pitches", "chromatic_scale_pitches", "chord_extension_pitches"])]])
                               for _ in range(rng.randrange(1, 4))]
            yield case

    def impl(self, case):
        def f():
            shared = mlang.mk_chord(case["chord"])
            if case.get("shared_key"):
                # the same Tonality OBJECT used with % for two chords, the first one moved by octaves: the second chord's pitches
                # (and this one's) must be those of chords built from separate, equal tonalities
                from musiclang import Chord
                c = case["chord"]
                key = mlang.mk_tonality(c)
                other = Chord(element=(c["elem"] + 3) % 7, octave=case["shared_key"]) % key
                shared = Chord(element=c["elem"], extension=mlang.ext_string(c["fig"], c.get("repl", ()), c.get("adds", ()), c.get("rems", ())),
                               octave=c["coct"]) % key
                _ = mlang.guarded(lambda: other.to_pitch(mlang.mk_note(case["notes"][0])))
            for op in case.get("pre", []):
                from musiclang import Chord, Tonality
                def run(op=op):
                    if op[0] == "transpose": return shared.transpose(op[1])
                    if op[0] == "copy": return shared.copy()
                    if op[0] == "o": return shared.o(op[1])
                    if op[0] == "mod": return shared % Tonality(op[1], op[2], op[3])
                    if op[0] == "invert": return shared.invert(op[1])
                    if op[0] == "read": return getattr(shared, op[1])
                    other = Chord(element=op[1], extension=op[2], tonality=Tonality(5, "M", 0))
                    if op[0] == "pars_target": return other.get_parsimonious_voice_leading(shared, direction=op[3])
                    return shared.get_parsimonious_voice_leading(other, direction=op[3])
                mlang.guarded(run)
            got, fresh = [], []
            for n in case["notes"]:
                for lst, ch in ((got, shared), (fresh, mlang.mk_chord(case["chord"]))):
                    r = mlang.guarded(lambda: ch.to_pitch(mlang.mk_note(n)))
                    lst.append(r if mlang.is_exc(r) else (None if r is None else int(r)))
            return {"shared": got, "fresh": fresh}
        return f()

    def spec(self, case, r):
        for i, n in enumerate(case["notes"]):
            a, b = r["shared"][i], r["fresh"][i]
            if mlang.is_exc(a) != mlang.is_exc(b) or (not mlang.is_exc(a) and a != b):
                return {"sig": "pitch-depends-on-earlier-calls", "msg": f"note {i} of {case['notes']}: {a} on the used chord object, {b} on a fresh one"}
            want = spec_pitch(case["chord"], n)
            if want not in (None, "raises") and not mlang.is_exc(a) and a != want:
                return {"sig": "pitch-shared:" + n["kind"], "msg": f"note {i} of {case['notes']}: documented pitch {want}, library gives {a}"}
        return None

    def nontrivial(self, case, r):
        return len({(n["kind"], n["val"], n["oct"], n.get("mode")) for n in case["notes"]}) < len(case["notes"]) or bool(case.get("pre"))

    def hist_keys(self, case, r):
        return ["after:" + op[0] for op in case.get("pre", [])] or ["no-earlier-operation"]

    def shrink(self, case):
        ns = case["notes"]
        pre = case.get("pre", [])
        for i in range(len(pre)):
            yield dict(case, pre=pre[:i] + pre[i + 1:])
        if len(ns) > 2:
            for i in range(len(ns)):
                yield dict(case, notes=ns[:i] + ns[i + 1:])


class SpelledKeys(Stream):
    """tonalities written with the library symbols: a degree symbol, any number of .b / .s (C flat = I.b, B sharp = VII.s cross the
    octave), a mode, an octave - the pitch of a note is that of the tonality degree + 12 x octave they denote"""
    name = "to_pitch_spelled_keys"
    checker = None
    pair = "property oracle: (X % SYMBOL.b....mode.o(k)).to_pitch(note) vs the documented pitch in the tonality base + sharps - flats"
    quick, thorough = 600, 8000
    ROMAN = ["I", "II", "III", "IV", "V", "VI", "VII"]
    BASE = [0, 2, 4, 5, 7, 9, 11]

    def gen(self, rng, n):
        for _ in range(n):
            yield {"sym": rng.randrange(7), "acc": [rng.choice("bs") for _ in range(rng.choice([0, 1, 1, 1, 2, 3]))], "mode": rng.choice(MODES),
                   "toct": rng.choice([0, 0, 1, -1]), "elem": rng.randrange(7), "fig": rng.choice(["", "6", "7"]), "coct": rng.choice([0, 0, 1]),
                   "note": rand_note(rng)}

    def impl(self, case):
        import musiclang.library as lib
        def f():
            t = getattr(lib, self.ROMAN[case["sym"]])
            for a in case["acc"]:
                t = getattr(t, a)
            t = getattr(t, case["mode"]).o(case["toct"])
            ch = (getattr(lib, self.ROMAN[case["elem"]]) % t)[case["fig"]].o(case["coct"]) if case["fig"] else (getattr(lib, self.ROMAN[case["elem"]]) % t).o(case["coct"])
            r = ch.to_pitch(mlang.mk_note(case["note"]))
            return None if r is None else int(r)
        return mlang.guarded(f)

    def spec(self, case, r):
        deg = self.BASE[case["sym"]] + sum(1 if a == "s" else -1 for a in case["acc"])
        c = {"elem": case["elem"], "fig": case["fig"], "tdeg": deg, "tmode": case["mode"], "toct": case["toct"], "coct": case["coct"]}
        want = spec_pitch(c, case["note"])
        if want is None or want == "raises":
            return None
        if mlang.is_exc(r) or r != want:
            return {"sig": "pitch-spelled-key:" + "".join(case["acc"]), "msg": f"{self.ROMAN[case['sym']]}{''.join('.' + a for a in case['acc'])}.{case['mode']}.o({case['toct']}): documented pitch {want}, library gives {r}"}
        return None

    def nontrivial(self, case, r):
        return bool(case["acc"])


class NamedAbsolute(Stream):
    """the library's named absolute notes (C1 .. B8, sharps Xs, flats Xb): each sounds the pitch its name says on every chord"""
    name = "named_absolute_notes"
    checker = None
    pair = "property oracle: chord.to_pitch(library symbol X<n>) = pitch class of X + 12 (n - 5), on random chords (the table itself is a theorem over the regenerated LIB_ABSOLUTE_NOTES)"
    quick, thorough = 300, 2000
    LETTER = {"C": 0, "D": 2, "E": 4, "F": 5, "G": 7, "A": 9, "B": 11}

    def gen(self, rng, n):
        for _ in range(n):
            c = rand_chord(rng)
            c.pop("ton_none", None)
            yield {"chord": c, "letter": rng.choice("CDEFGAB"), "suffix": rng.choice(["", "", "s", "b"]), "number": rng.randrange(1, 9)}

    def impl(self, case):
        import musiclang.library as lib
        nm = f"{case['letter']}{case['suffix']}{case['number']}"
        if not hasattr(lib, nm):
            return {"missing": nm}
        r = mlang.guarded(lambda: int(mlang.mk_chord(case["chord"]).to_pitch(getattr(lib, nm))))
        return {"name": nm, "pitch": r}

    def spec(self, case, r):
        if "missing" in r:
            return None if case["suffix"] else {"sig": "named-note-missing", "msg": r["missing"]}
        want = self.LETTER[case["letter"]] + {"": 0, "s": 1, "b": -1}[case["suffix"]] + 12 * (case["number"] - 5)
        if mlang.is_exc(r["pitch"]) or r["pitch"] != want:
            return {"sig": "named-absolute-note-pitch", "msg": f"{r['name']} sounds {r['pitch']}, its name says {want}"}
        return None

    def hist_keys(self, case, r):
        return ["octave-number=%d" % case["number"]]


def streams():
    return [NamedAbsolute(), ToPitch(), PitchLists(), SharedChord(), SpelledKeys()]

"""C12 - time slicing returns exactly the requested window and pieces re-join."""
from fractions import Fraction as F
from harness.main import Stream
from harness import core, mlang, score_gen as sg
from harness.core import Z, S, L, O, T, B

MODEL_MODS = ["Model.Pitch", "Model.Rel", "Model.Render", "Model.Slice"]
RULE = ("scores from the shared generator, padded so that every part lasts its chord (an unpadded stream is used for the model "
        "correspondence only), on mixed grids (quarters, triplets, dotted); cut points on and off note and chord boundaries, at 0, at the "
        "end, beyond the end; non-trivial = a cut strictly inside a note, or a window crossing a chord boundary")
TRUSTED = ["tick scaling of rational cut points (LCM of all denominators)"]
ASSUMPTIONS = ["every part lasts as long as its chord (the statement's guard) for the window/re-join clauses", "tag-free notes"]


def cut_points(rng, score, n=2):
    """candidate cut points: boundaries of notes/chords, points strictly inside, 0, the end, beyond"""
    pts = {F(0)}
    t0 = F(0)
    for c in score:
        cd = max([sum(F(x["dur"]) for x in notes) for _, notes in c["parts"]], default=F(0))
        for _, notes in c["parts"]:
            t = t0
            for x in notes:
                pts.add(t); pts.add(t + F(x["dur"]) / 2); pts.add(t + F(x["dur"]) / 3)
                t += F(x["dur"])
        t0 += cd
        pts.add(t0)
    pts.add(t0 + 1); pts.add(t0 + F(1, 2))
    # cut points off every grid: what is left of a cut note then has a denominator beyond the 1/1000 resolution of the Note constructor
    for _ in range(3):
        if t0 > 0:
            pts.add(F(rng.randrange(1, 1000), 1000) * t0); pts.add(F(rng.randrange(1, 7 * 11 * 13), 7 * 11 * 13) * t0)
    return sorted(pts), t0


class MelodyBetween(Stream):
    name = "melody_between"
    mods = MODEL_MODS
    checker = "check_melody_between"
    pair = "Melody.get_between / time_utils.get_melody_between <-> Slice.mel_between"
    quick, thorough = 2000, 40000

    def gen(self, rng, n):
        for _ in range(n):
            notes = [sg.rand_rnote(rng) for _ in range(rng.randrange(1, 8))]
            if rng.random() < 0.2:                       # zero-length notes (the duration clause and the model both cover them)
                for x in notes:
                    if rng.random() < 0.3:
                        x["dur"] = F(0)
            pts, total = cut_points(rng, [{"parts": [["p", notes]]}])
            a = rng.choice(pts)
            b = rng.choice([p for p in pts if p > a] or [a + 1])
            yield {"notes": notes, "a": a, "b": b}

    def impl(self, case):
        from musiclang import Melody
        def f():
            mel = Melody([sg.mk_rnote(n) for n in case["notes"]])
            return [sg.read_note(n) for n in mel.get_between(F(case["a"]), F(case["b"])).notes]
        return mlang.guarded(f)

    def term(self, case, r):
        extra = [case["a"], case["b"]] + ([] if mlang.is_exc(r) else [n["dur"] for n in r])
        tpq = sg.score_tpq([{"parts": [["p", case["notes"]]]}], extra)
        exp = "None" if mlang.is_exc(r) else "(Some " + L([sg.coq_tnote(n, tpq) for n in r]) + ")"
        return T(L([sg.coq_tnote(n, tpq) for n in case["notes"]]), Z(sg.ticks(case["a"], tpq)), Z(sg.ticks(case["b"], tpq)), exp)

    def spec(self, case, r):
        if mlang.is_exc(r):
            return {"sig": "melody-between-raises", "msg": str(r)}
        total = sum(F(n["dur"]) for n in case["notes"])
        a, b = F(case["a"]), F(case["b"])
        want = max(F(0), min(b, total) - a)
        if sum(F(n["dur"]) for n in r) != want:
            return {"sig": "melody-window-duration", "msg": f"[{a},{b}) of a melody of {total}: lasts {sum(F(n['dur']) for n in r)}"}
        if any(F(n["dur"]) < 0 for n in r):
            return {"sig": "melody-window-negative-duration", "msg": str(r)}
        return None

    def nontrivial(self, case, r):
        return F(case["a"]) > 0

    def shrink(self, case):
        ns = case["notes"]
        for i in range(len(ns)):
            if len(ns) > 1:
                yield dict(case, notes=ns[:i] + ns[i + 1:])


def sounding_list(score_obj):
    m = sg.merge_rows(sg.impl_rows(score_obj))
    names = list(dict.fromkeys(nm for ch in score_obj.chords for nm in ch.score.keys()))
    return {names[i]: v for i, v in m.items()}


def window_of(snd, a, b):
    out = {}
    for nm, evs in snd.items():
        out[nm] = [[p, o - a, min(o + d, b) - o, v] for p, o, d, v in evs if a <= o < b]
    return out


def chord_ends(score):
    t, out = F(0), []
    for c in score:
        t += max([sum(F(n["dur"]) for n in notes) for _, notes in c["parts"]], default=F(0))
        out.append(t)
    return out


def has_relative(score):
    return any(n.get("dir") for c in score for _, notes in c["parts"] for n in notes)


class ScoreBetween(Stream):
    name = "score_between"
    mods = MODEL_MODS
    checker = "check_score_between"
    pair = "Score.get_score_between / get_chord_between <-> Slice.score_between / chord_between"
    quick, thorough = 1200, 20000

    def gen(self, rng, n):
        for i in range(n):
            sc = sg.rand_score(rng, max_chords=4, rel=0.0 if i % 2 else 0.2, accs=False)
            if i % 9 == 4:
                # a doubling: the same melody under another instrument with another velocity of the same dynamics figure (same printed text)
                for c in sc:
                    nm, notes = c["parts"][0]
                    if not nm.startswith("drums") and all(n2 != "oboe__0" for n2, _ in c["parts"]):
                        c["parts"].append(["oboe__0", [dict(x, amp=(75 if x.get("amp", 66) == 66 and x["kind"] not in "rl" else x.get("amp", 66))) for x in notes]])
            if i % 5:
                sc = sg.equalize(sc)
            pts, total = cut_points(rng, sc)
            a = rng.choice([p for p in pts if p < total] or [F(0)])
            b = rng.choice([p for p in pts if p > a] or [a + 1])
            t = rng.choice([p for p in pts if 0 < p < total] or [total / 2])
            if i % 11 == 3:
                t = rng.choice([F(0), total])              # "at any time t": the first and the last boundary (one piece is the empty window)
            yield {"score": sc, "a": a, "b": b, "t": t}

    def equal_parts(self, score):
        return all(len({sum(F(n["dur"]) for n in notes) for _, notes in c["parts"]}) <= 1 for c in score)

    def impl(self, case):
        def f():
            sc = sg.mk_rscore(case["score"])
            a, b, t = F(case["a"]), F(case["b"]), F(case["t"])
            w = sc.get_score_between(a, b)
            out = {"window": None if w is None else sg.read_score(w), "dur": None if w is None else F(w.duration)}
            if self.equal_parts(case["score"]):
                out["sound"] = sounding_list(sc)
                out["wsound"] = {} if w is None else sounding_list(w)
                total = F(sc.duration)
                left, right = sc.get_score_between(0, t), sc.get_score_between(t, total)
                joined = right if left is None else (left if right is None else left + right)    # None is the library's empty window
                if joined is not None:
                    out["joined"] = sounding_list(joined)
                    out["joined_dur"] = F(joined.duration)
                elif total > 0:
                    out["joined"], out["joined_dur"] = {}, F(0)           # both pieces empty
                out["total"] = total
                # the pieces are the caller's: emptying them in place (chord.score[part] = melody) leaves the score they were cut from
                # as it was - cutting it again gives the same sound
                from musiclang import Melody, Silence
                for piece in (w, left, right):
                    for ch in (piece.chords if piece is not None else []):
                        for nm in list(ch.score.keys()):
                            ch.score[nm] = Melody([Silence(F(ch.score[nm].duration))])
                out["sound_after"] = sounding_list(sc)
            return out
        return mlang.guarded(f)

    def term(self, case, r):
        extra = [case["a"], case["b"]]
        if not mlang.is_exc(r) and r["window"] is not None:
            extra += [n["dur"] for c in r["window"] for _, notes in c["parts"] for n in notes]
        tpq = sg.score_tpq(case["score"], extra)
        if mlang.is_exc(r):
            exp = "None"
        else:
            exp = "(Some " + (sg.coq_rscore(r["window"], tpq) if r["window"] is not None else "[]") + ")"
        return T(sg.coq_rscore(case["score"], tpq), Z(sg.ticks(case["a"], tpq)), Z(sg.ticks(case["b"], tpq)), exp)

    def spec(self, case, r):
        if mlang.is_exc(r):
            return {"sig": "score-between-raises", "msg": str(r)} if self.equal_parts(case["score"]) else None
        if "sound" not in r:
            return None
        a, b, total = F(case["a"]), F(case["b"]), r["total"]
        if r["dur"] != min(b, total) - a:
            return {"sig": "window-duration", "msg": f"[{a},{b}) of {total}: window lasts {r['dur']}"}
        if not has_relative(case["score"]):
            want = window_of(r["sound"], a, b)
            got = r["wsound"]
            for nm in want:
                if got.get(nm, []) != want[nm]:
                    missing = [e for e in want[nm] if e not in got.get(nm, [])]
                    extra = [e for e in got.get(nm, []) if e not in want[nm]]
                    if not extra and missing and all(e[1] == 0 and e[2] == 0 for e in missing) and a in chord_ends(case["score"]):
                        return {"sig": "window-content:zero-length-note-at-chord-end",
                                "msg": f"part {nm} in [{a},{b}): the zero-length note(s) {missing} ending the chord that stops at {a} are lost"}
                    return {"sig": "window-content", "msg": f"part {nm} in [{a},{b}): {got.get(nm)} expected {want[nm]}"}
        if r.get("sound_after") is not None and r["sound_after"] != r["sound"]:
            return {"sig": "window-shares-objects-with-the-score", "msg": f"after emptying the extracted pieces in place the score itself sounds {str(r['sound_after'])[:200]}"}
        if "joined" in r:
            if r["joined_dur"] != total:
                return {"sig": "rejoin-duration", "msg": f"cut at {case['t']}: {r['joined_dur']} vs {total}"}
            for nm in r["sound"]:
                if r["joined"].get(nm, []) != r["sound"][nm]:
                    return {"sig": "rejoin-sound", "msg": f"cut at {case['t']}, part {nm}: {r['joined'].get(nm)} vs {r['sound'][nm]}"}
        return None

    def nontrivial(self, case, r):
        return len(case["score"]) > 1

    def hist_keys(self, case, r):
        return ["equal-parts" if self.equal_parts(case["score"]) else "unequal-parts",
                "window-none" if (not mlang.is_exc(r) and r["window"] is None) else "window-some"]

    def shrink(self, case):
        for s in sg.shrink_score(case["score"]):
            if self.equal_parts(s) == self.equal_parts(case["score"]):
                yield dict(case, score=s)


def zero_tail_ends(score):
    """the chord ends at which some part finishes its chord with a zero-length element (nothing after it advances the clock)"""
    t, out = F(0), set()
    for c in score:
        t += max([sum(F(n["dur"]) for n in notes) for _, notes in c["parts"]], default=F(0))
        if any(notes and F(notes[-1]["dur"]) == 0 for _, notes in c["parts"]):
            out.add(t)
    return out


class ScoreBetweenZero(ScoreBetween):
    """the same windows and cuts over scores that contain zero-length notes.  The model covers them like any other note; the oracle judges
    the duration always, and the window's content and the re-join unless the window starts / the score is cut exactly where a chord ENDS on a
    zero-length element, or the score itself ends on one (the statement's half-open windows do not say which side such a note belongs to,
    and the library gives it to neither: DESIGN 0.7)"""
    name = "score_between_zero_length"
    quick, thorough = 500, 8000

    def gen(self, rng, n):
        for i in range(n):
            sc = sg.rand_score(rng, max_chords=3, rel=0.0, accs=False)
            for c in sc:
                for _, notes in c["parts"]:
                    for x in notes:
                        if rng.random() < 0.2:
                            x["dur"] = F(0)
            sc = sg.equalize(sc)
            pts, total = cut_points(rng, sc)
            if total == 0:
                continue
            a = rng.choice([p for p in pts if p < total] or [F(0)])
            b = rng.choice([p for p in pts if p > a] or [a + 1])
            yield {"score": sc, "a": a, "b": b, "t": rng.choice([p for p in pts if 0 < p < total] or [total / 2])}

    def spec(self, case, r):
        if mlang.is_exc(r):
            return {"sig": "score-between-raises", "msg": str(r)}
        a, b, t, total = F(case["a"]), F(case["b"]), F(case["t"]), r["total"]
        if r["dur"] != min(b, total) - a:
            return {"sig": "window-duration", "msg": f"[{a},{b}) of {total}: window lasts {r['dur']}"}
        open_ends = zero_tail_ends(case["score"])
        if any(sg.total_dur([c]) == 0 for c in case["score"]):
            return None                                   # a chord without length: its place in time is every boundary at once
        if a not in open_ends:
            want, got = window_of(r["sound"], a, b), r["wsound"]
            for nm in want:
                if got.get(nm, []) != want[nm]:
                    return {"sig": "window-content:zero-length", "msg": f"part {nm} in [{a},{b}): {got.get(nm)} expected {want[nm]}"}
        if "joined" in r and t not in open_ends and total not in open_ends:
            if r["joined_dur"] != total:
                return {"sig": "rejoin-duration", "msg": f"cut at {t}: {r['joined_dur']} vs {total}"}
            for nm in r["sound"]:
                if r["joined"].get(nm, []) != r["sound"][nm]:
                    return {"sig": "rejoin-sound:zero-length", "msg": f"cut at {t}, part {nm}: {r['joined'].get(nm)} vs {r['sound'][nm]}"}
        return None

    def nontrivial(self, case, r):
        return any(F(x["dur"]) == 0 for c in case["score"] for _, notes in c["parts"] for x in notes)

    def hist_keys(self, case, r):
        nz = sum(1 for c in case["score"] for _, notes in c["parts"] for x in notes if F(x["dur"]) == 0)
        oe = zero_tail_ends(case["score"])
        return ["zero-length-notes=%d" % min(nz, 3), "window-none" if (not mlang.is_exc(r) and r["window"] is None) else "window-some",
                "content-judged" if F(case["a"]) not in oe else "content-open", "rejoin-judged" if (F(case["t"]) not in oe and sg.total_dur(case["score"]) not in oe) else "rejoin-open"]


class RepeatUntil(Stream):
    name = "repeat_until_duration"
    mods = MODEL_MODS
    checker = "check_repeat_until"
    pair = "Score.repeat_until_duration <-> Slice.repeat_until"
    quick, thorough = 400, 6000

    def gen(self, rng, n):
        for _ in range(n):
            sc = sg.equalize(sg.rand_score(rng, max_chords=3, rel=0.0, accs=False))
            yield {"score": sc, "d": rng.choice([F(1, 2), F(1), F(3), F(7, 2), F(10, 3), F(8), F(13), F(17, 4), F(0), F(5007, 1001), F(12345, 2048)])}   # also targets finer than the 1/1000 resolution of note durations

    def impl(self, case):
        def f():
            sc = sg.mk_rscore(case["score"])
            w = sc.repeat_until_duration(F(case["d"]))
            return {"score": None if w is None else sg.read_score(w), "dur": None if w is None else F(w.duration)}
        return mlang.guarded(f)

    def term(self, case, r):
        extra = [case["d"]]
        if not mlang.is_exc(r) and r["score"] is not None:
            extra += [n["dur"] for c in r["score"] for _, notes in c["parts"] for n in notes]
        tpq = sg.score_tpq(case["score"], extra)
        exp = "None" if mlang.is_exc(r) else "(Some " + (sg.coq_rscore(r["score"], tpq) if r["score"] is not None else "[]") + ")"
        return T(sg.coq_rscore(case["score"], tpq), Z(sg.ticks(case["d"], tpq)), exp)

    def spec(self, case, r):
        if mlang.is_exc(r):
            return {"sig": "repeat-until-raises", "msg": str(r)} if sg.total_dur(case["score"]) > 0 else None
        if (r["dur"] if r["dur"] is not None else F(0)) != F(case["d"]):       # None is the library's empty score
            return {"sig": "repeat-until-duration", "msg": f"asked {case['d']}, got {r['dur']}"}
        return None

    def shrink(self, case):
        for s in sg.shrink_score(case["score"]):
            yield dict(case, score=s)


class EditedScore(Stream):
    """the same operations on a Score object that was already used (duration read, sliced, repeated) and then edited in place with
    score[i] = chord: they must answer for the score as it is now, i.e. like a freshly built score with the same chords"""
    name = "edited_score"
    checker = None
    pair = "property oracle: used-then-edited Score object vs a fresh Score of the same chords (duration, windows, cut + re-join with the default end, repeat)"
    quick, thorough = 300, 4000

    def gen(self, rng, n):
        for _ in range(n):
            sc = sg.equalize(sg.rand_score(rng, max_chords=3, rel=0.0, accs=False))
            new = sg.equalize(sg.rand_score(rng, max_chords=1, rel=0.0, accs=False))[0]
            i = rng.randrange(len(sc))
            edited = sc[:i] + [new] + sc[i + 1:]
            pts, total = cut_points(rng, edited)
            a = rng.choice([p for p in pts if p < total] or [F(0)])
            yield {"score": sc, "i": i, "new": new, "a": a, "b": rng.choice([p for p in pts if p > a] or [a + 1]),
                   "t": rng.choice([p for p in pts if 0 < p < total] or [total / 2]), "d": rng.choice([F(1, 2), F(3), F(7, 2), F(8), F(13)])}

    def impl(self, case):
        def observe(sc, case):
            a, b, t, d = F(case["a"]), F(case["b"]), F(case["t"]), F(case["d"])
            rd = lambda x: None if x is None else [sg.read_score(x), F(x.duration)]
            out = {"dur": F(sc.duration), "window": rd(sc.get_score_between(a, b)), "tail": rd(sc.get_score_between(t)),
                   "head": rd(sc.get_score_between(0, t))}
            try:
                out["repeat"] = rd(sc.repeat_until_duration(d))
            except ZeroDivisionError:
                out["repeat"] = "zero-length score"
            return out

        def f():
            used = sg.mk_rscore(case["score"])
            observe(used, case)                                   # warm every cache the object may carry
            used[case["i"]] = sg.mk_rchord(case["new"])
            edited = case["score"][:case["i"]] + [case["new"]] + case["score"][case["i"] + 1:]
            return {"used": observe(used, case), "fresh": observe(sg.mk_rscore(edited), case), "want_dur": sg.total_dur(edited)}
        return mlang.guarded(f)

    def spec(self, case, r):
        if mlang.is_exc(r):
            return {"sig": "edited-score-raises", "msg": str(r)}
        if r["used"]["dur"] != r["want_dur"]:
            return {"sig": "edited-score-stale-duration", "msg": f"duration {r['used']['dur']} after score[{case['i']}] = chord, chords sum to {r['want_dur']}"}
        for k in ("window", "tail", "head", "repeat"):
            if r["used"][k] != r["fresh"][k]:
                return {"sig": f"edited-score-stale:{k}", "msg": f"{k} of the edited object differs from the same call on a fresh score"}
        return None

    def nontrivial(self, case, r):
        return sg.total_dur([case["new"]]) != sg.total_dur([case["score"][case["i"]]])

    def shrink(self, case):
        return []


def streams():
    return [MelodyBetween(), ScoreBetween(), ScoreBetweenZero(), RepeatUntil(), EditedScore()]

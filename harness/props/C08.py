"""C08 - MusicXML/music21 export sounds the same as the MIDI rendering."""
import os, tempfile
from fractions import Fraction as F
from harness.main import Stream
from harness import core, mlang, score_gen as sg
from harness.core import Z, S, L, O, T, B
from harness.mlang import MODES, MODE_C

MODEL_MODS = ["Model.Pitch", "Model.Rel", "Model.Render", "Model.Mxl"]
RULE = ("scores within notation range from the shared generator: all nine modes, pitched note systems s/h/c/b/a (no drums, no pattern "
        "placeholders), relative notes with an earlier sounded note of their part, continuations after notes, after rests, across chords "
        "and in chains, parts absent from chords; non-trivial = a continuation or a chord change; thorough tier also writes MusicXML and re-parses it")
TRUSTED = ["music21: Note(name+octave).pitch.midi = 12*(octave+1) + letter + accidentals; Duration(Fraction); stream offsets; MusicXML writer/reader"]
ASSUMPTIONS = ["a continuation at the head of a chord follows a part that filled the previous chord (no gap left by a short part)", "relative notes have an earlier sounded note of their part since the part was last absent", "drum and pattern notes are outside the claim",
               "default export (no_repeat=False)"]


def read_voices(m21score, names):
    """per musiclang part (in score.instruments order): list of [midi or None, offset, quarterLength, tie type].
    The exporter groups the parts of one instrument on one music21 Part, one Voice each, in order."""
    bases = list(dict.fromkeys(n.split("__")[0] for n in names))
    by_name = {}
    for base, part in zip(bases, m21score.parts):
        mine = [n for n in names if n.split("__")[0] == base]
        for nm, v in zip(mine, part.voices):
            evs = []
            for el in v.notesAndRests:
                # the onset is the element's place in the SCORE: its offset in the voice plus the voice's own offset in its staff
                evs.append([int(el.pitch.midi) if el.isNote else None, (F(el.offset) + F(v.offset)).limit_denominator(10 ** 4),
                            F(el.quarterLength).limit_denominator(10 ** 4), el.tie.type if el.tie is not None else None])
            by_name[nm] = evs
    return [by_name.get(nm, []) for nm in names]


def no_gap_continuation(score):
    """a continuation at the head of a chord directly follows the previous chord's last note only when the part filled
    that chord: otherwise (part shorter than its chord) make it a rest - what a continuation means across such a gap is
    not defined by the statement"""
    out = []
    short = {}
    for c in score:
        cd = max([sum(F(n["dur"]) for n in notes) for _, notes in c["parts"]], default=F(0))
        parts = []
        for nm, notes in c["parts"]:
            notes = [dict(n) for n in notes]
            if short.get(nm) and notes and notes[0]["kind"] == "l":
                i = 0
                while i < len(notes) and notes[i]["kind"] == "l":
                    notes[i]["kind"] = "r"; i += 1
            short[nm] = sum(F(n["dur"]) for n in notes) < cd
            parts.append([nm, notes])
        for nm in list(short):
            if nm not in {a for a, _ in c["parts"]}:
                short[nm] = False
        out.append(dict(c, parts=parts))
    return out


def merge_ties(evs):
    """sounding notes [midi, onset, duration] : a note continues the previous one when that one carries a 'start' tie"""
    out = []
    prev_tie = None
    for midi, off, ql, tie in evs:
        if midi is None:
            prev_tie = None
            continue
        if out and prev_tie == "start" and out[-1][0] == midi and out[-1][1] + out[-1][2] == off:
            out[-1][2] += ql
        else:
            out.append([midi, off, ql])
        prev_tie = tie
    return out


class Mxl(Stream):
    name = "to_music21"
    mods = MODEL_MODS
    checker = "check_mxl"
    pair = "Score.to_music21 (get_note_spelling, chord_instrument_to_notes, score_instrument_to_notes) <-> Mxl.score_voices"
    quick, thorough = 350, 5000

    def gen(self, rng, n):
        from harness.props.C11 import fix_relative
        def draw(i):
            sc = sg.rand_score(rng, max_chords=4, cont=0.3 if i % 2 else 0.15, rel=0.15, systems="sssshhccbba")
            sc = [dict(c, parts=[[nm, notes] for nm, notes in c["parts"] if not nm.startswith("drums")] or
                       [["piano__0", [sg.rand_rnote(rng, rest=0, cont=0, rel=0, systems="s")]]]) for c in sc]
            for c in sc:
                c["toct"] = rng.choice([0, 0, -1]); c["coct"] = rng.choice([0, 0, 1, -1])
            if i % 6 == 3:
                # the two ends of the MIDI range: keys 0..11 are written with octave -1, keys 120..127 with octave 9
                lo = rng.random() < 0.6
                for c in sc:
                    c["toct"], c["coct"] = (-5, 0) if lo else (4, 0)
                    for _, notes in c["parts"]:
                        for nt in notes:
                            if nt["kind"] not in "rl":
                                nt["oct"] = 0; nt["val"] = nt["val"] % 7
            if i % 5 == 0:
                # zero-length notes and rests (the duration table's .n): written as zero-length elements, still notes and references
                for c in sc:
                    for _, notes in c["parts"]:
                        for nt in notes:
                            if nt["kind"] != "l" and rng.random() < 0.2:
                                nt["dur"] = F(0)
            if i % 4 == 1:
                # chord tones and bass tones carrying a per-note mode or accidental (their pitch ignores it)
                for c in sc:
                    for _, notes in c["parts"]:
                        for nt in notes:
                            if nt["kind"] in "cb" and rng.random() < 0.5:
                                if rng.random() < 0.6:
                                    nt["mode"] = rng.choice(sg.MODES)
                                else:
                                    nt["acc"] = rng.choice(sg.ACCS)
            return fix_relative(no_gap_continuation(sc), across_gaps=True)

        def in_range(sc):
            # music21 folds a pitch outside 0..127 back by octaves; the model (and the statement) stay inside the MIDI range
            try:
                return all(0 <= 60 + p <= 127 for evs in sg.spec_sounding(sc, keep_ref=True).values() for p, o, d, v in evs)
            except Exception:
                return True
        for i in range(n):
            sc = draw(i)
            for _ in range(20):
                if in_range(sc):
                    break
                sc = draw(i)
            if i == 0:
                # the first case written to a file holds a zero-length rest whatever the seed (the listed finding's own example)
                sc[0]["parts"][0][1].insert(1, {"kind": "r", "val": 0, "oct": 0, "dur": F(0), "amp": 66})
            case = {"score": sc}
            if i % 25 in (0, 1):
                case["xml"] = True        # also written to a file (every case in the thorough tier); i % 25 == 0 are cases with zero-length elements
            yield case

    def impl(self, case):
        def f():
            sc = sg.mk_rscore(case["score"])
            m = sc.to_music21()
            out = {"voices": read_voices(m, list(sc.instruments)), "names": list(sc.instruments), "dur": F(sc.duration)}
            if os.environ.get("VERIF_TIER") == "thorough" or case.get("xml"):
                import music21
                fd, path = tempfile.mkstemp(suffix=".musicxml", dir=core.BUILD); os.close(fd)
                try:
                    m.write("musicxml", path)
                    back = music21.converter.parse(path)
                    out["xml_pitches"] = sorted(int(n.pitch.midi) for n in back.recurse().notes if n.isNote)
                except Exception as e:
                    out["xml_error"] = f"{type(e).__name__}: {e}"[:200]
                finally:
                    os.remove(path)
            return out
        return mlang.guarded(f)

    def term(self, case, r):
        tpq = sg.score_tpq(case["score"])
        if mlang.is_exc(r):
            exp = "None"
        else:
            vs = []
            for evs in r["voices"]:
                # element i was written as "tie stop" to element i-1 exactly when i-1 carries a 'start' (a later tie overwrites 'stop' by 'start')
                vs.append(L([T(O(e[0], Z), Z(sg.ticks(e[2], tpq)), B(i > 0 and evs[i - 1][3] == "start" and e[0] is not None))
                             for i, e in enumerate(evs)]))
            exp = "(Some " + L(vs) + ")"
        return T(sg.coq_rscore(case["score"], tpq), exp)

    def spec(self, case, r):
        if mlang.is_exc(r):
            return {"sig": "mxl-export-raises", "msg": str(r)}
        want = sg.spec_sounding(case["score"], keep_ref=True)
        if any(not (0 <= 60 + p <= 127) for evs in want.values() for p, o, d, v in evs):
            return None                      # outside the notation (MIDI) range
        for nm, evs in zip(r["names"], r["voices"]):
            got = merge_ties(evs)
            w = [[60 + p, o, d] for p, o, d, v in want[nm]]
            if got != w:
                kind = "pitch" if [x[1:] for x in got] == [x[1:] for x in w] else "timing"
                return {"sig": f"mxl-differs-from-rendering:{kind}", "msg": f"part {nm}: music21 {got[:6]} vs rendered {w[:6]}"}
            end = sum((e[2] for e in evs), F(0))
            if end != r["dur"] or any(a[1] + a[2] != b[1] for a, b in zip(evs, evs[1:])):
                return {"sig": "mxl-voice-length", "msg": f"part {nm}: voice lasts {end}, score {r['dur']}"}
        if "xml_error" in r:
            # the music21 object exists; writing it to a file failed
            if any(F(n["dur"]) == 0 for c in case["score"] for _, notes in c["parts"] for n in notes):
                return {"sig": "musicxml-file-raises:zero-length-element", "msg": r["xml_error"]}
            return {"sig": "musicxml-file-raises", "msg": r["xml_error"]}
        if "xml_pitches" in r:
            allp = sorted(60 + p for evs in want.values() for p, o, d, v in evs)
            if len(r["xml_pitches"]) < len(allp) or sorted(set(r["xml_pitches"])) != sorted(set(allp)):
                return {"sig": "musicxml-file-pitches", "msg": f"{sorted(set(r['xml_pitches']))[:10]} vs {sorted(set(allp))[:10]}"}
        return None

    def nontrivial(self, case, r):
        return any(n["kind"] == "l" for c in case["score"] for _, notes in c["parts"] for n in notes) or len(case["score"]) > 1

    def hist_keys(self, case, r):
        modes = {c["tmode"] for c in case["score"]}
        return ["church-mode" if modes - {"M", "m", "mm"} else "tabulated-mode", "exc" if mlang.is_exc(r) else "ok"]

    def shrink(self, case):
        from harness.props.C11 import fix_relative
        for s in sg.shrink_score(case["score"]):
            yield {"score": fix_relative(no_gap_continuation(s), across_gaps=True)}


class MxlFile(Stream):
    """the FILE written by Score.to_musicxml, read back with music21's own MusicXML reader: per instrument the same sounding notes (key,
    onset, tied duration) as the rendering, durations off the sixteenth / eighth-triplet grids included (32nds, sextuplets, quintuplets,
    septuplets).  Oracle only (the model describes the music21 object, not the writer of the file)."""
    name = "musicxml_file"
    checker = None
    pair = "property oracle on the file written by Score.to_musicxml (music21 writer) and parsed by music21.converter.parse: sounding notes per instrument"
    quick, thorough = 40, 600
    UNITS = [F(1, 8), F(1, 6), F(1, 5), F(2, 7), F(1, 4), F(1, 3), F(1, 2), F(1)]

    def gen(self, rng, n):
        for i in range(n):
            names = rng.sample(["piano__0", "violin__0", "flute__0", "cello__0"], rng.randrange(1, 3))
            sc = []
            for _ in range(rng.randrange(1, 3)):
                c = {"elem": rng.randrange(7), "fig": rng.choice(["", "6", "7"]), "tdeg": rng.randrange(12), "tmode": rng.choice(sg.MODES),
                     "toct": 0, "coct": rng.choice([0, 0, -1]), "parts": []}
                bars = rng.choice([1, 1, 2])
                for nm in names:
                    u = rng.choice(self.UNITS)                 # one subdivision per part and chord: k units per beat fill whole beats
                    per_beat = (F(1) / u) if (F(1) / u).denominator == 1 else F(2) / u
                    beat_len = u * per_beat
                    notes, total = [], F(0)
                    while total < 4 * bars:
                        left = int(per_beat)
                        while left > 0:
                            k = rng.randrange(1, left + 1)
                            kind = rng.choice("sssshcrl") if notes else rng.choice("sssh")
                            notes.append({"kind": kind, "val": rng.randrange(7), "oct": rng.choice([0, 0, 1, -1]) if kind not in "rl" else 0,
                                          "dur": u * k, "amp": 66})
                            left -= k
                        total += beat_len
                    c["parts"].append([nm, notes])
                sc.append(c)
            yield {"score": sg.equalize(sc), "sig": [4, 4]}

    def impl(self, case):
        def f():
            import music21
            sc = sg.mk_rscore(case["score"])
            fd, path = tempfile.mkstemp(suffix=".mxl", dir=core.BUILD); os.close(fd)
            try:
                sc.to_musicxml(path, signature=tuple(case["sig"]))
                back = music21.converter.parse(path, forceSource=True)
                names = list(dict.fromkeys(n.split("__")[0] for n in sc.instruments))
                out = {}
                for name, part in zip(names, back.parts):
                    # ties are merged here (music21's stripTies leaves some chains across tuplets unmerged): a note marked stop/continue
                    # prolongs the sounding note of the same key that ends where it starts
                    evs = []
                    for n in sorted((x for x in part.recurse().notes if x.isNote), key=lambda x: F(x.getOffsetInHierarchy(back)).limit_denominator(5040)):
                        on = F(n.getOffsetInHierarchy(back)).limit_denominator(5040)
                        ql = F(n.duration.quarterLength).limit_denominator(5040)
                        prev = next((e for e in reversed(evs) if e[0] == int(n.pitch.midi) and e[1] + e[2] == on), None)
                        # same reading of ties as for the music21 object (merge_ties): a note directly after a note of the same key that
                        # carries a tie start / continue prolongs it (the exporter marks the middle notes of a chain 'start')
                        if prev is not None and (prev[3] in ("start", "continue") or (n.tie is not None and n.tie.type in ("stop", "continue"))):
                            prev[2] += ql
                            prev[3] = n.tie.type if n.tie is not None else None
                        else:
                            evs.append([int(n.pitch.midi), on, ql, n.tie.type if n.tie is not None else None])
                    out[name] = sorted(e[:3] for e in evs)
                return {"file": out}
            finally:
                os.remove(path)
        return mlang.guarded(f)

    def spec(self, case, r):
        if mlang.is_exc(r):
            return {"sig": "musicxml-file-raises", "msg": str(r)}
        want = sg.spec_sounding(case["score"], keep_ref=True)
        for nm, evs in want.items():
            w = sorted([60 + p, o, d] for p, o, d, v in evs)
            got = r["file"].get(nm.split("__")[0], [])
            if got != w:
                kind = "pitch" if [x[1:] for x in got] == [x[1:] for x in w] else "timing"
                return {"sig": f"musicxml-file-differs-from-rendering:{kind}", "msg": f"instrument {nm}: file {got[:6]} vs rendered {w[:6]}"}
        return None

    def hist_keys(self, case, r):
        return sorted({"unit=" + str(min(F(n["dur"]) for n in notes)) for c in case["score"] for _, notes in c["parts"]})

    def shrink(self, case):
        sc = case["score"]
        if len(sc) > 1:
            yield dict(case, score=sc[:-1]); yield dict(case, score=sc[1:])
        for i, c in enumerate(sc):
            if len(c["parts"]) > 1:
                for j in range(len(c["parts"])):
                    yield dict(case, score=sg.equalize(sc[:i] + [dict(c, parts=c["parts"][:j] + c["parts"][j + 1:])] + sc[i + 1:]))


def streams():
    return [Mxl(), MxlFile()]

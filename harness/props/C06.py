"""C06 - objects are immutable: no operation changes its operands or earlier results."""
import inspect
import os
from fractions import Fraction as F
from harness.main import Stream
from harness import core, mlang, score_gen as sg
from harness.core import Z, S, L, O, T, B, Qc
from harness.mlang import MODES, KIND_C, DIR_C, MODE_C, ACC_C

MODEL_MODS = ["Model.Code", "Model.Heap"]
RULE = ("(a) programs of 4..25 operations of the modelled algebra (notes, tonalities, chords; copying note/melody/chord/score methods; the "
        "sharing ones: + on notes/melodies, slices, to_melody, Score(list), score + chord, score[i]; the in-place editor "
        "VoiceLeading.get_score) with results fed back as operands; (b) histories of 10..60 public operations drawn from every public "
        "method/property of Note, Melody, Chord, Score, Tonality callable without argument plus a catalogue of ~70 calls with "
        "arguments (operators, modulation, octaves, durations, slicing, projections, transforms, voice leading, counterpoint, "
        "normalisations, exports, analyses), over a growing pool that contains the library singletons; every live object and every "
        "library symbol is snapshotted field by field before and after each operation; non-trivial = at least one operand is a "
        "result of an earlier operation")
TRUSTED = ["id()-based object identity and the field walker of the harness (type, val, octave, duration, mode, accident, amp, tags, "
           "tempo, pedal; notes list; score dict; chords list; config; tonality fields)"]
ASSUMPTIONS = ["in-place forms are not called (arguments named inplace, attribute assignment by the user), except item assignment score[i] = chord in the histories stream, where the assigned score is the only object allowed to change",
               "operations that raise are not violations (they must still leave every object unchanged, which is checked)"]


# ---------------------------------------------------------------------------------------
# object-graph walker
class CacheView:
    """the lazily computed values an object carries (cached properties in its __dict__): two views agree when every value present in
    both is the same - computing a value for the first time is not a change, altering one that was already there is"""
    def __init__(self, d):
        self.d = d
    def __eq__(self, other):
        return isinstance(other, CacheView) and all(other.d[k] == v for k, v in self.d.items() if k in other.d)
    def __ne__(self, other):
        return not self.__eq__(other)
    def __hash__(self):
        return 0
    def __repr__(self):
        return "caches" + repr({k: v for k, v in sorted(self.d.items())})[:120]


CHORD_FIELDS = {"element", "extension", "tonality", "octave", "score", "tags"}


def cache_view(obj):
    def show(v):
        if isinstance(v, (list, tuple)):
            return tuple(show(x) for x in v)
        if isinstance(v, dict):
            return tuple(sorted((str(k), show(x)) for k, x in v.items()))
        return str(v)
    return CacheView({k: show(v) for k, v in getattr(obj, "__dict__", {}).items() if k not in CHORD_FIELDS})


def walk(obj, out):
    """field-level snapshot of everything reachable from obj: {id: fields}; children are referenced by id"""
    from musiclang import Note, Melody, Chord, Score, Tonality
    i = id(obj)
    if i in out:
        return i
    if isinstance(obj, Note):
        out[i] = ("note", obj.type, obj.val, obj.octave, obj.duration, obj.mode, obj.accident, obj.amp, frozenset(obj.tags),
                  getattr(obj, "tempo", None), getattr(obj, "pedal", None))
    elif isinstance(obj, Melody):
        out[i] = None
        out[i] = ("melody", tuple(walk(n, out) for n in obj.notes), frozenset(obj.tags), getattr(obj, "nb_bars", None))
    elif isinstance(obj, Chord):
        out[i] = None
        out[i] = ("chord", type(obj).__name__, obj.element, obj.extension, walk(obj.tonality, out) if obj.tonality is not None else None,
                  obj.octave, tuple((k, walk(v, out)) for k, v in obj.score.items()), frozenset(obj.tags), cache_view(obj))
    elif isinstance(obj, Score):
        out[i] = None
        cfg = getattr(obj, "config", None)
        out[i] = ("score", tuple(walk(c, out) for c in obj.chords), repr(sorted(cfg.items())) if isinstance(cfg, dict) else repr(cfg),
                  frozenset(obj.tags))
    elif isinstance(obj, Tonality):
        out[i] = ("ton", obj.degree, obj.mode, obj.octave, frozenset(getattr(obj, "tags", ()) or ()))
    elif type(obj).__name__ == "Element":
        out[i] = ("element", obj.val)
    else:
        return None
    return i


def describe(fields):
    return str(fields)[:160]


# =====================================================================================
# (a) the modelled algebra
def rnote(rng):
    return {"kind": rng.choice("ssshc"), "val": rng.randrange(7), "oct": rng.choice([0, 0, 1, -1]), "dur": rng.choice([F(1), F(1, 2), F(2), F(3, 2)]),
            "amp": rng.choice([66, 40, 100])}


def gen_program(rng, n):
    """a well-typed program; kinds[i] = kind of pool entry i"""
    prog, kinds = [], []
    def pick(kind):
        idx = [i for i, k in enumerate(kinds) if k == kind]
        return rng.choice(idx) if idx else None
    def add(op, kind):
        prog.append(op)
        kinds.append(kind)
    add({"op": "NewNote", "n": rnote(rng)}, "note")
    add({"op": "NewNote", "n": rnote(rng)}, "note")
    add({"op": "NewTon", "t": [rng.randrange(12), rng.choice(MODES), rng.choice([0, 0, 1])]}, "ton")
    while len(prog) < n:
        w = rng.choice(["NewNote", "NoteUpd", "Concat", "Concat", "MelMap", "MelRepeat", "MelSlice", "NoteToMelody", "NewChord", "ChordCall",
                        "ChordCall", "ChordUpd", "ChordAdd", "ScoreOf", "ScoreAddChord", "ScoreAddScore", "ScoreIndex", "ScoreSlice", "ScoreMap",
                        "EditFirstNotes", "NewTon", "ScoreRepeat", "ChordRepeat", "NoteRepeat"])
        if w == "NewNote":
            add({"op": w, "n": rnote(rng)}, "note")
        elif w == "NewTon":
            add({"op": w, "t": [rng.randrange(12), rng.choice(MODES), rng.choice([0, 0, -1])]}, "ton")
        elif w == "NoteUpd" and pick("note") is not None:
            add({"op": w, "a": pick("note"), "u": rand_upd(rng, True)}, "note")
        elif w == "Concat":
            a, b = pick(rng.choice(["note", "mel"])), pick(rng.choice(["note", "mel"]))
            if a is not None and b is not None:
                add({"op": w, "a": a, "b": b}, "mel")
        elif w == "MelMap" and pick("mel") is not None:
            add({"op": w, "a": pick("mel"), "u": rand_upd(rng, False)}, "mel")
        elif w == "MelRepeat" and pick("mel") is not None:
            add({"op": w, "a": pick("mel"), "k": rng.choice([1, 2, 3])}, "mel")
        elif w == "MelSlice" and pick("mel") is not None:
            i = rng.randrange(0, 3)
            add({"op": w, "a": pick("mel"), "i": i, "j": i + rng.randrange(1, 4)}, "mel")
        elif w == "NoteToMelody" and pick("note") is not None:
            add({"op": w, "a": pick("note")}, "mel")
        elif w == "NewChord" and pick("ton") is not None:
            add({"op": w, "e": rng.randrange(7), "x": rng.choice(["", "", "6", "7", "65"]), "t": pick("ton"), "o": rng.choice([0, 0, 1, -1])}, "chord")
        elif w == "ChordCall" and pick("chord") is not None and pick("mel") is not None:
            names = rng.sample(["piano__0", "violin__0", "cello__1"], rng.randrange(1, 3))
            add({"op": w, "c": pick("chord"), "ps": [[nm, pick("mel")] for nm in names]}, "chord")
        elif w == "ChordUpd" and pick("chord") is not None:
            cu = rng.choice([["CUCopy"], ["CUOct", rng.choice([1, -1])], ["CUExt", rng.choice(["6", "64", "7"])]])
            add({"op": w, "c": pick("chord"), "cu": cu}, "chord")
        elif w == "ChordAdd" and pick("chord") is not None:
            add({"op": w, "a": pick("chord"), "b": pick("chord")}, "score")
        elif w == "ScoreOf" and pick("chord") is not None:
            add({"op": w, "cs": [pick("chord") for _ in range(rng.randrange(1, 4))]}, "score")
        elif w == "ScoreAddChord" and pick("score") is not None and pick("chord") is not None:
            add({"op": w, "s": pick("score"), "c": pick("chord")}, "score")
        elif w == "ScoreAddScore" and pick("score") is not None:
            add({"op": w, "s": pick("score"), "t": pick("score")}, "score")
        elif w == "ScoreIndex" and pick("score") is not None:
            add({"op": w, "s": pick("score"), "i": rng.randrange(0, 2)}, "chord")
        elif w == "ScoreSlice" and pick("score") is not None:
            i = rng.randrange(0, 2)
            add({"op": w, "s": pick("score"), "i": i, "j": i + rng.randrange(1, 3)}, "score")
        elif w == "ScoreMap" and pick("score") is not None:
            add({"op": w, "s": pick("score"), "u": rng.choice([["UCopy"], ["UAmp", rng.choice([30, 90])]])}, "score")
        elif w == "ChordRepeat" and pick("chord") is not None:
            add({"op": w, "c": pick("chord"), "k": rng.choice([1, 2, 3, 0])}, "score")
        elif w == "NoteRepeat" and pick("note") is not None:
            add({"op": w, "a": pick("note"), "k": rng.choice([1, 2, 3, 0])}, "mel")
        elif w == "ScoreRepeat" and pick("score") is not None:
            add({"op": w, "s": pick("score"), "k": rng.choice([1, 1, 2, 3, 0])}, "score")
        elif w == "EditFirstNotes" and pick("score") is not None:
            add({"op": w, "s": pick("score"), "seed": rng.randrange(1000)}, "score")
    return prog


def rand_upd(rng, note_level):
    c = ["UCopy", "UOct", "UDur", "UAmp"] + (["UTag"] if note_level else [])
    k = rng.choice(c)
    return {"UCopy": ["UCopy"], "UOct": ["UOct", rng.choice([1, -1, 2])], "UDur": ["UDur", rng.choice([F(2), F(1, 2), F(3, 2)])],
            "UAmp": ["UAmp", rng.choice([30, 90, 110])], "UTag": ["UTag", "t1"]}[k]


def apply_upd(x, u):
    k = u[0]
    if k == "UCopy":
        return x.copy()
    if k == "UOct":
        return x.o(u[1])
    if k == "UDur":
        return x.augment(F(u[1]))
    if k == "UAmp":
        return x.set_amp(int(u[1]))
    if k == "UTag":
        return x.add_tag(u[1])
    raise ValueError(k)


class Skip(Exception):
    pass


def run_op(op, pool):
    from musiclang import Note, Melody, Chord, Score, Tonality
    w = op["op"]
    g = lambda key: pool[op[key]]
    if w == "NewNote":
        n = op["n"]
        return Note(n["kind"], n["val"], n["oct"], F(n["dur"]), amp=n["amp"])
    if w == "NewTon":
        return Tonality(*op["t"])
    if w == "NewChord":
        return Chord(op["e"], extension=op["x"], tonality=g("t"), octave=op["o"])
    if w == "NoteUpd":
        return apply_upd(g("a"), op["u"])
    if w == "Concat":
        return g("a") + g("b")
    if w == "MelMap":
        return apply_upd(g("a"), op["u"])
    if w == "MelRepeat":
        return g("a") * op["k"]
    if w == "MelSlice":
        return g("a")[op["i"]:op["j"]]
    if w == "NoteToMelody":
        return g("a").to_melody()
    if w == "ChordCall":
        return g("c")(**{nm: pool[i] for nm, i in op["ps"]})
    if w == "ChordUpd":
        c, cu = g("c"), op["cu"]
        return c.copy() if cu[0] == "CUCopy" else (c.o(cu[1]) if cu[0] == "CUOct" else c[cu[1]])
    if w == "ChordAdd":
        return g("a") + g("b")
    if w == "ScoreOf":
        return Score([pool[i] for i in op["cs"]])
    if w == "ScoreAddChord":
        return g("s") + g("c")
    if w == "ScoreAddScore":
        return g("s") + g("t")
    if w == "ScoreIndex":
        s = g("s")
        if op["i"] >= len(s.chords):
            raise Skip()
        return s[op["i"]]
    if w == "ScoreSlice":
        return g("s")[op["i"]:op["j"]]
    if w == "ScoreMap":
        return apply_upd(g("s"), op["u"])
    if w == "ScoreRepeat":
        return g("s") * op["k"]
    if w == "ChordRepeat":
        return g("c") * op["k"]
    if w == "NoteRepeat":
        return g("a") * op["k"]
    if w == "EditFirstNotes":
        import numpy as np
        from musiclang.transform import VoiceLeading
        s = g("s")
        ins = s.instruments
        if not s.chords or any(list(c.score.keys()) != ins or any(len(m.notes) == 0 for m in c.score.values()) for c in s.chords):
            raise Skip()
        vl = VoiceLeading(seed=op["seed"])
        vl.init(s)
        dvals = np.random.RandomState(op["seed"]).randint(-2, 3, vl.pitch.shape)
        return vl.get_score(s, dvals)
    raise ValueError(w)


def py_canon(pool):
    """depth-first numbering from the pool (tonality before the parts of a chord), as Heap.canon does"""
    from musiclang import Note, Melody, Chord, Score, Tonality
    num, nodes = {}, {}

    def visit(o):
        i = id(o)
        if i in num:
            return num[i]
        k = len(num)
        num[i] = k
        if isinstance(o, Note):
            nodes[k] = ("note", o)
        elif isinstance(o, Tonality):
            nodes[k] = ("ton", o)
        elif isinstance(o, Melody):
            nodes[k] = ("mel", [visit(n) for n in o.notes])
        elif isinstance(o, Score):
            nodes[k] = ("score", [visit(c) for c in o.chords])
        elif isinstance(o, Chord):
            t = visit(o.tonality)
            nodes[k] = ("chord", o, t, [(nm, visit(m)) for nm, m in o.score.items()])
        else:
            raise TypeError(type(o))
        return k
    roots = [visit(o) for o in pool]
    return roots, [nodes[k] for k in range(len(nodes))]


def coq_fn(n, tags=()):
    return (f"(mkF {KIND_C[n['kind']]} {DIR_C[n.get('dir', '')]} {Z(n['val'])} {Z(n['oct'])} {Qc(F(n['dur']))} "
            f"{O(n.get('mode'), lambda m: MODE_C[m])} {O(n.get('acc'), lambda a: ACC_C[a])} {Qc(F(n['amp']).limit_denominator(10 ** 6))} "
            f"{L([S(t) for t in tags])})")


def coq_live_note(o):
    t = o.type
    k, d = (t[0], t[1:]) if len(t) == 2 else (t, "")
    return coq_fn({"kind": k, "dir": d, "val": int(o.val), "oct": int(o.octave), "dur": F(o.duration), "mode": o.mode, "acc": o.accident,
                   "amp": o.amp}, tags=sorted(o.tags))


def coq_ton3(d, m, o):
    return f"(mkT {Z(d)} {MODE_C[m]} {Z(o)})"


def coq_upd(u):
    k = u[0]
    if k == "UCopy":
        return "UCopy"
    if k == "UOct":
        return f"(UOct {Z(u[1])})"
    if k == "UDur":
        return f"(UDur {Qc(F(u[1]))})"
    if k == "UAmp":
        return f"(UAmp {Qc(F(u[1]))})"
    return f"(UTag {S(u[1])})"


def coq_op(op, extra):
    w = op["op"]
    N = lambda i: f"{int(i)}%nat"
    if w == "NewNote":
        return f"(NewNote {coq_fn(op['n'])})"
    if w == "NewTon":
        return f"(NewTon {coq_ton3(*op['t'])})"
    if w == "NewChord":
        return f"(NewChord {Z(op['e'])} {S(op['x'])} {N(op['t'])} {Z(op['o'])})"
    if w == "NoteUpd":
        return f"(NoteUpd {N(op['a'])} {coq_upd(op['u'])})"
    if w == "Concat":
        return f"(Concat {N(op['a'])} {N(op['b'])})"
    if w == "MelMap":
        return f"(MelMap {N(op['a'])} {coq_upd(op['u'])})"
    if w == "MelRepeat":
        return f"(MelRepeat {N(op['a'])} {N(op['k'])})"
    if w == "MelSlice":
        return f"(MelSlice {N(op['a'])} {N(op['i'])} {N(op['j'])})"
    if w == "NoteToMelody":
        return f"(NoteToMelody {N(op['a'])})"
    if w == "ChordCall":
        return f"(ChordCall {N(op['c'])} {L([T(S(nm), N(i)) for nm, i in op['ps']])})"
    if w == "ChordUpd":
        cu = op["cu"]
        c = "CUCopy" if cu[0] == "CUCopy" else (f"(CUOct {Z(cu[1])})" if cu[0] == "CUOct" else f"(CUExt {S(cu[1])})")
        return f"(ChordUpd {N(op['c'])} {c})"
    if w == "ChordAdd":
        return f"(ChordAdd {N(op['a'])} {N(op['b'])})"
    if w == "ScoreOf":
        return f"(ScoreOf {L([N(i) for i in op['cs']])})"
    if w == "ScoreAddChord":
        return f"(ScoreAddChord {N(op['s'])} {N(op['c'])})"
    if w == "ScoreAddScore":
        return f"(ScoreAddScore {N(op['s'])} {N(op['t'])})"
    if w == "ScoreIndex":
        return f"(ScoreIndex {N(op['s'])} {N(op['i'])})"
    if w == "ScoreSlice":
        return f"(ScoreSlice {N(op['s'])} {N(op['i'])} {N(op['j'])})"
    if w == "ScoreMap":
        return f"(ScoreMap {N(op['s'])} {coq_upd(op['u'])})"
    if w == "ScoreRepeat":
        return f"(ScoreRepeat {N(op['s'])} {N(op['k'])})"
    if w == "ChordRepeat":
        return f"(ChordRepeat {N(op['c'])} {N(op['k'])})"
    if w == "NoteRepeat":
        return f"(NoteRepeat {N(op['a'])} {N(op['k'])})"
    if w == "EditFirstNotes":
        return f"(EditFirstNotes {N(op['s'])} {L([L([T(Z(v), Z(o)) for v, o in ch]) for ch in extra])})"
    raise ValueError(w)


class HeapPrograms(Stream):
    name = "heap_programs"
    mods = MODEL_MODS
    checker = "check_heap"
    pair = ("Note/Melody/Chord/Score operators and copying methods, VoiceLeading.get_score <-> Heap.run / Heap.canon: the object graph "
            "(values AND sharing) of the whole pool after the program")
    quick, thorough = 600, 10000

    def gen(self, rng, n):
        for _ in range(n):
            yield {"prog": gen_program(rng, rng.randrange(4, 26))}

    def execute(self, prog):
        """run the program; the pool addresses of the model are the ranks of the executed operations"""
        pool, executed, extras, remap = [], [], [], {}
        mutated = None
        for idx, op in enumerate(prog):
            keys = [k for k in ("a", "b", "c", "s", "t") if k in op and isinstance(op[k], int)]
            if op["op"] == "NewTon":
                keys = []
            refs = [op[k] for k in keys] + [i for _, i in op.get("ps", [])] + list(op.get("cs", []))
            if any(r not in remap for r in refs):
                continue                                   # an operand was skipped
            op2 = dict(op)
            for k in keys:
                op2[k] = remap[op[k]]
            if "ps" in op:
                op2["ps"] = [[nm, remap[i]] for nm, i in op["ps"]]
            if "cs" in op:
                op2["cs"] = [remap[i] for i in op["cs"]]
            before = {}
            for o in pool:
                walk(o, before)
            try:
                res = run_op(op2, pool)
            except Skip:
                continue
            except Exception as e:
                res = None
                err = type(e).__name__
            after = {}
            for o in pool:
                walk(o, after)
            for i, f in before.items():
                if after.get(i) != f and mutated is None:
                    mutated = {"op": op2["op"], "index": idx, "was": describe(f), "now": describe(after.get(i))}
            if res is None:
                continue
            extra = None
            if op2["op"] == "EditFirstNotes":
                extra = [[[int(m.notes[0].val), int(m.notes[0].octave)] for m in c.score.values()] for c in res.chords]
            remap[idx] = len(pool)
            pool.append(res)
            executed.append(op2)
            extras.append(extra)
        return pool, executed, extras, mutated

    def impl(self, case):
        pool, executed, extras, mutated = self.execute(case["prog"])
        roots, nodes = py_canon(pool)
        enc = []
        for nd in nodes:
            if nd[0] == "note":
                enc.append(f"(NNote {coq_live_note(nd[1])})")
            elif nd[0] == "ton":
                enc.append(f"(NTon {coq_ton3(int(nd[1].degree), nd[1].mode, int(nd[1].octave))})")
            elif nd[0] == "mel":
                enc.append(f"(NMel {L([f'{k}%nat' for k in nd[1]])})")
            elif nd[0] == "score":
                enc.append(f"(NScore {L([f'{k}%nat' for k in nd[1]])})")
            else:
                c = nd[1]
                ps = L([T(S(nm), f"{k}%nat") for nm, k in nd[3]])
                enc.append(f"(NChord {Z(int(c.element))} {S(c.extension)} {nd[2]}%nat {Z(int(c.octave))} {ps})")
        if mutated is None:
            # the in-place form the property names, applied to every score of the pool in turn: score[0] = chord changes THAT score
            # object only (two scores that are one list of chords under two names would both change)
            from musiclang import Score, Chord, Tonality
            for k, o in enumerate(pool):
                if isinstance(o, Score) and o.chords:
                    before = {}
                    for x in pool:
                        walk(x, before)
                    o[0] = Chord(0, tonality=Tonality(0))
                    after = {}
                    for x in pool:
                        walk(x, after)
                    bad = [i for i, f in before.items() if i != id(o) and i in after and after[i] != f]
                    if bad:
                        mutated = {"op": f"item assignment on the result of {executed[k]['op']}", "index": k, "was": describe(before[bad[0]]),
                                   "now": describe(after[bad[0]])}
                        break
        return {"executed": executed, "extras": extras, "roots": roots, "nodes": enc, "mutated": mutated, "n": len(executed)}

    def term(self, case, r):
        prog = L([coq_op(op, ex) for op, ex in zip(r["executed"], r["extras"])])
        roots = L([f"{k}%nat" for k in r["roots"]])
        return T(prog, f"(Some ({roots}, {L(r['nodes'])}))")

    def spec(self, case, r):
        if r["mutated"]:
            m = r["mutated"]
            return {"sig": f"mutates:{m['op']}", "msg": f"step {m['index']} ({m['op']}) changed an existing object: {m['was']} -> {m['now']}"}
        return None

    def nontrivial(self, case, r):
        return r["n"] >= 6

    def hist_keys(self, case, r):
        return ["op=" + op["op"] for op in r["executed"]]

    def shrink(self, case):
        p = case["prog"]
        for i in range(len(p) - 1, 2, -1):
            yield {"prog": p[:i] + p[i + 1:]}


# =====================================================================================
# (b) histories of public operations, monitored
SKIP_NAMES = {"show", "to_code_file", "to_file", "to_pickle", "to_events_pickle", "to_midi", "to_musicxml", "to_text_file", "predict_score",
              "from_str", "from_file", "from_midi", "from_xml", "from_pickle", "from_annotation", "from_annotation_file", "from_chord_list",
              "from_chord_repr", "from_chromagram", "from_pattern", "from_sequence", "from_romantext", "from_grid", "json_file_to_score",
              "dict_to_score", "get_random_permutation", "init_properties", "to_chromagram", "extract_densities", "reparse", "clean", "to_music21"}


def zero_arg_ops():
    from musiclang import Note, Melody, Chord, Score, Tonality
    out = []
    for kind, cls in (("note", Note), ("mel", Melody), ("chord", Chord), ("score", Score), ("ton", Tonality)):
        for name in sorted(dir(cls)):
            if name.startswith("_") or name in SKIP_NAMES:
                continue
            try:
                attr = inspect.getattr_static(cls, name)
            except AttributeError:
                continue
            if isinstance(attr, (classmethod, staticmethod)):
                continue
            if isinstance(attr, property) or type(attr).__name__ == "cached_property":
                out.append((kind, name, "prop"))
            elif inspect.isfunction(attr):
                sig = inspect.signature(attr)
                req = [p for p in list(sig.parameters.values())[1:] if p.default is p.empty and p.kind in (p.POSITIONAL_ONLY, p.POSITIONAL_OR_KEYWORD)]
                if not req and "inplace" not in sig.parameters:
                    out.append((kind, name, "call"))
    return out


def catalogue():
    """(name, operand kinds, function(operands, rng))"""
    from musiclang import Tonality, Score, Metric
    from musiclang.transform import VoiceLeading
    from musiclang.transform.library import TransposeDiatonic, TransposeChromatic, LimitRegister
    Fr = F
    C = []
    add = lambda name, kinds, fn: C.append((name, kinds, fn))
    add("note+note", ["note", "note"], lambda a, r: a[0] + a[1])
    add("note+mel", ["note", "mel"], lambda a, r: a[0] + a[1])
    add("mel+note", ["mel", "note"], lambda a, r: a[0] + a[1])
    add("mel+mel", ["mel", "mel"], lambda a, r: a[0] + a[1])
    add("note*k", ["note"], lambda a, r: a[0] * r.choice([1, 2, 3]))
    add("mel*k", ["mel"], lambda a, r: a[0] * r.choice([1, 2]))
    add("note.o", ["note"], lambda a, r: a[0].o(r.choice([1, -1])))
    add("note.oabs", ["note"], lambda a, r: a[0].oabs(r.choice([1, -1])))
    add("note.augment", ["note"], lambda a, r: a[0].augment(r.choice([Fr(2), Fr(1, 2), Fr(3, 2)])))
    add("note.dur-attr", ["note"], lambda a, r: getattr(a[0], r.choice(["h", "e", "qd", "w", "e3"])))
    add("note.dyn-attr", ["note"], lambda a, r: getattr(a[0], r.choice(["p", "f", "ff", "mp"])))
    add("note.mode-attr", ["note"], lambda a, r: getattr(a[0], r.choice(["dorian", "lydian", "m"])))
    add("note.set_val", ["note"], lambda a, r: a[0].set_val(r.randrange(7)))
    add("note.set_duration", ["note"], lambda a, r: a[0].set_duration(r.choice([Fr(1), Fr(3)])))
    add("note.set_amp", ["note"], lambda a, r: a[0].set_amp(r.choice([30, 100])))
    add("note.add_tag", ["note"], lambda a, r: a[0].add_tag("t"))
    add("note.add_tags", ["note"], lambda a, r: a[0].add_tags(["u", "v"]))
    add("note.remove_tag", ["note"], lambda a, r: a[0].remove_tag("t"))
    add("note.add_value", ["note"], lambda a, r: a[0].add_value(r.choice([1, -2]), r.choice([0, 1])))
    add("note.add_interval", ["note", "note"], lambda a, r: a[0].add_interval(a[1]))
    add("note&k", ["note"], lambda a, r: a[0] & r.choice([1, -1, 2]))
    add("mel&k", ["mel"], lambda a, r: a[0] & r.choice([1, -1, 2]))
    add("mel.o", ["mel"], lambda a, r: a[0].o(r.choice([1, -1])))
    add("mel.augment", ["mel"], lambda a, r: a[0].augment(r.choice([Fr(2), Fr(1, 2)])))
    add("mel.set_duration", ["mel"], lambda a, r: a[0].set_duration(r.choice([Fr(2), Fr(4)])))
    add("mel.set_amp", ["mel"], lambda a, r: a[0].set_amp(r.choice([30, 100])))
    add("mel[i]", ["mel"], lambda a, r: a[0][0])
    add("mel[i:j]", ["mel"], lambda a, r: a[0][0:2])
    def window(x, r):
        d = Fr(x.duration)
        a_, b_ = sorted(r.sample([Fr(0), Fr(1, 8), Fr(1, 4), Fr(1, 3), Fr(1, 2), Fr(2, 3), Fr(7, 8), Fr(1)], 2))
        return d * a_, d * b_
    add("mel.get_between", ["mel"], lambda a, r: a[0].get_between(*window(a[0], r)))
    add("mel.replace", ["mel", "note", "note"], lambda a, r: a[0].replace(a[1], a[2]))
    add("mel.project_on_rhythm", ["mel", "mel"], lambda a, r: a[0].project_on_rhythm(a[1]))
    add("mel.dur-attr", ["mel"], lambda a, r: getattr(a[0], r.choice(["h", "e"])))
    add("mel.add_tag", ["mel"], lambda a, r: a[0].add_tag("t"))
    add("metric.apply", ["mel"], lambda a, r: Metric([1, 0, 1, 1], (4, 4), tatum=Fr(1)).apply_to_melody(a[0]))
    add("metric.apply-noexpand", ["mel"], lambda a, r: Metric([1, 0, 1, 1], (4, 4), tatum=Fr(1)).apply_to_melody(a[0], expand=False))
    add("TransposeDiatonic", ["mel"], lambda a, r: TransposeDiatonic(r.choice([1, -2]))(a[0]))
    add("TransposeChromatic-score", ["score"], lambda a, r: TransposeChromatic(r.choice([1, 3]))(a[0]))
    add("LimitRegister-score", ["score"], lambda a, r: LimitRegister(-5, 12)(a[0]))
    from musiclang.transform import library as TL
    add("Modulate(ton)-score", ["score", "ton"], lambda a, r: TL.Modulate(a[1])(a[0]))
    add("Modulate(ton)-chord", ["chord", "ton"], lambda a, r: TL.Modulate(a[1])(a[0]))
    add("ModulateKeepOriginMode(ton)-score", ["score", "ton"], lambda a, r: TL.ModulateKeepOriginMode(a[1])(a[0]))
    add("ModulateKeepOriginMode(ton)-chord", ["chord", "ton"], lambda a, r: TL.ModulateKeepOriginMode(a[1])(a[0]))
    add("ModulateKeepOriginMode(int)-score", ["score"], lambda a, r: TL.ModulateKeepOriginMode(r.choice([2, 5, 7]))(a[0]))
    add("RepeatChord-score", ["score"], lambda a, r: TL.RepeatChord(2)(a[0]))
    add("RepeatScore-score", ["score"], lambda a, r: TL.RepeatScore(r.choice([1, 2]))(a[0]))
    add("ReverseMelody", ["score"], lambda a, r: TL.ReverseMelody()(a[0]))
    add("ReverseMelodyWithoutRhythm", ["mel"], lambda a, r: TL.ReverseMelodyWithoutRhythm()(a[0]))
    add("InvertMelody", ["mel"], lambda a, r: TL.InvertMelody()(a[0]))
    add("CircularPermutationMelody", ["chord"], lambda a, r: TL.CircularPermutationMelody(r.choice([1, 2]))(a[0]))
    add("SelectRangeMelody", ["mel"], lambda a, r: TL.SelectRangeMelody(0, 2)(a[0]))
    add("ApplySilence-note", ["note"], lambda a, r: TL.ApplySilence()(a[0]))
    add("ApplyContinuation-score", ["score"], lambda a, r: TL.ApplyContinuation()(a[0]))
    add("ContinuationWhenSameNote", ["score"], lambda a, r: TL.ContinuationWhenSameNote()(a[0]))
    add("ExtractMainTonality", ["score"], lambda a, r: TL.ExtractMainTonality()(a[0]))
    add("MostCommonTonalities", ["score"], lambda a, r: TL.MostCommonTonalities(2)(a[0]))
    add("PitchDynamizer", ["score"], lambda a, r: TL.PitchDynamizer()(a[0]))
    add("ConcatScores", ["score", "score"], lambda a, r: TL.ConcatScores()(a[0], a[1]))
    def assign_item(a, r):
        # the explicitly in-place form the property names: score[i] = chord changes THAT score object and nothing else
        if not a[0].chords:
            raise Skip()
        a[0][r.randrange(len(a[0].chords))] = a[1]
        return None
    add("inplace:score[i]=chord", ["score", "chord"], assign_item)
    def assign_into_result(a, r):
        # an operation whose result holds everything of its operand (the whole window, a repetition up to the score's own length, the full
        # slice, one repetition, a copy), then the in-place form on that RESULT: nothing of the pool may change
        s_ = a[0]
        how = r.choice(["window", "window+", "window()", "repeat", "slice", "mul1", "copy", "add_none"])
        d = Fr(s_.duration)
        res = {"window": lambda: s_.get_score_between(0, d), "window+": lambda: s_.get_score_between(0, d + 1), "window()": lambda: s_.get_score_between(),
               "repeat": lambda: s_.repeat_until_duration(d), "slice": lambda: s_[0:len(s_.chords)], "mul1": lambda: s_ * 1,
               "copy": lambda: s_.copy(), "add_none": lambda: s_ + None}[how]()
        if res is None or not getattr(res, "chords", None):
            raise Skip()
        res[r.randrange(len(res.chords))] = a[1]
        return None
    add("whole-result-then-assign", ["score", "chord"], assign_into_result)
    add("whole-result-then-assign2", ["score", "chord"], assign_into_result)
    add("score*1", ["score"], lambda a, r: a[0] * 1)
    add("chord*1", ["chord"], lambda a, r: a[0] * 1)
    add("ton+ton", ["ton", "ton"], lambda a, r: a[0] + a[1])
    add("ton-ton", ["ton", "ton"], lambda a, r: a[0] - a[1])
    add("ton.o", ["ton"], lambda a, r: a[0].o(r.choice([1, -1])))
    add("ton.change_mode", ["ton"], lambda a, r: a[0].change_mode(r.choice(["m", "lydian"])))
    add("chord%ton", ["chord", "ton"], lambda a, r: a[0] % a[1])
    add("chord.modulate", ["chord", "ton"], lambda a, r: a[0].modulate(a[1]))
    add("chord.o", ["chord"], lambda a, r: a[0].o(r.choice([1, -1])))
    add("chord[ext]", ["chord"], lambda a, r: a[0][r.choice(["6", "64", "7", "65"])])
    add("chord(call)", ["chord", "mel"], lambda a, r: a[0](piano__0=a[1]))
    add("chord(call2)", ["chord", "mel", "mel"], lambda a, r: a[0](piano__0=a[1], violin__0=a[2]))
    add("chord+chord", ["chord", "chord"], lambda a, r: a[0] + a[1])
    add("chord*k", ["chord"], lambda a, r: a[0] * 2)
    add("chord.set_part", ["chord", "mel"], lambda a, r: a[0].set_part("piano__0", a[1]))
    add("chord.set_duration", ["chord"], lambda a, r: a[0].set_duration(Fr(2)))
    add("chord.augment", ["chord"], lambda a, r: a[0].augment(Fr(2)))
    add("chord.invert", ["chord"], lambda a, r: a[0].invert(r.choice([1, -1])))
    add("chord.to_voicing", ["chord"], lambda a, r: a[0].to_voicing(nb_voices=r.choice([3, 4, 5, 6])))
    add("chord.transpose", ["chord"], lambda a, r: a[0].transpose(r.choice([1, 2, -3])))
    add("score.to_voicing", ["score"], lambda a, r: a[0].to_voicing(nb_voices=r.choice([4, 5])))
    add("chord.get_chord_between", ["chord"], lambda a, r: a[0].get_chord_between(*window(a[0], r)))
    add("chord.parsimonious", ["chord", "chord"], lambda a, r: a[0].get_parsimonious_voice_leading(a[1], direction=r.choice([None, "up", "down"])))
    add("chord.o_melody", ["chord"], lambda a, r: a[0].o_melody(1))
    add("chord.project_on_score", ["chord", "score"], lambda a, r: a[0].project_on_score(a[1]))
    add("chord.set_amp", ["chord"], lambda a, r: a[0].set_amp(50))
    add("chord.to_pitch", ["chord", "note"], lambda a, r: a[0].to_pitch(a[1]))
    add("chord.parts", ["chord"], lambda a, r: [a[0].score[p] for p in a[0].parts])
    add("score+chord", ["score", "chord"], lambda a, r: a[0] + a[1])
    add("score+score", ["score", "score"], lambda a, r: a[0] + a[1])
    add("score*k", ["score"], lambda a, r: a[0] * 2)
    add("Score(list)", ["chord", "chord"], lambda a, r: Score([a[0], a[1]]))
    def from_pattern(a, r):
        # the class-method constructors that take notes as text ('s0' evaluates to the library symbol itself)
        import musiclang.library as lib
        grid = r.choice([[[1, 0, 1, 0]], [[1, 0, 0, 1], [0, 1, 0, 0]], [[0, 1, 1, 0]]])
        pat = [{"instrument": "piano", "part": 0, "note": "lowest_note", "pattern": None,
                "rhythm": {"rhythm": grid, "tatum": (1, r.choice([2, 4])), "notes": ["s0", "s2"][:len(grid)], "mode": r.choice(["legato", "staccato"]),
                           "amp": "mf", "octave": 0}}]
        return Score.from_pattern(pat, [(lib.I % lib.I.M).w, a[0].set_duration(Fr(4))], use_pattern=False)
    add("Score.from_pattern(rhythm grid)", ["chord"], from_pattern)
    add("Score.from_str", ["score"], lambda a, r: Score.from_str(str(a[0])))
    add("score[i]", ["score"], lambda a, r: a[0][0])
    add("score[i:j]", ["score"], lambda a, r: a[0][0:1])
    add("score.chords", ["score"], lambda a, r: list(a[0].chords))
    add("score.o", ["score"], lambda a, r: a[0].o(r.choice([1, -1])))
    add("score.get_score_between", ["score"], lambda a, r: a[0].get_score_between(*window(a[0], r)))
    add("score.set_duration", ["score"], lambda a, r: a[0].set_duration(Fr(4)))
    add("score.set_amp", ["score"], lambda a, r: a[0].set_amp(50))
    add("score.project_on_score", ["score", "score"], lambda a, r: a[0].project_on_score(a[1]))
    add("score.project_on_score-keep", ["score", "score"], lambda a, r: a[0].project_on_score(a[1], keep_score=True))
    add("score.parsimonious", ["score"], lambda a, r: a[0].get_parsimonious_voice_leading())
    add("score.counterpoint", ["score"], lambda a, r: a[0].get_counterpoint(fixed_parts=a[0].instruments[:1]))
    add("VoiceLeading", ["score"], lambda a, r: VoiceLeading(seed=3, max_iter=5, max_iter_rules=5, fixed_voices=a[0].instruments[:1],
                                                            change_octave_fixed=r.random() < 0.5)(a[0]))
    # voice leading is named in the statement: its call form (octave normalisation, then the in-place editor on what that hands back) is
    # drawn more often, with other seeds, without fixed voices and with the octave step skipped
    add("VoiceLeading-free", ["score"], lambda a, r: VoiceLeading(seed=r.randrange(100), max_iter=8, max_iter_rules=5)(a[0]))
    add("VoiceLeading-free2", ["score"], lambda a, r: VoiceLeading(seed=r.randrange(100), max_iter=20, max_iter_rules=2, method=r.choice(["voices_and_rules", "voices"]))(a[0]))
    add("VoiceLeading-skip", ["score"], lambda a, r: VoiceLeading(seed=1)(a[0], skip=True))
    add("VoiceLeading.optimize", ["score"], lambda a, r: VoiceLeading(seed=r.randrange(100), max_iter=8, max_iter_rules=5).optimize(a[0]))
    add("score.split_too_long_chords", ["score"], lambda a, r: a[0].split_too_long_chords(Fr(1)))
    add("score.repeat_until_duration", ["score"], lambda a, r: a[0].repeat_until_duration(a[0].duration * 2))
    add("score.replace_instruments", ["score"], lambda a, r: a[0].replace_instruments(**{a[0].instruments[0]: "harp__3"}))
    add("score.delete_instruments", ["score"], lambda a, r: a[0].delete_instruments(a[0].instruments[:1]))
    add("score.get_instruments", ["score"], lambda a, r: a[0].get_instruments(a[0].instruments[:1]))
    add("score.realize_tags", ["score"], lambda a, r: a[0].realize_tags())
    add("chord.realize_tags", ["chord"], lambda a, r: a[0].realize_tags())
    add("mel.realize_tags", ["mel"], lambda a, r: a[0].realize_tags())
    add("note.realize_tags", ["note", "note"], lambda a, r: a[0].realize_tags(last_note=a[1], next_note=a[1]))
    add("note.ornament-attr", ["note"], lambda a, r: getattr(a[0], r.choice(["accent", "mordant", "grupetto", "retarded", "roll"])))
    add("score.to_sequence", ["score"], lambda a, r: a[0].to_sequence())
    add("score.to_events", ["score"], lambda a, r: a[0].to_events(tempo=90))
    add("score.to_midi", ["score"], lambda a, r: to_midi_tmp(a[0]))
    add("str", ["score"], lambda a, r: str(a[0]))
    add("hash/eq", ["chord", "chord"], lambda a, r: (hash(a[0]), a[0] == a[1]))
    add("lib.note.add_tag", [], lambda a, r: lib_sym(r, "note").add_tag("t"))
    add("lib.note.ornament", [], lambda a, r: getattr(lib_sym(r, "note"), r.choice(["accent", "mordant", "retarded"])))
    add("lib.melody.ornament", [], lambda a, r: getattr(lib_sym(r, "note") + lib_sym(r, "note") + lib_sym(r, "note"), r.choice(["accent", "mordant"])))
    add("lib.note.remove_tag", [], lambda a, r: lib_sym(r, "note").add_tag("t").remove_tag("t"))
    add("note.remove_tag-present", ["note"], lambda a, r: a[0].add_tag("z").remove_tag("z"))
    add("lib.note.o", [], lambda a, r: lib_sym(r, "note").o(1))
    add("lib.note+note", [], lambda a, r: lib_sym(r, "note") + lib_sym(r, "note"))
    add("lib.note.dur", [], lambda a, r: getattr(lib_sym(r, "note"), r.choice(["h", "e", "qd"])))
    add("lib.chord", [], lambda a, r: (lib_sym(r, "elem") % lib_sym(r, "elem").M)(piano__0=lib_sym(r, "note") + lib_sym(r, "note").h))
    add("lib.chord2", ["mel"], lambda a, r: (lib_sym(r, "elem")[r.choice(["6", "7"])] % lib_sym(r, "elem").m.o(1))(violin__0=a[0], piano__0=lib_sym(r, "note")))
    return C


def lib_sym(rng, kind):
    import musiclang.library as lib
    if kind == "note":
        return getattr(lib, rng.choice(["s0", "s1", "s4", "h3", "c1", "b0", "r", "l", "su1", "a5", "d2"]))
    return getattr(lib, rng.choice(["I", "II", "IV", "V", "VI"]))


def to_midi_tmp(sc):
    d = os.path.join(core.BUILD, "tmp")
    os.makedirs(d, exist_ok=True)
    fn = os.path.join(d, f"c06_{os.getpid()}.mid")
    try:
        sc.to_midi(fn)
    finally:
        if os.path.exists(fn):
            os.unlink(fn)
    return None


def kind_of(o):
    from musiclang import Note, Melody, Chord, Score, Tonality
    for k, c in (("note", Note), ("mel", Melody), ("chord", Chord), ("score", Score), ("ton", Tonality)):
        if isinstance(o, c):
            return k
    return None


_LIB = None


def library_objects():
    global _LIB
    if _LIB is None:
        import musiclang.library as lib
        _LIB = [(k, getattr(lib, k)) for k in sorted(dir(lib)) if not k.startswith("_") and
                (kind_of(getattr(lib, k)) or type(getattr(lib, k)).__name__ == "Element")]
    return _LIB


class Histories(Stream):
    name = "histories"
    checker = None
    pair = "property oracle: field-level snapshots of every live object and of the library symbols before/after each public operation"
    quick, thorough = 150, 3000

    def gen(self, rng, n):
        for _ in range(n):
            yield {"seed": rng.randrange(10 ** 9), "steps": rng.randrange(10, 61)}

    def seed_pool(self, rng):
        sc = sg.mk_rscore(sg.equalize(sg.rand_score(rng, max_chords=3, rel=0.1)))
        from musiclang import Tonality
        pool = [sc, sc.chords[0], list(sc.chords[0].score.values())[0], list(sc.chords[0].score.values())[0].notes[0],
                Tonality(rng.randrange(12), rng.choice(MODES), 0)]
        names = rng.sample(sg.NAMES, 2)
        sc2 = sg.mk_rscore(sg.equalize([sg.rand_rchord(rng, names, rel=0, systems="sshcb") | {"parts": [[nm, [sg.rand_rnote(rng, rel=0, systems="sshcb") for _ in range(3)]] for nm in names]}
                                        for _ in range(3)]))
        pool += [sc2, sc2.chords[1], sc2.chords[1].score[names[0]]]
        # objects carrying ornament tags (realisation must not touch them either)
        from musiclang import Melody, Score
        tagged = Melody([n.add_tag(rng.choice(["accent", "mordant", "retarded", "accent"])) if n.type not in ("r", "l") else n.copy()
                         for n in sc2.chords[0].score[names[0]].notes])
        tchord = sc2.chords[0](**{names[0]: tagged, names[1]: sc2.chords[0].score[names[1]]})
        pool += [tagged, tchord, Score([tchord, sc2.chords[1]]), tagged.notes[0]]
        # chords without parts (what the library symbols I, V['7'] % key ... are), their tone lists already computed once
        from musiclang import Chord
        for fig in ("", "7", "6"):
            bare = Chord(rng.randrange(7), extension=fig, tonality=Tonality(rng.randrange(12), rng.choice(MODES), 0), octave=rng.choice([0, 1]))
            _ = bare.extension_notes, bare.chord_notes, bare.chord_extension_pitches, bare.chord_pitches, bare.scale_pitches
            pool.append(bare)
        return pool

    def impl(self, case):
        import random
        rng = random.Random(case["seed"])
        cat, zero = catalogue(), zero_arg_ops()
        pool = self.seed_pool(rng)
        keep = list(pool)                           # strong references: ids stay valid
        trace = []
        violation = None
        libs = library_objects()
        for step in range(case["steps"]):
            kinds = {}
            for o in pool:
                kinds.setdefault(kind_of(o), []).append(o)
            if rng.random() < 0.45:
                kind, name, how = rng.choice(zero)
                if kind not in kinds:
                    continue
                operands = [rng.choice(kinds[kind])]
                label = f"{kind}.{name}"
                fn = (lambda a, r, name=name: getattr(a[0], name)) if how == "prop" else (lambda a, r, name=name: getattr(a[0], name)())
            else:
                label, need, fn = rng.choice(cat)
                if any(k not in kinds for k in need):
                    continue
                operands = [rng.choice(kinds[k]) for k in need]
            before = {}
            for o in pool:
                walk(o, before)
            for _, o in libs:
                walk(o, before)
            st = rng.getstate()
            try:
                res = fn(operands, rng)
                err = None
            except BaseException as e:                # SystemExit etc. must not kill the check
                if isinstance(e, KeyboardInterrupt):
                    raise
                res, err = None, type(e).__name__
            after = {}
            for o in pool:
                walk(o, after)
            for _, o in libs:
                walk(o, after)
            trace.append(label if err is None else label + "!" + err)
            changed = [i for i, f in before.items() if after.get(i) != f]
            if label.startswith("inplace:"):
                # the target of the in-place form may change, nothing else (the chord it dropped may no longer be reachable from the pool)
                changed = [i for i in changed if i != id(operands[0]) and i in after]
            if changed:
                i = changed[0]
                libname = next((nm for nm, o in libs if id(o) == i), None)
                violation = {"op": label, "step": step, "was": describe(before[i]), "now": describe(after.get(i)), "library_symbol": libname,
                             "raised": err, "operand_kinds": [kind_of(o) for o in operands]}
                break
            for o in (res if isinstance(res, (list, tuple)) else [res]):
                if kind_of(o) and len(pool) < 60:
                    pool.append(o)
                    keep.append(o)
        return {"trace": trace, "violation": violation, "ops_run": len(trace), "pool": len(pool)}

    def spec(self, case, r):
        v = r["violation"]
        if v:
            what = f"library symbol {v['library_symbol']}" if v["library_symbol"] else "an existing object"
            return {"sig": f"mutates:{v['op']}", "msg": f"step {v['step']}: {v['op']} changed {what}: {v['was']} -> {v['now']}"}
        return None

    def nontrivial(self, case, r):
        return r["ops_run"] >= 5

    def hist_keys(self, case, r):
        return ["op=" + t.split("!")[0] for t in r["trace"]]

    def shrink(self, case):
        if case["steps"] > 1:
            yield dict(case, steps=case["steps"] - 1)
            yield dict(case, steps=max(1, case["steps"] // 2))


def streams():
    return [HeapPrograms(), Histories()]

"""Adapters between JSON-able cases, live MusicLang objects and Coq terms."""
import os, sys
from fractions import Fraction
from harness import core
from harness.core import Z, S, L, O, T, Zl

sys.path.insert(0, core.REPO)

MODES = ["M", "m", "mm", "dorian", "phrygian", "lydian", "mixolydian", "aeolian", "locrian"]
MODE_C = dict(zip(MODES, ["MMaj", "MMin", "MMel", "MDor", "MPhr", "MLyd", "MMix", "MAeo", "MLoc"]))
ACCS = ["min", "maj", "natural", "dim", "aug"]
ACC_C = dict(zip(ACCS, ["AMin", "AMaj", "ANat", "ADim", "AAug"]))
KIND_C = {"s": "KS", "h": "KH", "c": "KC", "b": "KB", "a": "KA", "d": "KD", "x": "KX", "r": "KR", "l": "KL"}
DIR_C = {"": "Abs", "u": "Up", "d": "Down"}
FIGURES = ["", "5", "6", "64", "7", "65", "43", "2", "9", "11", "13"]


# ---- spec-side music theory, written independently of the code ------------
MAJOR = [0, 2, 4, 5, 7, 9, 11]


def rotation(k):
    return [(MAJOR[(k + i) % 7] + 12 * ((k + i) // 7)) - MAJOR[k] for i in range(7)]


def spec_modes():
    m = {"M": rotation(0), "dorian": rotation(1), "phrygian": rotation(2), "lydian": rotation(3),
         "mixolydian": rotation(4), "aeolian": rotation(5), "locrian": rotation(6)}
    hm = list(m["aeolian"]); hm[6] += 1          # harmonic minor: raised 7th
    mm = list(hm); mm[5] += 1                     # melodic minor: raised 6th too
    m["m"] = hm
    m["mm"] = mm
    return m


SPEC_MODES = spec_modes()


def spec_deg(base, scale, k):
    """k-th note of the infinite ascending 7-note scale based at `base`"""
    return base + scale[k % 7] + 12 * (k // 7)


# ---- live objects --------------------------------------------------------
def ext_string(fig, repl=(), adds=(), rems=()):
    return fig + "".join(f"({r})" for r in repl) + "".join(f"[{a}]" for a in adds) + "".join("{" + r + "}" for r in rems)


def mk_tonality(c):
    from musiclang import Tonality
    if c.get("ton_none"):
        return None
    return Tonality(c["tdeg"], c["tmode"], c["toct"])


def mk_chord(c):
    from musiclang import Chord
    return Chord(element=c["elem"], extension=ext_string(c["fig"], c.get("repl", ()), c.get("adds", ()), c.get("rems", ())),
                 tonality=mk_tonality(c), octave=c["coct"])


def mk_note(n, duration=1):
    from musiclang import Note
    return Note(n["kind"] + n.get("dir", ""), n["val"], n["oct"], duration, mode=n.get("mode"), accident=n.get("acc"))


# ---- Coq terms -----------------------------------------------------------
def coq_ton(c):
    if c.get("ton_none"):
        return "(mkT 0 MMaj 0)"
    return f"(mkT {Z(c['tdeg'])} {MODE_C[c['tmode']]} {Z(c['toct'])})"


def coq_ext(c):
    return (f"(mkE {S(c['fig'])} {L([S(x) for x in sorted(c.get('repl', ()))])} "
            f"{L([S(x) for x in sorted(c.get('adds', ()))])} {L([S(x) for x in sorted(c.get('rems', ()))])})")


def coq_chord(c):
    return f"(mkC {Z(c['elem'])} {coq_ext(c)} {coq_ton(c)} {Z(c['coct'])})"


def coq_pnote(n):
    return (f"(mkP {KIND_C[n['kind']]} {DIR_C[n.get('dir', '')]} {Z(n['val'])} {Z(n['oct'])} "
            f"{O(n.get('mode'), lambda m: MODE_C[m])} {O(n.get('acc'), lambda a: ACC_C[a])})")


def guarded(fn):
    """run fn(); exceptions become {'exc': name}"""
    try:
        return fn()
    except Exception as e:
        return {"exc": type(e).__name__, "msg": str(e)[:200]}


def is_exc(r):
    return isinstance(r, dict) and "exc" in r

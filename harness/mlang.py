"""Adapters between JSON-able cases, live MusicLang objects and Coq terms."""
import os, sys
from fractions import Fraction
from harness import core
from harness.core import Z, S, L, O, T, Zl

sys.path.insert(0, core.REPO)

MODES = ["M", "m", "mm", "dorian", "phrygian", "lydian", "mixolydian", "aeolian", "locrian"]
MODE_C = dict(zip(MODES, ["MMaj", "MMin", "MMel", "MDor", "MPhr", "MLyd", "MMix", "MAeo", "MLoc"]))
ACCS = ["min", "maj", "natural", "dim", "aug"]
ACC_C = dict(zip(ACCS, ["AMin", "AMaj", "ANat", "ADim", "AAug"]))
KIND_C = {"s": "KS", "h": "KH", "c": "KC", "b": "KB", "a": "KA", "d": "KD", "x": "KX", "r": "KR", "l": "KL"}
DIR_C = {"": "Abs", "u": "Up", "d": "Down"}
FIGURES = ["", "5", "6", "64", "7", "65", "43", "2", "9", "11", "13"]


# ---- spec-side music theory, written independently of the code ------------
MAJOR = [0, 2, 4, 5, 7, 9, 11]


def rotation(k):
    return [(MAJOR[(k + i) % 7] + 12 * ((k + i) // 7)) - MAJOR[k] for i in range(7)]


def spec_modes():
    m = {"M": rotation(0), "dorian": rotation(1), "phrygian": rotation(2), "lydian": rotation(3),
         "mixolydian": rotation(4), "aeolian": rotation(5), "locrian": rotation(6)}
    hm = list(m["aeolian"]); hm[6] += 1          # harmonic minor: raised 7th
    mm = list(hm); mm[5] += 1                     # melodic minor: raised 6th too
    m["m"] = hm
    m["mm"] = mm
    return m


SPEC_MODES = spec_modes()


def spec_deg(base, scale, k):
    """k-th note of the infinite ascending 7-note scale based at `base`"""
    return base + scale[k % 7] + 12 * (k // 7)


# ---- live objects --------------------------------------------------------
def ext_string(fig, repl=(), adds=(), rems=()):
    return fig + "".join(f"({r})" for r in repl) + "".join(f"[{a}]" for a in adds) + "".join("{" + r + "}" for r in rems)


def mk_tonality(c):
    from musiclang import Tonality
    if c.get("ton_none"):
        return None
    return Tonality(c["tdeg"], c["tmode"], c["toct"])


def mk_chord(c):
    from musiclang import Chord
    return Chord(element=c["elem"], extension=ext_string(c["fig"], c.get("repl", ()), c.get("adds", ()), c.get("rems", ())),
                 tonality=mk_tonality(c), octave=c["coct"])


def mk_note(n, duration=1):
    from musiclang import Note
    return Note(n["kind"] + n.get("dir", ""), n["val"], n["oct"], duration, mode=n.get("mode"), accident=n.get("acc"))


# ---- Coq terms -----------------------------------------------------------
def coq_ton(c):
    if c.get("ton_none"):
        return "(mkT 0 MMaj 0)"
    return f"(mkT {Z(c['tdeg'])} {MODE_C[c['tmode']]} {Z(c['toct'])})"


def coq_ext(c):
    return (f"(mkE {S(c['fig'])} {L([S(x) for x in sorted(c.get('repl', ()))])} "
            f"{L([S(x) for x in sorted(c.get('adds', ()))])} {L([S(x) for x in sorted(c.get('rems', ()))])})")


def coq_chord(c):
    return f"(mkC {Z(c['elem'])} {coq_ext(c)} {coq_ton(c)} {Z(c['coct'])})"


def coq_pnote(n):
    return (f"(mkP {KIND_C[n['kind']]} {DIR_C[n.get('dir', '')]} {Z(n['val'])} {Z(n['oct'])} "
            f"{O(n.get('mode'), lambda m: MODE_C[m])} {O(n.get('acc'), lambda a: ACC_C[a])})")


def guarded(fn):
    """run fn(); exceptions become {'exc': name}"""
    try:
        return fn()
    except Exception as e:
        return {"exc": type(e).__name__, "msg": str(e)[:200]}


def is_exc(r):
    return isinstance(r, dict) and "exc" in r


# ---- full notes / melodies / chords with parts ---------------------------------
from fractions import Fraction as _F
DYN = {"n": 0.0, "ppp": 0.16, "pp": 0.26, "p": 0.36, "mp": 0.5, "mf": 0.65, "f": 0.8, "ff": 0.9, "fff": 0.95}
DYN_Q = {"n": _F(0), "ppp": _F(16, 100), "pp": _F(26, 100), "p": _F(36, 100), "mp": _F(1, 2), "mf": _F(65, 100),
         "f": _F(8, 10), "ff": _F(9, 10), "fff": _F(95, 100)}
AMPFIG_C = {"n": "Fn", "ppp": "Fppp", "pp": "Fpp", "p": "Fp", "mp": "Fmp", "mf": "Fmf", "f": "Ff", "ff": "Fff", "fff": "Ffff"}


def amp_live(a):
    """amp field of a case: int, or a dynamics name (the float the library stores for it)"""
    return 120 * DYN[a] if isinstance(a, str) else a


def amp_q(a):
    return 120 * DYN_Q[a] if isinstance(a, str) else _F(a)


def mk_fnote(n):
    """full note: kind, dir, val, oct, dur, mode, acc, amp, tags"""
    from musiclang import Note, Silence, Continuation
    k = n["kind"]
    dur = _F(n.get("dur", 1))
    tags = set(n.get("tags", []))
    if k == "r":
        return Silence(dur, tags=tags)
    if k == "l":
        return Continuation(dur, tags=tags)
    return Note(k + n.get("dir", ""), n["val"], n["oct"], dur, mode=n.get("mode"), accident=n.get("acc"),
                amp=amp_live(n.get("amp", 66)), tags=tags)


def coq_fnote(n):
    from harness.core import Qc
    tags = L([S(t) for t in sorted(n.get("tags", []))])
    return (f"(mkF {KIND_C[n['kind']]} {DIR_C[n.get('dir', '')]} {Z(n.get('val', 0))} {Z(n.get('oct', 0))} {Qc(_F(n.get('dur', 1)))} "
            f"{O(n.get('mode'), lambda m: MODE_C[m])} {O(n.get('acc'), lambda a: ACC_C[a])} {Qc(amp_q(n.get('amp', 66)))} {tags})")


def mk_melody(notes):
    from musiclang import Melody
    return Melody([mk_fnote(n) for n in notes])


def coq_melody(notes):
    return L([coq_fnote(n) for n in notes])


def mk_fchord(c):
    """chord dict with 'parts': [[name, [notes]], ...]"""
    ch = mk_chord(c)
    return ch(**{name: mk_melody(notes) for name, notes in c.get("parts", [])})


def coq_fchord(c):
    parts = L([T(S(name), coq_melody(notes)) for name, notes in c.get("parts", [])])
    return f"(mkFC {coq_chord(c)} {parts})"


def mk_score(chords):
    from musiclang import Score
    return Score([mk_fchord(c) for c in chords])


def rand_fnote(rng, kinds="ssshhcbarlssxd", rel=0.15, plain=False):
    k = rng.choice(kinds)
    n = {"kind": k, "val": 0, "oct": 0, "dur": _F(1)}
    if k in "rl":
        pass
    else:
        n["val"] = rng.randrange(12 if k in "had" else 7)
        n["oct"] = rng.choice([0, 0, 0, 1, -1, 2])
        if k in "shcb" and rng.random() < rel:
            n["dir"] = rng.choice("ud")
        if not plain:
            if k == "s" and not n.get("dir") and rng.random() < 0.2:
                n["acc"] = rng.choice(ACCS)
            if k in "sh" and rng.random() < 0.15:
                n["mode"] = rng.choice(MODES)
            if rng.random() < 0.3:
                n["amp"] = rng.choice(list(DYN) + [30, 66, 90, 127])
    if not plain and rng.random() < 0.1:
        n["tags"] = sorted(rng.sample(["a", "b", "staccato"], rng.choice([1, 1, 2])))
    n["dur"] = rng.choice([_F(1), _F(1), _F(1, 2), _F(1, 4), _F(3, 2), _F(2), _F(1, 3), _F(2, 3), _F(7, 3), _F(11, 8)])
    return n

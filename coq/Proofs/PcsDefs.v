(* Pitch classes of an inverted chord with modifiers: definitions of the finite
   sweep over all modifier sets of size <= 2 (1082 sets) x 7 invertible figures
   x 9 modes, one element per file so that the sweep builds in parallel. *)
From ML Require Import Model.Types gen.Tables Model.Pitch Model.Ext Spec.PitchSpec Proofs.PitchProofs Proofs.ExtProofs.
Open Scope Z_scope.

Definition tagged : list (nat * string) :=
  map (fun kv => (0%nat, fst kv)) DICT_REPLACEMENT ++ map (fun kv => (1%nat, fst kv)) DICT_ADDITION ++
  map (fun kv => (2%nat, fst kv)) DICT_REMOVAL.

Fixpoint pairs {A} (l : list A) : list (list A) :=
  match l with [] => [] | x :: r => map (fun y => [x; y]) r ++ pairs r end.

Definition subsets2 {A} (l : list A) : list (list A) := [[]] ++ map (fun x => [x]) l ++ pairs l.

Definition ext_of (f : string) (s : list (nat * string)) : extension :=
  let pick k := ssort (map snd (filter (fun x => Nat.eqb (fst x) k) s)) in
  mkE f (pick 0%nat) (pick 1%nat) (pick 2%nat).

Definition pcs (l : list Z) : list Z := sort_key (fun x => x) (map (fun p => p mod 12) l).

Definition pcs_ok (e : Z) (md : mode) (s : list (nat * string)) (f : string) : bool :=
  let c := mkC e (ext_of f s) (mkT 0 md 0) 0 in
  match chord_extension_pitches c with
  | Some ep => match chord_pitches c with Some cp => list_eqb Z.eqb (pcs cp) (pcs ep) | None => false end
  | None => true
  end.

Definition sweep_elem (e : Z) : bool :=
  forallb (fun md => forallb (fun s => forallb (pcs_ok e md s) invertible_figures) (subsets2 tagged)) all_modes.

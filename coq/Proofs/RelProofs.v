From ML Require Import Model.Types gen.Tables Model.Pitch Model.Rel Spec.RelSpec.
From Coq Require Import Lia ZifyBool.
Open Scope Z_scope.
Open Scope list_scope.

(* ================= generic: a strictly increasing f : Z -> Z over an index range ================= *)
Definition zrange (a : Z) (n : nat) : list Z := map (fun i => a + Z.of_nat i) (seq 0 n).

Lemma zrange_S a n : zrange a (S n) = a :: zrange (a + 1) n.
Proof.
  unfold zrange. cbn [seq map]. f_equal; [lia|].
  rewrite <- seq_shift, map_map. apply map_ext. intros; lia.
Qed.

Lemma zrange_app a n m : zrange a (n + m) = zrange a n ++ zrange (a + Z.of_nat n) m.
Proof.
  revert a. induction n as [|n IH]; intros a.
  - replace (a + Z.of_nat 0) with a by lia. reflexivity.
  - cbn [plus]. rewrite !zrange_S, IH. replace (a + Z.of_nat (S n)) with (a + 1 + Z.of_nat n) by lia. reflexivity.
Qed.

Lemma zrange_length a n : length (zrange a n) = n.
Proof. unfold zrange. rewrite map_length, seq_length. reflexivity. Qed.

Lemma zrange_in a n j : In j (zrange a n) <-> a <= j < a + Z.of_nat n.
Proof.
  unfold zrange. rewrite in_map_iff. split.
  - intros (i & <- & Hi). apply in_seq in Hi. lia.
  - intros H. exists (Z.to_nat (j - a)). split; [lia|]. apply in_seq. lia.
Qed.

Lemma zrange_nth_error a n i : (i < n)%nat -> nth_error (zrange a n) i = Some (a + Z.of_nat i).
Proof.
  revert a i. induction n as [|n IH]; intros a i H; [lia|]. rewrite zrange_S.
  destruct i as [|i]; cbn [nth_error]; [f_equal; lia|].
  rewrite IH by lia. f_equal. lia.
Qed.

Section Mono.
  Variable f : Z -> Z.
  Hypothesis f_step : forall j, f j < f (j + 1).

  Lemma f_mono_nat i (d : nat) : f i < f (i + 1 + Z.of_nat d).
  Proof.
    induction d as [|d IH].
    - replace (i + 1 + Z.of_nat 0) with (i + 1) by lia. apply f_step.
    - replace (i + 1 + Z.of_nat (S d)) with (i + 1 + Z.of_nat d + 1) by lia.
      pose proof (f_step (i + 1 + Z.of_nat d)). lia.
  Qed.

  Lemma f_mono i j : i < j -> f i < f j.
  Proof.
    intros H. replace j with (i + 1 + Z.of_nat (Z.to_nat (j - i - 1))) by lia. apply f_mono_nat.
  Qed.

  Lemma f_mono_le i j : i <= j -> f i <= f j.
  Proof. intros H. destruct (Z.eq_dec i j) as [->|N]; [lia|]. pose proof (f_mono i j). lia. Qed.

  Lemma f_inj_lt i j : f i < f j -> i < j.
  Proof. intros H. destruct (Z_lt_le_dec i j) as [L|L]; [exact L|]. pose proof (f_mono_le j i L). lia. Qed.

  Lemma filter_ge_all p r : p <= f r -> forall m c, r <= c ->
    filter (fun w => p <=? w) (map f (zrange c m)) = map f (zrange c m).
  Proof.
    intros Hhi. induction m as [|m IHm]; intros c Hc; [reflexivity|]. rewrite zrange_S. cbn [map filter].
    pose proof (f_mono_le r c Hc). assert (E2 : (p <=? f c) = true) by lia. rewrite E2. f_equal. apply IHm. lia.
  Qed.

  (* filter of the candidates >= p : the suffix starting at rank r *)
  Lemma filter_ge p r : f (r - 1) < p -> p <= f r ->
    forall n a, a <= r <= a + Z.of_nat n ->
    filter (fun w => p <=? w) (map f (zrange a n)) = map f (zrange r (Z.to_nat (a + Z.of_nat n - r))).
  Proof.
    intros Hlo Hhi. induction n as [|n IH]; intros a Ha.
    - replace (Z.to_nat (a + Z.of_nat 0 - r)) with 0%nat by lia. reflexivity.
    - destruct (Z.eq_dec a r) as [->|N].
      + replace (Z.to_nat (r + Z.of_nat (S n) - r)) with (S n) by lia. apply (filter_ge_all p r Hhi). lia.
      + rewrite zrange_S. cbn [map filter].
        assert (a < r) by lia. pose proof (f_mono_le a (r - 1)). assert (E : (p <=? f a) = false) by lia. rewrite E.
        rewrite IH by lia. do 2 f_equal. lia.
  Qed.

  (* filter of the candidates <= p : the prefix ending at rank r *)
  Lemma filter_le_none p r : p < f (r + 1) -> forall m c, r < c ->
    filter (fun w => w <=? p) (map f (zrange c m)) = [].
  Proof.
    intros Hhi. induction m as [|m IHm]; intros c Hc; [reflexivity|]. rewrite zrange_S. cbn [map filter].
    pose proof (f_mono_le (r + 1) c). assert (E2 : (f c <=? p) = false) by lia. rewrite E2. apply IHm. lia.
  Qed.

  Lemma filter_le p r : f r <= p -> p < f (r + 1) ->
    forall n a, a - 1 <= r < a + Z.of_nat n ->
    filter (fun w => w <=? p) (map f (zrange a n)) = map f (zrange a (Z.to_nat (r + 1 - a))).
  Proof.
    intros Hlo Hhi. induction n as [|n IH]; intros a Ha.
    - replace (Z.to_nat (r + 1 - a)) with 0%nat by lia. reflexivity.
    - destruct (Z.eq_dec (a - 1) r) as [E|N].
      + replace (Z.to_nat (r + 1 - a)) with 0%nat by lia. apply (filter_le_none p r Hhi). lia.
      + rewrite zrange_S. cbn [map filter].
        pose proof (f_mono_le a r). assert (E : (f a <=? p) = true) by lia. rewrite E.
        rewrite IH by lia. replace (Z.to_nat (r + 1 - a)) with (S (Z.to_nat (r + 1 - (a + 1)))) by lia.
        rewrite zrange_S. reflexivity.
  Qed.

  Lemma mem_range p a n : mem p (map f (zrange a n)) = true <-> exists j, a <= j < a + Z.of_nat n /\ f j = p.
  Proof.
    unfold mem. rewrite existsb_exists. split.
    - intros (x & Hx & E). apply in_map_iff in Hx. destruct Hx as (j & <- & Hj). apply zrange_in in Hj.
      exists j. split; [exact Hj|lia].
    - intros (j & Hj & E). exists (f j). split; [apply in_map, zrange_in; exact Hj|lia].
  Qed.
End Mono.

(* ================= the system enumeration sidx ================= *)
Lemma divmod_unique n q r x : 0 <= r < n -> x = n * q + r -> x / n = q /\ x mod n = r.
Proof.
  intros Hr Hx. split; [symmetry; apply (Z.div_unique x n q r); [left; exact Hr | exact Hx]
                       | symmetry; apply (Z.mod_unique x n q r); [left; exact Hr | exact Hx]].
Qed.

Lemma ascending_nth Sg i : ascending Sg = true -> (Datatypes.S i < length Sg)%nat -> nth i Sg 0 < nth (Datatypes.S i) Sg 0.
Proof.
  revert i. induction Sg as [|x [|y r] IH]; intros i A L; cbn [length] in L; try lia.
  cbn [ascending] in A. apply andb_prop in A. destruct A as [A1 A2].
  destruct i as [|i]; [cbn; lia|]. cbn [nth]. apply (IH i A2). cbn [length]. lia.
Qed.

Lemma ascending_nth_lt Sg i j : ascending Sg = true -> (i < j)%nat -> (j < length Sg)%nat -> nth i Sg 0 < nth j Sg 0.
Proof.
  intros A Hij Hj. induction j as [|j IH]; [lia|].
  destruct (Nat.eq_dec i j) as [->|N]; [apply ascending_nth; assumption|].
  pose proof (ascending_nth Sg j A Hj). assert (nth i Sg 0 < nth j Sg 0) by (apply IH; lia). lia.
Qed.

Lemma bounds_nth Sg i : forallb (fun s => (0 <=? s) && (s <? 12)) Sg = true -> (i < length Sg)%nat -> 0 <= nth i Sg 0 < 12.
Proof.
  intros F L. rewrite forallb_forall in F. specialize (F (nth i Sg 0) (nth_In Sg 0 L)). lia.
Qed.

Record sys (Sg : list Z) : Prop := {
  sys_pos : 0 < slen Sg;
  sys_asc : ascending Sg = true;
  sys_bnd : forallb (fun s => (0 <=? s) && (s <? 12)) Sg = true }.

Lemma sys_ok_sys Sg : sys_ok Sg = true -> sys Sg.
Proof.
  unfold sys_ok. intros H. apply andb_prop in H. destruct H as [H H3]. apply andb_prop in H. destruct H as [H1 H2].
  split; [|exact H2|exact H3]. unfold slen. destruct Sg; [discriminate|cbn; lia].
Qed.

Section Sys.
  Variable Sg : list Z.
  Hypothesis HS : sys Sg.
  Let n := slen Sg.

  Lemma sidx_at q i : 0 <= i < n -> sidx Sg (n * q + i) = nth (Z.to_nat i) Sg 0 + 12 * q.
  Proof.
    intros Hi. unfold sidx. fold n.
    destruct (divmod_unique n q i (n * q + i) Hi eq_refl) as [E1 E2]. rewrite E1, E2. reflexivity.
  Qed.

  Lemma sidx_period j q : sidx Sg (j + n * q) = sidx Sg j + 12 * q.
  Proof.
    unfold sidx. fold n. pose proof (sys_pos Sg HS). fold n in H.
    rewrite (Z.mul_comm n q), Z.mod_add, Z.div_add by lia. ring.
  Qed.

  Lemma sidx_step j : sidx Sg j < sidx Sg (j + 1).
  Proof.
    pose proof (sys_pos Sg HS) as Hn. fold n in Hn.
    pose proof (Z.div_mod j n ltac:(lia)) as E. pose proof (Z.mod_pos_bound j n Hn) as B.
    set (q := j / n) in *. set (r := j mod n) in *.
    rewrite E at 1. rewrite (sidx_at q r B).
    destruct (Z_lt_le_dec (r + 1) n) as [L|L].
    - replace (j + 1) with (n * q + (r + 1)) by lia. rewrite (sidx_at q (r + 1)) by lia.
      replace (Z.to_nat (r + 1)) with (Datatypes.S (Z.to_nat r)) by lia.
      pose proof (ascending_nth Sg (Z.to_nat r) (sys_asc Sg HS)). unfold n, slen in *. lia.
    - replace (j + 1) with (n * (q + 1) + 0) by lia. rewrite (sidx_at (q + 1) 0) by lia.
      pose proof (bounds_nth Sg (Z.to_nat r) (sys_bnd Sg HS)). pose proof (bounds_nth Sg (Z.to_nat 0) (sys_bnd Sg HS)).
      unfold n, slen in *. lia.
  Qed.

  Lemma map_as_seq (g : Z -> Z) (l : list Z) :
    map g l = map (fun i => g (nth i l 0)) (seq 0 (length l)).
  Proof.
    induction l as [|x l IH]; [reflexivity|]. cbn [length seq map nth]. f_equal.
    rewrite <- seq_shift, map_map. exact IH.
  Qed.

  Lemma block o : map (fun s => s + o * 12) Sg = map (sidx Sg) (zrange (n * o) (length Sg)).
  Proof.
    rewrite (map_as_seq (fun s => s + o * 12) Sg). unfold zrange. rewrite map_map.
    apply map_ext_in. intros i Hi. apply in_seq in Hi.
    rewrite sidx_at by (unfold n, slen; lia). rewrite Nat2Z.id. ring.
  Qed.

  Lemma blocks k o0 :
    flat_map (fun o => map (fun s => s + o * 12) Sg) (zrange o0 k) = map (sidx Sg) (zrange (n * o0) (k * length Sg)).
  Proof.
    revert o0. induction k as [|k IH]; intros o0; [reflexivity|].
    rewrite zrange_S. cbn [flat_map]. rewrite IH, block. cbn [Nat.mul]. rewrite zrange_app, map_app.
    do 3 f_equal. unfold n, slen. lia.
  Qed.

  Lemma whole_enum : whole Sg = map (sidx Sg) (zrange (n * -10) (20 * length Sg)).
  Proof. unfold whole. change octs with (zrange (-10) 20). apply blocks. Qed.
End Sys.

(* ================= counting in an ascending list ================= *)
Lemma ascending_tail x l : ascending (x :: l) = true -> ascending l = true /\ forall y, In y l -> x < y.
Proof.
  intros A. split.
  - destruct l as [|y r]; [reflexivity|]. cbn [ascending] in A. apply andb_prop in A. tauto.
  - intros y Hy. destruct (In_nth l y 0 Hy) as (j & Hj & <-).
    exact (ascending_nth_lt (x :: l) 0 (Datatypes.S j) A ltac:(lia) ltac:(cbn; lia)).
Qed.

Lemma filter_none (P : Z -> bool) l : (forall y, In y l -> P y = false) -> filter P l = [].
Proof.
  induction l as [|y l IH]; intros H; [reflexivity|]. cbn [filter].
  rewrite (H y (or_introl eq_refl)). apply IH. intros z Hz. apply H. right. exact Hz.
Qed.

Lemma count_spec (P : Z -> bool) l :
  ascending l = true -> (forall x y, x <= y -> P y = true -> P x = true) ->
  let c := length (filter P l) in
  (c <= length l)%nat /\ (forall i, (i < c)%nat -> P (nth i l 0) = true) /\
  (forall i, (c <= i < length l)%nat -> P (nth i l 0) = false).
Proof.
  intros A D. induction l as [|x l IH]; cbn zeta.
  - cbn. repeat split; intros; lia.
  - destruct (ascending_tail x l A) as [A' Hx]. specialize (IH A'). cbn zeta in IH.
    destruct IH as (I1 & I2 & I3). cbn [filter]. destruct (P x) eqn:Px.
    + cbn [length]. repeat split; [lia| |].
      * intros [|i] Hi; [exact Px|]. cbn [nth]. apply I2. lia.
      * intros [|i] Hi; [lia|]. cbn [nth]. apply I3. lia.
    + assert (F : filter P l = []).
      { apply filter_none. intros y Hy. destruct (P y) eqn:E; [|reflexivity].
        rewrite (D x y) in Px; [discriminate| |exact E]. specialize (Hx y Hy). lia. }
      rewrite F in *. cbn [length]. repeat split; [lia|intros; lia|].
      intros [|i] Hi; [exact Px|]. cbn [nth].
      destruct (P (nth i l 0)) eqn:E; [|reflexivity].
      rewrite (D x (nth i l 0)) in Px; [discriminate| |exact E].
      assert (In (nth i l 0) l) by (apply nth_In; cbn in Hi; lia). specialize (Hx _ H). lia.
Qed.

Section Rank.
  Variable Sg : list Z.
  Hypothesis HS : sys Sg.
  Local Notation n := (slen Sg).

  Lemma n_pos : 0 < n. Proof. exact (sys_pos Sg HS). Qed.

  Lemma rank_ge_spec p : sidx Sg (rank_ge Sg p - 1) < p <= sidx Sg (rank_ge Sg p).
  Proof.
    pose proof n_pos as Hn. unfold rank_ge.
    pose proof (Z.div_mod p 12 ltac:(lia)) as E. pose proof (Z.mod_pos_bound p 12 ltac:(lia)) as B.
    set (q := p / 12) in *. set (rr := p mod 12) in *.
    destruct (count_spec (fun s => s <? rr) Sg (sys_asc Sg HS)) as (C1 & C2 & C3); [intros; lia|].
    unfold count_lt. change (slen (filter (fun s => s <? rr) Sg)) with (Z.of_nat (length (filter (fun s => s <? rr) Sg))).
    set (c := length (filter (fun s => s <? rr) Sg)) in *.
    assert (Hnn : n = Z.of_nat (length Sg)) by reflexivity.
    split.
    - destruct c as [|c'] eqn:Ec.
      + replace (n * q + Z.of_nat 0 - 1) with (n * (q - 1) + (n - 1)) by lia.
        rewrite (sidx_at Sg (q - 1) (n - 1)) by (lia).
        pose proof (bounds_nth Sg (Z.to_nat (n - 1)) (sys_bnd Sg HS) ltac:(lia)). lia.
      + replace (n * q + Z.of_nat (Datatypes.S c') - 1) with (n * q + Z.of_nat c') by lia.
        rewrite (sidx_at Sg q (Z.of_nat c')) by (lia). rewrite Nat2Z.id.
        specialize (C2 c' ltac:(lia)). cbn beta in C2. lia.
    - destruct (Nat.eq_dec c (length Sg)) as [Ef|Nf].
      + replace (n * q + Z.of_nat c) with (n * (q + 1) + 0) by lia.
        rewrite (sidx_at Sg (q + 1) 0) by (lia).
        pose proof (bounds_nth Sg (Z.to_nat 0) (sys_bnd Sg HS) ltac:(lia)). lia.
      + rewrite (sidx_at Sg q (Z.of_nat c)) by (lia). rewrite Nat2Z.id.
        specialize (C3 c ltac:(lia)). cbn beta in C3. lia.
  Qed.

  Lemma rank_le_spec p : sidx Sg (rank_le Sg p) <= p < sidx Sg (rank_le Sg p + 1).
  Proof.
    pose proof n_pos as Hn. unfold rank_le.
    pose proof (Z.div_mod p 12 ltac:(lia)) as E. pose proof (Z.mod_pos_bound p 12 ltac:(lia)) as B.
    set (q := p / 12) in *. set (rr := p mod 12) in *.
    destruct (count_spec (fun s => s <=? rr) Sg (sys_asc Sg HS)) as (C1 & C2 & C3); [intros; lia|].
    unfold count_le. change (slen (filter (fun s => s <=? rr) Sg)) with (Z.of_nat (length (filter (fun s => s <=? rr) Sg))).
    set (c := length (filter (fun s => s <=? rr) Sg)) in *.
    assert (Hnn : n = Z.of_nat (length Sg)) by reflexivity.
    split.
    - destruct c as [|c'] eqn:Ec.
      + replace (n * q + Z.of_nat 0 - 1) with (n * (q - 1) + (n - 1)) by lia.
        rewrite (sidx_at Sg (q - 1) (n - 1)) by (lia).
        pose proof (bounds_nth Sg (Z.to_nat (n - 1)) (sys_bnd Sg HS) ltac:(lia)). lia.
      + replace (n * q + Z.of_nat (Datatypes.S c') - 1) with (n * q + Z.of_nat c') by lia.
        rewrite (sidx_at Sg q (Z.of_nat c')) by (lia). rewrite Nat2Z.id.
        specialize (C2 c' ltac:(lia)). cbn beta in C2. lia.
    - replace (n * q + Z.of_nat c - 1 + 1) with (n * q + Z.of_nat c) by lia.
      destruct (Nat.eq_dec c (length Sg)) as [Ef|Nf].
      + replace (n * q + Z.of_nat c) with (n * (q + 1) + 0) by lia.
        rewrite (sidx_at Sg (q + 1) 0) by (lia).
        pose proof (bounds_nth Sg (Z.to_nat 0) (sys_bnd Sg HS) ltac:(lia)). lia.
      + rewrite (sidx_at Sg q (Z.of_nat c)) by (lia). rewrite Nat2Z.id.
        specialize (C3 c ltac:(lia)). cbn beta in C3. lia.
  Qed.

  (* membership in the system = being an enumerated pitch *)
  Lemma sidx_mod j : In (sidx Sg j mod 12) Sg.
  Proof.
    pose proof n_pos as Hn. unfold sidx.
    pose proof (Z.mod_pos_bound j n Hn) as B.
    pose proof (bounds_nth Sg (Z.to_nat (j mod n)) (sys_bnd Sg HS) ltac:(unfold slen in *; lia)) as Bn.
    replace (nth (Z.to_nat (j mod n)) Sg 0 + 12 * (j / n)) with (nth (Z.to_nat (j mod n)) Sg 0 + (j / n) * 12) by ring.
    rewrite Z.mod_add by lia. rewrite Z.mod_small by lia.
    apply nth_In. unfold slen in *. lia.
  Qed.

  Lemma in_sys_iff p : in_sys Sg p = true <-> exists j, sidx Sg j = p.
  Proof.
    pose proof n_pos as Hn. unfold in_sys. rewrite existsb_exists. split.
    - intros (x & Hx & E). apply Z.eqb_eq in E. destruct (In_nth Sg x 0 Hx) as (i & Hi & Ei).
      exists (n * (p / 12) + Z.of_nat i). rewrite (sidx_at Sg) by (unfold slen; lia).
      rewrite Nat2Z.id, Ei, <- E. pose proof (Z.div_mod p 12 ltac:(lia)). lia.
    - intros (j & <-). exists (sidx Sg j mod 12). split; [apply sidx_mod|lia].
  Qed.

  Lemma in_sys_rank p : in_sys Sg p = true -> sidx Sg (rank_ge Sg p) = p /\ rank_le Sg p = rank_ge Sg p.
  Proof.
    intros H. apply in_sys_iff in H. destruct H as (j & Ej).
    pose proof (rank_ge_spec p) as G. pose proof (rank_le_spec p) as L.
    pose proof (f_inj_lt (sidx Sg) (sidx_step Sg HS)) as Inj.
    assert (rank_ge Sg p - 1 < j) by (apply Inj; lia).
    assert (j < rank_le Sg p + 1) by (apply Inj; lia).
    pose proof (f_mono_le (sidx Sg) (sidx_step Sg HS)) as Mono.
    destruct (Z_lt_le_dec j (rank_ge Sg p)) as [X|X]; [lia|].
    destruct (Z_lt_le_dec (rank_le Sg p) j) as [Y|Y]; [lia|].
    (* rank_ge <= j <= rank_le, and sidx rank_le <= p = sidx j <= sidx rank_ge... *)
    assert (j = rank_ge Sg p).
    { destruct (Z.eq_dec j (rank_ge Sg p)) as [e|ne]; [exact e|].
      pose proof (f_mono (sidx Sg) (sidx_step Sg HS) (rank_ge Sg p) j ltac:(lia)). lia. }
    assert (j = rank_le Sg p).
    { destruct (Z.eq_dec j (rank_le Sg p)) as [e|ne]; [exact e|].
      pose proof (f_mono (sidx Sg) (sidx_step Sg HS) j (rank_le Sg p) ltac:(lia)). lia. }
    subst j. split; [exact Ej|lia].
  Qed.

  Lemma not_in_sys_rank p : in_sys Sg p = false -> rank_le Sg p = rank_ge Sg p - 1.
  Proof.
    intros H. pose proof (rank_ge_spec p) as G. pose proof (rank_le_spec p) as L.
    pose proof (f_inj_lt (sidx Sg) (sidx_step Sg HS)) as Inj.
    assert (sidx Sg (rank_ge Sg p) <> p).
    { intros E. assert (in_sys Sg p = true) by (apply in_sys_iff; eexists; exact E). congruence. }
    assert (rank_le Sg p < rank_ge Sg p) by (apply Inj; lia).
    assert (rank_ge Sg p - 1 < rank_le Sg p + 1) by (apply Inj; lia).
    lia.
  Qed.

  (* the window in index terms *)
  Lemma window_lo j : -108 <= sidx Sg j -> n * -10 <= j.
  Proof.
    intros H. pose proof n_pos as Hn. destruct (Z_lt_le_dec j (n * -10)) as [L|L]; [|exact L].
    pose proof (f_mono_le (sidx Sg) (sidx_step Sg HS) j (n * -11 + (n - 1)) ltac:(lia)) as M.
    rewrite (sidx_at Sg (-11) (n - 1)) in M by (lia).
    pose proof (bounds_nth Sg (Z.to_nat (n - 1)) (sys_bnd Sg HS) ltac:(unfold slen in *; lia)). lia.
  Qed.

  Lemma window_hi j : sidx Sg j <= 108 -> j < n * 10.
  Proof.
    intros H. pose proof n_pos as Hn. destruct (Z_lt_le_dec j (n * 10)) as [L|L]; [exact L|].
    pose proof (f_mono_le (sidx Sg) (sidx_step Sg HS) (n * 10 + 0) j ltac:(lia)) as M.
    rewrite (sidx_at Sg 10 0) in M by (lia).
    pose proof (bounds_nth Sg (Z.to_nat 0) (sys_bnd Sg HS) ltac:(unfold slen in *; lia)). lia.
  Qed.
End Rank.

(* ================= the windowed model against the closed form ================= *)
Lemma py_index_range f a m i : 0 <= i < Z.of_nat m ->
  py_index (map f (zrange a m)) i = Some (f (a + i)).
Proof.
  intros H. unfold py_index, zlen. rewrite map_length, zrange_length.
  assert (E : (0 <=? i) && (i <? Z.of_nat m) = true) by lia. rewrite E.
  rewrite nth_error_map, zrange_nth_error by lia. cbn [option_map]. do 2 f_equal. lia.
Qed.

Lemma py_index_range_neg f a m i : - Z.of_nat m <= i < 0 ->
  py_index (map f (zrange a m)) i = Some (f (a + Z.of_nat m + i)).
Proof.
  intros H. unfold py_index, zlen. rewrite map_length, zrange_length.
  assert (E : (0 <=? i) && (i <? Z.of_nat m) = false) by lia. rewrite E.
  assert (E2 : (- Z.of_nat m <=? i) && (i <? 0) = true) by lia. rewrite E2.
  rewrite nth_error_map, zrange_nth_error by lia. cbn [option_map]. do 2 f_equal. lia.
Qed.

Section Main.
  Variable Sg : list Z.
  Hypothesis HS : sys Sg.
  Local Notation n := (slen Sg).

  Lemma mem_whole p : -96 <= p <= 96 -> mem p (whole Sg) = in_sys Sg p.
  Proof.
    intros Hp. pose proof (n_pos Sg HS) as Hn. rewrite (whole_enum Sg).
    destruct (in_sys Sg p) eqn:E.
    - apply mem_range. destruct (in_sys_rank Sg HS p E) as [E1 _]. exists (rank_ge Sg p). split; [|exact E1].
      pose proof (window_lo Sg HS (rank_ge Sg p) ltac:(lia)). pose proof (window_hi Sg HS (rank_ge Sg p) ltac:(lia)).
      unfold slen in *. lia.
    - destruct (mem p (map (sidx Sg) (zrange (n * -10) (20 * length Sg)))) eqn:M; [|reflexivity].
      apply mem_range in M. destruct M as (j & _ & Ej).
      assert (in_sys Sg p = true) by (apply (in_sys_iff Sg HS); eexists; exact Ej). congruence.
  Qed.

  Lemma rank_ge_window p : -96 <= p <= 96 -> n * -10 <= rank_ge Sg p <= n * 10.
  Proof.
    intros Hp. pose proof (rank_ge_spec Sg HS p) as G.
    pose proof (window_lo Sg HS (rank_ge Sg p) ltac:(lia)). pose proof (window_hi Sg HS (rank_ge Sg p - 1) ltac:(lia)). lia.
  Qed.

  Lemma rank_le_window p : -96 <= p <= 96 -> n * -10 - 1 <= rank_le Sg p < n * 10.
  Proof.
    intros Hp. pose proof (rank_le_spec Sg HS p) as G.
    pose proof (window_lo Sg HS (rank_le Sg p + 1) ltac:(lia)). pose proof (window_hi Sg HS (rank_le Sg p) ltac:(lia)). lia.
  Qed.

  Lemma filter_up p : -96 <= p <= 96 ->
    filter (fun s => p <=? s) (whole Sg) =
    map (sidx Sg) (zrange (rank_ge Sg p) (Z.to_nat (n * 10 - rank_ge Sg p))).
  Proof.
    intros Hp. pose proof (rank_ge_spec Sg HS p) as G. pose proof (rank_ge_window p Hp) as W.
    rewrite (whole_enum Sg).
    rewrite (filter_ge (sidx Sg) (sidx_step Sg HS) p (rank_ge Sg p)) by (unfold slen in *; lia).
    do 2 f_equal. unfold slen. lia.
  Qed.

  Lemma filter_down p : -96 <= p <= 96 ->
    filter (fun s => s <=? p) (whole Sg) =
    map (sidx Sg) (zrange (n * -10) (Z.to_nat (rank_le Sg p + 1 - n * -10))).
  Proof.
    intros Hp. pose proof (rank_le_spec Sg HS p) as G. pose proof (rank_le_window p Hp) as W.
    rewrite (whole_enum Sg).
    rewrite (filter_le (sidx Sg) (sidx_step Sg HS) p (rank_le Sg p)) by (unfold slen in *; lia).
    reflexivity.
  Qed.

  Lemma up_value_spec delta p : 1 <= delta -> -96 <= p <= 96 ->
    -108 <= spec_up Sg delta p <= 108 -> up_value delta p Sg = Some (spec_up Sg delta p).
  Proof.
    intros Hd Hp Ha. unfold up_value. assert (E : (delta =? 0) = false) by lia. rewrite E.
    rewrite (filter_ext _ (fun s => p <=? s)) by (intros; lia).
    rewrite (filter_up p Hp), (mem_whole p Hp). unfold spec_up in *.
    set (eps := if in_sys Sg p then 0 else 1) in *. assert (0 <= eps <= 1) by (unfold eps; destruct (in_sys Sg p); lia).
    pose proof (window_hi Sg HS _ (proj2 Ha)) as Hhi. pose proof (rank_ge_window p Hp) as W.
    rewrite py_index_range by lia. do 2 f_equal. lia.
  Qed.

  Lemma down_value_spec delta p : 1 <= delta -> -96 <= p <= 96 ->
    -108 <= spec_down Sg delta p <= 108 -> down_value delta p Sg = Some (spec_down Sg delta p).
  Proof.
    intros Hd Hp Ha. unfold down_value. assert (E : (delta =? 0) = false) by lia. rewrite E.
    rewrite (filter_ext _ (fun s => s <=? p)) by (intros; lia).
    rewrite (filter_down p Hp), (mem_whole p Hp). unfold spec_down in *.
    set (eps := if in_sys Sg p then 0 else 1) in *. assert (0 <= eps <= 1) by (unfold eps; destruct (in_sys Sg p); lia).
    pose proof (window_lo Sg HS _ (proj1 Ha)) as Hlo. pose proof (rank_le_window p Hp) as W.
    rewrite py_index_range_neg by lia. do 2 f_equal. lia.
  Qed.

  Lemma up_zero_spec p : -96 <= p <= 96 -> up_value 0 p Sg = Some (sidx Sg (rank_ge Sg p)).
  Proof.
    intros Hp. unfold up_value. cbn [Z.eqb]. rewrite (filter_up p Hp).
    pose proof (rank_ge_spec Sg HS p) as G. pose proof (rank_ge_window p Hp) as W.
    pose proof (window_hi Sg HS (rank_ge Sg p)) as Hhi.
    assert (sidx Sg (rank_ge Sg p) <= 108).
    { pose proof (rank_le_spec Sg HS p) as L. destruct (in_sys Sg p) eqn:E.
      - destruct (in_sys_rank Sg HS p E) as [E1 _]. lia.
      - pose proof (not_in_sys_rank Sg HS p E) as R.
        replace (rank_ge Sg p) with (rank_le Sg p + 1) by lia.
        pose proof (sidx_period Sg HS (rank_le Sg p + 1 - n) 1) as P.
        replace (rank_le Sg p + 1 - n + n * 1) with (rank_le Sg p + 1) in P by lia.
        pose proof (f_mono_le (sidx Sg) (sidx_step Sg HS) (rank_le Sg p + 1 - n) (rank_le Sg p) ltac:(pose proof (n_pos Sg HS); lia)). lia. }
    rewrite py_index_range by lia. do 2 f_equal. lia.
  Qed.

  Lemma down_zero_spec p : -96 <= p <= 96 -> down_value 0 p Sg = Some (sidx Sg (rank_le Sg p)).
  Proof.
    intros Hp. unfold down_value. cbn [Z.eqb]. rewrite (filter_down p Hp).
    pose proof (rank_le_spec Sg HS p) as L. pose proof (rank_le_window p Hp) as W.
    assert (-108 <= sidx Sg (rank_le Sg p)).
    { pose proof (sidx_period Sg HS (rank_le Sg p) 1) as P.
      pose proof (f_mono_le (sidx Sg) (sidx_step Sg HS) (rank_le Sg p + 1) (rank_le Sg p + n * 1) ltac:(pose proof (n_pos Sg HS); lia)). lia. }
    pose proof (window_lo Sg HS (rank_le Sg p) H) as Hlo.
    rewrite py_index_range_neg by lia. do 2 f_equal. lia.
  Qed.
End Main.

(* ================= sorted(set(s % 12)) is a system ================= *)
Fixpoint nondec (l : list Z) : bool :=
  match l with
  | x :: ((y :: _) as r) => (x <=? y) && nondec r
  | _ => true
  end.

Lemma insert_key_id_nondec x l : nondec l = true -> nondec (insert_key (fun z => z) x l) = true.
Proof.
  induction l as [|y l IH]; intros H; [reflexivity|]. cbn [insert_key].
  destruct (x <=? y) eqn:E.
  - cbn [nondec]. cbn [nondec] in H. rewrite H, E. reflexivity.
  - destruct l as [|z r].
    + cbn. assert (y <=? x = true) by lia. rewrite H0. reflexivity.
    + cbn [nondec] in H. apply andb_prop in H. destruct H as [H1 H2]. specialize (IH H2).
      cbn [insert_key] in *. destruct (x <=? z) eqn:E2.
      * cbn [nondec]. cbn [nondec] in IH. assert (y <=? x = true) by lia. rewrite H. exact IH.
      * cbn [nondec]. cbn [nondec] in IH. rewrite H1. exact IH.
Qed.

Lemma sort_id_nondec l : nondec (sort_key (fun z => z) l) = true.
Proof. unfold sort_key. induction l as [|x l IH]; [reflexivity|]. cbn [fold_right]. apply insert_key_id_nondec, IH. Qed.

Lemma dedup_adj_cons2 a b l :
  dedup_adj (a :: b :: l) = if a =? b then dedup_adj (b :: l) else a :: dedup_adj (b :: l).
Proof. reflexivity. Qed.

Lemma dedup_adj_in l x : In x (dedup_adj l) -> In x l.
Proof.
  induction l as [|a l IH]; intros H; [exact H|].
  destruct l as [|b r]; [exact H|]. rewrite dedup_adj_cons2 in H. destruct (a =? b).
  - right. apply IH. exact H.
  - destruct H as [H|H]; [left; exact H|right; apply IH; exact H].
Qed.

Lemma dedup_adj_hd l a : nondec (a :: l) = true -> exists r, dedup_adj (a :: l) = a :: r /\ forall y, In y r -> a < y.
Proof.
  revert a. induction l as [|b l IH]; intros a H.
  - exists []. split; [reflexivity|]. intros y [].
  - cbn [nondec] in H. apply andb_prop in H. destruct H as [H1 H2].
    destruct (IH b H2) as (r & Er & Hr). rewrite dedup_adj_cons2. destruct (a =? b) eqn:E.
    + assert (a = b) by lia. subst b. exists r. split; [exact Er|exact Hr].
    + rewrite Er. exists (b :: r). split; [reflexivity|].
      intros y [<-|Hy]; [lia|]. specialize (Hr y Hy). lia.
Qed.

Lemma dedup_adj_ascending l : nondec l = true -> ascending (dedup_adj l) = true.
Proof.
  induction l as [|a l IH]; intros H; [reflexivity|].
  assert (H2 : nondec l = true) by (destruct l; [reflexivity|cbn [nondec] in H; apply andb_prop in H; tauto]).
  specialize (IH H2).
  destruct l as [|b l']; [reflexivity|]. rewrite dedup_adj_cons2. destruct (a =? b) eqn:E; [exact IH|].
  destruct (dedup_adj_hd l' b H2) as (r & Er & _). rewrite Er in *.
  change (ascending (a :: b :: r)) with ((a <? b) && ascending (b :: r)). rewrite IH.
  cbn [nondec] in H. assert (a <? b = true) by lia. rewrite H0. reflexivity.
Qed.

Lemma dedup_adj_nonempty l : l <> [] -> dedup_adj l <> [].
Proof.
  induction l as [|a l IH]; intros H; [congruence|].
  destruct l as [|b r]; [cbn; congruence|]. rewrite dedup_adj_cons2.
  destruct (a =? b); [apply IH; congruence|congruence].
Qed.

Lemma sort_key_in {A} (key : A -> Z) l x : In x (sort_key key l) <-> In x l.
Proof.
  assert (I : forall y l', In x (insert_key key y l') <-> x = y \/ In x l').
  { intros y l'. induction l' as [|z l' IH]; cbn [insert_key]; [cbn; intuition|].
    destruct (key y <=? key z); cbn [In]; [intuition|]. rewrite IH. intuition. }
  unfold sort_key. induction l as [|y l IH]; [reflexivity|]. cbn [fold_right In]. rewrite I, IH. intuition.
Qed.

Lemma scale_mod_sys sp : sp <> [] -> sys (scale_mod sp).
Proof.
  intros H. unfold scale_mod. split.
  - assert (N : dedup_adj (sort_key (fun x => x) (map (fun s => s mod 12) sp)) <> []).
    { apply dedup_adj_nonempty. destruct sp as [|a sp]; [congruence|]. intros E.
      assert (In (a mod 12) (sort_key (fun x => x) (map (fun s => s mod 12) (a :: sp)))) by (apply sort_key_in; left; reflexivity).
      rewrite E in H0. exact H0. }
    unfold slen. destruct (dedup_adj _); [congruence|cbn; lia].
  - apply dedup_adj_ascending, sort_id_nondec.
  - apply forallb_forall. intros x Hx. apply dedup_adj_in in Hx. apply sort_key_in in Hx.
    apply in_map_iff in Hx. destruct Hx as (s & <- & _). pose proof (Z.mod_pos_bound s 12 ltac:(lia)). lia.
Qed.

Lemma map_mod_id Sg : sys Sg -> map (fun s => s mod 12) Sg = Sg.
Proof.
  intros HS. rewrite <- (map_id Sg) at 2. apply map_ext_in. intros s Hs.
  pose proof (sys_bnd Sg HS) as B. rewrite forallb_forall in B. specialize (B s Hs).
  apply Z.mod_small. lia.
Qed.

(* ================= C09: the model inside the window is the closed form ================= *)
Definition signed_total (Sg : list Z) (v o : Z) (down : bool) : Z :=
  let t := v + slen Sg * o in if down then - t else t.

Theorem window_exact sp v o down p : sp <> [] ->
  let Sg := scale_mod sp in let total := signed_total Sg v o down in
  -96 <= p <= 96 -> -108 <= spec_rel Sg total p <= 108 ->
  get_relative v o down p sp = Some (spec_rel Sg total p).
Proof.
  intros Hsp Sg total Hp Ha. pose proof (scale_mod_sys sp Hsp) as HS. fold Sg in HS.
  unfold get_relative. fold Sg. change (zlen Sg) with (slen Sg).
  change (if down then - (v + slen Sg * o) else v + slen Sg * o) with total.
  unfold spec_rel in *.
  destruct (0 <? total) eqn:E1.
  - apply up_value_spec; [exact HS|lia|exact Hp|exact Ha].
  - destruct (total <? 0) eqn:E2.
    + apply down_value_spec; [exact HS|lia|exact Hp|exact Ha].
    + rewrite (map_mod_id Sg HS). change (mem (p mod 12) Sg) with (in_sys Sg p).
      destruct (in_sys Sg p); [reflexivity|].
      rewrite (up_zero_spec Sg HS p Hp), (down_zero_spec Sg HS p Hp). reflexivity.
Qed.

(* sidx enumerates exactly the system pitches, increasingly *)
Lemma sidx_inj Sg i j : sys Sg -> sidx Sg i = sidx Sg j -> i = j.
Proof.
  intros HS E. destruct (Z.lt_trichotomy i j) as [L|[L|L]]; [|exact L|].
  - pose proof (f_mono (sidx Sg) (sidx_step Sg HS) i j L). lia.
  - pose proof (f_mono (sidx Sg) (sidx_step Sg HS) j i L). lia.
Qed.

Lemma spec_rel_in_sys Sg total p : sys Sg -> in_sys Sg (spec_rel Sg total p) = true.
Proof.
  intros HS. unfold spec_rel, spec_up, spec_down.
  destruct (0 <? total); [apply (in_sys_iff Sg HS); eexists; reflexivity|].
  destruct (total <? 0); [apply (in_sys_iff Sg HS); eexists; reflexivity|].
  destruct (in_sys Sg p) eqn:E; [exact E|].
  destruct (_ <=? _); apply (in_sys_iff Sg HS); eexists; reflexivity.
Qed.

Lemma up_down_inverse Sg k p : sys Sg -> in_sys Sg p = true ->
  spec_down Sg k (spec_up Sg k p) = p /\ spec_up Sg k (spec_down Sg k p) = p.
Proof.
  intros HS E. destruct (in_sys_rank Sg HS p E) as [E1 E2].
  unfold spec_up, spec_down. rewrite E.
  assert (A : forall j, in_sys Sg (sidx Sg j) = true /\ rank_ge Sg (sidx Sg j) = j /\ rank_le Sg (sidx Sg j) = j).
  { intros j. assert (I : in_sys Sg (sidx Sg j) = true) by (apply (in_sys_iff Sg HS); eexists; reflexivity).
    destruct (in_sys_rank Sg HS _ I) as [I1 I2]. apply (sidx_inj Sg _ _ HS) in I1. split; [exact I|]. split; lia. }
  split.
  - destruct (A (rank_ge Sg p + k - 0)) as (I & R1 & R2). rewrite I, R2.
    replace (rank_ge Sg p + k - 0 - k + 0) with (rank_ge Sg p) by lia. exact E1.
  - destruct (A (rank_le Sg p - k + 0)) as (I & R1 & R2). rewrite I, R1.
    replace (rank_le Sg p - k + 0 + k - 0) with (rank_ge Sg p) by lia. exact E1.
Qed.

(* C07: channel allocation - different programs get different channels, never the drum channel 9 (as long as channels last). *)
From ML Require Import Model.Types gen.Tables Model.Pitch Model.Rel Model.Render Model.Midi.
From Coq Require Import Lia ZifyBool.
Open Scope Z_scope.
Open Scope list_scope.

Lemma zindex_inj l : forall x y, In x l -> In y l -> zindex x l = zindex y l -> x = y.
Proof.
  induction l as [|a l IH]; intros x y Hx Hy H; [contradiction|]. cbn [zindex] in H.
  destruct (x =? a) eqn:Ex; destruct (y =? a) eqn:Ey; try lia; try discriminate.
  injection H as H. destruct Hx as [Hx|Hx]; [lia|]. destruct Hy as [Hy|Hy]; [lia|]. exact (IH _ _ Hx Hy H).
Qed.

Lemma zindex_lt l x : In x l -> (zindex x l < length l)%nat.
Proof.
  induction l as [|a l IH]; intros H; [contradiction|]. cbn [zindex length]. destruct (x =? a) eqn:E; [lia|].
  destruct H as [H|H]; [lia|]. specialize (IH H). lia.
Qed.

Lemma insert_in x l y : In y (insert_sorted_unique x l) <-> y = x \/ In y l.
Proof.
  induction l as [|a l IH]; cbn [insert_sorted_unique In]; [intuition congruence|].
  destruct (x <? a); cbn [In]; [intuition congruence|]. destruct (x =? a) eqn:E; cbn [In]; [|rewrite IH; intuition congruence].
  assert (x = a) by lia. subst. intuition congruence.
Qed.

Lemma in_fold_insert p : forall l, In p (fold_right insert_sorted_unique [] l) <-> In p l.
Proof.
  induction l as [|a l IH]; cbn [fold_right]; [tauto|]. rewrite insert_in, IH. cbn [In].
  split; intros [H|H]; [left; congruence|right; exact H|left; congruence|right; exact H].
Qed.

Lemma in_instrument_list progs p : In p (instrument_list progs) <-> p = 0 \/ In p progs.
Proof.
  unfold instrument_list. rewrite in_fold_insert. cbn [In].
  split; intros [H|H]; [left; congruence|right; exact H|left; congruence|right; exact H].
Qed.

Lemma number_to_channel_inj a b : 0 <= a -> 0 <= b -> number_to_channel a = number_to_channel b -> a = b.
Proof. unfold number_to_channel. destruct (a <? 9) eqn:E1, (b <? 9) eqn:E2; lia. Qed.

Lemma number_to_channel_not_drum a : 0 <= a -> number_to_channel a <> 9.
Proof. unfold number_to_channel. destruct (a <? 9) eqn:E; lia. Qed.

(* two different programs of the score never share a channel, and a pitched program is never on the drum channel;
   with at most 15 programs (incl. the implicit piano slot) every channel is a valid MIDI channel 0..15 *)
Theorem channels_distinct progs p1 p2 : (p1 = 0 \/ In p1 progs) -> (p2 = 0 \/ In p2 progs) -> p1 <> p2 ->
  channel_of progs false p1 <> channel_of progs false p2 /\ channel_of progs false p1 <> 9.
Proof.
  intros H1 H2 Hn. unfold channel_of. apply in_instrument_list in H1. apply in_instrument_list in H2. split.
  - intros E. apply number_to_channel_inj in E; try lia. apply Nat2Z.inj in E. apply Hn. exact (zindex_inj _ _ _ H1 H2 E).
  - apply number_to_channel_not_drum. lia.
Qed.

Theorem channels_in_range progs p : (p = 0 \/ In p progs) -> (length (instrument_list progs) <= 15)%nat ->
  0 <= channel_of progs false p <= 15.
Proof.
  intros H L. unfold channel_of. apply in_instrument_list in H. pose proof (zindex_lt _ _ H).
  unfold number_to_channel. destruct (Z.of_nat (zindex p (instrument_list progs)) <? 9) eqn:E; lia.
Qed.

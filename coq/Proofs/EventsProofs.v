(* C03, seconds: matrix_to_events on the rows of one track gives the merged sounding notes with every time multiplied by
   60 / (tempo * ticks per quarter).  (Q arithmetic: equalities of times are Qeq.) *)
From ML Require Import Model.Types gen.Tables Model.Pitch Model.Rel Model.Render Spec.RenderSpec Proofs.RenderProofs.
From Coq Require Import QArith Lia.
Open Scope Z_scope.
Open Scope list_scope.

Section Events.
Variable tpq : Z.
Variable tempo : Q.
Variable t : nat.
Local Notation sc := (secs tpq tempo).

Lemma secs_add a b : (sc (a + b) == sc a + sc b)%Q.
Proof. unfold secs. rewrite inject_Z_plus. unfold Qdiv. ring. Qed.

Definition ev_equiv (a b : event) : Prop :=
  e_pitch a = e_pitch b /\ (e_off a == e_off b)%Q /\ (e_dur a == e_dur b)%Q /\ e_vel a = e_vel b /\ e_track a = e_track b /\ e_sil a = e_sil b.

Lemma ev_equiv_refl a : ev_equiv a a.
Proof. repeat split; reflexivity. Qed.

Definition ev_of (e : mev) : event := mkEv (m_pitch e) (sc (m_on e)) (sc (m_dur e)) (m_vel e) t (m_sil e).

(* the step of the loop as seen by one track *)
Definition tstep (l : option (list event)) (r : row) : option (list event) :=
  let so := sc (r_off r) in let sd := sc (r_dur r) in
  if negb (r_cont r) then Some ((match l with Some x => x | None => [] end) ++ [mkEv (r_pitch r) so sd (r_vel r) t (r_sil r)])
  else match l with
       | Some x => Some (extend_last x sd)
       | None => Some [mkEv (r_pitch r) so sd (r_vel r) t true]
       end.

Lemma nlook_nset_same k v d : nlook k (nset k v d) = Some v.
Proof.
  induction d as [|[k' v'] r IH]; cbn [nset nlook]; [rewrite Nat.eqb_refl; reflexivity|].
  destruct (Nat.eqb k k') eqn:E; cbn [nlook]; rewrite E; [reflexivity|exact IH].
Qed.

Lemma step_track d r : r_track r = t -> nlook t (ev_step true tpq tempo d r) = tstep (nlook t d) r.
Proof.
  intros Ht. unfold ev_step, tstep. rewrite Ht. destruct (negb (r_cont r)).
  - rewrite nlook_nset_same. reflexivity.
  - destruct (nlook t d); rewrite nlook_nset_same; reflexivity.
Qed.

Lemma fold_track rows : Forall (fun r => r_track r = t) rows -> forall d,
  nlook t (fold_left (ev_step true tpq tempo) rows d) = fold_left tstep rows (nlook t d).
Proof.
  induction 1 as [|r rows Hr _ IH]; intros d; [reflexivity|]. cbn [fold_left]. rewrite IH, (step_track d r Hr). reflexivity.
Qed.

Lemma extend_last_snoc xs x q : extend_last (xs ++ [x]) q = xs ++ [mkEv (e_pitch x) (e_off x) (e_dur x + q)%Q (e_vel x) (e_track x) (e_sil x)].
Proof. unfold extend_last. rewrite rev_app_distr. cbn [rev app]. rewrite rev_involutive. reflexivity. Qed.

Lemma Forall2_snoc_inv {A B} (R : A -> B -> Prop) l ys y : Forall2 R l (ys ++ [y]) ->
  exists xs x, l = xs ++ [x] /\ Forall2 R xs ys /\ R x y.
Proof.
  revert l. induction ys as [|y0 ys IH]; intros l H; cbn [app] in H.
  - inversion H as [|a b l' l2 Hab Hr]; subst. inversion Hr; subst. exists [], a. repeat split; [constructor|exact Hab].
  - inversion H as [|a b l' l2 Hab Hr]; subst. destruct (IH _ Hr) as (xs & x & -> & F & Rx).
    exists (a :: xs), x. repeat split; [constructor; assumption|exact Rx].
Qed.

(* invariant: the track's list is the notes already emitted by merge_from followed by the pending one *)
Lemma fold_tstep_merge rows : forall (l : option (list event)) (pre : list mev) (cur : option mev),
  match l with
  | None => pre = [] /\ cur = None
  | Some x => cur <> None /\ Forall2 ev_equiv x (map ev_of (pre ++ emit cur))
  end ->
  match fold_left tstep rows l with
  | None => rows = [] /\ l = None
  | Some x => Forall2 ev_equiv x (map ev_of (pre ++ merge_from cur rows))
  end.
Proof.
  induction rows as [|r rows IH]; intros l pre cur Inv; cbn [fold_left merge_from].
  - destruct l as [x|]; [exact (proj2 Inv)|split; reflexivity].
  - unfold tstep at 2. destruct (r_cont r) eqn:Ec; cbn [negb].
    + destruct l as [x|].
      * destruct Inv as [Hc F]. destruct cur as [e|]; [|congruence]. cbn [emit] in F.
        rewrite map_app in F. cbn [map] in F. destruct (Forall2_snoc_inv _ _ _ _ F) as (xs & x0 & -> & Fx & Rx).
        rewrite extend_last_snoc.
        specialize (IH (Some (xs ++ [mkEv (e_pitch x0) (e_off x0) (e_dur x0 + sc (r_dur r))%Q (e_vel x0) (e_track x0) (e_sil x0)]))
                       pre (Some (lengthen e (r_dur r)))).
        cbn beta iota in IH. 
        assert (G : match fold_left tstep rows (Some (xs ++ [mkEv (e_pitch x0) (e_off x0) (e_dur x0 + sc (r_dur r))%Q (e_vel x0) (e_track x0) (e_sil x0)])) with
                    | Some x => Forall2 ev_equiv x (map ev_of (pre ++ merge_from (Some (lengthen e (r_dur r))) rows))
                    | None => rows = [] /\ Some (xs ++ [mkEv (e_pitch x0) (e_off x0) (e_dur x0 + sc (r_dur r))%Q (e_vel x0) (e_track x0) (e_sil x0)]) = None
                    end).
        { apply IH. split; [discriminate|]. cbn [emit]. rewrite map_app. cbn [map]. apply Forall2_app; [exact Fx|].
          constructor; [|constructor]. destruct Rx as (R1 & R2 & R3 & R4 & R5 & R6).
          unfold ev_equiv, ev_of, lengthen. cbn [e_pitch e_off e_dur e_vel e_track e_sil m_pitch m_on m_dur m_vel m_sil] in *.
          repeat split; try assumption. rewrite secs_add, R3. reflexivity. }
        destruct (fold_left tstep rows _) as [x|]; [exact G|destruct G as [_ G]; discriminate].
      * destruct Inv as [-> ->].
        specialize (IH (Some [mkEv (r_pitch r) (sc (r_off r)) (sc (r_dur r)) (r_vel r) t true]) [] (Some (mev_of_row r true))).
        assert (G : match fold_left tstep rows (Some [mkEv (r_pitch r) (sc (r_off r)) (sc (r_dur r)) (r_vel r) t true]) with
                    | Some x => Forall2 ev_equiv x (map ev_of ([] ++ merge_from (Some (mev_of_row r true)) rows))
                    | None => rows = [] /\ Some [mkEv (r_pitch r) (sc (r_off r)) (sc (r_dur r)) (r_vel r) t true] = None
                    end).
        { apply IH. split; [discriminate|]. cbn [emit app map]. constructor; [apply ev_equiv_refl|constructor]. }
        destruct (fold_left tstep rows _) as [x|]; [exact G|destruct G as [_ G]; discriminate].
    + set (ev := mkEv (r_pitch r) (sc (r_off r)) (sc (r_dur r)) (r_vel r) t (r_sil r)).
      specialize (IH (Some ((match l with Some x => x | None => [] end) ++ [ev])) (pre ++ emit cur) (Some (mev_of_row r (r_sil r)))).
      assert (G : match fold_left tstep rows (Some ((match l with Some x => x | None => [] end) ++ [ev])) with
                  | Some x => Forall2 ev_equiv x (map ev_of ((pre ++ emit cur) ++ merge_from (Some (mev_of_row r (r_sil r))) rows))
                  | None => rows = [] /\ Some ((match l with Some x => x | None => [] end) ++ [ev]) = None
                  end).
      { apply IH. split; [discriminate|]. cbn [emit]. rewrite map_app. cbn [map]. apply Forall2_app.
        - destruct l as [x|]; [exact (proj2 Inv)|]. destruct Inv as [-> ->]. constructor.
        - constructor; [apply ev_equiv_refl|constructor]. }
      rewrite <- app_assoc in G.
      destruct (fold_left tstep rows _) as [x|]; [exact G|destruct G as [_ G]; discriminate].
Qed.

Lemma Forall2_filter {A B} (R : A -> B -> Prop) (f : A -> bool) (g : B -> bool) :
  (forall a b, R a b -> f a = g b) -> forall l m, Forall2 R l m -> Forall2 R (filter f l) (filter g m).
Proof.
  intros H. induction 1 as [|a b l m Hab _ IH]; [constructor|]. cbn [filter]. rewrite (H a b Hab).
  destruct (g b); [constructor; assumption|exact IH].
Qed.

Lemma map_filter_ev l : map ev_of (filter (fun e => negb (m_sil e)) l) = filter (fun e => negb (e_sil e)) (map ev_of l).
Proof. induction l as [|e l IH]; [reflexivity|]. cbn [filter map ev_of e_sil]. destruct (negb (m_sil e)); cbn [map]; rewrite IH; reflexivity. Qed.

(* the events of one track, in seconds, are the merged audible notes of C03 scaled by 60 / (tempo * tpq) *)
Theorem events_of_track rows : Forall (fun r => r_track r = t) rows ->
  Forall2 ev_equiv
    (filter (fun e => negb (e_sil e)) (match nlook t (fold_left (ev_step true tpq tempo) rows []) with Some x => x | None => [] end))
    (map ev_of (audible (merge_from None rows))).
Proof.
  intros Hs. rewrite (fold_track rows Hs []). cbn [nlook].
  pose proof (fold_tstep_merge rows None [] None (conj eq_refl eq_refl)) as G. cbn [app] in G.
  destruct (fold_left tstep rows None) as [x|].
  - unfold audible.
    rewrite map_filter_ev. apply Forall2_filter with (g := fun e => negb (e_sil e)); [|exact G].
    intros a b (_ & _ & _ & _ & _ & S). rewrite S. reflexivity.
  - destruct G as [-> _]. cbn. constructor.
Qed.
End Events.

(* the unrepaired code added a continuation's length in QUARTER NOTES to a duration in seconds: refuted at tempo 120 *)
Example events_unscaled_refuted :
  let rows := [mkRow 0 0 1 66 0 false false; mkRow 0 1 1 66 0 false true] in
  map (fun e => Qeq_bool (e_dur e) (secs 1 (120#1) 2)) (matrix_to_events true 1 (120#1) rows) = [true] /\
  map (fun e => Qeq_bool (e_dur e) (secs 1 (120#1) 2)) (matrix_to_events false 1 (120#1) rows) = [false].
Proof. split; vm_compute; reflexivity. Qed.

(* with C03's theorem on rows: the audible events of a track are its sounding notes, in seconds *)
Definition ev_of_snote (tpq : Z) (tempo : Q) (t : nat) (n : snote) : event :=
  mkEv (s_pitch n) (secs tpq tempo (s_on n)) (secs tpq tempo (s_dur n)) (s_vel n) t false.

Lemma audible_as_snotes tpq tempo t l : map (ev_of tpq tempo t) (audible l) = map (ev_of_snote tpq tempo t) (map snote_of (audible l)).
Proof.
  unfold audible. induction l as [|e l IH]; [reflexivity|]. cbn [filter]. destruct (m_sil e) eqn:E; cbn [negb]; [exact IH|].
  cbn [map]. rewrite IH. f_equal. unfold ev_of, ev_of_snote, snote_of. cbn. rewrite E. reflexivity.
Qed.

Theorem events_are_sounding_in_seconds tpq tempo s idx track rows :
  track_rows s idx track 0 None = Some rows -> Forall (fun r => r_track r = idx) rows ->
  exists sl, sounding_of s track = Some sl /\
    Forall2 (ev_equiv)
      (filter (fun e => negb (e_sil e)) (match nlook idx (fold_left (ev_step true tpq tempo) rows []) with Some x => x | None => [] end))
      (map (ev_of_snote tpq tempo idx) sl).
Proof.
  intros H Hs. destruct (track_sounding s idx track rows H) as (sl & Hsl & Hm). exists sl. split; [exact Hsl|].
  rewrite <- Hm, <- audible_as_snotes. apply events_of_track. exact Hs.
Qed.

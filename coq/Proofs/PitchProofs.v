From ML Require Import Model.Types gen.Tables Model.Pitch Spec.PitchSpec.
From Coq Require Import Lia ZifyBool.
Open Scope Z_scope.

(* ---------- the generated mode table is the documented one ---------- *)
Lemma mode_tables : forall md, SCALES md = spec_mode md.
Proof. destruct md; vm_compute; reflexivity. Qed.

(* ---------- deg arithmetic ---------- *)
Lemma deg_shift7 b S x q : deg b S (x + 7 * q) = deg b S x + 12 * q.
Proof.
  unfold deg. rewrite (Z.mul_comm 7 q), Z.mod_add, Z.div_add by lia. ring.
Qed.

Lemma deg_base b S k : deg b S k = b + deg 0 S k.
Proof. unfold deg. ring. Qed.

Lemma deg_split b S k : deg b S k = deg b S (k mod 7) + 12 * (k / 7).
Proof.
  rewrite (Z.div_mod k 7) at 1 by lia.
  rewrite Z.add_comm, deg_shift7. reflexivity.
Qed.

(* ---------- Chord.scale_pitches ---------- *)
Definition elem_ok (c : chord) : Prop := 0 <= celem c <= 6.

Ltac closed_arith :=
  repeat match goal with
  | |- context [Z.to_nat ((?a + ?b) mod 7)] =>
      let v := eval vm_compute in (Z.to_nat ((a + b) mod 7)) in change (Z.to_nat ((a + b) mod 7)) with v
  | |- context [(?a + ?b) / 7] =>
      let v := eval vm_compute in ((a + b) / 7) in change ((a + b) / 7) with v
  end.

Section NoSimpl.
Local Arguments Z.mul : simpl never.
Local Arguments Z.add : simpl never.
Lemma chord_scale_list7 c a0 a1 a2 a3 a4 a5 a6 :
  elem_ok c -> SCALES (tmode (cton c)) = [a0; a1; a2; a3; a4; a5; a6] ->
  chord_scale c = Some (map (fun j => deg (abs_degree (cton c)) (SCALES (tmode (cton c))) (celem c + j) + 12 * coct c) idx7).
Proof.
  intros [H0 H6] HS. unfold chord_scale, ton_scale. rewrite HS.
  assert (E : celem c = 0 \/ celem c = 1 \/ celem c = 2 \/ celem c = 3 \/ celem c = 4 \/ celem c = 5 \/ celem c = 6) by lia.
  destruct E as [E|[E|[E|[E|[E|[E|E]]]]]]; rewrite E; unfold deg, idx7; cbn; closed_arith; cbn; apply f_equal;
    repeat (apply (f_equal2 cons); [ring|]); reflexivity.
Qed.
End NoSimpl.

Lemma scales_7 md : exists a0 a1 a2 a3 a4 a5 a6, SCALES md = [a0; a1; a2; a3; a4; a5; a6].
Proof. destruct md; cbn; do 7 eexists; reflexivity. Qed.

Lemma chord_scale_spec c : elem_ok c ->
  chord_scale c = Some (map (chord_deg c) idx7).
Proof.
  intros H. destruct (scales_7 (tmode (cton c))) as (a0&a1&a2&a3&a4&a5&a6&HS).
  rewrite (chord_scale_list7 _ _ _ _ _ _ _ _ H HS).
  unfold chord_deg, chord_deg_in, ton_base, abs_degree. rewrite mode_tables. reflexivity.
Qed.

(* ---------- list helpers ---------- *)
Lemma znth_map_idx7 (f : Z -> Z) r : 0 <= r < 7 -> znth (map f idx7) r = f r.
Proof.
  intros H. assert (E : r = 0 \/ r = 1 \/ r = 2 \/ r = 3 \/ r = 4 \/ r = 5 \/ r = 6) by lia.
  destruct E as [E|[E|[E|[E|[E|[E|E]]]]]]; subst r; reflexivity.
Qed.

Lemma znth_map_shift (l : list Z) t i : 0 <= i < zlen l ->
  znth (map (fun x => x + t) l) i = znth l i + t.
Proof.
  unfold znth, zlen. intros H.
  rewrite (nth_indep _ 0 (0 + t)) by (rewrite map_length; lia).
  apply (map_nth (fun x => x + t)).
Qed.

Lemma zlen_map {A B} (f : A -> B) l : zlen (map f l) = zlen l.
Proof. unfold zlen. rewrite map_length. reflexivity. Qed.

Lemma value_to_scale_shift v l t :
  value_to_scale v (map (fun x => x + t) l) = option_map (fun x => x + t) (value_to_scale v l).
Proof.
  unfold value_to_scale. rewrite zlen_map.
  destruct (zlen l =? 0) eqn:E; [reflexivity|].
  cbn [option_map]. f_equal. rewrite znth_map_shift; [ring|].
  assert (0 <= zlen l) by (unfold zlen; lia). apply Z.mod_pos_bound; lia.
Qed.

(* walking a non-empty pitch list with value v and octave o *)
Lemma value_to_scale_arp l v o : l <> [] ->
  value_to_scale (v + zlen l * o) l = Some (arp_pitch l v o).
Proof.
  intros Hl. unfold value_to_scale, arp_pitch, znth. fold (zlen l).
  assert (0 < zlen l) by (unfold zlen; destruct l; [congruence|cbn; lia]).
  destruct (zlen l =? 0) eqn:E; [lia|].
  rewrite (Z.mul_comm (zlen l) o), Z.mod_add, Z.div_add by lia. reflexivity.
Qed.

(* ---------- chord scale: length, per-note mode ---------- *)
Lemma scales_length md : length (SCALES md) = 7%nat.
Proof. destruct md; reflexivity. Qed.

Lemma chord_scale_length c sp : chord_scale c = Some sp -> length sp = 7%nat.
Proof.
  unfold chord_scale. destruct (_ && _); [|discriminate]. intros E; inversion E; subst; clear E.
  rewrite map_length, app_length, map_length, skipn_length, firstn_length.
  unfold ton_scale. rewrite map_length, scales_length. lia.
Qed.

Lemma real_chord_ok n c : elem_ok c -> elem_ok (real_chord n c).
Proof. unfold real_chord, elem_ok. destruct (pmode n); auto. Qed.

Lemma real_chord_deg n c j : chord_deg (real_chord n c) j = chord_deg_in (note_mode c n) c j.
Proof. unfold real_chord, note_mode, chord_deg. destruct (pmode n); reflexivity. Qed.

Lemma chord_deg_in_step md c j q : chord_deg_in md c (j + 7 * q) = chord_deg_in md c j + 12 * q.
Proof. unfold chord_deg_in. rewrite Z.add_assoc, deg_shift7. ring. Qed.

Lemma scale_walk md c v :
  value_to_scale v (map (chord_deg_in md c) idx7) = Some (chord_deg_in md c v).
Proof.
  unfold value_to_scale. change (zlen (map (chord_deg_in md c) idx7)) with 7. cbn [Z.eqb].
  rewrite znth_map_idx7 by (apply Z.mod_pos_bound; lia).
  rewrite <- chord_deg_in_step. f_equal. f_equal. rewrite Z.add_comm. symmetry. apply Z.div_mod. lia.
Qed.

Lemma znth_range12 b i : 0 <= i < 12 -> znth (range12 b) i = b + i.
Proof.
  intros H.
  assert (E : i = 0 \/ i = 1 \/ i = 2 \/ i = 3 \/ i = 4 \/ i = 5 \/ i = 6 \/ i = 7 \/ i = 8 \/ i = 9 \/ i = 10 \/ i = 11) by lia.
  repeat (destruct E as [E|E]; [subst i; reflexivity|]). subst i; reflexivity.
Qed.

Lemma chromatic_walk b v : value_to_scale v (range12 b) = Some (b + v).
Proof.
  unfold value_to_scale. change (zlen (range12 b)) with 12. cbn [Z.eqb].
  rewrite znth_range12 by (apply Z.mod_pos_bound; lia). f_equal.
  rewrite (Z.div_mod v 12) at 3 by lia. ring.
Qed.

(* ---------- the five closed forms ---------- *)
Lemma pitch_basic_scale c n : elem_ok c -> pkind n = KS -> pacc n = None ->
  pitch_basic c n = Some (chord_deg_in (note_mode c n) c (pval n + 7 * poct n)).
Proof.
  intros H Hk Ha. unfold pitch_basic.
  rewrite (chord_scale_spec _ (real_chord_ok n c H)). cbn [obind]. rewrite Hk, Ha.
  erewrite map_ext by (intros; apply real_chord_deg). apply scale_walk.
Qed.

Lemma pitch_basic_chromatic c n : elem_ok c -> pkind n = KH ->
  pitch_basic c n = Some (chord_deg_in (note_mode c n) c 0 + pval n + 12 * poct n).
Proof.
  intros H Hk. unfold pitch_basic.
  rewrite (chord_scale_spec _ (real_chord_ok n c H)). cbn [obind]. rewrite Hk.
  rewrite chromatic_walk. f_equal. rewrite znth_map_idx7 by lia. rewrite real_chord_deg. ring.
Qed.

Lemma pitch_basic_absolute c n : elem_ok c -> (pkind n = KA \/ pkind n = KD) ->
  pitch_basic c n = Some (pval n + 12 * poct n).
Proof.
  intros H Hk. unfold pitch_basic.
  rewrite (chord_scale_spec _ (real_chord_ok n c H)). cbn [obind].
  destruct Hk as [Hk|Hk]; rewrite Hk; rewrite chromatic_walk; f_equal; ring.
Qed.

Lemma accident_table v a : ACCIDENTS_TO_NOTE v a = ACC_GOLDEN v a.
Proof.
  destruct v as [|p|p]; [destruct a; reflexivity| |destruct a; reflexivity].
  destruct p as [[[?|?|]|[?|?|]|]|[[?|?|]|[?|?|]|]|]; destruct a; reflexivity.
Qed.

Lemma pitch_basic_accident c n a : elem_ok c -> pkind n = KS -> pacc n = Some a ->
  pitch_basic c n =
  option_map (fun t => chord_deg_in (note_mode c n) c 0 + t + 12 * poct n) (ACC_GOLDEN (pval n) a).
Proof.
  intros H Hk Ha. unfold pitch_basic.
  rewrite (chord_scale_spec _ (real_chord_ok n c H)). cbn [obind]. rewrite Hk, Ha.
  rewrite accident_table. destruct (ACC_GOLDEN (pval n) a); [|reflexivity]. cbn [obind option_map].
  rewrite znth_map_idx7 by lia. rewrite real_chord_deg. reflexivity.
Qed.

(* ---------- equivariance: tonality degree/octave and chord octave ---------- *)
Definition shift_chord (c : chord) (a b d : Z) : chord :=
  mkC (celem c) (cext c) (mkT (tdeg (cton c) + a) (tmode (cton c)) (toct (cton c) + b)) (coct c + d).

Definition shift_amount (a b d : Z) : Z := a + 12 * b + 12 * d.

Lemma chord_scale_shift c a b d :
  chord_scale (shift_chord c a b d) =
  option_map (map (fun x => x + shift_amount a b d)) (chord_scale c).
Proof.
  unfold chord_scale, shift_chord, shift_amount. cbn [celem cton coct].
  destruct (_ && _); [|reflexivity]. cbn [option_map]. f_equal.
  unfold ton_scale, abs_degree. cbn [tdeg toct tmode].
  rewrite !skipn_map, !firstn_map, !map_app, !map_map.
  f_equal; apply map_ext; intros; ring.
Qed.

Definition is_sh (n : pnote) : bool :=
  match pkind n with KS | KH => true | _ => false end.

Lemma real_chord_shift n c a b d :
  real_chord n (shift_chord c a b d) = shift_chord (real_chord n c) a b d.
Proof. unfold real_chord, shift_chord. destruct (pmode n); reflexivity. Qed.

Lemma range12_shift b t : range12 (b + t) = map (fun x => x + t) (range12 b).
Proof. unfold range12. rewrite map_map. apply map_ext. intros; ring. Qed.

Lemma pitch_basic_shift c a b d n : is_sh n = true ->
  pitch_basic (shift_chord c a b d) n =
  option_map (fun x => x + shift_amount a b d) (pitch_basic c n).
Proof.
  intros Hn. unfold pitch_basic. rewrite real_chord_shift, chord_scale_shift.
  destruct (chord_scale (real_chord n c)) as [sp|] eqn:Esp; [|reflexivity].
  cbn [option_map obind].
  assert (L7 : zlen sp = 7) by (unfold zlen; rewrite (chord_scale_length _ _ Esp); reflexivity).
  assert (Z0 : znth (map (fun x => x + shift_amount a b d) sp) 0 = znth sp 0 + shift_amount a b d)
    by (apply znth_map_shift; lia).
  unfold is_sh in Hn. destruct (pkind n); try discriminate.
  - destruct (pacc n).
    + destruct (ACCIDENTS_TO_NOTE (pval n) a0); [|reflexivity]. cbn [obind option_map].
      rewrite Z0. f_equal. ring.
    + apply value_to_scale_shift.
  - rewrite Z0, range12_shift. apply value_to_scale_shift.
Qed.

Lemma omap_pitch_shift c a b d ns : forallb is_sh ns = true ->
  omap (pitch_basic (shift_chord c a b d)) ns =
  option_map (map (fun x => x + shift_amount a b d)) (omap (pitch_basic c) ns).
Proof.
  induction ns as [|n ns IH]; [reflexivity|]. cbn [forallb omap]. intros H.
  apply andb_prop in H. destruct H as [Hn Hns].
  rewrite (pitch_basic_shift _ _ _ _ _ Hn), (IH Hns).
  destruct (pitch_basic c n); [|reflexivity]. cbn [option_map obind].
  destruct (omap (pitch_basic c) ns); reflexivity.
Qed.

Definition shiftp (t : Z) (x : Z * pnote) : Z * pnote := (fst x + t, snd x).

Lemma insert_key_shift t x l :
  insert_key fst (shiftp t x) (map (shiftp t) l) = map (shiftp t) (insert_key fst x l).
Proof.
  induction l as [|y l IH]; [reflexivity|]. cbn [map insert_key].
  replace (fst (shiftp t x) <=? fst (shiftp t y)) with (fst x <=? fst y)
    by (unfold shiftp; cbn [fst]; lia).
  destruct (fst x <=? fst y); [reflexivity|]. cbn [map]. f_equal. apply IH.
Qed.

Lemma sort_key_shift t l : sort_key fst (map (shiftp t) l) = map (shiftp t) (sort_key fst l).
Proof.
  unfold sort_key. induction l as [|x l IH]; [reflexivity|]. cbn [map fold_right].
  rewrite IH. apply insert_key_shift.
Qed.

Lemma combine_shift t (ps : list Z) (ns : list pnote) :
  combine (map (fun x => x + t) ps) ns = map (shiftp t) (combine ps ns).
Proof.
  revert ns. induction ps as [|p ps IH]; intros [|n ns]; try reflexivity.
  cbn [map combine]. f_equal. apply IH.
Qed.

Lemma chord_notes_calc_shift c a b d f ns :
  chord_notes_unsorted f (cext c) = Some ns -> forallb is_sh ns = true ->
  chord_notes_calc (shift_chord c a b d) f =
  option_map (map (shiftp (shift_amount a b d))) (chord_notes_calc c f).
Proof.
  intros Hns Hsh. unfold chord_notes_calc. cbn [shift_chord cext]. rewrite Hns. cbn [obind].
  rewrite (omap_pitch_shift _ _ _ _ _ Hsh).
  destruct (omap (pitch_basic c) ns); [|reflexivity]. cbn [option_map obind].
  rewrite combine_shift, sort_key_shift. reflexivity.
Qed.

Lemma map_fst_shiftp t l : map fst (map (shiftp t) l) = map (fun x => x + t) (map fst l).
Proof. rewrite !map_map. apply map_ext. reflexivity. Qed.

(* ---------- every note _chord_notes_calc produces is a scale or chromatic note ---------- *)
Definition tables_sh : bool :=
  forallb (fun kv => forallb is_sh (snd kv)) BASE_EXTENSION_DICT &&
  forallb (fun kv => is_sh (snd (snd kv))) DICT_REPLACEMENT &&
  forallb (fun kv => is_sh (snd (snd kv))) DICT_ADDITION.

Lemma tables_sh_true : tables_sh = true.
Proof. vm_compute. reflexivity. Qed.

Lemma assoc_forallb {B} (P : B -> bool) k (l : list (string * B)) v :
  forallb (fun kv => P (snd kv)) l = true -> assoc k l = Some v -> P v = true.
Proof.
  induction l as [|[k' v'] l IH]; cbn [assoc forallb]; [discriminate|].
  intros H. apply andb_prop in H. destruct H as [H1 H2].
  destruct (String.eqb k k'); [intros E; inversion E; subst; exact H1 | auto].
Qed.

Lemma is_sh_note_o n k : is_sh (note_o n k) = is_sh n.
Proof. unfold note_o, is_sh. destruct n as [k0 d0 v0 o0 m0 a0]; cbn [pkind pdir]. destruct k0, d0; reflexivity. Qed.

Lemma forallb_set_nth {A} (P : A -> bool) i x l :
  P x = true -> forallb P l = true -> forallb P (set_nth i x l) = true.
Proof.
  revert i. induction l as [|y l IH]; intros [|i] Hx H; cbn [set_nth forallb] in *; auto;
    apply andb_prop in H; destruct H as [H1 H2]; rewrite ?Hx, ?H1, ?H2; cbn; auto.
Qed.

Lemma forallb_firstn {A} (P : A -> bool) i l : forallb P l = true -> forallb P (firstn i l) = true.
Proof.
  revert i. induction l as [|y l IH]; intros [|i] H; cbn [firstn forallb] in *; auto.
  apply andb_prop in H. destruct H as [H1 H2]. rewrite H1, (IH i H2). reflexivity.
Qed.

Lemma forallb_skipn {A} (P : A -> bool) i l : forallb P l = true -> forallb P (skipn i l) = true.
Proof.
  revert i. induction l as [|y l IH]; intros [|i] H; cbn [skipn forallb] in *; auto.
  apply andb_prop in H. destruct H as [H1 H2]. auto.
Qed.

Lemma forallb_insert_at {A} (P : A -> bool) i x l :
  P x = true -> forallb P l = true -> forallb P (insert_at i x l) = true.
Proof.
  intros Hx H. unfold insert_at. rewrite forallb_app. cbn [forallb].
  rewrite (forallb_firstn _ _ _ H), Hx, (forallb_skipn _ _ _ H). reflexivity.
Qed.

Lemma forallb_remove_at {A} (P : A -> bool) i l :
  forallb P l = true -> forallb P (remove_at i l) = true.
Proof.
  intros H. unfold remove_at. rewrite forallb_app.
  rewrite (forallb_firstn _ _ _ H), (forallb_skipn _ _ _ H). reflexivity.
Qed.

Definition st_sh (st : option cstate) : Prop :=
  match st with Some s => forallb is_sh (s_notes s) = true | None => True end.

Lemma step_repl_sh st r : st_sh st -> st_sh (step_repl st r).
Proof.
  destruct st as [s|]; [|exact (fun H => H)]. cbn [st_sh]. intros H. unfold step_repl. cbn [obind].
  destruct (assoc r DICT_REPLACEMENT) as [[replaced newn]|] eqn:E; [|exact I]. cbn [obind].
  destruct (index_of replaced (s_nwo s)); cbn [st_sh s_notes]; [|exact H].
  apply forallb_set_nth; [|exact H]. rewrite is_sh_note_o.
  pose proof tables_sh_true as T. unfold tables_sh in T.
  apply andb_prop in T. destruct T as [T _]. apply andb_prop in T. destruct T as [_ T].
  exact (assoc_forallb (fun v => is_sh (snd v)) _ _ _ T E).
Qed.

Lemma step_add_sh st r : st_sh st -> st_sh (step_add st r).
Proof.
  destruct st as [s|]; [|exact (fun H => H)]. cbn [st_sh]. intros H. unfold step_add. cbn [obind].
  destruct (assoc r DICT_ADDITION) as [[after newn]|] eqn:E; [|exact I]. cbn [obind].
  destruct (index_of _ (s_nwo s)); [|exact I]. cbn [obind st_sh s_notes].
  apply forallb_insert_at; [|exact H]. rewrite is_sh_note_o.
  pose proof tables_sh_true as T. unfold tables_sh in T.
  apply andb_prop in T. destruct T as [_ T].
  exact (assoc_forallb (fun v => is_sh (snd v)) _ _ _ T E).
Qed.

Lemma step_rem_sh st r : st_sh st -> st_sh (step_rem st r).
Proof.
  destruct st as [s|]; [|exact (fun H => H)]. cbn [st_sh]. intros H. unfold step_rem. cbn [obind].
  destruct (assoc r DICT_REMOVAL); [|exact I]. cbn [obind].
  destruct (last_index_of _ _); [|exact I]. cbn [obind st_sh s_notes].
  apply forallb_remove_at. exact H.
Qed.

Lemma fold_sh (step : option cstate -> string -> option cstate) l st :
  (forall st r, st_sh st -> st_sh (step st r)) -> st_sh st -> st_sh (fold_left step l st).
Proof. intros Hs. revert st. induction l as [|r l IH]; cbn [fold_left]; auto. Qed.

Lemma unsorted_sh f e ns : chord_notes_unsorted f e = Some ns -> forallb is_sh ns = true.
Proof.
  unfold chord_notes_unsorted.
  destruct (assoc f BASE_EXTENSION_DICT) as [base|] eqn:E; [|discriminate]. cbn [obind].
  assert (H0 : st_sh (Some (mkS base (map no_oct base) [] []))).
  { cbn [st_sh s_notes]. pose proof tables_sh_true as T. unfold tables_sh in T.
    apply andb_prop in T. destruct T as [T _]. apply andb_prop in T. destruct T as [T _].
    exact (assoc_forallb (forallb is_sh) _ _ _ T E). }
  pose proof (fold_sh step_repl (repl e) _ step_repl_sh H0) as H1.
  destruct (fold_left step_repl (repl e) _) as [s1|]; [|discriminate]. cbn [obind].
  pose proof (fold_sh step_add (adds e ++ s_extra s1) _ step_add_sh H1) as H2.
  destruct (fold_left step_add _ _) as [s2|]; [|discriminate]. cbn [obind].
  pose proof (fold_sh step_rem (rems e) _ step_rem_sh H2) as H3.
  destruct (fold_left step_rem _ _) as [s3|]; [|discriminate]. cbn [obind].
  intros X; inversion X; subst. exact H3.
Qed.

(* chord tones of any chord (any modifier set) move with the tonality degree,
   the tonality octave and the chord octave *)
Lemma chord_notes_calc_equivariant c a b d f :
  chord_notes_calc (shift_chord c a b d) f =
  option_map (map (shiftp (shift_amount a b d))) (chord_notes_calc c f).
Proof.
  destruct (chord_notes_unsorted f (cext c)) as [ns|] eqn:E.
  - exact (chord_notes_calc_shift _ _ _ _ _ _ E (unsorted_sh _ _ _ E)).
  - unfold chord_notes_calc. cbn [shift_chord cext]. rewrite E. reflexivity.
Qed.

Lemma chord_pitches_equivariant c a b d :
  chord_pitches (shift_chord c a b d) =
  option_map (map (fun x => x + shift_amount a b d)) (chord_pitches c) /\
  chord_extension_pitches (shift_chord c a b d) =
  option_map (map (fun x => x + shift_amount a b d)) (chord_extension_pitches c).
Proof.
  unfold chord_pitches, chord_extension_pitches. cbn [shift_chord cext].
  rewrite !chord_notes_calc_equivariant.
  split; (destruct (chord_notes_calc c _); [|reflexivity]); cbn [option_map]; f_equal; apply map_fst_shiftp.
Qed.

(* ---------- arpeggios of the 11 bare figures: finite sweep at the origin, lifted ---------- *)
Definition origin (e : Z) (f : string) (md : mode) : chord := mkC e (bare f) (mkT 0 md 0) 0.

Definition olist_eqb (a b : option (list Z)) : bool := option_eqb (list_eqb Z.eqb) a b.

Definition arpeggio_ok (e : Z) (f : string) (md : mode) : bool :=
  let c := origin e f md in
  olist_eqb (chord_pitches c) (option_map (map (chord_deg c)) (root_degs f)) &&
  olist_eqb (chord_extension_pitches c) (option_map (map (chord_deg c)) (bass_degs f)).

Lemma arpeggio_sweep :
  forallb (fun e => forallb (fun f => forallb (arpeggio_ok e f) all_modes) all_figures) idx7 = true.
Proof. vm_compute. reflexivity. Qed.

Lemma list_eqb_eq a b : list_eqb Z.eqb a b = true -> a = b.
Proof.
  revert b. induction a as [|x a IH]; intros [|y b]; cbn [list_eqb]; try discriminate; auto.
  intros H. apply andb_prop in H. destruct H as [H1 H2]. apply Z.eqb_eq in H1. subst. f_equal. auto.
Qed.

Lemma olist_eqb_eq a b : olist_eqb a b = true -> a = b.
Proof.
  destruct a, b; cbn; try discriminate; auto. intros H. f_equal. apply list_eqb_eq. exact H.
Qed.

Lemma all_modes_in md : In md all_modes.
Proof. destruct md; cbn; tauto. Qed.

Lemma idx7_in e : 0 <= e <= 6 -> In e idx7.
Proof. intros H. cbn. lia. Qed.

Lemma chord_deg_shift c a b d j :
  chord_deg (shift_chord c a b d) j = chord_deg c j + shift_amount a b d.
Proof.
  unfold chord_deg, chord_deg_in, shift_chord, shift_amount, ton_base, deg. cbn [celem cton coct tdeg toct tmode]. ring.
Qed.

Lemma as_shift c f : cext c = bare f ->
  c = shift_chord (origin (celem c) f (tmode (cton c))) (tdeg (cton c)) (toct (cton c)) (coct c).
Proof.
  destruct c as [e x [dg md oc] co]. cbn. intros ->. unfold shift_chord, origin. cbn. f_equal.
Qed.

Lemma arpeggio_bare c f : elem_ok c -> In f all_figures -> cext c = bare f ->
  chord_pitches c = option_map (map (chord_deg c)) (root_degs f) /\
  chord_extension_pitches c = option_map (map (chord_deg c)) (bass_degs f).
Proof.
  intros He Hf Hx.
  pose proof arpeggio_sweep as SW. rewrite forallb_forall in SW.
  specialize (SW _ (idx7_in _ He)). rewrite forallb_forall in SW.
  specialize (SW _ Hf). rewrite forallb_forall in SW.
  specialize (SW _ (all_modes_in (tmode (cton c)))).
  apply andb_prop in SW. destruct SW as [S1 S2].
  apply olist_eqb_eq in S1. apply olist_eqb_eq in S2.
  rewrite (as_shift c f Hx) at 1 3.
  destruct (chord_pitches_equivariant (origin (celem c) f (tmode (cton c))) (tdeg (cton c)) (toct (cton c)) (coct c)) as [E1 E2].
  rewrite E1, E2, S1, S2.
  set (c0 := origin (celem c) f (tmode (cton c))).
  assert (D : forall j, chord_deg c j = chord_deg c0 j + shift_amount (tdeg (cton c)) (toct (cton c)) (coct c)).
  { intros j. rewrite (as_shift c f Hx) at 1. apply chord_deg_shift. }
  split; [destruct (root_degs f) | destruct (bass_degs f)]; cbn [option_map]; try reflexivity;
    f_equal; rewrite map_map; apply map_ext; intros; symmetry; apply D.
Qed.

(* ---------- chord-tone and bass-tone notes ---------- *)
Lemma chord_note_walk (n : pnote) (cp : list Z) : cp <> [] ->
  value_to_scale (pval n + zlen cp * poct n) cp = Some (arp_pitch cp (pval n) (poct n)).
Proof. intros H. apply value_to_scale_arp. exact H. Qed.

(* ---------- one note octave = 12, for every pitched non-relative kind ---------- *)
Definition with_oct (n : pnote) (k : Z) : pnote :=
  mkP (pkind n) (pdir n) (pval n) (poct n + k) (pmode n) (pacc n).

Lemma value_to_scale_octave v l k p : value_to_scale v l = Some p ->
  value_to_scale (v + zlen l * k) l = Some (p + 12 * k).
Proof.
  unfold value_to_scale. destruct (zlen l =? 0) eqn:E; [discriminate|].
  intros H. assert (Hp : p = znth l (v mod zlen l) + 12 * (v / zlen l)) by congruence. rewrite Hp.
  rewrite (Z.mul_comm (zlen l) k), Z.mod_add, Z.div_add by lia. apply f_equal. ring.
Qed.

Lemma pitch_basic_octave c n k p : pitch_basic c n = Some p ->
  pitch_basic c (with_oct n k) = Some (p + 12 * k).
Proof.
  unfold pitch_basic, with_oct, real_chord. cbn [pmode pkind pacc pval poct].
  destruct (chord_scale _) as [sp|] eqn:Esp; [|discriminate]. cbn [obind].
  assert (L7 : zlen sp = 7) by (unfold zlen; rewrite (chord_scale_length _ _ Esp); reflexivity).
  destruct (pkind n); try discriminate.
  - destruct (pacc n).
    + destruct (ACCIDENTS_TO_NOTE _ _) as [z|]; [|discriminate]. cbn [obind]. intros H.
      assert (Hp : p = znth sp 0 + z + 12 * poct n) by congruence. rewrite Hp. apply f_equal. ring.
    + intros H. replace (pval n + 7 * (poct n + k)) with (pval n + 7 * poct n + zlen sp * k) by (rewrite L7; ring).
      apply value_to_scale_octave. exact H.
  - intros H. replace (pval n + 12 * (poct n + k)) with (pval n + 12 * poct n + zlen (range12 (znth sp 0)) * k)
      by (change (zlen (range12 (znth sp 0))) with 12; ring).
    apply value_to_scale_octave. exact H.
  - intros H. replace (pval n + 12 * (poct n + k)) with (pval n + 12 * poct n + zlen (range12 0) * k)
      by (change (zlen (range12 0)) with 12; ring).
    apply value_to_scale_octave. exact H.
  - intros H. replace (pval n + 12 * (poct n + k)) with (pval n + 12 * poct n + zlen (range12 0) * k)
      by (change (zlen (range12 0)) with 12; ring).
    apply value_to_scale_octave. exact H.
Qed.

Lemma to_pitch_note_octave c n k p : to_pitch_abs c n = Some (Some p) ->
  to_pitch_abs c (with_oct n k) = Some (Some (p + 12 * k)).
Proof.
  unfold to_pitch_abs. cbn [with_oct pkind pval poct].
  destruct (pkind n) eqn:K; try discriminate.
  - destruct (pitch_basic c n) eqn:E; [|discriminate]. intros [= <-].
    rewrite (pitch_basic_octave _ _ k _ E). reflexivity.
  - destruct (pitch_basic c n) eqn:E; [|discriminate]. intros [= <-].
    rewrite (pitch_basic_octave _ _ k _ E). reflexivity.
  - destruct (chord_pitches c) as [cp|]; [|discriminate]. cbn [obind].
    destruct (value_to_scale _ cp) eqn:E; [|discriminate]. intros [= <-].
    replace (pval n + zlen cp * (poct n + k)) with (pval n + zlen cp * poct n + zlen cp * k) by ring.
    rewrite (value_to_scale_octave _ _ k _ E). reflexivity.
  - destruct (chord_extension_pitches c) as [cp|]; [|discriminate]. cbn [obind].
    destruct (value_to_scale _ cp) eqn:E; [|discriminate]. intros [= <-].
    replace (pval n + zlen cp * (poct n + k)) with (pval n + zlen cp * poct n + zlen cp * k) by ring.
    rewrite (value_to_scale_octave _ _ k _ E). reflexivity.
  - destruct (pitch_basic c n) eqn:E; [|discriminate]. intros [= <-].
    rewrite (pitch_basic_octave _ _ k _ E). reflexivity.
Qed.

(* ---------- tonality degree/octave and chord octave move every chord-relative pitch ---------- *)
Lemma to_pitch_equivariant c a b d n p :
  (pkind n = KS \/ pkind n = KH \/ pkind n = KC \/ pkind n = KB) ->
  to_pitch_abs c n = Some (Some p) ->
  to_pitch_abs (shift_chord c a b d) n = Some (Some (p + shift_amount a b d)).
Proof.
  intros K. unfold to_pitch_abs.
  destruct (chord_pitches_equivariant c a b d) as [E1 E2].
  destruct K as [K|[K|[K|K]]]; rewrite K.
  - rewrite pitch_basic_shift by (unfold is_sh; rewrite K; reflexivity).
    destruct (pitch_basic c n); [|discriminate]. cbn [option_map]. intros [= <-]. reflexivity.
  - rewrite pitch_basic_shift by (unfold is_sh; rewrite K; reflexivity).
    destruct (pitch_basic c n); [|discriminate]. cbn [option_map]. intros [= <-]. reflexivity.
  - rewrite E1. destruct (chord_pitches c) as [cp|]; [|discriminate]. cbn [option_map obind].
    rewrite zlen_map, value_to_scale_shift.
    destruct (value_to_scale _ cp); [|discriminate]. cbn [option_map]. intros [= <-]. reflexivity.
  - rewrite E2. destruct (chord_extension_pitches c) as [cp|]; [|discriminate]. cbn [option_map obind].
    rewrite zlen_map, value_to_scale_shift.
    destruct (value_to_scale _ cp); [|discriminate]. cbn [option_map]. intros [= <-]. reflexivity.
Qed.

Lemma to_pitch_absolute_invariant c a b d n : elem_ok c -> pkind n = KA ->
  to_pitch_abs (shift_chord c a b d) n = to_pitch_abs c n.
Proof.
  intros H K. unfold to_pitch_abs. rewrite K.
  rewrite !pitch_basic_absolute; auto.
Qed.

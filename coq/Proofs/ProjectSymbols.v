(* C13: projection without voice leading keeps every written note symbol: each note of the result is a note of the source with
   its pitch notation (kind, direction, value, octave, mode, accidental) and dynamics unchanged - possibly shortened -, or the
   continuation of a note cut at a target chord boundary, or a rest filling a chord where the part is absent. *)
From ML Require Import Model.Types gen.Tables Model.Pitch Model.Rel Model.Render Model.Slice Model.Project.
From ML Require Import Proofs.RenderProofs Proofs.SliceProofs.
From Coq Require Import Lia.
Open Scope Z_scope.
Open Scope list_scope.

Definition notes_of_score (s : rscore) : list tnote := flat_map (fun c => flat_map snd (rparts c)) s.

(* same written symbol and dynamics; only the duration may differ *)
Definition like (n x : tnote) : Prop := tn x = tn n /\ tamp x = tamp n.
Definition from_source (src : list tnote) (x : tnote) : Prop :=
  like (silence 0) x \/ like (continuation 0) x \/ (exists n, In n src /\ like n x).

Lemma from_source_mono a b x : (forall n, In n a -> In n b) -> from_source a x -> from_source b x.
Proof. intros H [S|[C|(n & Hn & E)]]; [left; exact S|right; left; exact C|right; right; exists n; split; [apply H; exact Hn|exact E]]. Qed.


(* a window of a melody: continuations and shortened notes of the melody *)
Lemma mel_between_symbols v : forall t a b r, mel_between v t a b = Some r -> Forall (from_source v) r.
Proof.
  induction v as [|n v IH]; intros t a b r H; cbn [mel_between] in H; [injection H as <-; constructor|]. cbv zeta in H.
  assert (Tl : forall r', Forall (from_source v) r' -> Forall (from_source (n :: v)) r').
  { intros r'. apply Forall_impl. intros x. apply from_source_mono. intros y Hy. right. exact Hy. }
  destruct (b <=? t); [injection H as <-; constructor|].
  destruct ((t <? a) && (t + tdur n <=? a)); [exact (Tl _ (IH _ _ _ _ H))|].
  set (d1 := if b <=? t + tdur n then b - t else tdur n) in *.
  set (d2 := if t <? a then d1 - (a - t) else d1) in *.
  set (x := if t <? a then continuation d2 else with_dur n d1) in *.
  assert (Hx : from_source (n :: v) x).
  { unfold x. destruct (t <? a); [right; left; split; reflexivity|]. right. right. exists n. split; [left; reflexivity|split; reflexivity]. }
  destruct (d2 <? 0); [discriminate|].
  destruct (b <=? t + tdur n).
  - injection H as <-. constructor; [exact Hx|constructor].
  - destruct (mel_between v _ a b) as [r'|] eqn:E; [|discriminate]. injection H as <-.
    constructor; [exact Hx|exact (Tl _ (IH _ _ _ _ E))].
Qed.

Lemma omap_parts_symbols a b : forall ps ps', omap_parts (fun v => mel_between v 0 a b) ps = Some ps' ->
  Forall (from_source (flat_map snd ps)) (flat_map snd ps').
Proof.
  induction ps as [|[k v] r IH]; intros ps' H; cbn [omap_parts] in H; [injection H as <-; constructor|].
  destruct (mel_between v 0 a b) as [v'|] eqn:E; [|discriminate]. cbn [obind] in H.
  destruct (omap_parts _ r) as [r'|] eqn:Er; [|discriminate]. injection H as <-. cbn [flat_map snd].
  apply Forall_app. split.
  - eapply Forall_impl; [|exact (mel_between_symbols _ _ _ _ _ E)]. intros x. apply from_source_mono. intros y Hy. apply in_or_app. left. exact Hy.
  - eapply Forall_impl; [|exact (IH _ eq_refl)]. intros x. apply from_source_mono. intros y Hy. apply in_or_app. right. exact Hy.
Qed.

Lemma filter_flat_subset (f : string * list tnote -> bool) ps x : In x (flat_map snd (filter f ps)) -> In x (flat_map snd ps).
Proof.
  induction ps as [|p r IH]; [intros []|]. cbn [filter]. destruct (f p); cbn [flat_map]; intros H.
  - apply in_app_or in H. apply in_or_app. destruct H as [H|H]; [left; exact H|right; exact (IH H)].
  - apply in_or_app. right. exact (IH H).
Qed.

Lemma chord_between_symbols c a b c' : chord_between c a b = Some c' ->
  rc c' = rc c /\ Forall (from_source (flat_map snd (rparts c))) (flat_map snd (rparts c')).
Proof.
  unfold chord_between. destruct (rparts c) as [|p ps] eqn:E.
  - intros H. injection H as <-. split; [reflexivity|]. cbn. constructor; [left; split; reflexivity|constructor].
  - destruct (omap_parts _ (p :: ps)) as [ps'|] eqn:Eo; [|discriminate]. cbn [obind]. intros H. injection H as <-. split; [reflexivity|].
    cbn [rparts]. pose proof (omap_parts_symbols a b _ _ Eo) as F. rewrite Forall_forall in F. apply Forall_forall. intros x Hx.
    apply F. unfold drop_empty_drums in Hx. exact (filter_flat_subset _ _ _ Hx).
Qed.

Lemma score_between_symbols s : forall t a b r, score_between s t a b = Some r ->
  Forall (from_source (notes_of_score s)) (notes_of_score r).
Proof.
  induction s as [|c s IH]; intros t a b r H; cbn [score_between] in H; [injection H as <-; constructor|]. cbv zeta in H.
  assert (Tl : forall r', Forall (from_source (notes_of_score s)) r' -> Forall (from_source (notes_of_score (c :: s))) r').
  { intros r'. apply Forall_impl. intros x. apply from_source_mono. intros y Hy. unfold notes_of_score. cbn [flat_map]. apply in_or_app. right. exact Hy. }
  assert (Hd : forall l, Forall (from_source (flat_map snd (rparts c))) l -> Forall (from_source (notes_of_score (c :: s))) l).
  { intros l. apply Forall_impl. intros x. apply from_source_mono. intros y Hy. unfold notes_of_score. cbn [flat_map]. apply in_or_app. left. exact Hy. }
  destruct (t + rchord_dur c <=? a); [exact (Tl _ (IH _ _ _ _ H))|].
  destruct (b <=? t); [injection H as <-; constructor|].
  destruct ((t + rchord_dur c <? b) && (a <=? t)).
  - destruct (score_between s _ a b) as [r'|] eqn:E; [|discriminate]. injection H as <-.
    unfold notes_of_score at 2. cbn [flat_map]. apply Forall_app. split; [|exact (Tl _ (IH _ _ _ _ E))].
    apply Hd. apply Forall_forall. intros x Hx. right. right. exists x. split; [exact Hx|split; reflexivity].
  - destruct (chord_between c (a - t) (b - t)) as [c'|] eqn:Ec; [|discriminate]. cbn [obind] in H.
    destruct (score_between s _ a b) as [r'|] eqn:E; [|discriminate]. injection H as <-.
    unfold notes_of_score at 2. cbn [flat_map]. apply Forall_app. split; [|exact (Tl _ (IH _ _ _ _ E))].
    apply Hd. exact (proj2 (chord_between_symbols _ _ _ _ Ec)).
Qed.

(* put on one chord: the notes of the window, and a rest where a part is absent *)
Lemma part_over_symbols sub ins : Forall (from_source (notes_of_score sub)) (part_over sub ins).
Proof.
  unfold part_over. apply Forall_forall. intros x Hx. apply in_flat_map in Hx. destruct Hx as (c & Hc & Hx).
  destruct (plook ins (rparts c)) as [m|] eqn:P.
  - right. right. exists x. split; [|split; reflexivity]. unfold notes_of_score. apply in_flat_map. exists c. split; [exact Hc|].
    apply in_flat_map. clear - P Hx. induction (rparts c) as [|[k v] l IH]; cbn [plook] in P; [discriminate|].
    destruct (String.eqb ins k).
    + injection P as ->. exists (k, m). split; [left; reflexivity|exact Hx].
    + destruct (IH P) as (q & Hq & Hin). exists q. split; [right; exact Hq|exact Hin].
  - destruct Hx as [<-|[]]. left. split; reflexivity.
Qed.

Lemma from_source_trans a b x : Forall (from_source a) b -> from_source b x -> from_source a x.
Proof.
  intros F [S|[C|(n & Hn & E1 & E2)]]; [left; exact S|right; left; exact C|].
  rewrite Forall_forall in F. destruct (F n Hn) as [[M1 M2]|[[M1 M2]|(m & Hm & M1 & M2)]].
  - left. split; congruence.
  - right. left. split; congruence.
  - right. right. exists m. split; [exact Hm|split; congruence].
Qed.

(* the projection: every note of every result chord comes from the source *)
Theorem project_symbols s : forall g start r, project_loop s g start false = Some r ->
  Forall (from_source (notes_of_score s)) (notes_of_score r).
Proof.
  induction g as [|c2 g IH]; intros start r H; cbn [project_loop] in H; [injection H as <-; constructor|]. cbv zeta in H.
  destruct (score_between s 0 start (start + rchord_dur c2)) as [sub|] eqn:E; [|discriminate]. cbn [obind] in H.
  destruct sub as [|c0 sub']; [injection H as <-; constructor|].
  cbn [put_on_same_chord obind] in H.
  destruct (project_loop s g (start + rchord_dur c2) false) as [rest|] eqn:Er; [|discriminate]. injection H as <-.
  unfold notes_of_score at 2. cbn [flat_map rparts]. apply Forall_app. split; [|exact (IH _ _ Er)].
  pose proof (score_between_symbols s 0 start (start + rchord_dur c2) _ E) as Fs.
  apply Forall_forall. intros x Hx. apply in_flat_map in Hx. destruct Hx as ((ins & part) & Hp & Hx). cbn [snd] in Hx.
  apply in_map_iff in Hp. destruct Hp as (ins' & Ep & _). injection Ep as _ <-.
  apply (from_source_trans _ _ _ Fs). pose proof (part_over_symbols (c0 :: sub') ins') as Po. rewrite Forall_forall in Po. exact (Po x Hx).
Qed.

From ML Require Import Model.Types Proofs.PcsDefs.
Lemma sweep_5 : sweep_elem 5 = true.
Proof. vm_compute. reflexivity. Qed.

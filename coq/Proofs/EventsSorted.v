From ML Require Import Model.Types gen.Tables Model.Pitch Model.Rel Model.Render.
From Coq Require Import QArith Sorting.Sorted List.
Import ListNotations.
Open Scope Q_scope.

Section SortQ.
Context {A : Type} (key : A -> Q).
Definition le_key (a b : A) : Prop := key a <= key b.

Lemma insert_q_hd x y l : HdRel le_key y l -> key y <= key x -> HdRel le_key y (insert_q key x l).
Proof.
  intros H Hxy. destruct l as [|z l]; cbn [insert_q]; [constructor; exact Hxy|].
  destruct (Qle_bool (key x) (key z)); constructor; [exact Hxy|]. inversion H; assumption.
Qed.

Lemma insert_q_sorted x l : Sorted le_key l -> Sorted le_key (insert_q key x l).
Proof.
  induction 1 as [|y l Hs IH Hd]; cbn [insert_q]; [repeat constructor|].
  destruct (Qle_bool (key x) (key y)) eqn:E.
  - apply Qle_bool_iff in E. constructor; [constructor; assumption|constructor; exact E].
  - assert (L : key y <= key x).
    { apply Qlt_le_weak. apply Qnot_le_lt. intros C. apply Qle_bool_iff in C. congruence. }
    constructor; [exact IH|]. apply insert_q_hd; assumption.
Qed.

Theorem sort_q_sorted l : Sorted le_key (sort_q key l).
Proof. induction l as [|x l IH]; cbn [sort_q fold_right]; [constructor|]. apply insert_q_sorted. exact IH. Qed.
End SortQ.

Theorem to_events_sorted sc tpq tempo rows : Sorted (le_key e_off) (matrix_to_events sc tpq tempo rows).
Proof. unfold matrix_to_events. apply sort_q_sorted. Qed.

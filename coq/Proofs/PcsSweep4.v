From ML Require Import Model.Types Proofs.PcsDefs.
Lemma sweep_4 : sweep_elem 4 = true.
Proof. vm_compute. reflexivity. Qed.

From ML Require Import Model.Types Model.Roman.
From Coq Require Import Lia ZifyBool.
Open Scope Z_scope.
Open Scope list_scope.

Definition total (s : cstate) : Z := fold_right Z.add 0 (cs_chords s).

Definition no_sig (t : token) : bool := match t with TSig _ => false | _ => true end.

(* after at least one chord, with a constant bar length L: the chord in progress lasts to the end of its bar, and
   the chords before it fill exactly the time from the first chord (bar b0, beat = pickup) to its start *)
Definition Inv (L b0 : Z) (s : cstate) : Prop :=
  cs_any s = true /\ cs_L s = L /\ cs_prevL s = L /\
  exists rest, cs_chords s = (L - snd (cs_started s)) :: rest /\
               fold_right Z.add 0 rest = L * (fst (cs_started s) - b0) + snd (cs_started s) - cs_pickup s.

Lemma step_inv L b0 s t : no_sig t = true -> Inv L b0 s -> Inv L b0 (step s t).
Proof.
  intros Ht (Ha & HL & HP & rest & Hc & Hs). destruct t; try discriminate; cbn [step].
  - repeat split; cbn; auto. exists rest. split; assumption.
  - repeat split; cbn; auto. exists rest. split; assumption.
  - rewrite Ha, Hc, HP. cbn [negb andb]. repeat split; cbn [cs_any cs_L cs_prevL]; auto.
    cbn [cs_chords cs_started cs_pickup fst snd]. rewrite HL.
    destruct (L * (cs_bar s - fst (cs_started s)) + (cs_beat s - snd (cs_started s)) =? 0) eqn:E.
    + exists rest. split; [reflexivity|]. lia.
    + eexists. split; [reflexivity|]. cbn [fold_right]. lia.
Qed.

Lemma run_inv L b0 toks : forall s, forallb no_sig toks = true -> Inv L b0 s -> Inv L b0 (fold_left step toks s).
Proof.
  induction toks as [|t toks IH]; intros s Hn Hi; [exact Hi|]. cbn [forallb] in Hn. apply andb_prop in Hn.
  cbn [fold_left]. apply IH; [tauto|]. apply step_inv; tauto.
Qed.

(* the bar and beat at which the first chord symbol is met *)
Fixpoint first_chord (bar beat : Z) (toks : list token) : option (Z * Z) :=
  match toks with
  | [] => None
  | TBar k :: r => first_chord k 0 r
  | TBeat p :: r => first_chord bar (if p <=? beat then beat else p) r
  | TChord :: _ => Some (bar, beat)
  | TSig _ :: r => first_chord bar beat r
  end.

Lemma run_from_start L toks : forall s b0 p0, forallb no_sig toks = true ->
  cs_any s = false -> cs_chords s = [] -> cs_pickup s = 0 -> cs_L s = L -> cs_prevL s = L -> 0 <= cs_beat s ->
  first_chord (cs_bar s) (cs_beat s) toks = Some (b0, p0) ->
  Inv L b0 (fold_left step toks s) /\ cs_pickup (fold_left step toks s) = p0.
Proof.
  induction toks as [|t toks IH]; intros s b0 p0 Hn Ha Hc Hp HL HP Hb Hf; [discriminate|].
  cbn [forallb] in Hn. apply andb_prop in Hn. destruct Hn as [Ht Hn]. cbn [fold_left].
  destruct t; try discriminate; cbn [first_chord] in Hf.
  - apply IH; cbn [step cs_any cs_chords cs_pickup cs_L cs_prevL cs_bar cs_beat]; auto. lia.
  - destruct (pos <=? cs_beat s) eqn:E;
      apply IH; cbn [step cs_any cs_chords cs_pickup cs_L cs_prevL cs_bar cs_beat]; rewrite ?E; auto; lia.
  - injection Hf as <- <-.
    assert (I0 : Inv L (cs_bar s) (step s TChord) /\ cs_pickup (step s TChord) = cs_beat s).
    { cbn [step]. rewrite Ha, Hc. cbn [negb andb]. split.
      - repeat split; cbn [cs_any cs_L cs_prevL]; auto. exists []. cbn [cs_chords cs_started cs_pickup fst snd fold_right].
        split; [rewrite HL; reflexivity|]. destruct (0 <? cs_beat s) eqn:E; lia.
      - cbn [cs_pickup]. destruct (0 <? cs_beat s) eqn:E; lia. }
    destruct I0 as [I0 P0]. split; [apply run_inv; assumption|].
    (* the pickup is not touched once a chord exists *)
    clear -Hn I0 P0. revert I0 P0. generalize (step s TChord). induction toks as [|t toks IH]; intros s' I0 P0; [exact P0|].
    cbn [forallb] in Hn. apply andb_prop in Hn. destruct Hn as [Ht Hn]. cbn [fold_left].
    apply IH; [exact Hn|apply step_inv; assumption|].
    destruct I0 as (Ha' & _). destruct t; try discriminate; cbn [step cs_pickup]; auto. rewrite Ha'. exact P0.
Qed.

(* total duration = number of bars from the first to the last chord symbol, times the bar length, minus the pickup *)
Theorem annotation_total L toks b0 p0 : forallb no_sig toks = true -> 0 < L ->
  first_chord 0 0 toks = Some (b0, p0) ->
  let s := run_tokens L toks in
  total s = L * (fst (cs_started s) - b0 + 1) - p0 /\ cs_pickup s = p0.
Proof.
  intros Hn HL Hf s. unfold s, run_tokens.
  destruct (run_from_start L toks (mkCS L L true 0 0 (0, 0) [] false 0) b0 p0 Hn eq_refl eq_refl eq_refl eq_refl eq_refl
             ltac:(cbn; lia) Hf) as [(Ha & _ & _ & rest & Hc & Hs) Hp].
  split; [|exact Hp]. unfold total. rewrite Hc. cbn [fold_right]. rewrite Hs, Hp. lia.
Qed.

(* C12, content of a window: get_melody_between returns exactly the notes of the part that overlap [a, b), each clipped to the
   window, a note already sounding at a becoming a continuation - stated as a map over the part's timeline (no loop state). *)
From ML Require Import Model.Types gen.Tables Model.Pitch Model.Rel Model.Render Model.Slice Proofs.SliceProofs.
From Coq Require Import Lia ZifyBool.
Open Scope Z_scope.
Open Scope list_scope.

(* what the window [a, b) keeps of a note that starts at t *)
Definition clip (a b t : Z) (n : tnote) : option tnote :=
  let s := Z.max t a in let e := Z.min (t + tdur n) b in
  if s <? e then Some (if t <? a then continuation (e - s) else with_dur n (e - s)) else None.

Fixpoint clip_list (v : list tnote) (t a b : Z) : list tnote :=
  match v with
  | [] => []
  | n :: r => (match clip a b t n with Some x => [x] | None => [] end) ++ clip_list r (t + tdur n) a b
  end.

Definition positive (v : list tnote) : Prop := Forall (fun n => 0 < tdur n) v.

Lemma clip_list_after v : forall t a b, positive v -> b <= t -> clip_list v t a b = [].
Proof.
  induction v as [|n v IH]; intros t a b Hv Hb; [reflexivity|]. inversion Hv as [|? ? Hn Hr]; subst. cbn [clip_list].
  rewrite (IH (t + tdur n) a b Hr ltac:(lia)). unfold clip. cbv zeta.
  destruct (Z.max t a <? Z.min (t + tdur n) b) eqn:E; [lia|reflexivity].
Qed.

Theorem mel_between_content v : forall t a b, positive v -> a < b -> mel_between v t a b = Some (clip_list v t a b).
Proof.
  induction v as [|n v IH]; intros t a b Hv Hab; [reflexivity|]. inversion Hv as [|? ? Hn Hr]; subst.
  cbn [mel_between clip_list]. cbv zeta.
  destruct (b <=? t) eqn:E1.
  - (* the window is over *)
    rewrite (clip_list_after v (t + tdur n) a b Hr ltac:(lia)). unfold clip. cbv zeta.
    destruct (Z.max t a <? Z.min (t + tdur n) b) eqn:E; [lia|reflexivity].
  - destruct ((t <? a) && (t + tdur n <=? a)) eqn:E2.
    + (* the note ends before the window *)
      rewrite (IH (t + tdur n) a b Hr Hab). unfold clip. cbv zeta.
      destruct (Z.max t a <? Z.min (t + tdur n) b) eqn:E; [lia|reflexivity].
    + (* the note overlaps the window *)
      assert (C : clip a b t n = Some (if t <? a then continuation (Z.min (t + tdur n) b - Z.max t a) else with_dur n (Z.min (t + tdur n) b - Z.max t a))).
      { unfold clip. cbv zeta. destruct (Z.max t a <? Z.min (t + tdur n) b) eqn:E; [reflexivity|lia]. }
      rewrite C. cbn [app].
      destruct (b <=? t + tdur n) eqn:E3.
      * (* ... and reaches its end *)
        rewrite (clip_list_after v (t + tdur n) a b Hr ltac:(lia)).
        destruct (t <? a) eqn:E4.
        -- destruct (b - t - (a - t) <? 0) eqn:E5; [lia|]. do 3 f_equal. lia.
        -- destruct (b - t <? 0) eqn:E5; [lia|]. do 3 f_equal. lia.
      * destruct (t <? a) eqn:E4.
        -- destruct (tdur n - (a - t) <? 0) eqn:E5; [lia|].
           replace (a + (tdur n - (a - t))) with (t + tdur n) by lia. rewrite (IH (t + tdur n) a b Hr Hab). cbn [obind].
           do 3 f_equal. lia.
        -- destruct (tdur n <? 0) eqn:E5; [lia|]. rewrite (IH (t + tdur n) a b Hr Hab). cbn [obind]. do 3 f_equal. lia.
Qed.

(* every kept note lies inside the window and keeps what it was: pitch, dynamics, kind - or is the continuation of the note cut at a *)
Lemma clip_some a b t n x : clip a b t n = Some x ->
  0 < tdur x /\ tdur x = Z.min (t + tdur n) b - Z.max t a /\ (a <= t -> tn x = tn n /\ tamp x = tamp n) /\ (t < a -> x = continuation (tdur x)).
Proof.
  unfold clip. cbv zeta. destruct (Z.max t a <? Z.min (t + tdur n) b) eqn:E; [|discriminate]. intros H. injection H as <-.
  destruct (t <? a) eqn:E2; cbn [continuation with_dur tdur tn tamp]; repeat split; try lia; intros; try lia; reflexivity.
Qed.

(* a chord: part by part *)
Lemma omap_parts_content a b : forall ps, Forall (fun p => positive (snd p)) ps -> a < b ->
  omap_parts (fun v => mel_between v 0 a b) ps = Some (map (fun p => (fst p, clip_list (snd p) 0 a b)) ps).
Proof.
  induction ps as [|[k v] r IH]; intros H Hab; [reflexivity|]. inversion H as [|? ? Hv Hr]; subst. cbn [omap_parts map fst snd].
  rewrite (mel_between_content v 0 a b Hv Hab). cbn [obind]. rewrite (IH Hr Hab). reflexivity.
Qed.

Theorem chord_between_content c a b : rparts c <> [] -> Forall (fun p => positive (snd p)) (rparts c) -> a < b ->
  chord_between c a b = Some (mkRC (rc c) (drop_empty_drums (map (fun p => (fst p, clip_list (snd p) 0 a b)) (rparts c)))).
Proof.
  intros Hne Hp Hab. unfold chord_between. destruct (rparts c) as [|p ps] eqn:E; [congruence|].
  rewrite (omap_parts_content a b (p :: ps) Hp Hab). reflexivity.
Qed.

(* sort_tags is a function of the tag SET: two lists with the same members (a set listed in any order) print alike *)
From ML Require Import Model.Tags.
From Coq Require Import List String Ascii Sorting.Permutation Sorting.Sorted NArith Lia Bool.
Import ListNotations.

(* ---- String.leb is a total order ---- *)
Lemma ascii_compare_N a b : Ascii.compare a b = N.compare (N_of_ascii a) (N_of_ascii b).
Proof. reflexivity. Qed.

Lemma ascii_compare_eq a b : Ascii.compare a b = Eq <-> a = b.
Proof.
  rewrite ascii_compare_N, N.compare_eq_iff. split; [|intros ->; reflexivity].
  intros H. rewrite <- (ascii_N_embedding a), <- (ascii_N_embedding b), H. reflexivity.
Qed.

Lemma ascii_compare_lt_trans a b c : Ascii.compare a b = Lt -> Ascii.compare b c = Lt -> Ascii.compare a c = Lt.
Proof. rewrite !ascii_compare_N, !N.compare_lt_iff. lia. Qed.

Lemma compare_lt_trans : forall s1 s2 s3, String.compare s1 s2 = Lt -> String.compare s2 s3 = Lt -> String.compare s1 s3 = Lt.
Proof.
  induction s1 as [|a s1 IH]; intros [|b s2] [|c s3]; cbn [String.compare]; try discriminate; try reflexivity.
  destruct (Ascii.compare a b) eqn:E1; try discriminate; destruct (Ascii.compare b c) eqn:E2; try discriminate; intros H1 H2.
  - apply ascii_compare_eq in E1, E2. subst. rewrite (proj2 (ascii_compare_eq c c) eq_refl). eapply IH; eassumption.
  - apply ascii_compare_eq in E1. subst. rewrite E2. reflexivity.
  - apply ascii_compare_eq in E2. subst. rewrite E1. reflexivity.
  - rewrite (ascii_compare_lt_trans _ _ _ E1 E2). reflexivity.
Qed.

Lemma compare_refl s : String.compare s s = Eq.
Proof. pose proof (String.compare_antisym s s) as H. destruct (String.compare s s); [reflexivity|discriminate|discriminate]. Qed.

Lemma leb_spec s1 s2 : String.leb s1 s2 = true <-> (String.compare s1 s2 = Lt \/ s1 = s2).
Proof.
  unfold String.leb. destruct (String.compare s1 s2) eqn:E.
  - apply String.compare_eq_iff in E. tauto.
  - tauto.
  - split; [discriminate|]. intros [H|H]; [discriminate|]. subst. rewrite compare_refl in E. discriminate.
Qed.

Lemma leb_trans s1 s2 s3 : String.leb s1 s2 = true -> String.leb s2 s3 = true -> String.leb s1 s3 = true.
Proof.
  rewrite !leb_spec. intros [H1| ->] [H2| ->]; auto. left. eapply compare_lt_trans; eassumption.
Qed.

Lemma leb_refl s : String.leb s s = true.
Proof. apply leb_spec. right. reflexivity. Qed.

(* ---- insertion sort: sorted, a permutation, and canonical ---- *)
Definition le (a b : string) : Prop := String.leb (tag_key a) (tag_key b) = true.

Lemma tag_key_inj a : forall b, tag_key a = tag_key b -> a = b.
Proof.
  unfold tag_key. induction a as [|x a IH]; intros [|y b] H; cbn [String.append] in H.
  - reflexivity.
  - injection H as H1 H2. destruct b; discriminate.
  - injection H as H1 H2. destruct a; discriminate.
  - injection H as H1 H2. subst. f_equal. apply IH. exact H2.
Qed.

Lemma insert_perm x l : Permutation (x :: l) (insert_tag x l).
Proof.
  induction l as [|y r IH]; cbn [insert_tag]; [apply Permutation_refl|].
  destruct (String.leb (tag_key x) (tag_key y)); [apply Permutation_refl|].
  eapply Permutation_trans; [apply perm_swap|]. apply perm_skip. exact IH.
Qed.

Lemma sort_perm l : Permutation l (sort_tags l).
Proof.
  induction l as [|x r IH]; cbn [sort_tags]; [constructor|].
  eapply Permutation_trans; [apply perm_skip; exact IH|apply insert_perm].
Qed.

Lemma insert_sorted x l : StronglySorted le l -> StronglySorted le (insert_tag x l).
Proof.
  induction 1 as [|y r Hs IH Hall]; cbn [insert_tag]; [repeat constructor|].
  destruct (String.leb (tag_key x) (tag_key y)) eqn:E.
  - constructor; [constructor; assumption|]. constructor; [exact E|].
    eapply Forall_impl; [|exact Hall]. intros z Hz. unfold le in *. eapply leb_trans; eassumption.
  - constructor; [exact IH|].
    assert (Hyx : le y x) by (unfold le; destruct (String.leb_total (tag_key x) (tag_key y)) as [H|H]; [rewrite H in E; discriminate|exact H]).
    eapply Permutation_Forall; [apply insert_perm|]. constructor; assumption.
Qed.

Lemma sort_sorted l : StronglySorted le (sort_tags l).
Proof. induction l as [|x r IH]; cbn [sort_tags]; [constructor|apply insert_sorted; exact IH]. Qed.

(* two sorted lists with the same members are the same list *)
Lemma sorted_perm_eq : forall l l', StronglySorted le l -> StronglySorted le l' -> Permutation l l' -> l = l'.
Proof.
  induction l as [|x r IH]; intros l' Hs Hs' Hp.
  - apply Permutation_nil in Hp. subst. reflexivity.
  - destruct l' as [|y r']; [apply Permutation_sym, Permutation_nil in Hp; discriminate|].
    inversion Hs as [|? ? Hsr Hx]; subst. inversion Hs' as [|? ? Hsr' Hy]; subst.
    assert (x = y).
    { assert (Ix : In x (y :: r')) by (eapply Permutation_in; [exact Hp|left; reflexivity]).
      assert (Iy : In y (x :: r)) by (eapply Permutation_in; [apply Permutation_sym; exact Hp|left; reflexivity]).
      destruct Ix as [->|Ix]; [reflexivity|]. destruct Iy as [->|Iy]; [reflexivity|].
      rewrite Forall_forall in Hx, Hy. apply tag_key_inj. apply String.leb_antisym; [apply Hx; exact Iy|apply Hy; exact Ix]. }
    subst. f_equal. apply IH; [assumption|assumption|]. eapply Permutation_cons_inv; exact Hp.
Qed.

Theorem sort_tags_canonical l l' : Permutation l l' -> sort_tags l = sort_tags l'.
Proof.
  intros Hp. apply sorted_perm_eq; [apply sort_sorted|apply sort_sorted|].
  eapply Permutation_trans; [apply Permutation_sym, sort_perm|]. eapply Permutation_trans; [exact Hp|apply sort_perm].
Qed.

(* and nothing is lost or invented: the printed list has exactly the members of the set *)
Theorem sort_tags_members l x : In x (sort_tags l) <-> In x l.
Proof. split; intros H; [eapply Permutation_in; [apply Permutation_sym, sort_perm|exact H]|eapply Permutation_in; [apply sort_perm|exact H]]. Qed.

Theorem sort_tags_idem l : sort_tags (sort_tags l) = sort_tags l.
Proof. apply sort_tags_canonical. apply Permutation_sym, sort_perm. Qed.

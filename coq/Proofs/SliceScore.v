(* C12 at score level: the window [a, b) of a score, read part by part along the chords, is the clip of the part.
   The timeline of a part pairs every note with the chord it is written under; clipping a timeline keeps the notes that
   overlap [a, b), cut to the window, a note already sounding at a becoming a continuation (clip of Proofs/SliceContent.v) -
   each kept note under its own chord.  With it the part-level theorems (window content, cut and re-join sounding the
   same) speak about whole scores: take for the part the timeline of the score. *)
From ML Require Import Model.Types gen.Tables Model.Pitch Model.Rel Model.Render Model.Slice.
From ML Require Import Proofs.RenderProofs Proofs.SliceProofs Proofs.SliceContent.
From Coq Require Import Lia ZifyBool.
Open Scope Z_scope.
Open Scope list_scope.

Definition part_of (track : string) (c : rchord) : list tnote :=
  match plook track (rparts c) with Some p => p | None => [] end.

Definition tl (s : rscore) (track : string) : list (chord * tnote) :=
  concat (map (fun c => map (pair (rc c)) (part_of track c)) s).

Fixpoint cclip (l : list (chord * tnote)) (t a b : Z) : list (chord * tnote) :=
  match l with
  | [] => []
  | (c, n) :: r => (match clip a b t n with Some x => [(c, x)] | None => [] end) ++ cclip r (t + tdur n) a b
  end.

Lemma cclip_notes l : forall t a b, map snd (cclip l t a b) = clip_list (map snd l) t a b.
Proof.
  induction l as [|[c n] r IH]; intros t a b; [reflexivity|]. cbn [cclip map snd clip_list].
  rewrite map_app, IH. destruct (clip a b t n); reflexivity.
Qed.

Lemma cclip_chords l : forall t a b, incl (map fst (cclip l t a b)) (map fst l).
Proof.
  induction l as [|[c n] r IH]; intros t a b; [apply incl_refl|]. cbn [cclip map fst]. rewrite map_app.
  apply incl_app; [destruct (clip a b t n); [apply incl_cons; [left; reflexivity|apply incl_nil_l]|apply incl_nil_l]|].
  apply incl_tl. apply IH.
Qed.

Definition cdur (l : list (chord * tnote)) : Z := part_dur (map snd l).

Lemma cclip_app l1 l2 : forall t a b, cclip (l1 ++ l2) t a b = cclip l1 t a b ++ cclip l2 (t + cdur l1) a b.
Proof.
  induction l1 as [|[c n] r IH]; intros t a b.
  - cbn [app cclip]. unfold cdur. cbn [map]. rewrite part_dur_nil, Z.add_0_r. reflexivity.
  - cbn [app cclip]. rewrite IH, <- app_assoc. unfold cdur. cbn [map snd]. rewrite part_dur_cons, Z.add_assoc. reflexivity.
Qed.

Definition cpositive (l : list (chord * tnote)) : Prop := Forall (fun p => 0 < tdur (snd p)) l.

Lemma cdur_nonneg l : cpositive l -> 0 <= cdur l.
Proof.
  unfold cdur. induction 1 as [|[c n] l Hn _ IH]; cbn [map snd]; [rewrite part_dur_nil; lia|]. rewrite part_dur_cons. cbn [snd] in Hn. lia.
Qed.

Lemma cclip_before l : forall t a b, cpositive l -> t + cdur l <= a -> cclip l t a b = [].
Proof.
  induction l as [|[c n] r IH]; intros t a b Hp Hle; [reflexivity|]. inversion Hp as [|? ? Hn Hr]; subst. cbn [snd] in Hn.
  unfold cdur in Hle. cbn [map snd] in Hle. rewrite part_dur_cons in Hle. pose proof (cdur_nonneg r Hr) as Nr. unfold cdur in Nr.
  cbn [cclip]. rewrite (IH (t + tdur n) a b Hr ltac:(unfold cdur; lia)). unfold clip. cbv zeta.
  destruct (Z.max t a <? Z.min (t + tdur n) b) eqn:E; [lia|reflexivity].
Qed.

Lemma cclip_after l : forall t a b, cpositive l -> b <= t -> cclip l t a b = [].
Proof.
  induction l as [|[c n] r IH]; intros t a b Hp Hle; [reflexivity|]. inversion Hp as [|? ? Hn Hr]; subst. cbn [snd] in Hn.
  cbn [cclip]. rewrite (IH (t + tdur n) a b Hr ltac:(lia)). unfold clip. cbv zeta.
  destruct (Z.max t a <? Z.min (t + tdur n) b) eqn:E; [lia|reflexivity].
Qed.

Lemma with_dur_id n : with_dur n (tdur n) = n. Proof. destruct n; reflexivity. Qed.

Lemma cclip_inside l : forall t a b, cpositive l -> a <= t -> t + cdur l <= b -> cclip l t a b = l.
Proof.
  induction l as [|[c n] r IH]; intros t a b Hp Ha Hb; [reflexivity|]. inversion Hp as [|? ? Hn Hr]; subst. cbn [snd] in Hn.
  unfold cdur in Hb. cbn [map snd] in Hb. rewrite part_dur_cons in Hb. pose proof (cdur_nonneg r Hr) as Nr. unfold cdur in Nr.
  cbn [cclip]. rewrite (IH (t + tdur n) a b Hr ltac:(lia) ltac:(unfold cdur; lia)). unfold clip. cbv zeta.
  assert (E : (Z.max t a <? Z.min (t + tdur n) b) = true) by lia. rewrite E.
  assert (E2 : (t <? a) = false) by lia. rewrite E2.
  replace (Z.min (t + tdur n) b - Z.max t a) with (tdur n) by lia. rewrite with_dur_id. reflexivity.
Qed.

(* clipping is invariant under translation of the clock *)
Lemma clip_shift a b t k n : clip (a - k) (b - k) (t - k) n = clip a b t n.
Proof.
  unfold clip. cbv zeta.
  replace (Z.max (t - k) (a - k)) with (Z.max t a - k) by lia.
  replace (Z.min (t - k + tdur n) (b - k)) with (Z.min (t + tdur n) b - k) by lia.
  replace (Z.max t a - k <? Z.min (t + tdur n) b - k) with (Z.max t a <? Z.min (t + tdur n) b) by lia.
  replace (t - k <? a - k) with (t <? a) by lia.
  replace (Z.min (t + tdur n) b - k - (Z.max t a - k)) with (Z.min (t + tdur n) b - Z.max t a) by lia. reflexivity.
Qed.

Lemma clip_list_shift v : forall t a b k, clip_list v (t - k) (a - k) (b - k) = clip_list v t a b.
Proof.
  induction v as [|n v IH]; intros t a b k; [reflexivity|]. cbn [clip_list]. rewrite clip_shift.
  replace (t - k + tdur n) with (t + tdur n - k) by lia. rewrite IH. reflexivity.
Qed.

Lemma cclip_pairs c v : forall t a b, cclip (map (pair c) v) t a b = map (pair c) (clip_list v t a b).
Proof.
  induction v as [|n v IH]; intros t a b; [reflexivity|]. cbn [map cclip clip_list]. rewrite map_app, IH.
  destruct (clip a b t n); reflexivity.
Qed.

(* the part of a track in the window of a chord *)
Lemma plook_map {B C} (f : B -> C) track : forall ps, plook track (map (fun p => (fst p, f (snd p))) ps) = option_map f (plook track ps).
Proof.
  induction ps as [|[k v] r IH]; [reflexivity|]. cbn [map plook fst snd]. destruct (String.eqb track k); [reflexivity|exact IH].
Qed.

Lemma plook_drop track : String.prefix "drums" track = false ->
  forall ps, plook track (drop_empty_drums ps) = plook track ps.
Proof.
  intros Hd. unfold drop_empty_drums. induction ps as [|[k v] r IH]; [reflexivity|]. cbn [filter fst snd plook].
  destruct (String.eqb track k) eqn:E.
  - apply String.eqb_eq in E. subst k. rewrite Hd. cbn [andb negb plook]. rewrite String.eqb_refl. reflexivity.
  - destruct (negb _); [cbn [plook]; rewrite E; exact IH|exact IH].
Qed.

(* a score whose chords have parts that last them, with positive note lengths; the track is not a drum part and is
   present in every chord *)
Definition clean_score (s : rscore) (track : string) : Prop :=
  Forall (fun c => rparts c <> [] /\ Forall (fun p => positive (snd p)) (rparts c) /\
                   exists part, plook track (rparts c) = Some part /\ part_dur part = rchord_dur c) s.

Lemma tl_cons c s track : tl (c :: s) track = map (pair (rc c)) (part_of track c) ++ tl s track.
Proof. reflexivity. Qed.

Lemma tl_positive s track : clean_score s track -> cpositive (tl s track).
Proof.
  induction 1 as [|c s (Hne & Hp & part & P & D) _ IH]; [constructor|]. rewrite tl_cons. apply Forall_app. split; [|exact IH].
  unfold part_of. rewrite P.
  assert (Pp : positive part).
  { clear - Hp P. induction (rparts c) as [|[k v] r IHr]; [discriminate|]. cbn [plook] in P. inversion Hp as [|? ? Hv Hr]; subst.
    destruct (String.eqb track k); [injection P as <-; exact Hv|exact (IHr Hr P)]. }
  clear - Pp. induction Pp as [|n l Hn _ IHl]; cbn [map]; constructor; [exact Hn|exact IHl].
Qed.

Lemma cdur_pairs c v : cdur (map (pair c) v) = part_dur v.
Proof. unfold cdur. rewrite map_map. cbn [snd]. rewrite map_id. reflexivity. Qed.

Theorem score_between_timeline track : String.prefix "drums" track = false ->
  forall s t a b w, clean_score s track -> a < b ->
  score_between s t a b = Some w -> tl w track = cclip (tl s track) t a b.
Proof.
  intros Hd. induction s as [|c s IH]; intros t a b w Hs Hab H.
  - cbn in H. injection H as <-. reflexivity.
  - inversion Hs as [|? ? (Hne & Hp & part & P & D) Hr]; subst. cbn [score_between] in H. cbv zeta in H.
    rewrite tl_cons, cclip_app, cdur_pairs. unfold part_of. rewrite P, D.
    assert (Pp : cpositive (map (pair (rc c)) part)).
    { pose proof (tl_positive [c] track ltac:(constructor; [repeat split; [exact Hne|exact Hp|exists part; split; assumption]|constructor])) as T.
      unfold tl in T. cbn [map concat] in T. rewrite app_nil_r in T. unfold part_of in T. rewrite P in T. exact T. }
    assert (Cd : cdur (map (pair (rc c)) part) = rchord_dur c) by (rewrite cdur_pairs; exact D).
    destruct (t + rchord_dur c <=? a) eqn:E1.
    + rewrite (cclip_before _ t a b Pp ltac:(lia)). cbn [app]. exact (IH _ _ _ _ Hr Hab H).
    + destruct (b <=? t) eqn:E2.
      * injection H as <-. rewrite (cclip_after _ t a b Pp ltac:(lia)).
        rewrite (cclip_after _ _ a b (tl_positive s track Hr)); [reflexivity|].
        pose proof (cdur_nonneg _ Pp). lia.
      * destruct ((t + rchord_dur c <? b) && (a <=? t)) eqn:E3.
        -- destruct (score_between s (t + rchord_dur c) a b) as [r'|] eqn:R; [|discriminate]. cbn [obind] in H. injection H as <-.
           rewrite tl_cons. unfold part_of. rewrite P. rewrite (cclip_inside _ t a b Pp ltac:(lia) ltac:(lia)).
           rewrite (IH _ _ _ _ Hr Hab R). reflexivity.
        -- rewrite (chord_between_content c (a - t) (b - t) Hne Hp ltac:(lia)) in H. cbn [obind] in H.
           destruct (score_between s (t + rchord_dur c) a b) as [r'|] eqn:R; [|discriminate]. cbn [obind] in H. injection H as <-.
           rewrite tl_cons. unfold part_of. cbn [rparts rc]. rewrite (plook_drop track Hd), (plook_map (fun v => clip_list v 0 (a - t) (b - t)) track (rparts c)), P. cbn [option_map].
           rewrite (IH _ _ _ _ Hr Hab R), cclip_pairs. do 2 f_equal.
           replace 0 with (t - t) by lia. apply clip_list_shift.
Qed.

(* the written notes of the window: the notes of the part's timeline that overlap [a, b), clipped - and every one of them
   under a chord of the original *)
Corollary score_between_notes track s a b w : String.prefix "drums" track = false -> clean_score s track -> a < b ->
  score_between s 0 a b = Some w ->
  map snd (tl w track) = clip_list (map snd (tl s track)) 0 a b /\ incl (map fst (tl w track)) (map fst (tl s track)).
Proof.
  intros Hd Hs Hab H. rewrite (score_between_timeline track Hd s 0 a b w Hs Hab H). split; [apply cclip_notes|apply cclip_chords].
Qed.

(* ---------- cut and re-join, at score level ---------- *)
From ML Require Import Spec.RenderSpec Proofs.SliceRejoin.

Fixpoint citems (l : list (chord * tnote)) (t : Z) : list item :=
  match l with [] => [] | (c, n) :: r => INote c n t :: citems r (t + tdur n) end.

Lemma citems_app l1 l2 t : citems (l1 ++ l2) t = citems l1 t ++ citems l2 (t + cdur l1).
Proof.
  revert t. induction l1 as [|[c n] r IH]; intros t.
  - cbn [app citems]. unfold cdur. cbn [map]. rewrite part_dur_nil, Z.add_0_r. reflexivity.
  - cbn [app citems]. rewrite IH. unfold cdur. cbn [map snd]. rewrite part_dur_cons, Z.add_assoc. reflexivity.
Qed.

Lemma citems_pairs c v t : citems (map (pair c) v) t = part_items v c t.
Proof. revert t. induction v as [|n v IH]; intros t; [reflexivity|]. cbn [map citems part_items]. rewrite IH. reflexivity. Qed.

(* the track is present in every chord and lasts as long as each *)
Definition track_full (s : rscore) (track : string) : Prop :=
  Forall (fun c => exists part, plook track (rparts c) = Some part /\ part_dur part = rchord_dur c) s.

Lemma items_timeline track : forall s t, track_full s track -> items s track t = citems (tl s track) t.
Proof.
  induction s as [|c s IH]; intros t F; [reflexivity|]. inversion F as [|? ? (part & P & D) Fr]; subst.
  cbn [items]. rewrite tl_cons, citems_app, citems_pairs, cdur_pairs. unfold part_of. rewrite P, D, (IH _ Fr). reflexivity.
Qed.

(* the timeline with the note held across t (if any) split in two, both halves under the note's chord *)
Fixpoint csplit (l : list (chord * tnote)) (time t : Z) : list (chord * tnote) :=
  match l with
  | [] => []
  | (c, n) :: r => if (time <? t) && (t <? time + tdur n)
                   then (c, with_dur n (t - time)) :: (c, continuation (time + tdur n - t)) :: r
                   else (c, n) :: csplit r (time + tdur n) t
  end.

Lemma csplit_after l : forall time t, cpositive l -> t <= time -> csplit l time t = l.
Proof.
  induction l as [|[c n] r IH]; intros time t Hp Ht; [reflexivity|]. inversion Hp as [|? ? Hn Hr]; subst. cbn [snd] in Hn. cbn [csplit].
  destruct ((time <? t) && (t <? time + tdur n)) eqn:E; [lia|]. assert (A1 : t <= time + tdur n) by lia. rewrite (IH _ _ Hr A1). reflexivity.
Qed.

Theorem cwindows_rejoin l : forall time a t b, cpositive l -> a <= time -> time + cdur l <= b ->
  cclip l time a t ++ cclip l time t b = csplit l time t.
Proof.
  induction l as [|[c n] r IH]; intros time a t b Hp Ha Hb; [reflexivity|]. inversion Hp as [|? ? Hn Hr]; subst. cbn [snd] in Hn.
  unfold cdur in Hb. cbn [map snd] in Hb. rewrite part_dur_cons in Hb. pose proof (cdur_nonneg r Hr) as Nr. unfold cdur in Nr.
  cbn [cclip csplit].
  destruct ((time <? t) && (t <? time + tdur n)) eqn:E.
  - assert (B1 : t <= time + tdur n) by lia. assert (B2 : time + tdur n + cdur r <= b) by (unfold cdur; lia).
    rewrite (cclip_after r (time + tdur n) a t Hr B1), (cclip_inside r (time + tdur n) t b Hr B1 B2).
    unfold clip. cbv zeta.
    destruct (Z.max time a <? Z.min (time + tdur n) t) eqn:E1; [|lia]. destruct (time <? a) eqn:E2; [lia|].
    destruct (Z.max time t <? Z.min (time + tdur n) b) eqn:E3; [|lia]. destruct (time <? t) eqn:E4; [|lia].
    cbn [app].
    replace (Z.min (time + tdur n) t - Z.max time a) with (t - time) by lia.
    replace (Z.min (time + tdur n) b - Z.max time t) with (time + tdur n - t) by lia. reflexivity.
  - destruct (time + tdur n <=? t) eqn:E0.
    + assert (B1 : a <= time + tdur n) by lia. assert (B2 : time + tdur n + cdur r <= b) by (unfold cdur; lia).
      rewrite <- (IH (time + tdur n) a t b Hr B1 B2). unfold clip. cbv zeta.
      destruct (Z.max time a <? Z.min (time + tdur n) t) eqn:E1; [|lia]. destruct (time <? a) eqn:E2; [lia|].
      destruct (Z.max time t <? Z.min (time + tdur n) b) eqn:E3; [lia|].
      replace (Z.min (time + tdur n) t - Z.max time a) with (tdur n) by lia. rewrite with_dur_id. reflexivity.
    + assert (Ht : t <= time) by lia.
      assert (B1 : t <= time + tdur n) by lia. assert (B2 : time + tdur n + cdur r <= b) by (unfold cdur; lia).
      rewrite (cclip_after r (time + tdur n) a t Hr B1), (cclip_inside r (time + tdur n) t b Hr B1 B2).
      rewrite (csplit_after r _ _ Hr B1). unfold clip. cbv zeta.
      destruct (Z.max time a <? Z.min (time + tdur n) t) eqn:E1; [lia|].
      destruct (Z.max time t <? Z.min (time + tdur n) b) eqn:E3; [|lia]. destruct (time <? t) eqn:E4; [lia|].
      replace (Z.min (time + tdur n) b - Z.max time t) with (tdur n) by lia. rewrite with_dur_id. reflexivity.
Qed.

Lemma csplit_items : forall l time t ref, cpositive l ->
  sounding ref (citems (csplit l time t) time) = sounding ref (citems l time) /\
  run (citems (csplit l time t) time) = run (citems l time).
Proof.
  induction l as [|[c n] r IH]; intros time t ref Hp; [split; reflexivity|]. inversion Hp as [|? ? Hn Hr]; subst. cbn [snd] in Hn. cbn [csplit].
  destruct ((time <? t) && (t <? time + tdur n)) eqn:E.
  - cbn [citems with_dur tdur continuation].
    replace (time + (t - time) + (time + tdur n - t)) with (time + tdur n) by lia.
    split; [apply sounding_split; lia|apply run_split; lia].
  - cbn [citems]. split.
    + cbn [sounding]. destruct (is_rest n || is_cont n).
      * exact (proj1 (IH (time + tdur n) t ref Hr)).
      * destruct (pitch_full c (tn n) _) as [pr|]; [|reflexivity]. cbn [obind].
        rewrite (proj1 (IH (time + tdur n) t _ Hr)), (proj2 (IH (time + tdur n) t ref Hr)). reflexivity.
    + cbn [run]. destruct (is_cont n); [|reflexivity]. rewrite (proj2 (IH (time + tdur n) t ref Hr)). reflexivity.
Qed.

Lemma tl_app s1 s2 track : tl (s1 ++ s2) track = tl s1 track ++ tl s2 track.
Proof. unfold tl. rewrite map_app, concat_app. reflexivity. Qed.

(* cutting a score at t and putting the two pieces one after the other: every part that is present throughout sounds exactly
   as before (Spec of C03: pitches, onsets, durations with their continuations, velocities) *)
Theorem score_rejoin_sounds track s t w1 w2 : String.prefix "drums" track = false -> clean_score s track ->
  0 < t < score_dur s ->
  score_between s 0 0 t = Some w1 -> score_between s 0 t (score_dur s) = Some w2 ->
  track_full (w1 ++ w2) track ->
  sounding_of (w1 ++ w2) track = sounding_of s track.
Proof.
  intros Hd Hs Ht H1 H2 F. unfold sounding_of.
  assert (Fs : track_full s track).
  { clear - Hs. induction Hs as [|c s (_ & _ & E) _ IH]; constructor; assumption. }
  rewrite (items_timeline track _ 0 F), (items_timeline track _ 0 Fs), tl_app.
  rewrite (score_between_timeline track Hd s 0 0 t w1 Hs ltac:(lia) H1).
  rewrite (score_between_timeline track Hd s 0 t (score_dur s) w2 Hs ltac:(lia) H2).
  pose proof (tl_positive s track Hs) as Pp.
  assert (Cd : cdur (tl s track) = score_dur s).
  { clear - Fs. induction Fs as [|c s (part & P & D) _ IH]; [reflexivity|]. rewrite tl_cons. unfold cdur in *.
    rewrite map_app, part_dur_app, IH, score_dur_cons, map_map. cbn [snd]. rewrite map_id. unfold part_of. rewrite P, D. reflexivity. }
  rewrite (cwindows_rejoin (tl s track) 0 0 t (score_dur s) Pp ltac:(lia) ltac:(lia)).
  exact (proj1 (csplit_items (tl s track) 0 t None Pp)).
Qed.

(* the pieces of a full score keep the track present and lasting its chords, so the hypothesis above is always met *)
Lemma plook_in {B} track (ps : list (string * B)) p : plook track ps = Some p -> In (track, p) ps.
Proof.
  induction ps as [|[k v] r IH]; [discriminate|]. cbn [plook]. destruct (String.eqb track k) eqn:E.
  - apply String.eqb_eq in E. subst k. intros H. injection H as <-. left. reflexivity.
  - intros H. right. exact (IH H).
Qed.

Lemma score_between_present track : String.prefix "drums" track = false ->
  forall s t a b w, clean_score s track -> a < b -> score_between s t a b = Some w ->
  Forall (fun c => exists p, plook track (rparts c) = Some p) w.
Proof.
  intros Hd. induction s as [|c s IH]; intros t a b w Hs Hab H.
  - cbn in H. injection H as <-. constructor.
  - inversion Hs as [|? ? (Hne & Hp & part & P & D) Hr]; subst. cbn [score_between] in H. cbv zeta in H.
    destruct (t + rchord_dur c <=? a); [exact (IH _ _ _ _ Hr Hab H)|].
    destruct (b <=? t); [injection H as <-; constructor|].
    destruct ((t + rchord_dur c <? b) && (a <=? t)).
    + destruct (score_between s (t + rchord_dur c) a b) as [r'|] eqn:R; [|discriminate]. cbn [obind] in H. injection H as <-.
      constructor; [exists part; exact P|exact (IH _ _ _ _ Hr Hab R)].
    + destruct (Z_lt_le_dec (a - t) (b - t)) as [L|L]; [|lia].
      rewrite (chord_between_content c (a - t) (b - t) Hne Hp L) in H. cbn [obind] in H.
      destruct (score_between s (t + rchord_dur c) a b) as [r'|] eqn:R; [|discriminate]. cbn [obind] in H. injection H as <-.
      constructor; [|exact (IH _ _ _ _ Hr Hab R)]. cbn [rparts].
      rewrite (plook_drop track Hd), (plook_map (fun v => clip_list v 0 (a - t) (b - t)) track (rparts c)), P. eexists. reflexivity.
Qed.

Lemma track_full_of_full track s : full_score s -> Forall (fun c => exists p, plook track (rparts c) = Some p) s -> track_full s track.
Proof.
  intros Hf Hp. induction Hf as [|c s [Hc _] _ IH]; [constructor|]. inversion Hp as [|? ? (p & P) Hr]; subst.
  constructor; [|exact (IH Hr)]. exists p. split; [exact P|].
  unfold full_chord in Hc. rewrite Forall_forall in Hc. exact (proj2 (Hc _ (plook_in track _ _ P))).
Qed.

Lemma full_score_app a b : full_score a -> full_score b -> full_score (a ++ b).
Proof. intros A B. apply Forall_app. split; assumption. Qed.

Theorem score_rejoin track s t : String.prefix "drums" track = false -> full_score s -> clean_score s track ->
  0 < t < score_dur s ->
  exists w1 w2, score_between s 0 0 t = Some w1 /\ score_between s 0 t (score_dur s) = Some w2 /\
    score_dur (w1 ++ w2) = score_dur s /\ sounding_of (w1 ++ w2) track = sounding_of s track.
Proof.
  intros Hd Hf Hs Ht.
  destruct (score_between_dur s 0 0 t Hf ltac:(lia)) as (w1 & H1 & D1 & F1).
  destruct (score_between_dur s 0 t (score_dur s) Hf ltac:(lia)) as (w2 & H2 & D2 & F2).
  exists w1, w2. split; [exact H1|]. split; [exact H2|]. split; [rewrite score_dur_app; lia|].
  apply (score_rejoin_sounds track s t w1 w2 Hd Hs Ht H1 H2).
  apply track_full_of_full; [apply full_score_app; assumption|].
  apply Forall_app. split; [exact (score_between_present track Hd s 0 0 t w1 Hs ltac:(lia) H1)|
                            exact (score_between_present track Hd s 0 t (score_dur s) w2 Hs ltac:(lia) H2)].
Qed.

(* the ends of "cutting at any time t": at t = 0 and at t = total one piece is the library's empty window and the other is the window
   [0, b) with b at or beyond the end - which lasts and SOUNDS exactly like the score (so the re-joined pieces do) *)
Theorem score_whole_window track s b : String.prefix "drums" track = false -> full_score s -> clean_score s track ->
  0 < score_dur s -> score_dur s <= b ->
  exists w, score_between s 0 0 b = Some w /\ score_dur w = score_dur s /\ sounding_of w track = sounding_of s track.
Proof.
  intros Hd Hf Hs Ht Hb.
  destruct (score_between_dur s 0 0 b Hf ltac:(lia)) as (w & H & D & F).
  exists w. split; [exact H|]. split; [lia|].
  unfold sounding_of.
  assert (Fs : track_full s track).
  { clear - Hs. induction Hs as [|c s (_ & _ & E) _ IH]; constructor; assumption. }
  assert (Fw : track_full w track).
  { apply track_full_of_full; [exact F|]. exact (score_between_present track Hd s 0 0 b w Hs ltac:(lia) H). }
  rewrite (items_timeline track _ 0 Fw), (items_timeline track _ 0 Fs).
  rewrite (score_between_timeline track Hd s 0 0 b w Hs ltac:(lia) H).
  pose proof (tl_positive s track Hs) as Pp.
  assert (Cd : cdur (tl s track) = score_dur s).
  { clear - Fs. induction Fs as [|c s (part & P & D) _ IH]; [reflexivity|]. rewrite tl_cons. unfold cdur in *.
    rewrite map_app, part_dur_app, IH, score_dur_cons, map_map. cbn [snd]. rewrite map_id. unfold part_of. rewrite P, D. reflexivity. }
  rewrite (cclip_inside (tl s track) 0 0 b Pp ltac:(lia) ltac:(lia)). reflexivity.
Qed.

(* non-vacuity: two chords, a cut inside a note of the first chord *)
Example score_rejoin_ex :
  let nt k v du := mkTN (mkP k Abs v 0 None None) du 66 in
  let s := [mkRC (mkC 0 (bare "") (mkT 0 MMaj 0) 0) [("p"%string, [nt KS 0 2; nt KS 1 2])];
            mkRC (mkC 4 (bare "") (mkT 0 MMaj 0) 0) [("p"%string, [nt KS 2 3])]] in
  (do w1 <- score_between s 0 0 3 ;; do w2 <- score_between s 0 3 7 ;; Some (map (fun c => map (fun n => (pkind (tn n), tdur n)) (part_of "p" c)) (w1 ++ w2)))
    = Some [[(KS, 2); (KS, 1)]; [(KL, 1)]; [(KS, 3)]] /\
  (do w1 <- score_between s 0 0 3 ;; do w2 <- score_between s 0 3 7 ;; sounding_of (w1 ++ w2) "p") = sounding_of s "p" /\
  sounding_of s "p" = Some [mkSN 0 0 2 66; mkSN 2 2 2 66; mkSN 11 4 3 66].
Proof. repeat split; vm_compute; reflexivity. Qed.

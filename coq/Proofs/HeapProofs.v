(* C06: along any program, no cell that existed before a step is changed by it. *)
From ML Require Import Model.Types gen.Tables Model.Pitch Model.Code Model.Heap.
From Coq Require Import Lia.
Open Scope nat_scope.
Open Scope list_scope.

(* h' extends h: same cells at the same addresses, possibly more *)
Definition extends (h h' : heap) : Prop := exists ext, h' = h ++ ext.

Lemma extends_refl h : extends h h. Proof. exists []. rewrite app_nil_r. reflexivity. Qed.
Lemma extends_trans a b c : extends a b -> extends b c -> extends a c.
Proof. intros [x ->] [y ->]. exists (x ++ y). rewrite app_assoc. reflexivity. Qed.
Lemma extends_alloc h c : extends h (fst (alloc h c)). Proof. exists [c]. reflexivity. Qed.
Lemma extends_get h h' a c : extends h h' -> get h a = Some c -> get h' a = Some c.
Proof.
  intros [ext ->] H. unfold get in *. rewrite nth_error_app1; [exact H|]. apply nth_error_Some. congruence.
Qed.
Lemma extends_length h h' : extends h h' -> length h <= length h'.
Proof. intros [ext ->]. rewrite app_length. lia. Qed.

Lemma copy_notes_extends u : forall ns h h' l, copy_notes h u ns = Some (h', l) -> extends h h'.
Proof.
  induction ns as [|a r IH]; intros h h' l H; cbn [copy_notes] in H.
  - injection H as <- _. apply extends_refl.
  - destruct (get h a) as [[n| | | |]|]; try discriminate. cbn [alloc] in H.
    destruct (copy_notes (h ++ [CNote (apply_upd u n)]) u r) as [[h1 l1]|] eqn:E; [|discriminate]. cbn [obind fst snd] in H. injection H as <- _.
    apply (extends_trans _ (h ++ [CNote (apply_upd u n)])); [exists [CNote (apply_upd u n)]; reflexivity|exact (IH _ _ _ E)].
Qed.

Lemma copy_mel_extends u h a h' b : copy_mel h u a = Some (h', b) -> extends h h'.
Proof.
  unfold copy_mel. destruct (get h a) as [[|ns| | |]|]; try discriminate.
  destruct (copy_notes h u ns) as [[h1 l1]|] eqn:E; [|discriminate]. cbn [obind fst snd alloc]. intros H. injection H as <- _.
  apply (extends_trans _ h1); [exact (copy_notes_extends _ _ _ _ _ E)|exists [CMel l1]; reflexivity].
Qed.

Lemma copy_parts_extends u : forall ps h h' l, copy_parts h u ps = Some (h', l) -> extends h h'.
Proof.
  induction ps as [|[nm a] r IH]; intros h h' l H; cbn [copy_parts] in H.
  - injection H as <- _. apply extends_refl.
  - destruct (copy_mel h u a) as [[h1 b]|] eqn:E1; [|discriminate]. cbn [obind fst snd] in H.
    destruct (copy_parts h1 u r) as [[h2 l2]|] eqn:E2; [|discriminate]. cbn [obind fst snd] in H. injection H as <- _.
    apply (extends_trans _ h1); [exact (copy_mel_extends _ _ _ _ _ E1)|exact (IH _ _ _ E2)].
Qed.

Lemma copy_chord_extends cu u h a h' b : copy_chord h cu u a = Some (h', b) -> extends h h'.
Proof.
  unfold copy_chord. destruct (get h a) as [[| | |e x t o ps|]|]; try discriminate.
  destruct (get h t) as [[| |tv| |]|]; try discriminate.
  destruct (apply_cupd cu e x tv o) as [[[e' x'] tv'] o']. cbn [alloc].
  destruct (copy_parts (h ++ [CTon tv']) u ps) as [[h1 l1]|] eqn:E; [|discriminate]. cbn [obind fst snd]. intros H. injection H as <- _.
  apply (extends_trans _ (h ++ [CTon tv'])); [exists [CTon tv']; reflexivity|].
  apply (extends_trans _ h1); [exact (copy_parts_extends _ _ _ _ _ E)|eexists; reflexivity].
Qed.

Lemma copy_chords_extends u : forall cs h h' l, copy_chords h u cs = Some (h', l) -> extends h h'.
Proof.
  induction cs as [|a r IH]; intros h h' l H; cbn [copy_chords] in H.
  - injection H as <- _. apply extends_refl.
  - destruct (copy_chord h CUCopy u a) as [[h1 b]|] eqn:E1; [|discriminate]. cbn [obind fst snd] in H.
    destruct (copy_chords h1 u r) as [[h2 l2]|] eqn:E2; [|discriminate]. cbn [obind fst snd] in H. injection H as <- _.
    apply (extends_trans _ h1); [exact (copy_chord_extends _ _ _ _ _ _ E1)|exact (IH _ _ _ E2)].
Qed.

(* a write at or above base keeps everything below base *)
Definition agree_below (base : nat) (h h' : heap) : Prop := length h = length h' /\ forall a, a < base -> get h' a = get h a.

Lemma set_cell_length : forall h a c, length (set_cell h a c) = length h.
Proof. induction h as [|x r IH]; intros [|a] c; cbn [set_cell length]; try reflexivity. rewrite IH. reflexivity. Qed.

Lemma set_cell_other : forall h a c b, b <> a -> get (set_cell h a c) b = get h b.
Proof.
  unfold get. induction h as [|x r IH]; intros [|a] c [|b] Hn; cbn [set_cell nth_error]; try reflexivity; try lia.
  apply IH. lia.
Qed.

Lemma agree_refl base h : agree_below base h h. Proof. split; [reflexivity|intros; reflexivity]. Qed.
Lemma agree_trans base a b c : agree_below base a b -> agree_below base b c -> agree_below base a c.
Proof. intros [L1 G1] [L2 G2]. split; [congruence|]. intros x Hx. rewrite (G2 x Hx). apply G1. exact Hx. Qed.

Lemma edit_parts_agree base : forall ps h vs h', edit_parts base h ps vs = Some h' -> agree_below base h h'.
Proof.
  induction ps as [|[nm m] r IH]; intros h vs h' H; destruct vs as [|[v o] vr]; cbn [edit_parts] in H; try discriminate.
  - injection H as <-. apply agree_refl.
  - destruct (get h m) as [[|[|a l]| | |]|]; try discriminate.
    destruct (get h a) as [[n| | | |]|]; try discriminate.
    destruct (Nat.leb base a) eqn:E; cbn [negb] in H; [|discriminate]. apply Nat.leb_le in E.
    eapply agree_trans; [|exact (IH _ _ _ H)].
    split; [rewrite set_cell_length; reflexivity|]. intros b Hb. apply set_cell_other. lia.
Qed.

Lemma edit_chords_agree base : forall cs h vss h', edit_chords base h cs vss = Some h' -> agree_below base h h'.
Proof.
  induction cs as [|c r IH]; intros h vss h' H; destruct vss as [|vs vr]; cbn [edit_chords] in H; try discriminate.
  - injection H as <-. apply agree_refl.
  - destruct (get h c) as [[| | |e x t o ps|]|]; try discriminate.
    destruct (edit_parts base h ps vs) as [h1|] eqn:E; [|discriminate]. cbn [obind] in H.
    eapply agree_trans; [exact (edit_parts_agree _ _ _ _ _ E)|exact (IH _ _ _ H)].
Qed.

(* what every step guarantees: the cells of the old heap are still there, unchanged, at their addresses *)
Definition preserves (h h' : heap) : Prop := length h <= length h' /\ forall a, a < length h -> get h' a = get h a.

Lemma extends_preserves h h' : extends h h' -> preserves h h'.
Proof.
  intros [ext ->]. split; [rewrite app_length; lia|]. intros a Ha. unfold get. apply nth_error_app1. exact Ha.
Qed.

Lemma preserves_refl h : preserves h h. Proof. split; [lia|reflexivity]. Qed.
Lemma preserves_trans a b c : preserves a b -> preserves b c -> preserves a c.
Proof. intros [L1 G1] [L2 G2]. split; [lia|]. intros x Hx. rewrite G2 by lia. apply G1. exact Hx. Qed.

Ltac ext_alloc := apply extends_preserves; first [apply extends_alloc | eexists; reflexivity].

Theorem step_heap_preserves h o h' a : step_heap h o = Some (h', a) -> preserves h h'.
Proof.
  destruct o; cbn [step_heap]; intros H.
  - injection H as <- _. ext_alloc.
  - injection H as <- _. ext_alloc.
  - destruct (get h t) as [[| |tv| |]|]; try discriminate. injection H as <- _. ext_alloc.
  - destruct (get h a0) as [[n| | | |]|]; try discriminate. injection H as <- _. ext_alloc.
  - destruct (notes_of h a0); [|discriminate]. destruct (notes_of h b); [|discriminate]. injection H as <- _. ext_alloc.
  - apply extends_preserves. exact (copy_mel_extends _ _ _ _ _ H).
  - destruct (get h a0) as [[|ns| | |]|]; try discriminate.
    destruct (copy_notes h UCopy ns) as [[h1 l1]|] eqn:E; [|discriminate]. cbn [obind fst snd alloc] in H. injection H as <- _.
    apply extends_preserves. apply (extends_trans _ h1); [exact (copy_notes_extends _ _ _ _ _ E)|eexists; reflexivity].
  - destruct (get h a0) as [[|ns| | |]|]; try discriminate. injection H as <- _. ext_alloc.
  - destruct (get h a0) as [[n| | | |]|]; try discriminate. injection H as <- _. ext_alloc.
  - destruct (get h c) as [[| | |e x t o ps0|]|]; try discriminate. destruct (get h t) as [[| |tv| |]|]; try discriminate. cbn [alloc] in H.
    destruct (copy_parts (h ++ [CTon tv]) UCopy ps) as [[h1 l1]|] eqn:E; [|discriminate]. cbn [obind fst snd] in H. injection H as <- _.
    apply extends_preserves. apply (extends_trans _ (h ++ [CTon tv])); [eexists; reflexivity|].
    apply (extends_trans _ h1); [exact (copy_parts_extends _ _ _ _ _ E)|eexists; reflexivity].
  - apply extends_preserves. exact (copy_chord_extends _ _ _ _ _ _ H).
  - destruct (copy_chord h CUCopy UCopy a0) as [[h1 b1]|] eqn:E1; [|discriminate]. cbn [obind fst snd] in H.
    destruct (copy_chord h1 CUCopy UCopy b) as [[h2 b2]|] eqn:E2; [|discriminate]. cbn [obind fst snd alloc] in H. injection H as <- _.
    apply extends_preserves. apply (extends_trans _ h1); [exact (copy_chord_extends _ _ _ _ _ _ E1)|].
    apply (extends_trans _ h2); [exact (copy_chord_extends _ _ _ _ _ _ E2)|eexists; reflexivity].
  - destruct (forallb _ cs); [|discriminate]. injection H as <- _. ext_alloc.
  - destruct (get h s) as [[| | | |cs]|]; try discriminate. destruct (get h c) as [[| | |e x t o ps|]|]; try discriminate.
    destruct (copy_chords h UCopy cs) as [[h1 l1]|] eqn:E; [|discriminate]. cbn [obind fst snd alloc] in H. injection H as <- _.
    apply extends_preserves. apply (extends_trans _ h1); [exact (copy_chords_extends _ _ _ _ _ E)|eexists; reflexivity].
  - destruct (get h s) as [[| | | |cs]|]; try discriminate. destruct (get h t) as [[| | | |ct]|]; try discriminate.
    destruct (copy_chords h UCopy cs) as [[h1 l1]|] eqn:E1; [|discriminate]. cbn [obind fst snd] in H.
    destruct (copy_chords h1 UCopy ct) as [[h2 l2]|] eqn:E2; [|discriminate]. cbn [obind fst snd alloc] in H. injection H as <- _.
    apply extends_preserves. apply (extends_trans _ h1); [exact (copy_chords_extends _ _ _ _ _ E1)|].
    apply (extends_trans _ h2); [exact (copy_chords_extends _ _ _ _ _ E2)|eexists; reflexivity].
  - destruct (get h s) as [[| | | |cs]|]; try discriminate. destruct (nth_error cs i); [|discriminate]. cbn [obind] in H. injection H as <- _.
    apply preserves_refl.
  - destruct (get h s) as [[| | | |cs]|]; try discriminate.
    destruct (rev (sublist i j cs)) as [|c1 [|c2 fr]]; try discriminate.
    + destruct (copy_chords h UCopy [c1]) as [[h1 l1]|] eqn:E; [|discriminate]. cbn [obind fst snd alloc] in H. injection H as <- _.
      apply extends_preserves. apply (extends_trans _ h1); [exact (copy_chords_extends _ _ _ _ _ E)|eexists; reflexivity].
    + destruct (copy_chords h UCopy (rev (c2 :: fr))) as [[h1 l1]|] eqn:E; [|discriminate]. cbn [obind fst snd alloc] in H. injection H as <- _.
      apply extends_preserves. apply (extends_trans _ h1); [exact (copy_chords_extends _ _ _ _ _ E)|eexists; reflexivity].
  - destruct (get h s) as [[| | | |cs]|]; try discriminate.
    destruct (copy_chords h u cs) as [[h1 l1]|] eqn:E; [|discriminate]. cbn [obind fst snd alloc] in H. injection H as <- _.
    apply extends_preserves. apply (extends_trans _ h1); [exact (copy_chords_extends _ _ _ _ _ E)|eexists; reflexivity].
  - destruct (get h s) as [[| | | |cs]|]; try discriminate.
    destruct (copy_chords h UCopy (concat (repeat cs k))) as [[h1 l1]|] eqn:E; [|discriminate]. cbn [obind fst snd alloc] in H. injection H as <- _.
    apply extends_preserves. apply (extends_trans _ h1); [exact (copy_chords_extends _ _ _ _ _ E)|eexists; reflexivity].
  - destruct (get h c) as [[| | |e x t o ps|]|]; try discriminate.
    destruct (copy_chords h UCopy (repeat c k)) as [[h1 l1]|] eqn:E; [|discriminate]. cbn [obind fst snd alloc] in H. injection H as <- _.
    apply extends_preserves. apply (extends_trans _ h1); [exact (copy_chords_extends _ _ _ _ _ E)|eexists; reflexivity].
  - destruct (get h a0) as [[n| | | |]|]; try discriminate.
    destruct (copy_notes h UCopy (repeat a0 k)) as [[h1 l1]|] eqn:E; [|discriminate]. cbn [obind fst snd alloc] in H. injection H as <- _.
    apply extends_preserves. apply (extends_trans _ h1); [exact (copy_notes_extends _ _ _ _ _ E)|eexists; reflexivity].
  - (* the in-place editor: a copy, then writes at or above the old heap size *)
    destruct (get h s) as [[| | | |cs]|]; try discriminate.
    destruct (copy_chords h UCopy cs) as [[h1 l1]|] eqn:E; [|discriminate]. cbn [obind fst snd] in H.
    destruct (edit_chords (length h) h1 l1 vals) as [h2|] eqn:E2; [|discriminate]. cbn [obind alloc] in H. injection H as <- _.
    pose proof (extends_preserves _ _ (copy_chords_extends _ _ _ _ _ E)) as [L1 G1].
    destruct (edit_chords_agree _ _ _ _ _ E2) as [L2 G2].
    split; [rewrite app_length; lia|]. intros b Hb. unfold get. rewrite nth_error_app1 by lia.
    fold (get h2 b). rewrite (G2 b Hb). apply G1. exact Hb.
Qed.

(* any program: every cell that exists at some point is still there, unchanged, at the end *)
Theorem run_preserves : forall p st st', run st p = Some st' -> preserves (hp st) (hp st').
Proof.
  induction p as [|o r IH]; intros st st' H; cbn [run] in H.
  - injection H as <-. apply preserves_refl.
  - unfold step in H. destruct (resolve (pool st) o) as [o'|]; [|discriminate]. cbn [obind] in H.
    destruct (step_heap (hp st) o') as [[h1 a]|] eqn:E; [|discriminate]. cbn [obind fst snd] in H.
    eapply preserves_trans; [exact (step_heap_preserves _ _ _ _ E)|]. exact (IH _ _ H).
Qed.

(* ---- deep values: what an object "is" - its fields and, recursively, those of everything it refers to ---- *)
Inductive tree := TNote (n : fnote) | TTon (t : tonality) | TNode (tag : cell) (kids : list tree).

Fixpoint deep (fuel : nat) (h : heap) (a : nat) : option tree :=
  match fuel with
  | O => None
  | S f =>
      let kids := fix kids (l : list nat) : option (list tree) :=
            match l with [] => Some [] | x :: r => do t <- deep f h x ;; do ts <- kids r ;; Some (t :: ts) end in
      match get h a with
      | Some (CNote n) => Some (TNote n)
      | Some (CTon t) => Some (TTon t)
      | Some (CMel ns) => do ks <- kids ns ;; Some (TNode (CMel []) ks)
      | Some (CScore cs) => do ks <- kids cs ;; Some (TNode (CScore []) ks)
      | Some (CChord e x t o ps) => do kt <- deep f h t ;; do ks <- kids (map snd ps) ;;
                                    Some (TNode (CChord e x 0 o (map (fun kv => (fst kv, 0)) ps)) (kt :: ks))
      | None => None
      end
  end.

(* a heap is closed when every reference points to an existing cell *)
Definition refs (c : cell) : list nat :=
  match c with CNote _ | CTon _ => [] | CMel ns => ns | CScore cs => cs | CChord _ _ t _ ps => t :: map snd ps end.
Definition closed (h : heap) : Prop := forall a c, get h a = Some c -> Forall (fun r => r < length h) (refs c).

(* the deep value of an object of a closed heap only depends on that heap: whatever is done later, it stays the same *)
Theorem deep_stable fuel : forall h h' a, closed h -> preserves h h' -> a < length h -> deep fuel h' a = deep fuel h a.
Proof.
  induction fuel as [|f IH]; intros h h' a Hc Hp Ha; [reflexivity|]. cbn [deep].
  destruct Hp as [L G]. rewrite (G a Ha).
  assert (K : forall l, Forall (fun r => r < length h) l ->
              (fix kids (l : list nat) : option (list tree) :=
                 match l with [] => Some [] | x :: r => do t <- deep f h' x ;; do ts <- kids r ;; Some (t :: ts) end) l =
              (fix kids (l : list nat) : option (list tree) :=
                 match l with [] => Some [] | x :: r => do t <- deep f h x ;; do ts <- kids r ;; Some (t :: ts) end) l).
  { induction l as [|x r IHl]; intros Hf; [reflexivity|]. inversion Hf as [|? ? Hx Hr]; subst.
    rewrite (IH h h' x Hc (conj L G) Hx). rewrite (IHl Hr). reflexivity. }
  destruct (get h a) as [c|] eqn:E; [|reflexivity]. pose proof (Hc a c E) as R.
  destruct c as [n|ns|t|e x t o ps|cs]; cbn [refs] in R; try reflexivity.
  - rewrite (K ns R). reflexivity.
  - inversion R as [|? ? Ht Hps]; subst. rewrite (IH h h' t Hc (conj L G) Ht). rewrite (K _ Hps). reflexivity.
  - rewrite (K cs R). reflexivity.
Qed.

(* ---- closedness is an invariant of every program ---- *)
Lemma get_lt h a c : get h a = Some c -> a < length h.
Proof. intros H. apply nth_error_Some. unfold get in H. congruence. Qed.

Lemma closed_alloc h c : closed h -> Forall (fun r => r < length h) (refs c) -> closed (h ++ [c]) /\ length h < length (h ++ [c]).
Proof.
  intros Hc Hr. split; [|rewrite app_length; cbn; lia]. intros a x Hx. unfold get in Hx.
  assert (L : length (h ++ [c]) = S (length h)) by (rewrite app_length; cbn; lia).
  destruct (Nat.lt_ge_cases a (length h)) as [Ha|Ha].
  - rewrite nth_error_app1 in Hx by exact Ha. eapply Forall_impl; [|exact (Hc a x Hx)]. intros r Hlt. cbn beta in *. lia.
  - rewrite nth_error_app2 in Hx by exact Ha. destruct (a - length h) as [|k] eqn:E; cbn in Hx; [|destruct k; discriminate].
    injection Hx as <-. eapply Forall_impl; [|exact Hr]. intros r Hlt. cbn beta in *. lia.
Qed.

Lemma Forall_lt_mono n m l : n <= m -> Forall (fun r => r < n) l -> Forall (fun r => r < m) l.
Proof. intros H. apply Forall_impl. intros r Hr. lia. Qed.

Lemma copy_notes_closed u : forall ns h h' l, copy_notes h u ns = Some (h', l) -> closed h ->
  closed h' /\ Forall (fun r => r < length h') l.
Proof.
  induction ns as [|a r IH]; intros h h' l H Hc; cbn [copy_notes] in H.
  - injection H as <- <-. split; [exact Hc|constructor].
  - destruct (get h a) as [[n| | | |]|]; try discriminate. cbn [alloc] in H.
    destruct (copy_notes (h ++ [CNote (apply_upd u n)]) u r) as [[h1 l1]|] eqn:E; [|discriminate]. cbn [obind fst snd] in H. injection H as <- <-.
    destruct (closed_alloc h (CNote (apply_upd u n)) Hc (Forall_nil _)) as [C1 L1].
    destruct (IH _ _ _ E C1) as [C2 F2]. split; [exact C2|]. constructor; [|exact F2].
    pose proof (extends_length _ _ (copy_notes_extends _ _ _ _ _ E)). lia.
Qed.

Lemma copy_mel_closed u h a h' b : copy_mel h u a = Some (h', b) -> closed h -> closed h' /\ b < length h'.
Proof.
  unfold copy_mel. destruct (get h a) as [[|ns| | |]|]; try discriminate.
  destruct (copy_notes h u ns) as [[h1 l1]|] eqn:E; [|discriminate]. cbn [obind fst snd alloc]. intros H Hc. injection H as <- <-.
  destruct (copy_notes_closed _ _ _ _ _ E Hc) as [C1 F1].
  destruct (closed_alloc h1 (CMel l1) C1 F1) as [C2 L2]. split; [exact C2|exact L2].
Qed.

Lemma copy_parts_closed u : forall ps h h' l, copy_parts h u ps = Some (h', l) -> closed h ->
  closed h' /\ Forall (fun r => r < length h') (map snd l).
Proof.
  induction ps as [|[nm a] r IH]; intros h h' l H Hc; cbn [copy_parts] in H.
  - injection H as <- <-. split; [exact Hc|constructor].
  - destruct (copy_mel h u a) as [[h1 b]|] eqn:E1; [|discriminate]. cbn [obind fst snd] in H.
    destruct (copy_parts h1 u r) as [[h2 l2]|] eqn:E2; [|discriminate]. cbn [obind fst snd] in H. injection H as <- <-.
    destruct (copy_mel_closed _ _ _ _ _ E1 Hc) as [C1 B1]. destruct (IH _ _ _ E2 C1) as [C2 F2].
    split; [exact C2|]. cbn [map snd]. constructor; [|exact F2].
    pose proof (extends_length _ _ (copy_parts_extends _ _ _ _ _ E2)). lia.
Qed.

Lemma copy_chord_closed cu u h a h' b : copy_chord h cu u a = Some (h', b) -> closed h -> closed h' /\ b < length h'.
Proof.
  unfold copy_chord. destruct (get h a) as [[| | |e x t o ps|]|]; try discriminate.
  destruct (get h t) as [[| |tv| |]|]; try discriminate.
  destruct (apply_cupd cu e x tv o) as [[[e' x'] tv'] o']. cbn [alloc].
  destruct (copy_parts (h ++ [CTon tv']) u ps) as [[h1 l1]|] eqn:E; [|discriminate]. cbn [obind fst snd]. intros H Hc. injection H as <- <-.
  destruct (closed_alloc h (CTon tv') Hc (Forall_nil _)) as [C1 L1].
  destruct (copy_parts_closed _ _ _ _ _ E C1) as [C2 F2].
  pose proof (extends_length _ _ (copy_parts_extends _ _ _ _ _ E)) as L2. rewrite app_length in L2. cbn [length] in L2.
  apply closed_alloc; [exact C2|]. cbn [refs]. constructor; [lia|exact F2].
Qed.

Lemma copy_chords_closed u : forall cs h h' l, copy_chords h u cs = Some (h', l) -> closed h ->
  closed h' /\ Forall (fun r => r < length h') l.
Proof.
  induction cs as [|a r IH]; intros h h' l H Hc; cbn [copy_chords] in H.
  - injection H as <- <-. split; [exact Hc|constructor].
  - destruct (copy_chord h CUCopy u a) as [[h1 b]|] eqn:E1; [|discriminate]. cbn [obind fst snd] in H.
    destruct (copy_chords h1 u r) as [[h2 l2]|] eqn:E2; [|discriminate]. cbn [obind fst snd] in H. injection H as <- <-.
    destruct (copy_chord_closed _ _ _ _ _ _ E1 Hc) as [C1 B1]. destruct (IH _ _ _ E2 C1) as [C2 F2].
    split; [exact C2|]. constructor; [|exact F2]. pose proof (extends_length _ _ (copy_chords_extends _ _ _ _ _ E2)). lia.
Qed.

Lemma notes_of_lt h a l : closed h -> notes_of h a = Some l -> Forall (fun r => r < length h) l.
Proof.
  intros Hc. unfold notes_of. destruct (get h a) as [[n|ns| | |]|] eqn:E; try discriminate; intros H; injection H as <-.
  - constructor; [exact (get_lt _ _ _ E)|constructor].
  - exact (Hc a _ E).
Qed.

Lemma Forall_app_lt n a b : Forall (fun r => r < n) a -> Forall (fun r => r < n) b -> Forall (fun r => r < n) (a ++ b).
Proof. intros. apply Forall_app. split; assumption. Qed.

Lemma in_skipn' {A} (x : A) : forall i l, In x (skipn i l) -> In x l.
Proof.
  induction i as [|i IH]; intros l H; [exact H|]. destruct l as [|y r]; [destruct H|]. cbn [skipn] in H. right. exact (IH _ H).
Qed.
Lemma in_firstn' {A} (x : A) : forall i l, In x (firstn i l) -> In x l.
Proof.
  induction i as [|i IH]; intros l H; [destruct H|]. destruct l as [|y r]; [destruct H|]. cbn [firstn] in H.
  destruct H as [H|H]; [left; exact H|right; exact (IH _ H)].
Qed.

Lemma Forall_sublist {A} (P : A -> Prop) i j l : Forall P l -> Forall P (sublist i j l).
Proof.
  intros H. unfold sublist. apply Forall_forall. intros x Hx. rewrite Forall_forall in H. apply H.
  apply in_firstn' in Hx. exact (in_skipn' _ _ _ Hx).
Qed.

(* writes keep closedness when the new cell is a note *)
Lemma set_note_closed h a n : closed h -> closed (set_cell h a (CNote n)).
Proof.
  intros Hc b c Hb. rewrite set_cell_length.
  destruct (Nat.eq_dec b a) as [->|Hn].
  - assert (Hl : a < length h) by (apply get_lt in Hb; rewrite set_cell_length in Hb; exact Hb).
    assert (E : get (set_cell h a (CNote n)) a = Some (CNote n)).
    { clear - Hl. revert a Hl. induction h as [|x r IH]; intros [|a] Hl; cbn in *; try lia; [reflexivity|apply IH; lia]. }
    rewrite E in Hb. injection Hb as <-. constructor.
  - rewrite set_cell_other in Hb by exact Hn. exact (Hc b c Hb).
Qed.

Lemma edit_parts_closed base : forall ps h vs h', edit_parts base h ps vs = Some h' -> closed h -> closed h'.
Proof.
  induction ps as [|[nm m] r IH]; intros h vs h' H Hc; destruct vs as [|[v o] vr]; cbn [edit_parts] in H; try discriminate.
  - injection H as <-. exact Hc.
  - destruct (get h m) as [[|[|a l]| | |]|]; try discriminate.
    destruct (get h a) as [[n| | | |]|]; try discriminate.
    destruct (Nat.leb base a); cbn [negb] in H; [|discriminate].
    eapply IH; [exact H|]. apply set_note_closed. exact Hc.
Qed.

Lemma edit_chords_closed base : forall cs h vss h', edit_chords base h cs vss = Some h' -> closed h -> closed h'.
Proof.
  induction cs as [|c r IH]; intros h vss h' H Hc; destruct vss as [|vs vr]; cbn [edit_chords] in H; try discriminate.
  - injection H as <-. exact Hc.
  - destruct (get h c) as [[| | |e x t o ps|]|]; try discriminate.
    destruct (edit_parts base h ps vs) as [h1|] eqn:E; [|discriminate]. cbn [obind] in H.
    eapply IH; [exact H|]. exact (edit_parts_closed _ _ _ _ _ E Hc).
Qed.

Theorem step_heap_closed h o h' a : step_heap h o = Some (h', a) -> closed h -> closed h' /\ a < length h'.
Proof.
  destruct o; cbn [step_heap]; intros H Hc.
  - injection H as <- <-. apply closed_alloc; [exact Hc|constructor].
  - injection H as <- <-. apply closed_alloc; [exact Hc|constructor].
  - destruct (get h t) as [[| |tv| |]|] eqn:E; try discriminate. injection H as <- <-.
    apply closed_alloc; [exact Hc|]. cbn [refs map]. constructor; [exact (get_lt _ _ _ E)|constructor].
  - destruct (get h a0) as [[n| | | |]|]; try discriminate. injection H as <- <-. apply closed_alloc; [exact Hc|constructor].
  - destruct (notes_of h a0) as [na|] eqn:E1; [|discriminate]. destruct (notes_of h b) as [nb|] eqn:E2; [|discriminate]. injection H as <- <-.
    apply closed_alloc; [exact Hc|]. cbn [refs]. apply Forall_app_lt; [exact (notes_of_lt _ _ _ Hc E1)|exact (notes_of_lt _ _ _ Hc E2)].
  - exact (copy_mel_closed _ _ _ _ _ H Hc).
  - destruct (get h a0) as [[|ns| | |]|]; try discriminate.
    destruct (copy_notes h UCopy ns) as [[h1 l1]|] eqn:E; [|discriminate]. cbn [obind fst snd alloc] in H. injection H as <- <-.
    destruct (copy_notes_closed _ _ _ _ _ E Hc) as [C1 F1]. apply closed_alloc; [exact C1|]. cbn [refs].
    clear - F1. induction k as [|k IH]; cbn [repeat concat]; [constructor|apply Forall_app_lt; assumption].
  - destruct (get h a0) as [[|ns| | |]|] eqn:E; try discriminate. injection H as <- <-.
    apply closed_alloc; [exact Hc|]. cbn [refs]. apply Forall_sublist. exact (Hc a0 _ E).
  - destruct (get h a0) as [[n| | | |]|] eqn:E; try discriminate. injection H as <- <-.
    apply closed_alloc; [exact Hc|]. cbn [refs]. constructor; [exact (get_lt _ _ _ E)|constructor].
  - destruct (get h c) as [[| | |e x t o ps0|]|]; try discriminate. destruct (get h t) as [[| |tv| |]|]; try discriminate. cbn [alloc] in H.
    destruct (copy_parts (h ++ [CTon tv]) UCopy ps) as [[h1 l1]|] eqn:E; [|discriminate]. cbn [obind fst snd] in H. injection H as <- <-.
    destruct (closed_alloc h (CTon tv) Hc (Forall_nil _)) as [C1 L1].
    destruct (copy_parts_closed _ _ _ _ _ E C1) as [C2 F2].
    pose proof (extends_length _ _ (copy_parts_extends _ _ _ _ _ E)) as L2. rewrite app_length in L2. cbn [length] in L2.
    apply closed_alloc; [exact C2|]. cbn [refs]. constructor; [lia|exact F2].
  - exact (copy_chord_closed _ _ _ _ _ _ H Hc).
  - destruct (copy_chord h CUCopy UCopy a0) as [[h1 b1]|] eqn:E1; [|discriminate]. cbn [obind fst snd] in H.
    destruct (copy_chord h1 CUCopy UCopy b) as [[h2 b2]|] eqn:E2; [|discriminate]. cbn [obind fst snd alloc] in H. injection H as <- <-.
    destruct (copy_chord_closed _ _ _ _ _ _ E1 Hc) as [C1 B1]. destruct (copy_chord_closed _ _ _ _ _ _ E2 C1) as [C2 B2].
    pose proof (extends_length _ _ (copy_chord_extends _ _ _ _ _ _ E2)).
    apply closed_alloc; [exact C2|]. cbn [refs]. constructor; [lia|constructor; [exact B2|constructor]].
  - destruct (forallb _ cs) eqn:E; [|discriminate]. injection H as <- <-. apply closed_alloc; [exact Hc|]. cbn [refs].
    rewrite forallb_forall in E. apply Forall_forall. intros c Hin. specialize (E c Hin).
    destruct (get h c) as [x|] eqn:G; [exact (get_lt _ _ _ G)|discriminate].
  - destruct (get h s) as [[| | | |cs]|]; try discriminate. destruct (get h c) as [[| | |e x t o ps|]|] eqn:G; try discriminate.
    destruct (copy_chords h UCopy cs) as [[h1 l1]|] eqn:E; [|discriminate]. cbn [obind fst snd alloc] in H. injection H as <- <-.
    destruct (copy_chords_closed _ _ _ _ _ E Hc) as [C1 F1]. pose proof (extends_length _ _ (copy_chords_extends _ _ _ _ _ E)).
    apply closed_alloc; [exact C1|]. cbn [refs]. apply Forall_app_lt; [exact F1|]. constructor; [apply get_lt in G; lia|constructor].
  - destruct (get h s) as [[| | | |cs]|]; try discriminate. destruct (get h t) as [[| | | |ct]|]; try discriminate.
    destruct (copy_chords h UCopy cs) as [[h1 l1]|] eqn:E1; [|discriminate]. cbn [obind fst snd] in H.
    destruct (copy_chords h1 UCopy ct) as [[h2 l2]|] eqn:E2; [|discriminate]. cbn [obind fst snd alloc] in H. injection H as <- <-.
    destruct (copy_chords_closed _ _ _ _ _ E1 Hc) as [C1 F1]. destruct (copy_chords_closed _ _ _ _ _ E2 C1) as [C2 F2].
    pose proof (extends_length _ _ (copy_chords_extends _ _ _ _ _ E2)).
    apply closed_alloc; [exact C2|]. cbn [refs]. apply Forall_app_lt; [exact (Forall_lt_mono _ _ _ H F1)|exact F2].
  - destruct (get h s) as [[| | | |cs]|] eqn:G; try discriminate. destruct (nth_error cs i) as [c|] eqn:N; [|discriminate]. cbn [obind] in H. injection H as <- <-.
    split; [exact Hc|]. pose proof (Hc s _ G) as R. cbn [refs] in R. rewrite Forall_forall in R. apply R. exact (nth_error_In _ _ N).
  - destruct (get h s) as [[| | | |cs]|] eqn:G; try discriminate.
    assert (R : Forall (fun r => r < length h) (rev (sublist i j cs))).
    { apply Forall_rev. apply Forall_sublist. exact (Hc s _ G). }
    destruct (rev (sublist i j cs)) as [|c1 [|c2 fr]]; try discriminate.
    + destruct (copy_chords h UCopy [c1]) as [[h1 l1]|] eqn:E; [|discriminate]. cbn [obind fst snd alloc] in H. injection H as <- <-.
      destruct (copy_chords_closed _ _ _ _ _ E Hc) as [C1 F1]. apply closed_alloc; [exact C1|exact F1].
    + destruct (copy_chords h UCopy (rev (c2 :: fr))) as [[h1 l1]|] eqn:E; [|discriminate]. cbn [obind fst snd alloc] in H. injection H as <- <-.
      destruct (copy_chords_closed _ _ _ _ _ E Hc) as [C1 F1]. pose proof (extends_length _ _ (copy_chords_extends _ _ _ _ _ E)).
      apply closed_alloc; [exact C1|]. cbn [refs]. apply Forall_app_lt; [exact F1|]. inversion R; subst. constructor; [lia|constructor].
  - destruct (get h s) as [[| | | |cs]|]; try discriminate.
    destruct (copy_chords h u cs) as [[h1 l1]|] eqn:E; [|discriminate]. cbn [obind fst snd alloc] in H. injection H as <- <-.
    destruct (copy_chords_closed _ _ _ _ _ E Hc) as [C1 F1]. apply closed_alloc; [exact C1|exact F1].
  - destruct (get h s) as [[| | | |cs]|]; try discriminate.
    destruct (copy_chords h UCopy (concat (repeat cs k))) as [[h1 l1]|] eqn:E; [|discriminate]. cbn [obind fst snd alloc] in H. injection H as <- <-.
    destruct (copy_chords_closed _ _ _ _ _ E Hc) as [C1 F1]. apply closed_alloc; [exact C1|exact F1].
  - destruct (get h c) as [[| | |e x t o ps|]|]; try discriminate.
    destruct (copy_chords h UCopy (repeat c k)) as [[h1 l1]|] eqn:E; [|discriminate]. cbn [obind fst snd alloc] in H. injection H as <- <-.
    destruct (copy_chords_closed _ _ _ _ _ E Hc) as [C1 F1]. apply closed_alloc; [exact C1|exact F1].
  - destruct (get h a0) as [[n| | | |]|]; try discriminate.
    destruct (copy_notes h UCopy (repeat a0 k)) as [[h1 l1]|] eqn:E; [|discriminate]. cbn [obind fst snd alloc] in H. injection H as <- <-.
    destruct (copy_notes_closed _ _ _ _ _ E Hc) as [C1 F1]. apply closed_alloc; [exact C1|exact F1].
  - destruct (get h s) as [[| | | |cs]|]; try discriminate.
    destruct (copy_chords h UCopy cs) as [[h1 l1]|] eqn:E; [|discriminate]. cbn [obind fst snd] in H.
    destruct (edit_chords (length h) h1 l1 vals) as [h2|] eqn:E2; [|discriminate]. cbn [obind alloc] in H. injection H as <- <-.
    destruct (copy_chords_closed _ _ _ _ _ E Hc) as [C1 F1].
    pose proof (edit_chords_closed _ _ _ _ _ E2 C1) as C2. destruct (edit_chords_agree _ _ _ _ _ E2) as [L2 _].
    apply closed_alloc; [exact C2|]. cbn [refs]. rewrite <- L2. exact F1.
Qed.

(* every reachable heap is closed, every pool entry names an existing object *)
Theorem run_closed : forall p st st', run st p = Some st' -> closed (hp st) -> Forall (fun r => r < length (hp st)) (pool st) ->
  closed (hp st') /\ Forall (fun r => r < length (hp st')) (pool st').
Proof.
  induction p as [|o r IH]; intros st st' H Hc Hp; cbn [run] in H.
  - injection H as <-. split; assumption.
  - unfold step in H. destruct (resolve (pool st) o) as [o'|]; [|discriminate]. cbn [obind] in H.
    destruct (step_heap (hp st) o') as [[h1 a]|] eqn:E; [|discriminate]. cbn [obind fst snd] in H.
    destruct (step_heap_closed _ _ _ _ E Hc) as [C1 A1].
    apply (IH _ _ H); cbn [hp pool]; [exact C1|].
    apply Forall_app_lt; [|constructor; [exact A1|constructor]].
    destruct (step_heap_preserves _ _ _ _ E) as [L _]. exact (Forall_lt_mono _ _ _ L Hp).
Qed.

(* the property: after ANY continuation of ANY program, every object created so far still has the deep value it had *)
Theorem objects_are_immutable p q st1 st2 fuel a :
  run init p = Some st1 -> run st1 q = Some st2 -> a < length (hp st1) -> deep fuel (hp st2) a = deep fuel (hp st1) a.
Proof.
  intros H1 H2 Ha.
  assert (C0 : closed (hp init)) by (intros b c Hb; destruct b; discriminate).
  destruct (run_closed p init st1 H1 C0 (Forall_nil _)) as [C1 _].
  apply deep_stable; [exact C1|exact (run_preserves _ _ _ H2)|exact Ha].
Qed.

From ML Require Import Model.Types gen.Tables Model.Pitch Model.Rel Model.Render Model.Slice Model.Import Spec.PitchSpec.
From ML Require Import Proofs.PitchProofs Proofs.RenderProofs Proofs.SliceProofs.
From Coq Require Import Lia ZifyBool.
Open Scope Z_scope.
Open Scope list_scope.
Ltac Zify.zify_post_hook ::= Z.to_euclidean_division_equations.

(* ================= Chord.parse then Chord.to_pitch is the identity ================= *)
Lemma zfind_sound x l i : zfind x l = Some i -> 0 <= i < zlen l /\ znth l i = x.
Proof.
  revert i. induction l as [|y l IH]; intros i H; [discriminate|]. cbn [zfind] in H.
  destruct (x =? y) eqn:E.
  - injection H as <-. unfold zlen, znth. cbn. split; lia.
  - destruct (zfind x l) as [j|]; [|discriminate]. injection H as <-. destruct (IH j eq_refl) as [B N].
    unfold zlen, znth in *. cbn [length]. split; [lia|].
    replace (Z.to_nat (Z.succ j)) with (S (Z.to_nat j)) by lia. exact N.
Qed.

Lemma zfind_complete x l : In x l -> exists i, zfind x l = Some i.
Proof.
  induction l as [|y l IH]; intros H; [contradiction|]. cbn [zfind].
  destruct (x =? y) eqn:E; [eexists; reflexivity|].
  destruct H as [H|H]; [lia|]. destruct (IH H) as (i & Hi). rewrite Hi. eexists; reflexivity.
Qed.

(* the chord scale stays within one octave above its first degree: 63 (mode, element) shapes x 7 degrees *)
Definition within_oct (md : mode) (e : Z) : bool :=
  forallb (fun i => let d := deg 0 (spec_mode md) (e + i) - deg 0 (spec_mode md) e in (0 <=? d) && (d <? 12)) idx7.

Lemma within_oct_all : forallb (fun md => forallb (within_oct md) idx7) all_modes = true.
Proof. vm_compute. reflexivity. Qed.

Lemma chord_deg_window c i : elem_ok c -> 0 <= i < 7 -> 0 <= chord_deg c i - chord_deg c 0 < 12.
Proof.
  intros He Hi. pose proof within_oct_all as W. rewrite forallb_forall in W.
  specialize (W _ (all_modes_in (tmode (cton c)))). rewrite forallb_forall in W.
  specialize (W _ (idx7_in _ He)). unfold within_oct in W. rewrite forallb_forall in W.
  specialize (W i ltac:(cbn; lia)). cbv zeta in W.
  unfold chord_deg, chord_deg_in. rewrite (deg_base (ton_base (cton c))), (deg_base (ton_base (cton c)) _ (celem c + 0)).
  replace (celem c + 0) with (celem c) by lia. lia.
Qed.

Lemma znth_map_mod l i : 0 <= i < zlen l -> znth (map (fun s => s mod 12) l) i = znth l i mod 12.
Proof.
  unfold znth, zlen. intros H. rewrite (nth_indep _ 0 (0 mod 12)) by (rewrite map_length; lia).
  apply (map_nth (fun s => s mod 12)).
Qed.

Theorem parse_roundtrip c p : elem_ok c ->
  exists n, parse c p = Some n /\ to_pitch_abs c n = Some (Some p) /\ pdir n = Abs /\ pacc n = None /\ pmode n = None /\
    ((pkind n = KS /\ 0 <= pval n < 7 /\ existsb (fun s => s mod 12 =? p mod 12) (map (chord_deg c) idx7) = true) \/
     (pkind n = KH /\ 0 <= pval n < 12 /\ existsb (fun s => s mod 12 =? p mod 12) (map (chord_deg c) idx7) = false)).
Proof.
  intros He. unfold parse. rewrite (chord_scale_spec c He). cbn [obind].
  set (sp := map (chord_deg c) idx7).
  assert (L7 : zlen sp = 7) by reflexivity.
  assert (N0 : znth sp 0 = chord_deg c 0) by (unfold sp; apply znth_map_idx7; lia).
  destruct (existsb (fun s => s mod 12 =? p mod 12) sp) eqn:Ein.
  - (* a scale note *)
    apply existsb_exists in Ein. destruct Ein as (s & Hs & Es).
    destruct (zfind_complete (p mod 12) (map (fun s => s mod 12) sp)) as (i & Hi).
    { apply in_map_iff. exists s. split; [lia|exact Hs]. }
    rewrite Hi. cbn [obind]. destruct (zfind_sound _ _ _ Hi) as [Bi Ni]. rewrite zlen_map, L7 in Bi.
    rewrite znth_map_mod in Ni by lia.
    assert (Nsp : znth sp i = chord_deg c i) by (unfold sp; apply znth_map_idx7; lia).
    pose proof (chord_deg_window c i He Bi) as Wn.
    eexists. split; [reflexivity|]. cbn [pdir pacc pmode pkind pval].
    split; [|split; [reflexivity|split; [reflexivity|split; [reflexivity|left; split; [reflexivity|split; [lia|reflexivity]]]]]].
    unfold to_pitch_abs. cbn [pkind].
    rewrite pitch_basic_scale by (try exact He; reflexivity). unfold note_mode. cbn [pmode pval poct].
    rewrite chord_deg_in_step. fold (chord_deg c i). rewrite N0. rewrite Nsp in Ni. cbn [option_map]. do 2 f_equal. lia.
  - (* a chromatic note *)
    set (b := znth sp 0).
    assert (Rin : In (p mod 12) (map (fun s => s mod 12) (range12 b))).
    { apply in_map_iff. exists (b + (p - b) mod 12). split; [lia|].
      unfold range12. apply in_map_iff. exists (Z.to_nat ((p - b) mod 12)). split; [lia|apply in_seq; lia]. }
    destruct (zfind_complete _ _ Rin) as (i & Hi). rewrite Hi. cbn [obind].
    destruct (zfind_sound _ _ _ Hi) as [Bi Ni]. rewrite zlen_map in Bi. change (zlen (range12 b)) with 12 in Bi.
    rewrite znth_map_mod in Ni by (change (zlen (range12 b)) with 12; lia). rewrite znth_range12 in Ni by lia.
    eexists. split; [reflexivity|]. cbn [pdir pacc pmode pkind pval].
    split; [|split; [reflexivity|split; [reflexivity|split; [reflexivity|right; split; [reflexivity|split; [lia|reflexivity]]]]]].
    unfold to_pitch_abs. cbn [pkind].
    rewrite pitch_basic_chromatic by (try exact He; reflexivity). unfold note_mode. cbn [pmode pval poct].
    fold (chord_deg c 0). rewrite <- N0. fold b. cbn [option_map]. do 2 f_equal.
    rewrite (znth_range12 b 0) by lia. clearbody b. lia.
Qed.

(* ================= _parse_voice: a monophonic voice fills its bar exactly ================= *)
Definition racc_dur (racc : list tnote) : Z := part_dur (rev racc).

Lemma racc_dur_cons n racc : racc_dur (n :: racc) = racc_dur racc + tdur n.
Proof. unfold racc_dur. cbn [rev]. rewrite part_dur_app, part_dur_cons. unfold part_dur at 2. cbn. lia. Qed.

Lemma racc_dur_nil : racc_dur [] = 0. Proof. reflexivity. Qed.

Lemma part_dur_filter_pos l : Forall (fun n => 0 <= tdur n) l -> part_dur (filter (fun m => 0 <? tdur m) l) = part_dur l.
Proof.
  induction 1 as [|n l Hn _ IH]; [reflexivity|]. cbn [filter]. destruct (0 <? tdur n) eqn:E.
  - rewrite !part_dur_cons, IH. reflexivity.
  - rewrite part_dur_cons, IH. lia.
Qed.

(* notes of the voice: each starts at or after the end of the previous one and has a positive length *)
Fixpoint monophonic (le : Z) (notes : list inote) : Prop :=
  match notes with
  | [] => True
  | n :: r => le <= i_start n /\ i_start n < i_end n /\ monophonic (i_end n) r
  end.

Lemma voice_loop_covers c be notes : forall le racc res le',
  monophonic le notes -> Forall (fun n => i_start n < be) notes -> Forall (fun n => 0 <= tdur n) racc ->
  voice_loop c notes le racc = Some (res, le') ->
  racc_dur res = racc_dur racc + (le' - le) /\ Forall (fun n => 0 <= tdur n) res /\ le <= le' /\
  (notes <> [] -> exists n res', res = n :: res' /\ 0 < tdur n /\ le' - tdur n < be).
Proof.
  induction notes as [|n notes IH]; intros le racc res le' Hm Hst Hr H.
  - cbn in H. injection H as <- <-. repeat split; [lia|exact Hr|lia|congruence].
  - cbn [monophonic] in Hm. destruct Hm as (H1 & H2 & H3). cbn [voice_loop] in H.
    pose proof (Forall_inv Hst) as Hs0. pose proof (Forall_inv_tail Hst) as Hst'. cbn beta in Hs0.
    assert (E1 : (0 <? le - i_start n) = false) by lia. rewrite E1 in H.
    unfold push_note in H. assert (E2 : (0 <? i_end n - i_start n) = true) by lia. rewrite E2 in H.
    unfold parse_note in H. destruct (parse c (i_pitch n)) as [pn|]; [|destruct (le - i_start n <? 0); discriminate].
    cbn [obind] in H.
    set (x := mkTN pn (i_end n - i_start n) (i_vel n)) in *.
    assert (Last : forall racc1, voice_loop c notes (i_end n) (x :: racc1) = Some (res, le') ->
              (notes = [] -> exists n' res', res = n' :: res' /\ 0 < tdur n' /\ le' - tdur n' < be)).
    { intros racc1 Hv ->. cbn in Hv. injection Hv as <- <-. eexists _, _. split; [reflexivity|]. cbn [tdur x]. lia. }
    destruct (le - i_start n <? 0) eqn:E3; cbn [obind] in H.
    + pose proof (IH (i_end n) (x :: silence (- (le - i_start n)) :: racc) res le' H3 Hst'
                     ltac:(constructor; [cbn [tdur x]; lia|constructor; [cbn [tdur silence]; lia|exact Hr]]) H) as (I1 & I2 & I3 & I4).
      rewrite !racc_dur_cons in I1. cbn [tdur silence x] in I1.
      split; [lia|]. split; [exact I2|]. split; [lia|]. intros _.
      destruct notes as [|n2 notes]; [exact (Last _ H eq_refl)|exact (I4 ltac:(discriminate))].
    + pose proof (IH (i_end n) (x :: racc) res le' H3 Hst' ltac:(constructor; [cbn [tdur x]; lia|exact Hr]) H) as (I1 & I2 & I3 & I4).
      rewrite racc_dur_cons in I1. cbn [tdur x] in I1.
      split; [lia|]. split; [exact I2|]. split; [lia|]. intros _.
      destruct notes as [|n2 notes]; [exact (Last _ H eq_refl)|exact (I4 ltac:(discriminate))].
Qed.

(* every produced melody lasts exactly its bar, whatever tie comes in and whatever tie goes out *)
Theorem parse_voice_fills_bar c notes bs be cont mel ret :
  bs < be -> notes <> [] ->
  monophonic (match cont with Some d => bs + d | None => bs end) notes ->
  (forall d, cont = Some d -> 0 <= d) ->
  Forall (fun n => i_start n < be) notes ->
  parse_voice c notes bs be cont = Some (mel, ret) ->
  part_dur mel = be - bs /\ (forall e, ret = Some e -> 0 < e).
Proof.
  intros Hb Hne Hm Hc Hst H. unfold parse_voice in H. destruct notes as [|n0 notes]; [congruence|].
  set (init := match cont with
               | Some d => ((if 0 <? d then [continuation d] else []), bs + d)
               | None => ((if bs <? i_start n0 then [silence (i_start n0 - bs)] else []), i_start n0)
               end) in *.
  destruct init as [racc0 le0] eqn:Ei.
  assert (I0 : racc_dur racc0 = le0 - bs /\ Forall (fun n => 0 <= tdur n) racc0 /\ monophonic le0 (n0 :: notes)).
  { unfold init in Ei. destruct cont as [d|].
    - specialize (Hc d eq_refl). injection Ei as <- <-. destruct (0 <? d) eqn:E.
      + rewrite racc_dur_cons, racc_dur_nil. cbn [tdur continuation].
        split; [lia|]. split; [constructor; [cbn [tdur continuation]; lia|constructor]|exact Hm].
      + rewrite racc_dur_nil. split; [lia|]. split; [constructor|exact Hm].
    - injection Ei as <- <-. cbn [monophonic] in Hm. destruct Hm as (M1 & M2 & M3). destruct (bs <? i_start n0) eqn:E.
      + rewrite racc_dur_cons, racc_dur_nil. cbn [tdur silence].
        split; [lia|]. split; [constructor; [cbn [tdur silence]; lia|constructor]|]. cbn [monophonic]. repeat split; try lia. exact M3.
      + rewrite racc_dur_nil. split; [lia|]. split; [constructor|]. cbn [monophonic]. repeat split; try lia. exact M3. }
  destruct I0 as (D0 & F0 & M0).
  destruct (voice_loop c (n0 :: notes) le0 racc0) as [[racc le]|] eqn:El; [|discriminate]. cbn [obind] in H.
  destruct (voice_loop_covers c be _ _ _ _ _ M0 Hst F0 El) as (V1 & V2 & V3 & V4).
  destruct (V4 ltac:(discriminate)) as (nl & res' & -> & W1 & W2).
  assert (Tot : racc_dur (nl :: res') = le - bs) by lia.
  destruct (le <? be) eqn:E1.
  - cbn [obind fst snd] in H.
    destruct (filter _ _) as [|m0 ms] eqn:Ef; [discriminate|]. injection H as <- <-. split; [|discriminate].
    rewrite <- Ef. rewrite part_dur_filter_pos.
    + change (part_dur (rev (silence (be - le) :: nl :: res'))) with (racc_dur (silence (be - le) :: nl :: res')).
      rewrite racc_dur_cons. cbn [tdur silence]. lia.
    + apply Forall_rev. constructor; [cbn [tdur silence]; lia|exact V2].
  - destruct (be <? le) eqn:E2.
    + cbn [trim_last] in H.
      destruct (tdur nl - (le - be) =? 0) eqn:E3; [lia|]. cbn [obind fst snd] in H.
      destruct (filter _ _) as [|m0 ms] eqn:Ef; [discriminate|]. injection H as <- <-. split; [|intros e [= <-]; lia].
      rewrite <- Ef. rewrite part_dur_filter_pos.
      * change (part_dur (rev (with_dur nl (tdur nl - (le - be)) :: res'))) with (racc_dur (with_dur nl (tdur nl - (le - be)) :: res')).
        rewrite racc_dur_cons in *. cbn [tdur with_dur]. lia.
      * apply Forall_rev. constructor; [cbn [tdur with_dur]; lia|exact (Forall_inv_tail V2)].
    + cbn [obind fst snd] in H.
      destruct (filter _ _) as [|m0 ms] eqn:Ef; [discriminate|]. injection H as <- <-. split; [|discriminate].
      rewrite <- Ef. rewrite part_dur_filter_pos; [|apply Forall_rev; exact V2].
      change (part_dur (rev (nl :: res'))) with (racc_dur (nl :: res')). lia.
Qed.

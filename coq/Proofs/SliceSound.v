(* C12 - what a window SOUNDS (one part under one chord, notes without a reference pitch): the sounding notes of the window [a, b) of a
   part are the sounding notes of the part that start inside the window, clipped at b and shifted by -a; a note already sounding at a
   has become a continuation, which sounds nothing by itself. *)
From ML Require Import Model.Types gen.Tables Model.Pitch Model.Rel Model.Ton Model.Render Model.Slice Spec.PitchSpec Spec.RenderSpec.
From ML Require Import Proofs.PitchProofs Proofs.TonProofs Proofs.RenderProofs Proofs.RenderTonProofs Proofs.RenderOctave.
From ML Require Import Proofs.SliceProofs Proofs.SliceContent Proofs.SliceRejoin.
From Coq Require Import Lia ZifyBool.
Open Scope Z_scope.
Open Scope list_scope.

(* the window of a sounding note: kept when it starts inside [a, b), clipped at b, shifted by -a *)
Definition win (a b : Z) (x : snote) : option snote :=
  if (a <=? s_on x) && (s_on x <? b) then Some (mkSN (s_pitch x) (s_on x - a) (Z.min (s_on x + s_dur x) b - s_on x) (s_vel x)) else None.
Fixpoint filter_map {A B} (f : A -> option B) (l : list A) : list B :=
  match l with [] => [] | x :: r => match f x with Some y => y :: filter_map f r | None => filter_map f r end end.

Lemma run_items_indep m : forall c t c' t', run (part_items m c t) = run (part_items m c' t').
Proof. induction m as [|n m IH]; intros c t c' t'; cbn [part_items run]; [reflexivity|]. destruct (is_cont n); [|reflexivity]. rewrite (IH c (t + tdur n) c' (t' + tdur n)). reflexivity. Qed.

Lemma run_nonneg m c t : positive m -> 0 <= run (part_items m c t).
Proof.
  revert t. induction m as [|n m IH]; intros t H; cbn [part_items run]; [lia|]. inversion H as [|? ? Hn Hr]; subst.
  destruct (is_cont n); [|lia]. specialize (IH (t + tdur n) Hr). lia.
Qed.

(* the continuations that directly follow, after clipping: what is left of them before b *)
Lemma run_clip a b c : forall r t t' t0, positive r -> a <= t ->
  run (part_items (clip_list r t a b) c t') = Z.max 0 (Z.min (t + run (part_items r c t0)) b - t).
Proof.
  induction r as [|n r IH]; intros t t' t0 Hp Ha; cbn [clip_list part_items run]; [lia|].
  inversion Hp as [|? ? Hn Hr]; subst. unfold clip. cbv zeta.
  replace (Z.max t a) with t by lia. replace (t <? a) with false by lia.
  destruct (t <? Z.min (t + tdur n) b) eqn:E.
  - cbn [app part_items run]. rewrite is_cont_with_dur. cbn [with_dur tdur].
    destruct (is_cont n).
    + rewrite (IH (t + tdur n) (t' + (Z.min (t + tdur n) b - t)) (t0 + tdur n) Hr ltac:(lia)).
      pose proof (run_nonneg r c (t0 + tdur n) Hr). lia.
    + lia.
  - cbn [app]. rewrite (clip_list_after r (t + tdur n) a b Hr ltac:(lia)). cbn [part_items run].
    destruct (is_cont n); [pose proof (run_nonneg r c (t0 + tdur n) Hr)|]; lia.
Qed.

(* every sounding note of a part placed at t starts at t or later *)
Lemma sounding_onsets_ge c : forall m t ref sl, positive m -> sounding ref (part_items m c t) = Some sl -> Forall (fun x => t <= s_on x) sl.
Proof.
  induction m as [|n m IH]; intros t ref sl Hp H; cbn [part_items sounding] in H; [injection H as <-; constructor|].
  inversion Hp as [|? ? Hn Hr]; subst.
  assert (Mono : forall sl', Forall (fun x => t + tdur n <= s_on x) sl' -> Forall (fun x => t <= s_on x) sl').
  { intros sl' F. eapply Forall_impl; [|exact F]. cbn. intros; lia. }
  destruct (is_rest n || is_cont n); [exact (Mono _ (IH _ _ _ Hr H))|].
  destruct (pitch_full c (tn n) _) as [pr|]; [|discriminate]. cbn [obind] in H.
  destruct (sounding _ (part_items m c (t + tdur n))) as [rest|] eqn:Er; [|discriminate]. cbn [obind] in H. injection H as <-.
  constructor; [cbn; lia|exact (Mono _ (IH _ _ _ Hr Er))].
Qed.

Lemma filter_map_none {A B} (f : A -> option B) l : Forall (fun x => f x = None) l -> filter_map f l = [].
Proof. induction 1 as [|x l Hx _ IH]; cbn [filter_map]; [reflexivity|]. rewrite Hx. exact IH. Qed.

Lemma win_after a b t sl : b <= t -> Forall (fun x => t <= s_on x) sl -> filter_map (win a b) sl = [].
Proof.
  intros Hb F. apply filter_map_none. eapply Forall_impl; [|exact F]. cbn. intros x Hx. unfold win.
  destruct ((a <=? s_on x) && (s_on x <? b)) eqn:E; [lia|reflexivity].
Qed.

(* the statement, for a part whose notes need no reference pitch (scale, chromatic, chord-tone, bass-tone, absolute; rests and continuations) *)
Theorem window_sounding a b c : a < b -> forall v t ref ref' sl, positive v ->
  forallb (item_ok plain_pitched) (part_items v c t) = true ->
  sounding ref (part_items v c t) = Some sl ->
  sounding ref' (part_items (clip_list v t a b) c (Z.max t a - a)) = Some (filter_map (win a b) sl).
Proof.
  intros Hab. induction v as [|n v IH]; intros t ref ref' sl Hp Hok Hs.
  - cbn in Hs |- *. injection Hs as <-. reflexivity.
  - inversion Hp as [|? ? Hn Hr]; subst. cbn [part_items forallb item_ok] in Hok. apply andb_prop in Hok. destruct Hok as [H1 H2].
    cbn [part_items sounding] in Hs. cbn [clip_list]. unfold clip. cbv zeta.
    destruct (Z.max t a <? Z.min (t + tdur n) b) eqn:E.
    + (* the note overlaps the window *)
      destruct (t <? a) eqn:Ta.
      * (* it was already sounding at a: a continuation in the window, silent by itself *)
        cbn [app part_items sounding]. change (is_rest (continuation _)) with false. change (is_cont (continuation _)) with true. cbn [orb].
        replace (Z.max t a - a + tdur (continuation (Z.min (t + tdur n) b - Z.max t a))) with (Z.min (t + tdur n) b - a)
          by (cbn [continuation tdur]; lia).
        assert (Tail : forall rf sl', sounding rf (part_items v c (t + tdur n)) = Some sl' ->
                  sounding ref' (part_items (clip_list v (t + tdur n) a b) c (Z.min (t + tdur n) b - a)) = Some (filter_map (win a b) sl')).
        { intros rf sl' Hs'. destruct (Z_le_gt_dec (t + tdur n) b) as [L|G].
          - replace (Z.min (t + tdur n) b - a) with (Z.max (t + tdur n) a - a) by lia. exact (IH _ rf ref' sl' Hr H2 Hs').
          - rewrite (clip_list_after v (t + tdur n) a b Hr ltac:(lia)). cbn [part_items sounding].
            rewrite (win_after a b (t + tdur n) sl' ltac:(lia) (sounding_onsets_ge c v _ rf sl' Hr Hs')). reflexivity. }
        destruct (is_rest n || is_cont n); [exact (Tail _ _ Hs)|].
        destruct (pitch_full c (tn n) _) as [pr|]; [|discriminate]. cbn [obind] in Hs.
        destruct (sounding _ (part_items v c (t + tdur n))) as [rest|] eqn:Er; [|discriminate]. cbn [obind] in Hs. injection Hs as <-.
        cbn [filter_map]. unfold win at 1. cbn [s_on]. replace ((a <=? t) && (t <? b)) with false by lia. exact (Tail _ _ Er).
      * (* it starts inside the window *)
        cbn [app part_items sounding]. rewrite is_rest_with_dur, is_cont_with_dur. cbn [with_dur tdur tn tamp].
        replace (Z.max t a) with t by lia.
        assert (Tail : forall rf rf' sl', sounding rf (part_items v c (t + tdur n)) = Some sl' ->
                  sounding rf' (part_items (clip_list v (t + tdur n) a b) c (t - a + (Z.min (t + tdur n) b - t))) = Some (filter_map (win a b) sl')).
        { intros rf rf' sl' Hs'. destruct (Z_le_gt_dec (t + tdur n) b) as [L|G].
          - replace (t - a + (Z.min (t + tdur n) b - t)) with (Z.max (t + tdur n) a - a) by lia. exact (IH _ rf rf' sl' Hr H2 Hs').
          - rewrite (clip_list_after v (t + tdur n) a b Hr ltac:(lia)). cbn [part_items sounding].
            rewrite (win_after a b (t + tdur n) sl' ltac:(lia) (sounding_onsets_ge c v _ rf sl' Hr Hs')). reflexivity. }
        destruct (is_rest n || is_cont n) eqn:RC; [exact (Tail _ _ _ Hs)|].
        cbn [orb] in H1. unfold plain_pitched in H1.
        assert (D : pdir (tn n) = Abs) by (destruct (pkind (tn n)), (pdir (tn n)); try discriminate; reflexivity).
        assert (K : pkind (tn n) = KS \/ pkind (tn n) = KH \/ pkind (tn n) = KC \/ pkind (tn n) = KB \/ pkind (tn n) = KA)
          by (destruct (pkind (tn n)); try discriminate; tauto).
        rewrite pitch_full_abs in Hs |- * by tauto.
        destruct (to_pitch_abs c (tn n)) as [pr|]; [|discriminate]. cbn [obind] in Hs |- *.
        destruct (sounding _ (part_items v c (t + tdur n))) as [rest|] eqn:Er; [|discriminate]. cbn [obind] in Hs. injection Hs as <-.
        rewrite (Tail _ _ _ Er). cbn [obind filter_map]. unfold win at 2. cbn [s_on s_dur s_pitch s_vel].
        replace ((a <=? t) && (t <? b)) with true by lia. do 3 f_equal.
        rewrite (run_clip a b c v (t + tdur n) _ (t + tdur n) Hr ltac:(lia)).
        pose proof (run_nonneg v c (t + tdur n) Hr). lia.
    + (* the note lies entirely outside the window *)
      cbn [app]. destruct (Z_le_gt_dec (t + tdur n) a) as [L|G].
      * (* before it *)
        replace (Z.max t a) with (Z.max (t + tdur n) a) by lia.
        destruct (is_rest n || is_cont n); [exact (IH _ _ _ _ Hr H2 Hs)|].
        destruct (pitch_full c (tn n) _) as [pr|]; [|discriminate]. cbn [obind] in Hs.
        destruct (sounding _ (part_items v c (t + tdur n))) as [rest|] eqn:Er; [|discriminate]. cbn [obind] in Hs. injection Hs as <-.
        cbn [filter_map]. unfold win at 1. cbn [s_on]. replace ((a <=? t) && (t <? b)) with false by lia. exact (IH _ _ _ _ Hr H2 Er).
      * (* after it: nothing of the rest is in the window either *)
        assert (Tb : b <= t) by lia.
        rewrite (clip_list_after v (t + tdur n) a b Hr ltac:(lia)). cbn [part_items sounding].
        assert (F : Forall (fun x => t <= s_on x) sl).
        { apply (sounding_onsets_ge c (n :: v) t ref sl Hp). cbn [part_items sounding]. exact Hs. }
        rewrite (win_after a b t sl Tb F). reflexivity.
Qed.

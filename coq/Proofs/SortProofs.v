(* Insertion sort on strings (Python's sorted on str): the result depends only
   on the multiset of its input. *)
From ML Require Import Model.Types Model.Ext.
From Coq Require Import Permutation Sorted OrderedTypeEx.

Lemma leb_trans a b c : String.leb a b = true -> String.leb b c = true -> String.leb a c = true.
Proof.
  unfold String.leb. intros H1 H2.
  destruct (String.compare a b) eqn:E1; try discriminate;
  destruct (String.compare b c) eqn:E2; try discriminate.
  - apply String.compare_eq_iff in E1. subst. rewrite E2. reflexivity.
  - apply String.compare_eq_iff in E1. subst. rewrite E2. reflexivity.
  - apply String.compare_eq_iff in E2. subst. rewrite E1. reflexivity.
  - apply String_as_OT.cmp_lt in E1. apply String_as_OT.cmp_lt in E2.
    pose proof (String_as_OT.lt_trans _ _ _ E1 E2) as L. apply String_as_OT.cmp_lt in L.
    unfold String_as_OT.cmp in L. rewrite L. reflexivity.
Qed.

Definition sle (a b : string) : Prop := String.leb a b = true.

Lemma sinsert_perm x l : Permutation (sinsert x l) (x :: l).
Proof.
  induction l as [|y l IH]; cbn [sinsert]; [apply Permutation_refl|].
  destruct (String.leb x y); [apply Permutation_refl|].
  eapply perm_trans; [apply perm_skip, IH | apply perm_swap].
Qed.

Lemma ssort_perm l : Permutation (ssort l) l.
Proof.
  unfold ssort. induction l as [|x l IH]; cbn [fold_right]; [constructor|].
  eapply perm_trans; [apply sinsert_perm | apply perm_skip, IH].
Qed.

Lemma sinsert_sorted x l : StronglySorted sle l -> StronglySorted sle (sinsert x l).
Proof.
  induction l as [|y l IH]; cbn [sinsert]; intros H.
  - constructor; constructor.
  - destruct (String.leb x y) eqn:E.
    + constructor; [exact H|]. constructor; [exact E|].
      inversion H as [|? ? _ Hy]; subst. rewrite Forall_forall in *. intros z Hz.
      exact (leb_trans _ _ _ E (Hy z Hz)).
    + inversion H as [|? ? Hs Hy]; subst. constructor; [apply IH; exact Hs|].
      rewrite Forall_forall in *. intros z Hz.
      apply (Permutation_in _ (sinsert_perm x l)) in Hz. destruct Hz as [<-|Hz]; [|auto].
      destruct (String.leb_total x y) as [T|T]; [congruence|exact T].
Qed.

Lemma ssort_sorted l : StronglySorted sle (ssort l).
Proof.
  unfold ssort. induction l as [|x l IH]; cbn [fold_right]; [constructor|].
  apply sinsert_sorted. exact IH.
Qed.

Lemma sorted_perm_eq l l' :
  StronglySorted sle l -> StronglySorted sle l' -> Permutation l l' -> l = l'.
Proof.
  revert l'. induction l as [|a l IH]; intros l' Hl Hl' P.
  - apply Permutation_nil in P. subst. reflexivity.
  - destruct l' as [|b l']; [apply Permutation_sym, Permutation_nil in P; discriminate|].
    inversion Hl as [|? ? Hs Ha]; subst. inversion Hl' as [|? ? Hs' Hb]; subst.
    assert (a = b).
    { rewrite Forall_forall in *.
      assert (Ia : In a (b :: l')) by (apply (Permutation_in _ P); left; reflexivity).
      assert (Ib : In b (a :: l)) by (apply (Permutation_in _ (Permutation_sym P)); left; reflexivity).
      destruct Ia as [->|Ia]; [reflexivity|]. destruct Ib as [->|Ib]; [reflexivity|].
      apply String.leb_antisym; [apply Ha; exact Ib | apply Hb; exact Ia]. }
    subst b. f_equal. apply IH; auto. exact (Permutation_cons_inv P).
Qed.

Lemma ssort_permutation l l' : Permutation l l' -> ssort l = ssort l'.
Proof.
  intros P. apply sorted_perm_eq; try apply ssort_sorted.
  eapply perm_trans; [apply ssort_perm|]. eapply perm_trans; [exact P|]. apply Permutation_sym, ssort_perm.
Qed.

Lemma ssort_idempotent l : ssort (ssort l) = ssort l.
Proof. apply ssort_permutation, ssort_perm. Qed.

From ML Require Import Model.Types gen.Tables Model.Dur Model.Orn Model.OrnAll Proofs.DurProofs Proofs.OrnProofs.
From Coq Require Import QArith Qround Lia Lqa ZifyBool.
Open Scope Q_scope.
Open Scope list_scope.

Lemma fold_red_from l : forall a, fold_left (fun a x => Qred (a + x)) l a == a + qsum l.
Proof.
  induction l as [|x l IH]; intros a; cbn [fold_left]; [rewrite qsum_nil; ring|].
  rewrite IH, Qred_correct, qsum_cons. ring.
Qed.
Lemma qsum_red_eq l : qsum_red l == qsum l.
Proof. unfold qsum_red. rewrite fold_red_from. ring. Qed.
Lemma odur_qsum s : odur s == qsum (o_l s).
Proof. apply qsum_red_eq. Qed.

Definition idq (x : Q) : Q := x.
Definition nonneg (l : list Q) : Prop := Forall (fun x => 0 <= x) l.

(* what every builder keeps: the pieces fill the span d and none is negative *)
Definition Inv (d : Q) (s : ost) : Prop := odur s == d /\ nonneg (o_l s).

Lemma qsum_map_zero l : qsum (map (fun q => q * 0) l) == 0.
Proof. rewrite qsum_map_mul. ring. Qed.

Lemma qsum_zero_copy s : qsum (zero_copy s) == 0.
Proof.
  unfold zero_copy. induction (o_l s) as [|x l IH]; [reflexivity|].
  cbn [map]. rewrite qsum_cons, IH, Qred_correct. ring.
Qed.

Lemma nonneg_zero_copy s : nonneg (zero_copy s).
Proof.
  unfold zero_copy, nonneg. induction (o_l s) as [|x l IH]; cbn [map]; constructor; [rewrite Qred_correct; lra|exact IH].
Qed.

Lemma nonneg_app a b : nonneg a -> nonneg b -> nonneg (a ++ b).
Proof. intros A B. apply Forall_app. split; assumption. Qed.

Lemma nonneg_map_mul l k : nonneg l -> 0 <= k -> nonneg (map (fun q => q * k) l).
Proof.
  intros N K. induction N as [|x l Hx _ IH]; cbn [map]; constructor; [|exact IH].
  apply Qmult_le_0_compat; assumption.
Qed.

(* new_note.set_duration(x): succeeds and yields pieces of total x, unless a melody of length 0 is stretched *)
Lemma setd_ok s x d : 0 <= x -> Inv d s -> (0 < d \/ x == 0 \/ o_note s = true) ->
  exists a, setd idq true s x = Some a /\ qsum a == x /\ nonneg a.
Proof.
  intros Hx [HD HN] Hc. unfold setd, idq.
  destruct (o_note s) eqn:On.
  - exists [x]. split; [reflexivity|]. split; [rewrite qsum_cons, qsum_nil; ring|repeat constructor; exact Hx].
  - cbn [andb]. destruct (Qeq_bool x 0) eqn:Ex.
    + apply Qeq_bool_iff in Ex. eexists. split; [reflexivity|]. split; [rewrite qsum_map_zero, Ex; reflexivity|].
      apply nonneg_map_mul; [exact HN|lra].
    + assert (Hd : 0 < d).
      { destruct Hc as [H|[H|H]]; [exact H| |discriminate H]. apply Qeq_bool_iff in H. congruence. }
      assert (HD0 : ~ odur s == 0) by (rewrite HD; lra).
      destruct (Qeq_bool (odur s) 0) eqn:E0; [apply Qeq_bool_iff in E0; contradiction|].
      eexists. split; [reflexivity|]. split.
      * rewrite qsum_map_mul, <- odur_qsum. field. exact HD0.
      * apply nonneg_map_mul; [exact HN|]. apply Qle_shift_div_l; [rewrite HD; exact Hd|lra].
Qed.

Ltac inv_intro :=
  match goal with |- exists s', Some ?s = Some s' /\ _ => exists s; split; [reflexivity|] end.

Lemma b_mordant_inv d s : 0 <= d -> Inv d s -> exists s', b_mordant idq true s = Some s' /\ Inv d s'.
Proof.
  intros Hd I. pose proof I as [HD HN]. unfold b_mordant.
  destruct (Qle_bool (1 # 2) (odur s)) eqn:E; [apply Qle_bool_true in E|inv_intro; exact I].
  assert (P : 0 < d) by (rewrite <- HD; lra).
  destruct (setd_ok s (1 # 4) d ltac:(lra) I (or_introl P)) as (a & Ha & Sa & Na).
  assert (X : 0 <= odur s - 2 * (1 # 4)) by lra.
  destruct (setd_ok s _ d X I (or_introl P)) as (b & Hb & Sb & Nb).
  rewrite Ha, Hb. cbn [obind]. eexists. split; [reflexivity|]. split.
  - rewrite odur_qsum. unfold idq. cbn [o_l]. rewrite !qsum_app, qsum_cons, qsum_nil, Sa, Sb. rewrite <- HD. ring.
  - cbn [o_l]. apply nonneg_app; [exact Na|]. apply nonneg_app; [repeat constructor; unfold idq; lra|exact Nb].
Qed.

Lemma b_grupetto_with_inv md d s : 0 < md -> 3 * md <= odur s -> 0 <= d -> Inv d s ->
  exists s', b_grupetto_with idq true md s = Some s' /\ Inv d s'.
Proof.
  intros Hmd Hle Hd I. pose proof I as [HD HN]. unfold b_grupetto_with.
  assert (P : 0 < d) by (rewrite <- HD; lra).
  destruct (setd_ok s md d ltac:(lra) I (or_introl P)) as (a & Ha & Sa & Na).
  rewrite Ha. cbn [obind]. eexists. split; [reflexivity|]. split.
  - rewrite odur_qsum. unfold idq. cbn [o_l]. rewrite !qsum_app, !qsum_cons, qsum_nil, Sa, qsum_zero_copy. rewrite <- HD. ring.
  - cbn [o_l]. unfold idq. apply nonneg_app; [apply nonneg_zero_copy|].
    apply nonneg_app; [repeat constructor; lra|]. apply nonneg_app; [exact Na|].
    repeat constructor; lra.
Qed.

Lemma b_grupetto_inv d s : 0 <= d -> Inv d s -> exists s', b_grupetto idq true s = Some s' /\ Inv d s'.
Proof.
  intros Hd I. unfold b_grupetto.
  destruct (Qle_bool (3 # 2) (odur s)) eqn:E1; [apply Qle_bool_true in E1; apply b_grupetto_with_inv; try assumption; lra|].
  destruct (Qle_bool (1 # 2) (odur s)) eqn:E2; [apply Qle_bool_true in E2|inv_intro; exact I].
  apply b_grupetto_with_inv; try assumption; [reflexivity|].
  assert (H : 3 * ((2 # 3) * (1 # 4)) == 1 # 2) by reflexivity. rewrite H. exact E2.
Qed.

Lemma b_grupetto_short_inv d s : 0 <= d -> Inv d s -> exists s', b_grupetto_short idq true s = Some s' /\ Inv d s'.
Proof.
  intros Hd I. unfold b_grupetto_short.
  destruct (Qle_bool (1 # 2) (odur s)) eqn:E2; [apply Qle_bool_true in E2|inv_intro; exact I].
  apply b_grupetto_with_inv; try assumption; [reflexivity|].
  assert (H : 3 * ((2 # 3) * (1 # 4)) == 1 # 2) by reflexivity. rewrite H. exact E2.
Qed.

Lemma roll_pieces_sum a md n e : qsum a == md -> qsum (roll_pieces idq a md n e) == inject_Z (Z.of_nat n) * md.
Proof.
  intros Sa. revert e. induction n as [|n IH]; intros e; cbn [roll_pieces]; [rewrite qsum_nil; cbn; ring|].
  rewrite qsum_app, IH, Nat2Z.inj_succ. unfold Z.succ. rewrite inject_Z_plus.
  destruct e; [rewrite Sa|unfold idq; rewrite qsum_cons, qsum_nil]; ring.
Qed.

Lemma roll_pieces_nonneg a md n e : nonneg a -> 0 <= md -> nonneg (roll_pieces idq a md n e).
Proof.
  intros Na Hmd. revert e. induction n as [|n IH]; intros e; cbn [roll_pieces]; [constructor|].
  apply nonneg_app; [|apply IH]. destruct e; [exact Na|repeat constructor; exact Hmd].
Qed.

Lemma b_roll_inv md d s : 0 < md -> 0 <= d -> Inv d s -> exists s', b_roll idq true md s = Some s' /\ Inv d s'.
Proof.
  intros Hmd Hd I. pose proof I as [HD HN]. unfold b_roll, qfloor.
  destruct (Qfloor (odur s / md) =? 0)%Z eqn:E0; [inv_intro; exact I|].
  assert (HD0 : 0 <= odur s) by (rewrite HD; exact Hd).
  assert (Hq : 0 <= odur s / md) by (apply Qle_shift_div_l; [exact Hmd|lra]).
  assert (Hf : (0 <= Qfloor (odur s / md))%Z) by (change 0%Z with (Qfloor 0); apply Qfloor_resp_le; exact Hq).
  assert (F : inject_Z (Qfloor (odur s / md)) * md <= odur s).
  { pose proof (Qfloor_le (odur s / md)) as F. apply (Qmult_le_compat_r _ _ md) in F; [|lra].
    assert (Hdm : odur s / md * md == odur s) by (field; lra). rewrite Hdm in F. exact F. }
  assert (P : 0 < d).
  { rewrite <- HD. assert (1 <= Qfloor (odur s / md))%Z by lia.
    assert (inject_Z 1 <= inject_Z (Qfloor (odur s / md))) by (rewrite <- Zle_Qle; assumption).
    assert (1 * md <= inject_Z (Qfloor (odur s / md)) * md) by (apply Qmult_le_compat_r; [exact H0|lra]). lra. }
  destruct (setd_ok s md d ltac:(lra) I (or_introl P)) as (a & Ha & Sa & Na).
  rewrite Ha. cbn [obind]. eexists. split; [reflexivity|]. split.
  - rewrite odur_qsum. cbn [o_l]. destruct (is_intq (odur s / md)) eqn:Ei.
    + rewrite (roll_pieces_sum _ _ _ _ Sa), Z2Nat.id by exact Hf. rewrite (is_intq_floor _ Ei). rewrite <- HD. field. lra.
    + rewrite qsum_app, (roll_pieces_sum _ _ _ _ Sa), qsum_cons, qsum_nil, Z2Nat.id by exact Hf. unfold idq. rewrite <- HD. ring.
  - cbn [o_l]. destruct (is_intq (odur s / md)); [apply roll_pieces_nonneg; [exact Na|lra]|].
    apply nonneg_app; [apply roll_pieces_nonneg; [exact Na|lra]|]. repeat constructor. unfold idq. lra.
Qed.

Lemma b_susp_inv c d s : 0 <= d -> Inv d s -> exists s', b_susp idq true c s = Some s' /\ Inv d s'.
Proof.
  intros Hd I. pose proof I as [HD HN]. unfold b_susp.
  destruct (has_last c); [|inv_intro; exact I].
  assert (X : 0 <= odur s / 2) by (rewrite HD; apply Qle_shift_div_l; lra).
  assert (C : 0 < d \/ odur s / 2 == 0 \/ o_note s = true).
  { destruct (Qlt_le_dec 0 d) as [L|L]; [left; exact L|right; left]. assert (E : d == 0) by lra. rewrite HD, E. reflexivity. }
  destruct (setd_ok s _ d X I C) as (a & Ha & Sa & Na).
  rewrite Ha. cbn [obind]. eexists. split; [reflexivity|]. split.
  - rewrite odur_qsum. unfold idq. cbn [o_l]. rewrite qsum_cons, Sa. rewrite <- HD. field.
  - cbn [o_l]. constructor; [exact X|exact Na].
Qed.

Lemma b_retarded_inv d s : 0 <= d -> Inv d s -> exists s', b_retarded idq true s = Some s' /\ Inv d s'.
Proof.
  intros Hd I. pose proof I as [HD HN]. unfold b_retarded.
  destruct (Qle_bool (odur s) (1 # 12)) eqn:E; [inv_intro; exact I|apply Qle_bool_false in E].
  assert (P : 0 < d) by (rewrite <- HD; lra).
  assert (X : 0 <= odur s - (1 # 12)) by lra.
  destruct (setd_ok s _ d X I (or_introl P)) as (a & Ha & Sa & Na).
  rewrite Ha. cbn [obind]. eexists. split; [reflexivity|]. split.
  - rewrite odur_qsum. unfold idq. cbn [o_l]. rewrite qsum_cons, Sa. rewrite <- HD. ring.
  - cbn [o_l]. constructor; [unfold idq; lra|exact Na].
Qed.

Lemma b_interpolate_inv c d s : 0 <= d -> Inv d s -> exists s', b_interpolate idq c s = Some s' /\ Inv d s'.
Proof.
  intros Hd I. pose proof I as [HD HN]. unfold b_interpolate.
  destruct (o_note s); [|inv_intro; exact I].
  destruct (negb (next_some c) || negb (next_isnote c) || negb (cur_isnote c)) eqn:E1; [inv_intro; exact I|].
  destruct (interp_delta c =? 0)%Z eqn:E2; [inv_intro; exact I|].
  eexists. split; [reflexivity|]. split.
  - rewrite odur_qsum. cbn [o_l]. rewrite interpolate_sum. exact HD.
  - cbn [o_l]. apply interpolate_nonneg. rewrite HD. exact Hd.
Qed.

Lemma apply_tag_inv c d s t : 0 <= d -> Inv d s -> exists s', apply_tag idq true c s t = Some s' /\ Inv d s'.
Proof.
  intros Hd I. destruct t; cbn [apply_tag];
    first [ apply b_mordant_inv; assumption | apply b_grupetto_inv; assumption | apply b_grupetto_short_inv; assumption
          | apply b_roll_inv; [reflexivity|assumption|assumption] | apply b_susp_inv; assumption
          | apply b_retarded_inv; assumption | apply b_interpolate_inv; assumption | (inv_intro; exact I) ].
Qed.

Lemma pipeline_inv c ts : forall d s, 0 <= d -> Inv d s -> exists s', pipeline idq true c ts s = Some s' /\ Inv d s'.
Proof.
  induction ts as [|t ts IH]; intros d s Hd I; cbn [pipeline]; [inv_intro; exact I|].
  destruct (apply_tag_inv c d s t Hd I) as (s1 & H1 & I1). rewrite H1. cbn [obind]. apply IH; assumption.
Qed.

(* any list of tags, in any order and with repetitions: realisation in exact arithmetic never fails, fills exactly the
   note's span, and produces no negative duration *)
Theorem combination_ok c ts d : 0 <= d ->
  exists l, ideal_all c ts d = Some l /\ qsum l == d /\ nonneg l.
Proof.
  intros Hd. assert (I : Inv d (mkO true [d])).
  { split; [rewrite odur_qsum; cbn [o_l]; rewrite qsum_cons, qsum_nil; ring|repeat constructor; exact Hd]. }
  destruct (pipeline_inv c ts d _ Hd I) as (s' & H & [S N]).
  exists (o_l s'). unfold ideal_all. fold idq. rewrite H. split; [reflexivity|]. split; [rewrite <- odur_qsum; exact S|exact N].
Qed.

(* with the library's rounding: whatever realize_all returns has the note's duration (the assertion at the end of realize_tags) *)
Lemma realize_all_total c ts d l : realize_all c ts d = Some l -> qsum l == d.
Proof.
  unfold realize_all. destruct (pipeline sd true c ts (mkO true [d])) as [s|]; cbn [obind]; [|discriminate].
  destruct (Qeq_bool (odur s) d) eqn:E; [|discriminate]. intros H. injection H as <-. rewrite <- odur_qsum. apply Qeq_bool_iff. exact E.
Qed.

(* before the repair of Melody.set_duration: a zero-length note tagged suspension_prev and suspension_prev_repeat raised *)
Lemma combination_before_repair_refuted :
  let c := mkCtx true true true 0 0 false false false 0 0 in
  pipeline idq false c [TSuspensionPrev; TSuspensionPrevRepeat] (mkO true [0]) = None /\
  pipeline sd false c [TSuspensionPrev; TSuspensionPrevRepeat] (mkO true [0]) = None /\
  realize_all c [TSuspensionPrev; TSuspensionPrevRepeat] 0 = Some [0; 0; 0].
Proof. repeat split; vm_compute; reflexivity. Qed.

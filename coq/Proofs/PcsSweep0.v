From ML Require Import Model.Types Proofs.PcsDefs.
Lemma sweep_0 : sweep_elem 0 = true.
Proof. vm_compute. reflexivity. Qed.

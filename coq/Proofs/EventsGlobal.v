(* C03, to_events as a whole: the global stable sort by onset keeps each track's rows in order, the per-track dictionaries are
   independent, and the result is a permutation of the tracks' audible events. *)
From ML Require Import Model.Types gen.Tables Model.Pitch Model.Rel Model.Render Spec.RenderSpec Proofs.RenderProofs Proofs.EventsProofs.
From Coq Require Import QArith Lia Permutation.
Open Scope Z_scope.
Open Scope list_scope.

(* ---------- the stable insertion sort on integer keys ---------- *)
Section Sort.
Context {A : Type} (key : A -> Z).

Fixpoint sortedk (l : list A) : Prop :=
  match l with [] => True | x :: r => Forall (fun y => key x <= key y) r /\ sortedk r end.

Lemma insert_key_in x l y : In y (insert_key key x l) <-> y = x \/ In y l.
Proof.
  induction l as [|a l IH]; cbn [insert_key In]; [intuition|]. destruct (key x <=? key a); cbn [In]; [intuition|]. rewrite IH. intuition.
Qed.

Lemma insert_key_sorted x l : sortedk l -> sortedk (insert_key key x l).
Proof.
  induction l as [|a l IH]; intros H; cbn [insert_key]; [cbn; split; [constructor|exact I]|].
  destruct H as [Ha Hl]. destruct (key x <=? key a) eqn:E.
  - cbn [sortedk]. split; [|split; assumption]. constructor; [lia|]. eapply Forall_impl; [|exact Ha]. intros y Hy. cbn beta in *. lia.
  - cbn [sortedk]. split; [|exact (IH Hl)]. apply Forall_forall. intros y Hy. apply insert_key_in in Hy. destruct Hy as [->|Hy]; [lia|].
    rewrite Forall_forall in Ha. exact (Ha y Hy).
Qed.

Lemma sort_key_sorted l : sortedk (sort_key key l).
Proof. induction l as [|x l IH]; [exact I|]. cbn [sort_key fold_right]. apply insert_key_sorted. exact IH. Qed.

(* inserting into a sorted list commutes with filtering *)
Lemma filter_insert (P : A -> bool) x l : sortedk l ->
  filter P (insert_key key x l) = if P x then insert_key key x (filter P l) else filter P l.
Proof.
  induction l as [|a l IH]; intros H; cbn [insert_key filter]; [destruct (P x); reflexivity|].
  destruct H as [Ha Hl]. destruct (key x <=? key a) eqn:E.
  - cbn [filter]. destruct (P x) eqn:Px; [|reflexivity]. destruct (P a) eqn:Pa.
    + cbn [insert_key]. rewrite E. reflexivity.
    + (* x goes in front of every kept element of l: they all have keys >= key a >= key x *)
      assert (G : forall m, Forall (fun y => key x <= key y) m -> insert_key key x (filter P m) = x :: filter P m).
      { induction m as [|b m IHm]; intros Hm; [reflexivity|]. inversion Hm as [|? ? Hb Hr]; subst. cbn [filter].
        destruct (P b); [cbn [insert_key]; assert (key x <=? key b = true) by lia; rewrite H; reflexivity|exact (IHm Hr)]. }
      rewrite G; [reflexivity|]. eapply Forall_impl; [|exact Ha]. intros y Hy. cbn beta in *. lia.
  - cbn [filter]. rewrite (IH Hl). destruct (P x) eqn:Px, (P a) eqn:Pa; try reflexivity. cbn [insert_key]. rewrite E. reflexivity.
Qed.

Lemma filter_sort (P : A -> bool) l : filter P (sort_key key l) = sort_key key (filter P l).
Proof.
  induction l as [|x l IH]; [reflexivity|]. cbn [sort_key fold_right]. fold (sort_key key l).
  rewrite (filter_insert P x _ (sort_key_sorted l)), IH. cbn [filter]. destruct (P x); reflexivity.
Qed.

Lemma sort_sorted_id l : sortedk l -> sort_key key l = l.
Proof.
  induction l as [|x l IH]; intros H; [reflexivity|]. destruct H as [Hx Hl]. cbn [sort_key fold_right]. fold (sort_key key l). rewrite (IH Hl).
  destruct l as [|y r]; [reflexivity|]. cbn [insert_key]. inversion Hx; subst. assert (key x <=? key y = true) by lia. rewrite H. reflexivity.
Qed.

(* a subsequence that is already in order is left in order by the global sort *)
Theorem sort_keeps_sorted_subsequence (P : A -> bool) l : sortedk (filter P l) -> filter P (sort_key key l) = filter P l.
Proof. intros H. rewrite filter_sort. apply sort_sorted_id. exact H. Qed.
End Sort.

(* ---------- the per-track dictionaries are independent ---------- *)
Lemma nlook_nset_other k k' v d : k' <> k -> nlook k' (nset k v d) = nlook k' d.
Proof.
  intros N. induction d as [|[k0 v0] r IH]; cbn [nset nlook].
  - destruct (Nat.eqb k' k) eqn:E; [apply Nat.eqb_eq in E; contradiction|reflexivity].
  - destruct (Nat.eqb k k0) eqn:E; cbn [nlook].
    + apply Nat.eqb_eq in E. subst k0. destruct (Nat.eqb k' k) eqn:E2; [apply Nat.eqb_eq in E2; contradiction|reflexivity].
    + destruct (Nat.eqb k' k0); [reflexivity|exact IH].
Qed.

Lemma step_other tpq tempo t d r : r_track r <> t -> nlook t (ev_step true tpq tempo d r) = nlook t d.
Proof.
  intros N. unfold ev_step. destruct (negb (r_cont r)); [apply nlook_nset_other; congruence|].
  destruct (nlook (r_track r) d); apply nlook_nset_other; congruence.
Qed.

Lemma fold_any_track tpq tempo t rows : forall d,
  nlook t (fold_left (ev_step true tpq tempo) rows d) =
  fold_left (tstep tpq tempo t) (filter (fun r => Nat.eqb (r_track r) t) rows) (nlook t d).
Proof.
  induction rows as [|r rows IH]; intros d; [reflexivity|]. cbn [fold_left filter]. rewrite IH.
  destruct (Nat.eqb (r_track r) t) eqn:E.
  - apply Nat.eqb_eq in E. cbn [fold_left]. rewrite (step_track tpq tempo t d r E). reflexivity.
  - apply Nat.eqb_neq in E. rewrite (step_other tpq tempo t d r E). reflexivity.
Qed.

(* what the track of part idx accumulates inside matrix_to_events (all tracks together, sorted by onset) is what it
   accumulates from its own rows alone, in their original order - as soon as those are in time order, which C03_rows_are_timeline gives *)
Theorem track_inside_the_global_loop tpq tempo idx rows :
  sortedk r_off (filter (fun r => Nat.eqb (r_track r) idx) rows) ->
  nlook idx (fold_left (ev_step true tpq tempo) (sort_key r_off rows) []) =
  nlook idx (fold_left (ev_step true tpq tempo) (filter (fun r => Nat.eqb (r_track r) idx) rows) []).
Proof.
  intros H. rewrite !fold_any_track. rewrite (sort_keeps_sorted_subsequence r_off _ rows H).
  f_equal. clear H. induction rows as [|r rows IH]; [reflexivity|]. cbn [filter]. destruct (Nat.eqb (r_track r) idx) eqn:E; [|exact IH].
  cbn [filter]. rewrite E. f_equal. exact IH.
Qed.

(* the output is a permutation of the audible events of all dictionaries (the final sort only orders them) *)
Lemma insert_q_perm {A} (key : A -> Q) x l : Permutation (insert_q key x l) (x :: l).
Proof.
  induction l as [|y r IH]; cbn [insert_q]; [reflexivity|]. destruct (Qle_bool (key x) (key y)); [reflexivity|].
  rewrite IH. apply perm_swap.
Qed.
Lemma sort_q_perm {A} (key : A -> Q) l : Permutation (sort_q key l) l.
Proof. induction l as [|x l IH]; [reflexivity|]. cbn [sort_q fold_right]. rewrite insert_q_perm. constructor. exact IH. Qed.

Theorem events_are_the_tracks_events tpq tempo rows :
  Permutation (matrix_to_events true tpq tempo rows)
              (filter (fun e => negb (e_sil e)) (flat_map snd (fold_left (ev_step true tpq tempo) (sort_key r_off rows) []))).
Proof. unfold matrix_to_events. apply sort_q_perm. Qed.

(* ---------- the dictionary holds, under key t, exactly the events of track t ---------- *)
Definition wf_dict (d : list (nat * list event)) : Prop :=
  NoDup (map fst d) /\ Forall (fun kv => Forall (fun e => e_track e = fst kv) (snd kv)) d.

Lemma nset_keys k v d : map fst (nset k v d) = if existsb (Nat.eqb k) (map fst d) then map fst d else map fst d ++ [k].
Proof.
  induction d as [|[k0 v0] r IH]; cbn [nset map fst existsb]; [reflexivity|].
  destruct (Nat.eqb k k0) eqn:E; cbn [map fst orb]; [reflexivity|]. rewrite IH. destruct (existsb (Nat.eqb k) (map fst r)); reflexivity.
Qed.

Lemma NoDup_snoc {A} (l : list A) k : NoDup l -> ~ In k l -> NoDup (l ++ [k]).
Proof.
  induction l as [|a l IH]; intros Hn Hk; cbn [app]; [constructor; [intros []|constructor]|].
  inversion Hn as [|? ? Ha Hl]; subst. constructor.
  - intros Hin. apply in_app_or in Hin. destruct Hin as [Hin|[<-|[]]]; [contradiction|apply Hk; left; reflexivity].
  - apply IH; [exact Hl|]. intros X. apply Hk. right. exact X.
Qed.

Lemma nset_wf k v d : wf_dict d -> Forall (fun e => e_track e = k) v -> wf_dict (nset k v d).
Proof.
  intros [Hn Hf] Hv. split.
  - rewrite nset_keys. destruct (existsb (Nat.eqb k) (map fst d)) eqn:E; [exact Hn|].
    apply NoDup_snoc; [exact Hn|]. intros Hin.
    assert (existsb (Nat.eqb k) (map fst d) = true) by (apply existsb_exists; exists k; split; [exact Hin|apply Nat.eqb_refl]). congruence.
  - clear Hn. induction d as [|[k0 v0] r IH]; cbn [nset]; [constructor; [exact Hv|constructor]|].
    inversion Hf as [|? ? H0 Hr]; subst. destruct (Nat.eqb k k0) eqn:E.
    + apply Nat.eqb_eq in E. subst k0. constructor; [exact Hv|exact Hr].
    + constructor; [exact H0|exact (IH Hr)].
Qed.

Lemma extend_last_tracks l q k : Forall (fun e => e_track e = k) l -> Forall (fun e => e_track e = k) (extend_last l q).
Proof.
  intros H. unfold extend_last. destruct (rev l) as [|e r] eqn:E; [exact H|].
  assert (Hr : Forall (fun e => e_track e = k) (e :: r)) by (rewrite <- E; apply Forall_rev; exact H).
  apply Forall_rev. constructor; [exact (Forall_inv Hr)|exact (Forall_inv_tail Hr)].
Qed.

Lemma nlook_in k d l : nlook k d = Some l -> In (k, l) d.
Proof.
  induction d as [|[k0 v0] r IH]; cbn [nlook]; [discriminate|]. destruct (Nat.eqb k k0) eqn:E.
  - apply Nat.eqb_eq in E. subst. intros H. injection H as <-. left. reflexivity.
  - intros H. right. exact (IH H).
Qed.

Lemma ev_step_wf tpq tempo d r : wf_dict d -> wf_dict (ev_step true tpq tempo d r).
Proof.
  intros W. unfold ev_step.
  assert (L : forall l, nlook (r_track r) d = Some l -> Forall (fun e => e_track e = r_track r) l).
  { intros l Hl. destruct W as [_ Hf]. rewrite Forall_forall in Hf. exact (Hf _ (nlook_in _ _ _ Hl)). }
  destruct (negb (r_cont r)).
  - apply nset_wf; [exact W|]. apply Forall_app. split; [destruct (nlook (r_track r) d) as [l|] eqn:E; [exact (L l eq_refl)|constructor]|].
    constructor; [reflexivity|constructor].
  - destruct (nlook (r_track r) d) as [l|] eqn:E.
    + apply nset_wf; [exact W|]. apply extend_last_tracks. exact (L l eq_refl).
    + apply nset_wf; [exact W|]. constructor; [reflexivity|constructor].
Qed.

Lemma fold_wf tpq tempo rows : forall d, wf_dict d -> wf_dict (fold_left (ev_step true tpq tempo) rows d).
Proof. induction rows as [|r rows IH]; intros d W; [exact W|]. cbn [fold_left]. apply IH. apply ev_step_wf. exact W. Qed.

(* under key t, and nowhere else, the events of track t *)
Lemma dict_track d t : wf_dict d ->
  filter (fun e => Nat.eqb (e_track e) t) (flat_map snd d) = match nlook t d with Some l => l | None => [] end.
Proof.
  intros [Hn Hf]. induction d as [|[k v] r IH]; [reflexivity|]. cbn [flat_map snd nlook map fst] in *.
  inversion Hn as [|? ? Hk Hr]; subst. inversion Hf as [|? ? Hv Hfr]; subst. cbn [fst snd] in Hv.
  rewrite filter_app, (IH Hr Hfr). destruct (Nat.eqb t k) eqn:E.
  - apply Nat.eqb_eq in E. subst k.
    assert (F1 : filter (fun e => Nat.eqb (e_track e) t) v = v).
    { clear - Hv. induction v as [|e v IHv]; [reflexivity|]. inversion Hv as [|? ? He Hr]; subst. cbn [filter]. rewrite Nat.eqb_refl. f_equal. exact (IHv Hr). }
    assert (F2 : nlook t r = None).
    { clear - Hk. induction r as [|[k0 v0] r IHr]; [reflexivity|]. cbn [nlook map fst] in *. destruct (Nat.eqb t k0) eqn:E0;
        [apply Nat.eqb_eq in E0; subst; exfalso; apply Hk; left; reflexivity|]. apply IHr. intros X. apply Hk. right. exact X. }
    rewrite F1, F2, app_nil_r. reflexivity.
  - assert (F1 : filter (fun e => Nat.eqb (e_track e) t) v = []).
    { clear - Hv E. induction v as [|e v IHv]; [reflexivity|]. inversion Hv as [|? ? He Hr]; subst. cbn [filter]. rewrite Nat.eqb_sym, E. exact (IHv Hr). }
    rewrite F1. reflexivity.
Qed.

Lemma perm_filter {A} (f : A -> bool) l m : Permutation l m -> Permutation (filter f l) (filter f m).
Proof.
  induction 1 as [|x l m _ IH|x y l|l m n _ IH1 _ IH2]; cbn [filter].
  - constructor.
  - destruct (f x); [constructor|]; exact IH.
  - destruct (f x), (f y); try reflexivity. apply perm_swap.
  - exact (Permutation_trans IH1 IH2).
Qed.

(* ---------- to_events, whole: for every part, the events of its track in the output are - up to the output order - its sounding
   notes in seconds ---------- *)
Theorem to_events_track tpq tempo s idx track rows all :
  track_rows s idx track 0 None = Some rows -> Forall (fun r => r_track r = idx) rows ->
  filter (fun r => Nat.eqb (r_track r) idx) all = rows -> sortedk r_off rows ->
  exists sl l, sounding_of s track = Some sl /\
    Permutation (filter (fun e => Nat.eqb (e_track e) idx) (matrix_to_events true tpq tempo all)) l /\
    Forall2 (ev_equiv) l (map (ev_of_snote tpq tempo idx) sl).
Proof.
  intros Hr Hs Hall Hsort.
  destruct (events_are_sounding_in_seconds tpq tempo s idx track rows Hr Hs) as (sl & Hsl & F).
  exists sl. eexists. split; [exact Hsl|]. split; [|exact F].
  (* filter by track commutes with the permutation; the dictionary gives the track's own list; the global sort kept its order *)
  set (d := fold_left (ev_step true tpq tempo) (sort_key r_off all) []).
  assert (W : wf_dict d) by (apply fold_wf; split; constructor).
  assert (P : Permutation (filter (fun e => Nat.eqb (e_track e) idx) (matrix_to_events true tpq tempo all))
                          (filter (fun e => Nat.eqb (e_track e) idx) (filter (fun e => negb (e_sil e)) (flat_map snd d)))).
  { apply perm_filter. apply events_are_the_tracks_events. }
  rewrite P. clear P.
  assert (C : forall l0, filter (fun e => Nat.eqb (e_track e) idx) (filter (fun e => negb (e_sil e)) l0) =
                          filter (fun e => negb (e_sil e)) (filter (fun e => Nat.eqb (e_track e) idx) l0)).
  { induction l0 as [|e l0 IH]; [reflexivity|]. cbn [filter]. destruct (negb (e_sil e)) eqn:A, (Nat.eqb (e_track e) idx) eqn:B; cbn [filter]; rewrite ?A, ?B, IH; reflexivity. }
  rewrite C, (dict_track d idx W). unfold d.
  rewrite (track_inside_the_global_loop tpq tempo idx all) by (rewrite Hall; exact Hsort). rewrite Hall. reflexivity.
Qed.

(* C12 - what a window SOUNDS, for a whole score: the same statement as Proofs/SliceSound.v along the TIMELINE of a part (its notes paired
   with the chords they are written under, chord after chord), then for Score.get_score_between through the timeline theorem. *)
From ML Require Import Model.Types gen.Tables Model.Pitch Model.Rel Model.Ton Model.Render Model.Slice Spec.PitchSpec Spec.RenderSpec.
From ML Require Import Proofs.PitchProofs Proofs.TonProofs Proofs.RenderProofs Proofs.RenderTonProofs Proofs.RenderOctave.
From ML Require Import Proofs.SliceProofs Proofs.SliceContent Proofs.SliceRejoin Proofs.SliceScore Proofs.SliceSound.
From Coq Require Import Lia ZifyBool.
Open Scope Z_scope.
Open Scope list_scope.

Lemma crun_nonneg l : forall t, cpositive l -> 0 <= run (citems l t).
Proof.
  induction l as [|[c n] l IH]; intros t H; cbn [citems run]; [lia|]. inversion H as [|? ? Hn Hr]; subst. cbn [snd] in Hn.
  destruct (is_cont n); [|lia]. specialize (IH (t + tdur n) Hr). lia.
Qed.

Lemma crun_indep l : forall t t', run (citems l t) = run (citems l t').
Proof. induction l as [|[c n] l IH]; intros t t'; cbn [citems run]; [reflexivity|]. destruct (is_cont n); [|reflexivity]. rewrite (IH (t + tdur n) (t' + tdur n)). reflexivity. Qed.

Lemma crun_clip a b : forall r t t' t0, cpositive r -> a <= t ->
  run (citems (cclip r t a b) t') = Z.max 0 (Z.min (t + run (citems r t0)) b - t).
Proof.
  induction r as [|[c n] r IH]; intros t t' t0 Hp Ha; cbn [cclip citems run]; [lia|].
  inversion Hp as [|? ? Hn Hr]; subst. cbn [snd] in Hn. unfold clip. cbv zeta.
  replace (Z.max t a) with t by lia. replace (t <? a) with false by lia.
  destruct (t <? Z.min (t + tdur n) b) eqn:E.
  - cbn [app citems run]. rewrite is_cont_with_dur. cbn [with_dur tdur].
    destruct (is_cont n).
    + rewrite (IH (t + tdur n) (t' + (Z.min (t + tdur n) b - t)) (t0 + tdur n) Hr ltac:(lia)).
      pose proof (crun_nonneg r (t0 + tdur n) Hr). lia.
    + lia.
  - cbn [app]. rewrite (cclip_after r (t + tdur n) a b Hr ltac:(lia)). cbn [citems run].
    destruct (is_cont n); [pose proof (crun_nonneg r (t0 + tdur n) Hr)|]; lia.
Qed.

Lemma csounding_onsets_ge : forall l t ref sl, cpositive l -> sounding ref (citems l t) = Some sl -> Forall (fun x => t <= s_on x) sl.
Proof.
  induction l as [|[c n] l IH]; intros t ref sl Hp H; cbn [citems sounding] in H; [injection H as <-; constructor|].
  inversion Hp as [|? ? Hn Hr]; subst. cbn [snd] in Hn.
  assert (Mono : forall sl', Forall (fun x => t + tdur n <= s_on x) sl' -> Forall (fun x => t <= s_on x) sl').
  { intros sl' F. eapply Forall_impl; [|exact F]. cbn. intros; lia. }
  destruct (is_rest n || is_cont n); [exact (Mono _ (IH _ _ _ Hr H))|].
  destruct (pitch_full c (tn n) _) as [pr|]; [|discriminate]. cbn [obind] in H.
  destruct (sounding _ (citems l (t + tdur n))) as [rest|] eqn:Er; [|discriminate]. cbn [obind] in H. injection H as <-.
  constructor; [cbn; lia|exact (Mono _ (IH _ _ _ Hr Er))].
Qed.

Theorem timeline_window_sounding a b : a < b -> forall l t ref ref' sl, cpositive l ->
  forallb (item_ok plain_pitched) (citems l t) = true ->
  sounding ref (citems l t) = Some sl ->
  sounding ref' (citems (cclip l t a b) (Z.max t a - a)) = Some (filter_map (win a b) sl).
Proof.
  intros Hab. induction l as [|[c n] v IH]; intros t ref ref' sl Hp Hok Hs.
  - cbn in Hs |- *. injection Hs as <-. reflexivity.
  - inversion Hp as [|? ? Hn Hr]; subst. cbn [snd] in Hn. cbn [citems forallb item_ok] in Hok. apply andb_prop in Hok. destruct Hok as [H1 H2].
    cbn [citems sounding] in Hs. cbn [cclip]. unfold clip. cbv zeta.
    destruct (Z.max t a <? Z.min (t + tdur n) b) eqn:E.
    + (* the note overlaps the window *)
      destruct (t <? a) eqn:Ta.
      * (* it was already sounding at a: a continuation in the window, silent by itself *)
        cbn [app citems sounding]. change (is_rest (continuation _)) with false. change (is_cont (continuation _)) with true. cbn [orb].
        replace (Z.max t a - a + tdur (continuation (Z.min (t + tdur n) b - Z.max t a))) with (Z.min (t + tdur n) b - a)
          by (cbn [continuation tdur]; lia).
        assert (Tail : forall rf sl', sounding rf (citems v (t + tdur n)) = Some sl' ->
                  sounding ref' (citems (cclip v (t + tdur n) a b) (Z.min (t + tdur n) b - a)) = Some (filter_map (win a b) sl')).
        { intros rf sl' Hs'. destruct (Z_le_gt_dec (t + tdur n) b) as [L|G].
          - replace (Z.min (t + tdur n) b - a) with (Z.max (t + tdur n) a - a) by lia. exact (IH _ rf ref' sl' Hr H2 Hs').
          - rewrite (cclip_after v (t + tdur n) a b Hr ltac:(lia)). cbn [citems sounding].
            rewrite (win_after a b (t + tdur n) sl' ltac:(lia) (csounding_onsets_ge v _ rf sl' Hr Hs')). reflexivity. }
        destruct (is_rest n || is_cont n); [exact (Tail _ _ Hs)|].
        destruct (pitch_full c (tn n) _) as [pr|]; [|discriminate]. cbn [obind] in Hs.
        destruct (sounding _ (citems v (t + tdur n))) as [rest|] eqn:Er; [|discriminate]. cbn [obind] in Hs. injection Hs as <-.
        cbn [filter_map]. unfold win at 1. cbn [s_on]. replace ((a <=? t) && (t <? b)) with false by lia. exact (Tail _ _ Er).
      * (* it starts inside the window *)
        cbn [app citems sounding]. rewrite is_rest_with_dur, is_cont_with_dur. cbn [with_dur tdur tn tamp].
        replace (Z.max t a) with t by lia.
        assert (Tail : forall rf rf' sl', sounding rf (citems v (t + tdur n)) = Some sl' ->
                  sounding rf' (citems (cclip v (t + tdur n) a b) (t - a + (Z.min (t + tdur n) b - t))) = Some (filter_map (win a b) sl')).
        { intros rf rf' sl' Hs'. destruct (Z_le_gt_dec (t + tdur n) b) as [L|G].
          - replace (t - a + (Z.min (t + tdur n) b - t)) with (Z.max (t + tdur n) a - a) by lia. exact (IH _ rf rf' sl' Hr H2 Hs').
          - rewrite (cclip_after v (t + tdur n) a b Hr ltac:(lia)). cbn [citems sounding].
            rewrite (win_after a b (t + tdur n) sl' ltac:(lia) (csounding_onsets_ge v _ rf sl' Hr Hs')). reflexivity. }
        destruct (is_rest n || is_cont n) eqn:RC; [exact (Tail _ _ _ Hs)|].
        cbn [orb] in H1. unfold plain_pitched in H1.
        assert (D : pdir (tn n) = Abs) by (destruct (pkind (tn n)), (pdir (tn n)); try discriminate; reflexivity).
        assert (K : pkind (tn n) = KS \/ pkind (tn n) = KH \/ pkind (tn n) = KC \/ pkind (tn n) = KB \/ pkind (tn n) = KA)
          by (destruct (pkind (tn n)); try discriminate; tauto).
        rewrite pitch_full_abs in Hs |- * by tauto.
        destruct (to_pitch_abs c (tn n)) as [pr|]; [|discriminate]. cbn [obind] in Hs |- *.
        destruct (sounding _ (citems v (t + tdur n))) as [rest|] eqn:Er; [|discriminate]. cbn [obind] in Hs. injection Hs as <-.
        rewrite (Tail _ _ _ Er). cbn [obind filter_map]. unfold win at 2. cbn [s_on s_dur s_pitch s_vel].
        replace ((a <=? t) && (t <? b)) with true by lia. do 3 f_equal.
        rewrite (crun_clip a b v (t + tdur n) _ (t + tdur n) Hr ltac:(lia)).
        pose proof (crun_nonneg v (t + tdur n) Hr). lia.
    + (* the note lies entirely outside the window *)
      cbn [app]. destruct (Z_le_gt_dec (t + tdur n) a) as [L|G].
      * (* before it *)
        replace (Z.max t a) with (Z.max (t + tdur n) a) by lia.
        destruct (is_rest n || is_cont n); [exact (IH _ _ _ _ Hr H2 Hs)|].
        destruct (pitch_full c (tn n) _) as [pr|]; [|discriminate]. cbn [obind] in Hs.
        destruct (sounding _ (citems v (t + tdur n))) as [rest|] eqn:Er; [|discriminate]. cbn [obind] in Hs. injection Hs as <-.
        cbn [filter_map]. unfold win at 1. cbn [s_on]. replace ((a <=? t) && (t <? b)) with false by lia. exact (IH _ _ _ _ Hr H2 Er).
      * (* after it: nothing of the rest is in the window either *)
        assert (Tb : b <= t) by lia.
        rewrite (cclip_after v (t + tdur n) a b Hr ltac:(lia)). cbn [citems sounding].
        assert (F : Forall (fun x => t <= s_on x) sl).
        { apply (csounding_onsets_ge ((c, n) :: v) t ref sl Hp). cbn [citems sounding]. exact Hs. }
        rewrite (win_after a b t sl Tb F). reflexivity.
Qed.

(* ... and for Score.get_score_between: a part present in every chord, lasting each, made of notes that need no reference pitch *)
Theorem score_window_sounding track s a b w sl : String.prefix "drums" track = false ->
  full_score s -> clean_score s track -> 0 <= a -> a < b ->
  forallb (item_ok plain_pitched) (items s track 0) = true ->
  score_between s 0 a b = Some w -> sounding_of s track = Some sl ->
  sounding_of w track = Some (filter_map (win a b) sl).
Proof.
  intros Hd Hf Hs Ha Hab Hok Hw Hsl. unfold sounding_of in *.
  assert (Fs : track_full s track).
  { clear - Hs. induction Hs as [|c s (_ & _ & E) _ IH]; constructor; assumption. }
  destruct (score_between_dur s 0 a b Hf Hab) as (w' & Hw' & _ & Fw). rewrite Hw in Hw'. injection Hw' as <-.
  assert (Fw' : track_full w track).
  { apply track_full_of_full; [exact Fw|]. exact (score_between_present track Hd s 0 a b w Hs Hab Hw). }
  rewrite (items_timeline track _ 0 Fw'). rewrite (items_timeline track _ 0 Fs) in Hok, Hsl.
  rewrite (score_between_timeline track Hd s 0 a b w Hs Hab Hw).
  pose proof (timeline_window_sounding a b Hab (tl s track) 0 None None sl (tl_positive s track Hs) Hok Hsl) as T.
  replace (Z.max 0 a - a) with 0 in T by lia. exact T.
Qed.

(* C05: the text of a note / tonality / chord evaluates back to the object. *)
From ML Require Import Model.Types gen.Tables Model.Pitch Model.Ext Model.Ton Model.Code Model.Text.
From ML Require Import Proofs.ExtProofs Model.Tags Proofs.TagsProofs.
From Coq Require Import QArith Lia.
Open Scope Z_scope.
Open Scope list_scope.

Lemma eval_toks_app : forall a b n, eval_toks n (a ++ b) = (do n' <- eval_toks n a ;; eval_toks n' b).
Proof.
  induction a as [|t a IH]; intros b n; cbn [app eval_toks obind]; [reflexivity|].
  destruct (eval_tok n t) as [n1|]; cbn [obind]; [apply IH|reflexivity].
Qed.

Lemma with_oct_id m : with_oct m (fo m + 0) = m.
Proof. destruct m. unfold with_oct. cbn. rewrite Z.add_0_r. reflexivity. Qed.

(* ---- tables ---- *)
Lemma qassoc_key {B} q : forall (l : list (Q * B)) v, qassoc q l = Some v -> exists k, In (k, v) l /\ Qeq_bool q k = true.
Proof.
  induction l as [|[k x] r IH]; intros v H; cbn [qassoc] in H; [discriminate|].
  destruct (Qeq_bool q k) eqn:E.
  - injection H as <-. exists k. split; [left; reflexivity|exact E].
  - destruct (IH _ H) as (k' & Hi & Hk). exists k'. split; [right; exact Hi|exact Hk].
Qed.

(* every name of DURATION_TO_STR is a name of STR_TO_DURATION with that very duration *)
Lemma duration_names_consistent :
  forallb (fun kv => match assoc (snd kv) STR_TO_DURATION with Some q => Qeq_bool q (fst kv) | None => false end) DURATION_TO_STR = true.
Proof. vm_compute. reflexivity. Qed.

Lemma duration_name_back dur nm : qassoc dur DURATION_TO_STR = Some nm ->
  exists q, assoc nm STR_TO_DURATION = Some q /\ q == dur.
Proof.
  intros H. destruct (qassoc_key _ _ _ H) as (k & Hi & Hk).
  pose proof duration_names_consistent as C. rewrite forallb_forall in C. specialize (C _ Hi). cbn [fst snd] in C.
  destruct (assoc nm STR_TO_DURATION) as [q|]; [|discriminate]. exists q. split; [reflexivity|].
  apply Qeq_bool_iff in C. apply Qeq_bool_iff in Hk. rewrite C. symmetry. exact Hk.
Qed.

(* every dynamics figure but mf and n sets an amplitude whose figure it is; the default amplitude is mf; 0 is n *)
Lemma figures_consistent :
  forallb (fun f => match assoc (fig_name f) AMP_OF_FIGURE with Some a => ampfig_eqb (amp_figure a) f | None => false end)
          [Fppp; Fpp; Fp; Fmp; Ff; Fff; Ffff] = true /\
  amp_figure DEFAULT_AMP = Fmf /\ amp_figure 0 = Fn.
Proof. repeat split; vm_compute; reflexivity. Qed.

Lemma ampfig_eqb_eq a b : ampfig_eqb a b = true -> a = b.
Proof. destruct a, b; cbn; congruence. Qed.
Lemma ampfig_eqb_refl a : ampfig_eqb a a = true.
Proof. destruct a; reflexivity. Qed.

Lemma figure_back f : f <> Fmf -> f <> Fn -> exists a, assoc (fig_name f) AMP_OF_FIGURE = Some a /\ amp_figure a = f.
Proof.
  intros H1 H2. destruct figures_consistent as (C & _ & _). rewrite forallb_forall in C.
  assert (Hi : In f [Fppp; Fpp; Fp; Fmp; Ff; Fff; Ffff]) by (destruct f; cbn; tauto).
  specialize (C _ Hi). destruct (assoc (fig_name f) AMP_OF_FIGURE) as [a|]; [|discriminate].
  exists a. split; [reflexivity|apply ampfig_eqb_eq; exact C].
Qed.

(* ---- well-formed notes: what "built from the library symbols" means ---- *)
Definition printed_val (n : fnote) : option Z :=
  if is_note_kind (fk n) || kind_eqb (fk n) KD || kind_eqb (fk n) KX then Some (fv n) else None.

Record wf_note (n : fnote) : Prop := {
  wf_lib : exists b, base_note (fk n) (fd n) (printed_val n) = Some b;
  wf_rest : printed_val n = None -> fv n = 0;
  wf_den : (Zpos (Qden (Qred (fdur n))) <= LIMIT_DENOM)%Z;
  wf_tags : NoDup (ftags n) }.

Lemma base_note_fields k d v b : base_note k d v = Some b ->
  fk b = k /\ fd b = d /\ fo b = 0 /\ fdur b = 1%Q /\ fmode b = None /\ facc b = None /\ famp b = DEFAULT_AMP /\ ftags b = [] /\
  fv b = match v with Some x => x | None => 0 end.
Proof.
  unfold base_note. intros H.
  destruct k, v as [x|]; try discriminate;
    try (destruct (lib_count _ d LIB_NOTE_COUNT) as [c|]; [|discriminate]; cbn [obind] in H;
         destruct ((0 <=? x) && (x <? c)); [|discriminate]; injection H as <-; cbn; tauto);
    (destruct (dir_eqb d Abs) eqn:E; [|discriminate]; injection H as <-; destruct d; try discriminate; cbn; tauto).
Qed.

Lemma sunion_nil : forall l, NoDup l -> forall a, (forall x, In x l -> ~ In x a) -> sunion a l = a ++ l.
Proof.
  induction l as [|x r IH]; intros Hd a Ha; cbn [sunion]; [rewrite app_nil_r; reflexivity|].
  inversion Hd as [|? ? Hx Hr]; subst.
  assert (E : existsb (String.eqb x) a = false).
  { destruct (existsb (String.eqb x) a) eqn:E; [|reflexivity]. apply existsb_exists in E. destruct E as (y & Hy & Ey).
    apply String.eqb_eq in Ey. subst y. exfalso. apply (Ha x); [left; reflexivity|exact Hy]. }
  rewrite E. rewrite IH; [rewrite <- app_assoc; reflexivity|exact Hr|].
  intros y Hy Hin. apply in_app_or in Hin. destruct Hin as [Hin|[<-|[]]]; [apply (Ha y); [right; exact Hy|exact Hin]|contradiction].
Qed.

(* ---- segments of the token list ---- *)
Definition set_mode (m : fnote) (o : option mode) : fnote :=
  mkF (fk m) (fd m) (fv m) (fo m) (fdur m) (match o with Some x => Some x | None => fmode m end) (facc m) (famp m) (ftags m).
Definition set_acc (m : fnote) (o : option accident) : fnote :=
  mkF (fk m) (fd m) (fv m) (fo m) (fdur m) (fmode m) (match o with Some x => Some x | None => facc m end) (famp m) (ftags m).
Definition with_tags (m : fnote) (l : list string) : fnote :=
  mkF (fk m) (fd m) (fv m) (fo m) (fdur m) (fmode m) (facc m) (famp m) l.

Lemma seg_oabs m (c : bool) o : eval_toks m (if c then [TOabs o] else []) = Some (with_oct m (fo m + (if c then o else 0))).
Proof. destruct c; cbn [eval_toks eval_tok obind]; [reflexivity|rewrite with_oct_id; reflexivity]. Qed.

Definition o_moves (m : fnote) : bool :=
  match fk m, fd m with (KS | KH | KC | KB | KA | KX), Abs => true | _, _ => false end.

Lemma seg_o m (c : bool) o : (c = true -> o_moves m = true) ->
  eval_toks m (if c then [TO o] else []) = Some (with_oct m (fo m + (if c then o else 0))).
Proof.
  intros H. destruct c; cbn [eval_toks eval_tok obind]; [|rewrite with_oct_id; reflexivity].
  specialize (H eq_refl). unfold o_moves in H. destruct (fk m), (fd m); try discriminate; reflexivity.
Qed.

Lemma seg_note_oct m (c : bool) o : (c = true -> is_note_kind (fk m) = true) ->
  eval_toks m (if c then [if dir_eqb (fd m) Abs then TO o else TOabs o] else []) = Some (with_oct m (fo m + (if c then o else 0))).
Proof.
  intros H. destruct c; cbn [eval_toks eval_tok obind]; [|rewrite with_oct_id; reflexivity].
  specialize (H eq_refl). destruct (fd m) eqn:D; cbn [dir_eqb eval_tok]; try reflexivity.
  rewrite D. destruct (fk m); try discriminate; reflexivity.
Qed.

Lemma seg_mode m o : eval_toks m (match o with Some x => [TMode x] | None => [] end) = Some (set_mode m o).
Proof. destruct o, m; reflexivity. Qed.
Lemma seg_acc m o : eval_toks m (match o with Some x => [TAcc x] | None => [] end) = Some (set_acc m o).
Proof. destruct o, m; reflexivity. Qed.

Lemma seg_amp m f : amp_figure (famp m) = Fmf ->
  exists a, eval_toks m (match f with Fmf => [] | Fn => [TSetAmp0] | _ => [TAmp f] end) = Some (with_amp m a) /\ amp_figure a = f.
Proof.
  intros Hm. destruct figures_consistent as (_ & _ & F0).
  destruct (ampfig_eqb f Fmf) eqn:E1.
  - apply ampfig_eqb_eq in E1. subst f. exists (famp m). split; [destruct m; reflexivity|exact Hm].
  - destruct (ampfig_eqb f Fn) eqn:E2.
    + apply ampfig_eqb_eq in E2. subst f. exists 0%Q. split; [reflexivity|exact F0].
    + destruct (figure_back f) as (a & Ha & Fa).
      * intros ->. discriminate.
      * intros ->. discriminate.
      * exists a. split; [|exact Fa]. destruct f; try discriminate; cbn [eval_toks eval_tok]; rewrite Ha; reflexivity.
Qed.

Lemma seg_tags m l : ftags m = [] -> NoDup l ->
  eval_toks m (match l with [] => [] | x :: r => [TTags (x :: r)] end) = Some (with_tags m l).
Proof.
  intros Hm Hd. destruct l as [|x r]; [destruct m; cbn in *; subst; reflexivity|].
  cbn [eval_toks eval_tok obind]. rewrite Hm. rewrite (sunion_nil _ Hd []) by (intros ? ? []). reflexivity.
Qed.

Lemma seg_dur m dur : fdur m = 1%Q -> (Zpos (Qden (Qred dur)) <= LIMIT_DENOM)%Z -> exists q,
  eval_toks m (if Qeq_bool dur 1 then []
               else match qassoc dur DURATION_TO_STR with
                    | Some nm => [TDur nm]
                    | None => [TAug (Qnum (Qred dur)) (Zpos (Qden (Qred dur)))]
                    end) = Some (with_dur m q) /\ q == dur.
Proof.
  intros Hm Hden. destruct (Qeq_bool dur 1) eqn:E1.
  - exists 1%Q. split; [cbn [eval_toks]; f_equal; destruct m; cbn in *; subst; reflexivity|apply Qeq_bool_iff in E1; symmetry; exact E1].
  - destruct (qassoc dur DURATION_TO_STR) as [nm|] eqn:E2.
    + destruct (duration_name_back _ _ E2) as (q & Hq & Eq). exists (fdur m * q)%Q. cbn [eval_toks eval_tok]. rewrite Hq. cbn [obind].
      split; [reflexivity|rewrite Hm, Qmult_1_l; exact Eq].
    + cbn [eval_toks eval_tok]. rewrite Pos2Z.id.
      assert (Z0 : (Zpos (Qden (Qred dur)) =? 0) = false) by reflexivity. rewrite Z0.
      assert (Hr : (Qnum (Qred dur) # Qden (Qred dur)) = Qred dur) by (destruct (Qred dur); reflexivity). rewrite Hr.
      assert (EQ : (fdur m * Qred dur == dur)%Q) by (rewrite Hm, Qmult_1_l; apply Qred_correct).
      unfold limitq. rewrite (Qred_complete _ _ EQ). apply Z.leb_le in Hden. rewrite Hden. cbn [obind].
      exists (Qred dur). split; [reflexivity|apply Qred_correct].
Qed.

Lemma str_list_refl l : list_eqb String.eqb l l = true.
Proof. induction l as [|x r IH]; [reflexivity|]. cbn [list_eqb]. rewrite String.eqb_refl. exact IH. Qed.

(* ---- the round trip of a note ---- *)
Theorem note_roundtrip n : wf_note n -> exists n', eval_note (note_text n) = Some n' /\ same_note n n' = true.
Proof.
  intros [(b & Hb) Hrest Hden Htags].
  destruct (base_note_fields _ _ _ _ Hb) as (Bk & Bd & Bo & Bdur & Bm & Ba & Bamp & Bt & Bv).
  unfold eval_note, note_text. cbn [nt_kind nt_dir nt_val nt_toks]. fold (printed_val n). rewrite Hb. cbn [obind].
  set (isn := is_note_kind (fk n)) in *. set (isd := kind_eqb (fk n) KD). set (isx := kind_eqb (fk n) KX).
  (* 1: drum octave *)
  rewrite eval_toks_app, seg_oabs. cbn [obind]. set (m1 := with_oct b _).
  (* 2: pattern-note octave *)
  rewrite eval_toks_app, (seg_o m1).
  2:{ intros C. apply andb_prop in C. destruct C as [C _]. unfold isx in C. unfold o_moves, m1. cbn [with_oct fk fd]. rewrite Bk, Bd.
      destruct (fk n) eqn:K; try discriminate. destruct (fd n) eqn:D; [reflexivity| |];
      (exfalso; revert Hb; unfold printed_val; rewrite ?K, ?D; cbn; discriminate). }
  cbn [obind]. set (m2 := with_oct m1 _).
  (* 3: duration *)
  rewrite eval_toks_app. destruct (seg_dur m2 (fdur n)) as (q & Hq & Eq); [exact Bdur|exact Hden|]. rewrite Hq. cbn [obind]. set (m3 := with_dur m2 q).
  (* 4: note octave *)
  assert (D3 : fd m3 = fd n) by exact Bd. rewrite <- D3.
  rewrite eval_toks_app, (seg_note_oct m3).
  2:{ intros C. apply andb_prop in C. destruct C as [C _]. cbn [m3 m2 m1 with_dur with_oct fk]. rewrite Bk. exact C. }
  cbn [obind]. set (m4a := with_oct m3 _).
  (* 4b: the octave of a rest or continuation *)
  rewrite eval_toks_app, seg_oabs. cbn [obind]. set (m4 := with_oct m4a _).
  (* 5, 6: mode, accidental *)
  rewrite eval_toks_app.
  rewrite seg_mode. cbn [obind]. set (m5 := set_mode m4 _).
  rewrite eval_toks_app.
  rewrite seg_acc. cbn [obind]. set (m6 := set_acc m5 _).
  (* 7: dynamics *)
  rewrite eval_toks_app.
  destruct figures_consistent as (_ & Fdef & _).
  assert (A6 : amp_figure (famp m6) = Fmf) by (cbn [m6 m5 m4 m4a m3 m2 m1 set_acc set_mode with_dur with_oct famp]; rewrite Bamp; exact Fdef).
  destruct (seg_amp m6 (amp_figure (famp n)) A6) as (a & Ha & Fa).
  assert (Amp : exists m7, eval_toks m6 (if isn || isx || isd then match amp_figure (famp n) with Fmf => [] | Fn => [TSetAmp0] | f => [TAmp f] end else [])
                           = Some m7 /\ (fk m7, fd m7, fv m7, fo m7, fdur m7, fmode m7, facc m7, ftags m7) = (fk m6, fd m6, fv m6, fo m6, fdur m6, fmode m6, facc m6, ftags m6) /\
                           (isn || isx || isd = true -> amp_figure (famp m7) = amp_figure (famp n))).
  { destruct (isn || isx || isd).
    - exists (with_amp m6 a). split; [|split; [reflexivity|intros _; exact Fa]].
      revert Ha. destruct (amp_figure (famp n)); intros Ha; exact Ha.
    - exists m6. split; [reflexivity|split; [reflexivity|discriminate]]. }
  destruct Amp as (m7 & H7 & Same7 & Amp7). rewrite H7. cbn [obind].
  (* 8: tags *)
  assert (T7 : ftags m7 = []) by (injection Same7 as _ _ _ _ _ _ _ T; rewrite T; exact Bt).
  assert (Hsd : NoDup (sort_tags (ftags n))) by (eapply Permutation.Permutation_NoDup; [apply sort_perm|exact Htags]).
  rewrite (seg_tags m7 (sort_tags (ftags n)) T7 Hsd).
  eexists. split; [reflexivity|].
  (* the fields *)
  injection Same7 as S1 S2 S3 S4 S5 S6 S7 S8.
  unfold same_note. cbn [with_tags fk fd fv fo fdur fmode facc famp ftags].
  cbn [m6 m5 m4 m4a m3 m2 m1 set_acc set_mode with_dur with_oct fk fd fv fo fdur fmode facc famp ftags] in S1, S2, S3, S4, S5, S6, S7.
  rewrite S1, S2, S3, S4, S5, S6, S7.
  rewrite Bk, Bd, Bv, Bo, Bm, Ba.
  assert (Kr : kind_eqb (fk n) (fk n) = true) by (destruct (fk n); reflexivity).
  assert (Dr : dir_eqb (fd n) (fd n) = true) by (destruct (fd n); reflexivity).
  assert (Tr : list_eqb String.eqb (sort_tags (ftags n)) (sort_tags (sort_tags (ftags n))) = true) by (rewrite sort_tags_idem; apply str_list_refl).
  rewrite Kr, Dr, Tr. cbn [andb].
  (* value, octave, duration, mode, accidental, dynamics *)
  assert (V : (fv n =? match printed_val n with Some x => x | None => 0 end) = true).
  { unfold printed_val. fold isn isd isx. destruct (isn || isd || isx) eqn:P; [apply Z.eqb_refl|].
    rewrite Hrest; [reflexivity|unfold printed_val; fold isn isd isx; rewrite P; reflexivity]. }
  rewrite V.
  assert (O : (fo n =? 0 + (if isd && nonzero (fo n) then fo n else 0) + (if isx && nonzero (fo n) then fo n else 0) +
                        (if isn && nonzero (fo n) then fo n else 0) + (if is_rest_or_cont (fk n) && nonzero (fo n) then fo n else 0)) = true).
  { apply Z.eqb_eq. unfold nonzero. destruct (fo n =? 0) eqn:Z0; [apply Z.eqb_eq in Z0; rewrite Z0; rewrite !andb_false_r; reflexivity|].
    cbn [negb]. rewrite !andb_true_r. unfold isn, isd, isx.
    destruct (fk n) eqn:K; cbn [is_note_kind kind_eqb is_rest_or_cont]; lia. }
  rewrite O.
  assert (Dq : Qeq_bool (fdur n) q = true) by (apply Qeq_bool_iff; symmetry; exact Eq). rewrite Dq.
  assert (Md : option_eqb mode_eqb (fmode n) (match fmode n with Some x => Some x | None => None end) = true).
  { destruct (fmode n) as [x|]; [destruct x|]; reflexivity. }
  rewrite Md.
  assert (Ac : option_eqb acc_eqb (facc n) (match facc n with Some x => Some x | None => None end) = true).
  { destruct (facc n) as [x|]; [destruct x|]; reflexivity. }
  rewrite Ac. cbn [andb]. rewrite andb_true_r.
  destruct (fk n) eqn:K; try reflexivity;
    (rewrite Amp7; [apply ampfig_eqb_refl|unfold isn, isd, isx; rewrite ?K; reflexivity]).
Qed.

(* melodies: note by note *)
Theorem melody_roundtrip : forall m, Forall wf_note m ->
  exists m', omap' eval_note (map note_text m) = Some m' /\ same_melody m m' = true.
Proof.
  induction m as [|n r IH]; intros H; [exists []; split; reflexivity|].
  inversion H as [|? ? Hn Hr]; subst. destruct (note_roundtrip n Hn) as (n' & En & Sn). destruct (IH Hr) as (r' & Er & Sr).
  exists (n' :: r'). cbn [map omap']. rewrite En. cbn [obind]. rewrite Er. cbn [obind]. split; [reflexivity|].
  unfold same_melody in *. cbn [list_eqb]. rewrite Sn, Sr. reflexivity.
Qed.

(* ---- tonalities: 12 degrees (sharps and flats) x every mode x every octave ---- *)
Definition degree_back (d : Z) : bool :=
  match zassoc d DEGREE_TO_STR with
  | Some nm => match assoc nm degree_names with
               | Some ea => match nth_error SCALE_DEGREE (Z.to_nat (fst ea)) with
                            | Some sd => let t0 := mkT sd MMaj 0 in
                                         let t1 := match snd ea with ANone => t0 | AFlat => ton_b t0 | ASharp => ton_s t0 end in
                                         (tdeg t1 =? d) && (toct t1 =? 0)
                            | None => false
                            end
               | None => false
               end
  | None => false
  end.

Lemma degrees_back : forallb degree_back [0; 1; 2; 3; 4; 5; 6; 7; 8; 9; 10; 11] = true.
Proof. vm_compute. reflexivity. Qed.

Theorem ton_roundtrip t : 0 <= tdeg t < 12 -> exists x, ton_text t = Some x /\ eval_ton x = Some t.
Proof.
  intros H. pose proof degrees_back as DB. rewrite forallb_forall in DB.
  assert (Hi : In (tdeg t) [0; 1; 2; 3; 4; 5; 6; 7; 8; 9; 10; 11]) by (cbn [In]; lia).
  specialize (DB _ Hi). unfold degree_back in DB. unfold ton_text, eval_ton.
  destruct (zassoc (tdeg t) DEGREE_TO_STR) as [nm|]; [|discriminate]. cbn [obind]. eexists. split; [reflexivity|].
  cbn [tt_name tt_mode tt_oct].
  destruct (assoc nm degree_names) as [ea|]; [|discriminate]. cbn [obind].
  destruct (nth_error SCALE_DEGREE (Z.to_nat (fst ea))) as [sd|]; [|discriminate]. cbn [obind].
  cbv zeta in DB. apply andb_prop in DB. destruct DB as [D1 D2]. apply Z.eqb_eq in D1. apply Z.eqb_eq in D2.
  rewrite D1, D2. destruct t as [d md o]. cbn [tdeg tmode toct]. f_equal. f_equal.
  unfold nonzero. destruct (o =? 0) eqn:E; cbn [negb]; [apply Z.eqb_eq in E; lia|lia].
Qed.

(* ---- chords ---- *)
Record wf_chord (c : fchord) : Prop := {
  wc_elem : 0 <= celem (fc c) < 7;
  wc_ton : 0 <= tdeg (cton (fc c)) < 12;
  (* the extension is valid and in the normal form Chord.__getitem__ produces *)
  wc_ext : is_empty_ext (cext (fc c)) = true \/
           exists c1, getitem (mkC (celem (fc c)) (bare "") (mkT 0 MMaj 0) 0) (cext (fc c)) = Some c1 /\ cext c1 = cext (fc c);
  wc_notes : Forall (fun kv => Forall wf_note (snd kv)) (fparts c) }.

Lemma ext_eqb_refl e : ext_eqb e e = true.
Proof. unfold ext_eqb, str_list_eqb. rewrite String.eqb_refl, !str_list_refl. reflexivity. Qed.

Lemma getitem_elem c w c1 : getitem c w = Some c1 -> celem c1 = celem c.
Proof. unfold getitem. destruct (chord_notes_calc _ _); [|discriminate]. intros H. injection H as <-. reflexivity. Qed.

Theorem chord_roundtrip c : wf_chord c ->
  exists t c', chord_text c = Some t /\ eval_chord t = Some c' /\ same_fchord c c' = true.
Proof.
  intros [He Ht Hx Hn]. destruct (ton_roundtrip _ Ht) as (tx & Etx & Eback).
  assert (E1 : ((0 <=? celem (fc c)) && (celem (fc c) <? 7)) = true) by lia.
  (* the parts *)
  assert (P : exists ps, omap' (fun kv => do m <- omap' eval_note (snd kv) ;; Some (fst kv, m))
                          (map (fun kv => (fst kv, map note_text (snd kv))) (fparts c)) = Some ps /\
                         list_eqb (fun x y => String.eqb (fst x) (fst y) && same_melody (snd x) (snd y)) (fparts c) ps = true).
  { clear - Hn. induction (fparts c) as [|[nm m] r IH]; [exists []; split; reflexivity|].
    inversion Hn as [|? ? Hm Hr]; subst. destruct (melody_roundtrip m Hm) as (m' & Em & Sm). destruct (IH Hr) as (r' & Er & Sr).
    exists ((nm, m') :: r'). cbn [map omap' fst snd]. rewrite Em. cbn [obind]. rewrite Er. cbn [obind]. split; [reflexivity|].
    cbn [list_eqb fst snd]. rewrite String.eqb_refl, Sm, Sr. reflexivity. }
  destruct P as (ps & Eps & Sps).
  assert (TF : forall o, ton_fields_eqb (cton (fc c)) (cton (fc c)) && (coct (fc c) =? 0 + o + coct (fc c) - o) = true).
  { intros o. unfold ton_fields_eqb. rewrite !Z.eqb_refl. replace (0 + o + coct (fc c) - o) with (coct (fc c)) by lia. rewrite Z.eqb_refl.
    destruct (tmode (cton (fc c))); reflexivity. }
  specialize (TF 0). replace (0 + 0 + coct (fc c) - 0) with (0 + coct (fc c)) in TF by lia. apply andb_prop in TF. destruct TF as [TF1 TF2].
  assert (Empty : is_empty_ext (cext (fc c)) = true -> ext_eqb (cext (fc c)) (bare "") = true).
  { intros Em. unfold is_empty_ext in Em. unfold ext_eqb, str_list_eqb. apply andb_prop in Em. destruct Em as [F R]. cbn [bare fig repl adds rems].
    rewrite F. destruct (repl (cext (fc c))), (adds (cext (fc c))), (rems (cext (fc c))); try discriminate. reflexivity. }
  exists (mkCT (celem (fc c)) (cext (fc c)) tx (coct (fc c)) (map (fun kv => (fst kv, map note_text (snd kv))) (fparts c))).
  unfold chord_text. rewrite Etx. cbn [obind]. rewrite E1.
  unfold eval_chord. cbn [ct_elem ct_ext ct_ton ct_oct ct_parts]. rewrite E1.
  destruct (is_empty_ext (cext (fc c))) eqn:Em.
  - cbn [obind]. rewrite Eback. cbn [obind celem cext]. rewrite Eps. cbn [obind].
    eexists. split; [reflexivity|]. split; [reflexivity|].
    unfold same_fchord. cbn [fc fparts celem cext cton coct]. rewrite Z.eqb_refl, Sps, (Empty eq_refl), TF1, TF2. reflexivity.
  - destruct Hx as [Hx|(c1 & G & X)]; [discriminate|].
    rewrite G. cbn [obind]. rewrite Eback. cbn [obind]. rewrite Eps. cbn [obind].
    eexists. split; [reflexivity|]. split; [reflexivity|].
    unfold same_fchord. cbn [fc fparts celem cext cton coct]. rewrite (getitem_elem _ _ _ G). cbn [celem].
    rewrite Z.eqb_refl, Sps, X, ext_eqb_refl, TF1, TF2. reflexivity.
Qed.

(* scores: chord by chord, in order *)
Theorem score_roundtrip : forall s, Forall wf_chord s ->
  exists ts s', omap' chord_text s = Some ts /\ omap' eval_chord ts = Some s' /\ list_eqb same_fchord s s' = true.
Proof.
  induction s as [|c r IH]; intros H; [exists [], []; repeat split; reflexivity|].
  inversion H as [|? ? Hc Hr]; subst. destruct (chord_roundtrip c Hc) as (t & c' & Et & Ec & Sc). destruct (IH Hr) as (ts & r' & Ets & Er & Sr).
  exists (t :: ts), (c' :: r'). cbn [omap']. rewrite Et. cbn [obind]. rewrite Ets. cbn [obind]. rewrite Ec. cbn [obind]. rewrite Er. cbn [obind].
  repeat split. cbn [list_eqb]. rewrite Sc, Sr. reflexivity.
Qed.

From ML Require Import Model.Types gen.Tables Model.Pitch Model.Ton Spec.PitchSpec Proofs.PitchProofs.
From Coq Require Import Lia ZifyBool.
Open Scope Z_scope.
Ltac Zify.zify_post_hook ::= Z.to_euclidean_division_equations.

Lemma ton_eq_fields a b : tdeg a = tdeg b -> tmode a = tmode b -> toct a = toct b -> a = b.
Proof. destruct a, b; cbn; intros; subst; reflexivity. Qed.

Definition ton_norm (t : tonality) : tonality := mkT (tdeg t mod 12) (tmode t) (toct t + tdeg t / 12).
Definition normalised (t : tonality) : Prop := 0 <= tdeg t < 12.

Lemma ton_add_assoc a b c : ton_add (ton_add a b) c = ton_add a (ton_add b c).
Proof. apply ton_eq_fields; unfold ton_add; cbn [tdeg tmode toct]; [lia|reflexivity|lia]. Qed.

Lemma ton_add_normalised a b : normalised (ton_add a b).
Proof. unfold normalised, ton_add; cbn [tdeg]. lia. Qed.

Lemma ton_sub_normalised a b : normalised (ton_sub a b).
Proof. unfold normalised, ton_sub; cbn [tdeg]. lia. Qed.

Lemma ton_norm_id t : normalised t -> ton_norm t = t.
Proof. unfold normalised, ton_norm. intros H. apply ton_eq_fields; cbn [tdeg tmode toct]; [lia|reflexivity|lia]. Qed.

(* neutral elements: Tonality(0, any mode) on the left, Tonality(0, same mode) on the right *)
Lemma ton_add_zero_l md t : ton_add (mkT 0 md 0) t = ton_norm t.
Proof. apply ton_eq_fields; unfold ton_add, ton_norm; cbn [tdeg tmode toct]; [lia|reflexivity|lia]. Qed.

Lemma ton_add_zero_r t : ton_add t (mkT 0 (tmode t) 0) = ton_norm t.
Proof. apply ton_eq_fields; unfold ton_add, ton_norm; cbn [tdeg tmode toct]; [f_equal; lia|reflexivity|lia]. Qed.

(* subtraction undoes addition *)
Lemma ton_add_sub a b : ton_add b (ton_sub a b) = ton_norm a.
Proof. apply ton_eq_fields; unfold ton_add, ton_sub, ton_norm; cbn [tdeg tmode toct]; [lia|reflexivity|lia]. Qed.

Lemma ton_sub_add a b : ton_sub (ton_add a b) a = ton_norm b.
Proof. apply ton_eq_fields; unfold ton_add, ton_sub, ton_norm; cbn [tdeg tmode toct]; [lia|reflexivity|lia]. Qed.

(* successive modulations compose, field-wise *)
Lemma chord_mod_compose c a b : chord_mod (chord_mod c a) b = chord_mod c (ton_add a b).
Proof.
  unfold chord_mod. cbn [celem cext cton coct]. f_equal.
  apply ton_eq_fields; unfold ton_add; cbn [tdeg tmode toct]; [lia|reflexivity|lia].
Qed.

(* Tonality.__eq__ is the kernel of normalisation *)
Lemma mode_eqb_eq a b : mode_eqb a b = true <-> a = b.
Proof. destruct a, b; cbn; split; intros H; try reflexivity; discriminate. Qed.

Lemma ton_eqb_spec a b : ton_eqb a b = true <-> ton_norm a = ton_norm b.
Proof.
  unfold ton_eqb, ton_zero. rewrite !ton_add_zero_l. unfold ton_norm. cbn [tdeg tmode toct]. split.
  - intros H. apply andb_prop in H. destruct H as [H H3]. apply andb_prop in H. destruct H as [H1 H2].
    apply mode_eqb_eq in H2. apply ton_eq_fields; cbn [tdeg tmode toct]; [lia|exact H2|lia].
  - intros H. injection H as H1 H2 H3. rewrite H1, H2, H3, !Z.eqb_refl. cbn.
    rewrite (proj2 (mode_eqb_eq _ _) eq_refl). reflexivity.
Qed.

(* ---------- modulation moves every chord-relative pitch by the tonality's interval ---------- *)
Lemma chord_mod_as_shift c t : tmode t = tmode (cton c) ->
  exists a b d, chord_mod c t = shift_chord c a b d /\ shift_amount a b d = tdeg t + 12 * toct t.
Proof.
  intros Hm.
  exists ((tdeg (cton c) + tdeg t) mod 12 - tdeg (cton c)),
         (toct t + coct c + (tdeg (cton c) + tdeg t) / 12), (- coct c).
  split.
  - unfold chord_mod, shift_chord, ton_add. cbn [tdeg tmode toct]. rewrite Hm. f_equal; [|lia].
    apply ton_eq_fields; cbn [tdeg tmode toct]; [lia|reflexivity|lia].
  - unfold shift_amount. lia.
Qed.

Lemma modulate_pitch c t n p : tmode t = tmode (cton c) ->
  (pkind n = KS \/ pkind n = KH \/ pkind n = KC \/ pkind n = KB) ->
  to_pitch_abs c n = Some (Some p) ->
  to_pitch_abs (chord_mod c t) n = Some (Some (p + (tdeg t + 12 * toct t))).
Proof.
  intros Hm K H. destruct (chord_mod_as_shift c t Hm) as (a & b & d & E & S).
  rewrite E, <- S. apply to_pitch_equivariant; assumption.
Qed.

Lemma chord_mod_elem_ok c t : elem_ok c -> elem_ok (chord_mod c t).
Proof. exact (fun H => H). Qed.

Lemma modulate_absolute c t n : elem_ok c -> pkind n = KA ->
  to_pitch_abs (chord_mod c t) n = to_pitch_abs c n.
Proof.
  intros He K. unfold to_pitch_abs. rewrite K.
  rewrite !pitch_basic_absolute; auto.
Qed.

Lemma modulate_drum c t n : pkind n = KD -> to_pitch_abs (chord_mod c t) n = to_pitch_abs c n.
Proof. intros K. unfold to_pitch_abs. rewrite K. reflexivity. Qed.

(* ---------- octaves ---------- *)
Lemma chord_o_pitch c k n p :
  (pkind n = KS \/ pkind n = KH \/ pkind n = KC \/ pkind n = KB) ->
  to_pitch_abs c n = Some (Some p) -> to_pitch_abs (chord_o c k) n = Some (Some (p + 12 * k)).
Proof.
  intros K H. replace (chord_o c k) with (shift_chord c 0 0 k).
  - replace (12 * k) with (shift_amount 0 0 k) by (unfold shift_amount; ring).
    apply to_pitch_equivariant; assumption.
  - unfold shift_chord, chord_o. destruct c as [e x [dg md oc] co]. cbn. do 2 f_equal; ring.
Qed.

Lemma note_o_pitch c k n p : pdir n = Abs ->
  (pkind n = KS \/ pkind n = KH \/ pkind n = KC \/ pkind n = KB \/ pkind n = KA) ->
  to_pitch_abs c n = Some (Some p) -> to_pitch_abs c (note_o n k) = Some (Some (p + 12 * k)).
Proof.
  intros D K H. replace (note_o n k) with (with_oct n k).
  - apply to_pitch_note_octave. exact H.
  - unfold note_o, with_oct. rewrite D. destruct K as [K|[K|[K|[K|K]]]]; rewrite K; reflexivity.
Qed.

Lemma note_o_other k n : (pdir n <> Abs \/ pkind n = KD \/ pkind n = KR \/ pkind n = KL) -> note_o n k = n.
Proof.
  unfold note_o. destruct n as [kd d v o m a]; cbn. intros [H|[H|[H|H]]]; subst; try reflexivity.
  destruct d; try congruence; destruct kd; reflexivity.
Qed.

From ML Require Import Model.Types gen.Tables Model.Pitch Model.Rel Model.Render Model.Slice Model.Project.
From ML Require Import Proofs.RenderProofs Proofs.SliceProofs.
From Coq Require Import Lia ZifyBool.
Open Scope Z_scope.
Open Scope list_scope.

(* the chords of the projection are the target's, in order, for as long as the projection lasts *)
Theorem project_chords s g : forall start keep r, project_loop s g start keep = Some r ->
  map rc r = firstn (length r) (map rc g).
Proof.
  induction g as [|c2 g IH]; intros start keep r H; cbn [project_loop] in H.
  - injection H as <-. reflexivity.
  - destruct (score_between s 0 start (start + rchord_dur c2)) as [sub|]; [|discriminate]. cbn [obind] in H.
    destruct sub as [|x sub]; [injection H as <-; reflexivity|].
    destruct (put_on_same_chord (x :: sub)) as [pc|]; [|discriminate]. cbn [obind] in H.
    destruct (project_loop s g (start + rchord_dur c2) keep) as [rest|] eqn:E; [|discriminate]. cbn [obind] in H.
    injection H as <-. cbn [map length firstn rc]. f_equal. exact (IH _ _ _ E).
Qed.

(* ---------- duration ---------- *)
Lemma plook_in {B} k (d : list (string * B)) v : plook k d = Some v -> In (k, v) d.
Proof.
  induction d as [|[k' v'] d IH]; cbn [plook]; [discriminate|].
  destruct (String.eqb k k') eqn:E; [intros [= <-]; apply String.eqb_eq in E; subst; left; reflexivity|].
  intros H. right. apply IH. exact H.
Qed.

Lemma part_over_dur s ins : full_score s -> part_dur (part_over s ins) = score_dur s.
Proof.
  induction 1 as [|c s [Hf Hne] _ IH]; [reflexivity|]. unfold part_over in *. cbn [flat_map].
  rewrite part_dur_app, IH, score_dur_cons. f_equal.
  destruct (plook ins (rparts c)) as [m|] eqn:E.
  - apply plook_in in E. unfold full_chord in Hf. rewrite Forall_forall in Hf. exact (proj2 (Hf _ E)).
  - rewrite part_dur_cons, part_dur_nil. cbn [tdur silence]. lia.
Qed.

Lemma dedup_str_nonempty x l : dedup_str [] (x :: l) <> [].
Proof. cbn [dedup_str existsb]. discriminate. Qed.

Lemma put_on_same_chord_dur sub pc : full_score sub -> put_on_same_chord sub = Some pc -> rchord_dur pc = score_dur sub.
Proof.
  intros Hf H. unfold put_on_same_chord in H. destruct sub as [|c0 sub]; [discriminate|]. injection H as <-.
  apply rchord_dur_const.
  - pose proof (Forall_inv Hf) as [_ Hne]. unfold instruments, track_list. cbn [flat_map].
    destruct (rparts c0) as [|[k v] ps]; [congruence|]. cbn [map fst app]. intros E. apply map_eq_nil in E.
    exact (dedup_str_nonempty _ _ E).
  - apply Forall_forall. intros [k v] Hk. apply in_map_iff in Hk. destruct Hk as (ins & E & _). injection E as <- <-.
    cbn [snd]. exact (part_over_dur (c0 :: sub) ins Hf).
Qed.

(* the projection lasts the shorter of the two scores (measured from [start]) *)
Theorem project_duration s g : full_score s -> Forall (fun c => 0 < rchord_dur c) g ->
  forall start r, 0 <= start -> project_loop s g start false = Some r ->
  score_dur r = Z.max 0 (Z.min (start + score_dur g) (score_dur s) - start).
Proof.
  intros Hs Hg. induction Hg as [|c2 g Hc2 Hg' IH]; intros start r H0 H; cbn [project_loop] in H.
  - injection H as <-. unfold score_dur. cbn [fold_left]. lia.
  - destruct (score_between_dur s 0 start (start + rchord_dur c2) Hs ltac:(lia)) as (sub & Hsub & Hd & Hfs).
    rewrite Hsub in H. cbn [obind] in H. rewrite score_dur_cons.
    pose proof (full_score_nonneg s Hs) as HT.
    assert (HG : 0 <= score_dur g).
    { clear -Hg'. induction g as [|c g IHg]; [unfold score_dur; cbn; lia|]. rewrite score_dur_cons.
      pose proof (Forall_inv Hg'). pose proof (IHg (Forall_inv_tail Hg')). cbn beta in H. lia. }
    destruct sub as [|x sub].
    + injection H as <-. unfold score_dur in Hd at 1. cbn [fold_left] in Hd. unfold score_dur at 1. cbn [fold_left]. lia.
    + destruct (put_on_same_chord (x :: sub)) as [pc|] eqn:Ep; [|discriminate]. cbn [obind] in H.
      destruct (project_loop s g (start + rchord_dur c2) false) as [rest|] eqn:E; [|discriminate]. cbn [obind] in H.
      injection H as <-. rewrite score_dur_cons.
      change (rchord_dur (mkRC (rc c2) (rparts pc))) with (rchord_dur pc).
      rewrite (put_on_same_chord_dur _ _ Hfs Ep), Hd, (IH (start + rchord_dur c2) rest ltac:(lia) E). lia.
Qed.

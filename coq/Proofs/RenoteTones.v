(* C11 - Note.to_chord_note / to_extension_note keep the pitch: the tone they write is the one to_standard_note reads back as the note *)
From ML Require Import Model.Types gen.Tables Model.Pitch Model.Rel Model.Ton Model.Render Model.Slice Model.Renote.
From ML Require Import Model.Import Proofs.PitchProofs Proofs.ImportProofs Proofs.RenoteStandard.
From Coq Require Import Lia ZifyBool.
Open Scope Z_scope.
Open Scope list_scope.
Ltac Zify.zify_post_hook ::= Z.to_euclidean_division_equations.

(* the notes of the chord tables are PLAIN scale or chromatic notes: not relative, no accidental, no per-note mode *)
Definition is_pl (n : pnote) : bool :=
  is_sha n && match pacc n with None => true | Some _ => false end && match pmode n with None => true | Some _ => false end.

Definition tables_pl : bool :=
  forallb (fun kv => forallb is_pl (snd kv)) BASE_EXTENSION_DICT &&
  forallb (fun kv => is_pl (snd (snd kv))) DICT_REPLACEMENT &&
  forallb (fun kv => is_pl (snd (snd kv))) DICT_ADDITION.
Lemma tables_pl_true : tables_pl = true. Proof. vm_compute. reflexivity. Qed.

Lemma is_pl_note_o n k : is_pl (note_o n k) = is_pl n.
Proof. unfold note_o, is_pl, is_sha, is_sh. destruct n as [k0 d0 v0 o0 m0 a0]; cbn [pkind pdir pacc pmode]. destruct k0, d0; reflexivity. Qed.

Definition st_pl (st : option cstate) : Prop :=
  match st with Some s => forallb is_pl (s_notes s) = true | None => True end.

Lemma step_repl_pl st r : st_pl st -> st_pl (step_repl st r).
Proof.
  destruct st as [s|]; [|exact (fun H => H)]. cbn [st_pl]. intros H. unfold step_repl. cbn [obind].
  destruct (assoc r DICT_REPLACEMENT) as [[replaced newn]|] eqn:E; [|exact I]. cbn [obind].
  destruct (index_of replaced (s_nwo s)); cbn [st_pl s_notes]; [|exact H].
  apply forallb_set_nth; [|exact H]. rewrite is_pl_note_o.
  pose proof tables_pl_true as T. unfold tables_pl in T.
  apply andb_prop in T. destruct T as [T _]. apply andb_prop in T. destruct T as [_ T].
  exact (assoc_forallb (fun v => is_pl (snd v)) _ _ _ T E).
Qed.

Lemma step_add_pl st r : st_pl st -> st_pl (step_add st r).
Proof.
  destruct st as [s|]; [|exact (fun H => H)]. cbn [st_pl]. intros H. unfold step_add. cbn [obind].
  destruct (assoc r DICT_ADDITION) as [[after newn]|] eqn:E; [|exact I]. cbn [obind].
  destruct (index_of _ (s_nwo s)); [|exact I]. cbn [obind st_pl s_notes].
  apply forallb_insert_at; [|exact H]. rewrite is_pl_note_o.
  pose proof tables_pl_true as T. unfold tables_pl in T.
  apply andb_prop in T. destruct T as [_ T].
  exact (assoc_forallb (fun v => is_pl (snd v)) _ _ _ T E).
Qed.

Lemma step_rem_pl st r : st_pl st -> st_pl (step_rem st r).
Proof.
  destruct st as [s|]; [|exact (fun H => H)]. cbn [st_pl]. intros H. unfold step_rem. cbn [obind].
  destruct (assoc r DICT_REMOVAL); [|exact I]. cbn [obind].
  destruct (last_index_of _ _); [|exact I]. cbn [obind st_pl s_notes].
  apply forallb_remove_at. exact H.
Qed.

Lemma fold_pl (step : option cstate -> string -> option cstate) l st :
  (forall st r, st_pl st -> st_pl (step st r)) -> st_pl st -> st_pl (fold_left step l st).
Proof. intros Hs. revert st. induction l as [|r l IH]; cbn [fold_left]; auto. Qed.

Lemma unsorted_pl f e ns : chord_notes_unsorted f e = Some ns -> forallb is_pl ns = true.
Proof.
  unfold chord_notes_unsorted.
  destruct (assoc f BASE_EXTENSION_DICT) as [base|] eqn:E; [|discriminate]. cbn [obind].
  assert (H0 : st_pl (Some (mkS base (map no_oct base) [] []))).
  { cbn [st_pl s_notes]. pose proof tables_pl_true as T. unfold tables_pl in T.
    apply andb_prop in T. destruct T as [T _]. apply andb_prop in T. destruct T as [T _].
    exact (assoc_forallb (forallb is_pl) _ _ _ T E). }
  pose proof (fold_pl step_repl (repl e) _ step_repl_pl H0) as H1.
  destruct (fold_left step_repl (repl e) _) as [s1|]; [|discriminate]. cbn [obind].
  pose proof (fold_pl step_add (adds e ++ s_extra s1) _ step_add_pl H1) as H2.
  destruct (fold_left step_add _ _) as [s2|]; [|discriminate]. cbn [obind].
  pose proof (fold_pl step_rem (rems e) _ step_rem_pl H2) as H3.
  destruct (fold_left step_rem _ _) as [s3|]; [|discriminate]. cbn [obind].
  intros X; inversion X; subst. exact H3.
Qed.


Lemma calc_entries_pl c f l p x : chord_notes_calc c f = Some l -> In (p, x) l -> is_pl x = true.
Proof.
  unfold chord_notes_calc. destruct (chord_notes_unsorted f (cext c)) as [ns|] eqn:U; [|discriminate]. cbn [obind].
  destruct (omap (pitch_basic c) ns) as [ps|] eqn:O; [|discriminate]. cbn [obind]. intros H. injection H as <-. intros Hin.
  apply sort_key_in in Hin.
  pose proof (unsorted_pl _ _ _ U) as S. rewrite forallb_forall in S. apply S. exact (in_combine_r _ _ _ _ Hin).
Qed.

Lemma index_of_spec x : forall l i, index_of x l = Some i -> (i < length l)%nat /\ pn_eqb (nth i l x) x = true.
Proof.
  induction l as [|y r IH]; intros i H; [discriminate|]. cbn [index_of] in H.
  destruct (pn_eqb y x) eqn:E.
  - injection H as <-. cbn. split; [lia|exact E].
  - destruct (index_of x r) as [j|] eqn:J; [|discriminate]. cbn [option_map] in H. injection H as <-.
    destruct (IH j eq_refl) as [L P]. cbn [length nth]. split; [lia|exact P].
Qed.

(* the tone written for a note that is among the candidates reads back, through to_standard_note's candidate_note, as the note *)
Lemma tone_reads_back c f l n k : chord_notes_calc c f = Some l -> pacc n = None ->
  forall i, index_of (as_key n) (map (fun e => no_oct (snd e)) l) = Some i ->
  candidate_note l (mkP k (pdir n) (Z.of_nat i) (poct n - poct (snd (nth i l (0, plain KS 0 0)))) (pmode n) (pacc n)) = Some n.
Proof.
  intros Hl Ha i Hi. destruct (index_of_spec _ _ _ Hi) as [Li Pi]. rewrite map_length in Li.
  unfold candidate_note. cbn [pval poct].
  assert (Hm : 0 < zlen l) by (unfold zlen; lia).
  destruct (zlen l =? 0) eqn:E0; [lia|].
  assert (Em : Z.of_nat i mod zlen l = Z.of_nat i) by (apply Z.mod_small; unfold zlen; lia).
  assert (Ed : Z.of_nat i / zlen l = 0) by (apply Z.div_small; unfold zlen; lia).
  rewrite Em, Ed, Nat2Z.id.
  destruct (nth i l (0, plain KS 0 0)) as [p x] eqn:En. cbn [snd] in *.
  assert (Hin : In (p, x) l) by (rewrite <- En; apply nth_In; exact Li).
  pose proof (calc_entries_pl c f l p x Hl Hin) as Hx.
  assert (Nx : nth i (map (fun e => no_oct (snd e)) l) (as_key n) = no_oct x).
  { rewrite (nth_indep _ (as_key n) (no_oct (snd (0, plain KS 0 0)))) by (rewrite map_length; exact Li).
    rewrite (map_nth (fun e => no_oct (snd e)) l (0, plain KS 0 0) i), En. reflexivity. }
  rewrite Nx in Pi. clear Nx.
  unfold is_pl, is_sha, is_sh in Hx. destruct x as [kx dx vx ox mx ax]. destruct n as [kn dn vn on mn an].
  cbn [pkind pdir pval poct pmode pacc] in *. subst an.
  unfold no_oct, note_o, as_key, pn_eqb in Pi. cbn [pkind pdir pval poct pmode pacc] in *.
  destruct ax; [rewrite !andb_false_r in Hx; discriminate|]. destruct mx; [rewrite !andb_false_r in Hx; discriminate|].
  destruct dx; cbn in Hx; try (rewrite ?andb_false_r in Hx; discriminate).
  destruct kx; cbn in Hx; try discriminate; cbn [pkind pdir pval poct pmode pacc] in Pi;
    destruct kn; cbn in Pi; try discriminate; destruct dn; cbn in Pi; try discriminate;
    destruct mn; cbn in Pi; try (rewrite ?andb_false_r in Pi; discriminate);
    unfold note_o; cbn [pkind pdir pval poct pmode pacc];
    (assert (vx = vn) by lia); subst; apply f_equal; f_equal; lia.
Qed.

Lemma to_tone_keeps_pitch c f k l n : (k = KC /\ f = root_figure (fig (cext c)) \/ k = KB /\ f = fig (cext c)) ->
  chord_notes_calc c f = Some l -> to_pitch_abs c (note_to_tone k l n) = to_pitch_abs c n.
Proof.
  intros K Hl. unfold note_to_tone. destruct (pacc n) as [a|] eqn:Ha; [reflexivity|].
  destruct (index_of (as_key n) (map (fun e => no_oct (snd e)) l)) as [i|] eqn:Hi; [|reflexivity].
  set (t := mkP k (pdir n) (Z.of_nat i) (poct n - poct (snd (nth i l (0, plain KS 0 0)))) (pmode n) None).
  pose proof (tone_reads_back c f l n k Hl Ha i Hi) as R. rewrite Ha in R. fold t in R.
  assert (Dn : pdir n = Abs).
  { destruct (index_of_spec _ _ _ Hi) as [Li Pi]. rewrite map_length in Li.
    destruct (nth i l (0, plain KS 0 0)) as [p x] eqn:En.
    assert (Hin : In (p, x) l) by (rewrite <- En; apply nth_In; exact Li).
    pose proof (calc_entries_pl c f l p x Hl Hin) as Hx.
    rewrite (nth_indep _ (as_key n) (no_oct (snd (0, plain KS 0 0)))) in Pi by (rewrite map_length; exact Li).
    rewrite (map_nth (fun e => no_oct (snd e)) l (0, plain KS 0 0) i), En in Pi. cbn [snd] in Pi.
    unfold is_pl, is_sha in Hx. unfold pn_eqb, no_oct, note_o, as_key in Pi. destruct x as [kx dx vx ox mx ax].
    cbn [pkind pdir pval poct pmode pacc] in *. destruct dx; cbn in Hx; try (rewrite ?andb_false_r in Hx; discriminate).
    destruct kx; cbn in Hx; try discriminate; cbn [pkind pdir] in Pi; destruct (pdir n); cbn in Pi;
      try reflexivity; rewrite ?andb_false_r in Pi; try discriminate; destruct (pkind n); cbn in Pi; discriminate. }
  assert (S : note_to_standard c t = Some n).
  { unfold note_to_standard. destruct K as [[-> ->]|[-> ->]]; cbn [t pkind pdir]; rewrite Dn, Hl; cbn [obind]; exact R. }
  destruct (to_standard_keeps_pitch c t n) as [P _]; [destruct K as [[-> _]|[-> _]]; [left|right]; reflexivity|exact Dn|exact S|].
  symmetry. exact P.
Qed.

(* the statements *)
Theorem to_chord_note_keeps_pitch c n n' : note_to_chord_note c n = Some n' -> to_pitch_abs c n' = to_pitch_abs c n.
Proof.
  unfold note_to_chord_note. destruct (pacc n); [intros H; injection H as <-; reflexivity|].
  destruct (chord_notes_calc c (root_figure (fig (cext c)))) as [l|] eqn:Hl; [|discriminate].
  cbn [obind]. intros H. injection H as <-. apply (to_tone_keeps_pitch c (root_figure (fig (cext c))) KC l n); [left; split; reflexivity|exact Hl].
Qed.

Theorem to_extension_note_keeps_pitch c n n' : note_to_extension_note c n = Some n' -> to_pitch_abs c n' = to_pitch_abs c n.
Proof.
  unfold note_to_extension_note. destruct (pacc n); [intros H; injection H as <-; reflexivity|].
  destruct (chord_notes_calc c (fig (cext c))) as [l|] eqn:Hl; [|discriminate].
  cbn [obind]. intros H. injection H as <-. apply (to_tone_keeps_pitch c (fig (cext c)) KB l n); [right; split; reflexivity|exact Hl].
Qed.

From ML Require Import Model.Types Proofs.PcsDefs.
Lemma sweep_3 : sweep_elem 3 = true.
Proof. vm_compute. reflexivity. Qed.

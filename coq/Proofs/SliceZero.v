(* C12, windows over parts that contain zero-length notes (the library's .n suffix, set_duration(0)): the content theorem of
   SliceContent for durations >= 0.  A note of positive length is kept iff it overlaps [a, b); a zero-length note is kept iff it
   STARTS inside [a, b) - in particular a zero-length note sitting exactly on the window start belongs to the window. *)
From ML Require Import Model.Types gen.Tables Model.Pitch Model.Rel Model.Render Model.Slice Proofs.SliceProofs Proofs.SliceContent.
From Coq Require Import Lia ZifyBool.
Open Scope Z_scope.
Open Scope list_scope.

Definition clip0 (a b t : Z) (n : tnote) : option tnote :=
  let s := Z.max t a in let e := Z.min (t + tdur n) b in
  if (t <? b) && ((a <=? t) || (a <? t + tdur n)) then Some (if t <? a then continuation (e - s) else with_dur n (e - s)) else None.

Fixpoint clip0_list (v : list tnote) (t a b : Z) : list tnote :=
  match v with
  | [] => []
  | n :: r => (match clip0 a b t n with Some x => [x] | None => [] end) ++ clip0_list r (t + tdur n) a b
  end.

(* on notes of positive length it is the clip of SliceContent *)
Lemma clip0_positive a b t n : a < b -> 0 < tdur n -> clip0 a b t n = clip a b t n.
Proof.
  intros Hab H. unfold clip0, clip. cbv zeta.
  destruct ((t <? b) && ((a <=? t) || (a <? t + tdur n))) eqn:E1; destruct (Z.max t a <? Z.min (t + tdur n) b) eqn:E2; try reflexivity; lia.
Qed.

Lemma clip0_list_positive v : forall t a b, a < b -> positive v -> clip0_list v t a b = clip_list v t a b.
Proof.
  induction v as [|n v IH]; intros t a b Hab H; [reflexivity|]. inversion H as [|? ? Hn Hr]; subst. cbn [clip0_list clip_list].
  rewrite (clip0_positive a b t n Hab Hn), (IH _ _ _ Hab Hr). reflexivity.
Qed.

(* a zero-length note: kept, unchanged, iff it starts inside the window *)
Lemma clip0_zero a b t n : tdur n = 0 ->
  clip0 a b t n = if (a <=? t) && (t <? b) then Some (with_dur n 0) else None.
Proof.
  intros H. unfold clip0. cbv zeta. rewrite H.
  destruct ((t <? b) && ((a <=? t) || (a <? t + 0))) eqn:E1; destruct ((a <=? t) && (t <? b)) eqn:E2; try lia; try reflexivity.
  destruct (t <? a) eqn:E3; [lia|]. do 2 f_equal. lia.
Qed.

Lemma clip0_list_after v : forall t a b, nonneg v -> b <= t -> clip0_list v t a b = [].
Proof.
  induction v as [|n v IH]; intros t a b Hv Hb; [reflexivity|]. inversion Hv as [|? ? Hn Hr]; subst. cbn [clip0_list].
  rewrite (IH (t + tdur n) a b Hr ltac:(lia)). unfold clip0. cbv zeta.
  destruct ((t <? b) && ((a <=? t) || (a <? t + tdur n))) eqn:E; [lia|reflexivity].
Qed.

Theorem mel_between_content0 v : forall t a b, nonneg v -> a < b -> mel_between v t a b = Some (clip0_list v t a b).
Proof.
  induction v as [|n v IH]; intros t a b Hv Hab; [reflexivity|]. inversion Hv as [|? ? Hn Hr]; subst.
  cbn [mel_between clip0_list]. cbv zeta.
  destruct (b <=? t) eqn:E1.
  - rewrite (clip0_list_after v (t + tdur n) a b Hr ltac:(lia)). unfold clip0. cbv zeta.
    destruct ((t <? b) && ((a <=? t) || (a <? t + tdur n))) eqn:E; [lia|reflexivity].
  - destruct ((t <? a) && (t + tdur n <=? a)) eqn:E2.
    + rewrite (IH (t + tdur n) a b Hr Hab). unfold clip0. cbv zeta.
      destruct ((t <? b) && ((a <=? t) || (a <? t + tdur n))) eqn:E; [lia|reflexivity].
    + assert (C : clip0 a b t n = Some (if t <? a then continuation (Z.min (t + tdur n) b - Z.max t a) else with_dur n (Z.min (t + tdur n) b - Z.max t a))).
      { unfold clip0. cbv zeta. destruct ((t <? b) && ((a <=? t) || (a <? t + tdur n))) eqn:E; [reflexivity|lia]. }
      rewrite C. cbn [app].
      destruct (b <=? t + tdur n) eqn:E3.
      * rewrite (clip0_list_after v (t + tdur n) a b Hr ltac:(lia)).
        destruct (t <? a) eqn:E4.
        -- destruct (b - t - (a - t) <? 0) eqn:E5; [lia|]. do 3 f_equal. lia.
        -- destruct (b - t <? 0) eqn:E5; [lia|]. do 3 f_equal. lia.
      * destruct (t <? a) eqn:E4.
        -- destruct (tdur n - (a - t) <? 0) eqn:E5; [lia|].
           replace (a + (tdur n - (a - t))) with (t + tdur n) by lia. rewrite (IH (t + tdur n) a b Hr Hab). cbn [obind].
           do 3 f_equal. lia.
        -- destruct (tdur n <? 0) eqn:E5; [lia|]. rewrite (IH (t + tdur n) a b Hr Hab). cbn [obind]. do 3 f_equal. lia.
Qed.

(* the empty window [a, a) at or before the clock is the empty score (the library's None), and so is repeating until duration 0 *)
Lemma score_between_empty_window : forall s t a, Forall (fun c => 0 <= rchord_dur c) s -> a <= t -> score_between s t a a = Some [].
Proof.
  induction s as [|c s IH]; intros t a H Ha; [reflexivity|].
  inversion H as [|? ? Hc Hs]; subst. cbn [score_between]. cbv zeta.
  destruct (t + rchord_dur c <=? a) eqn:E.
  - apply IH; [exact Hs|lia].
  - destruct (a <=? t) eqn:E2; [reflexivity|lia].
Qed.

Lemma score_dur_nonneg s : Forall (fun c => 0 <= rchord_dur c) s -> 0 <= score_dur s.
Proof. induction 1 as [|c s Hc _ IH]; [unfold score_dur; cbn; lia|]. rewrite score_dur_cons. lia. Qed.

Theorem repeat_until_zero s : Forall (fun c => 0 <= rchord_dur c) s -> repeat_until s 0 = Some [] /\ score_dur [] = 0.
Proof.
  intros H. split; [|reflexivity]. unfold repeat_until. pose proof (score_dur_nonneg s H).
  destruct (score_dur s <? 0) eqn:E; [lia|]. apply score_between_empty_window; [exact H|lia].
Qed.

From ML Require Import Model.Types Model.Mask.
From Coq Require Import Lia Btauto.
Open Scope Z_scope.
Open Scope list_scope.

(* masks as the library's operators build them: an and/or tree whose leaves are guards  L > p  (p without guards)
   or unguarded atoms / booleans *)
Fixpoint inner (m : mask) : bool :=
  match m with
  | MAnd a b | MOr a b => inner a && inner b
  | MGt _ _ => false
  | _ => true
  end.

Fixpoint wfm (m : mask) : bool :=
  match m with
  | MAnd a b | MOr a b => wfm a && wfm b
  | MGt _ p => inner p
  | _ => true
  end.

(* Spec: evaluate the and/or tree; a guard for level lv is judged on the ancestor [env lv] of that level
   (true when no such ancestor is given); unguarded leaves are judged on the element itself *)
Fixpoint geval (env : level -> option obs) (self : obs) (m : mask) : bool :=
  match m with
  | MAnd a b => geval env self a && geval env self b
  | MOr a b => geval env self a || geval env self b
  | MGt lv p => match env lv with Some o => call p o | None => true end
  | leaf => call leaf self
  end.

Definition env_chord (so co : obs) : level -> option obs :=
  fun lv => match lv with LScore => Some so | LChord => Some co | _ => None end.
Definition env_melody_all (so co po : obs) : level -> option obs :=
  fun lv => match lv with LScore => Some so | LChord => Some co | LMelody => Some po | LNote => None end.
Definition env_melody (so po : obs) : level -> option obs :=
  fun lv => match lv with LScore => Some so | LMelody => Some po | _ => None end.
Definition env_note (so co no : obs) : level -> option obs :=
  fun lv => match lv with LScore => Some so | LChord => Some co | LNote => Some no | LMelody => None end.
Definition env_all (so co po no : obs) : level -> option obs :=
  fun lv => match lv with LScore => Some so | LChord => Some co | LMelody => Some po | LNote => Some no end.

Lemma level_eqb_refl l : level_eqb l l = true. Proof. destruct l; reflexivity. Qed.

(* what apply_on_score asks about a chord: the mask with the score's own guards frozen *)
Lemma chord_verdict m so co : o_level so = LScore -> o_level co = LChord ->
  call (child m so) co = geval (env_chord so co) co m.
Proof.
  intros LS L. induction m; cbn [call child geval]; try reflexivity.
  - rewrite IHm1, IHm2. reflexivity.
  - rewrite IHm1, IHm2. reflexivity.
  - rewrite LS. destruct lv; cbn [level_eqb call env_chord]; rewrite ?LS, ?L; cbn; reflexivity.
Qed.

(* what apply_on_chord asks about a melody, with the mask handed down by apply_on_score *)
Lemma melody_verdict m so po : o_level so = LScore -> o_level po = LMelody ->
  call (child m so) po = geval (env_melody so po) po m.
Proof.
  intros LS LP. induction m; cbn [call child geval]; try reflexivity.
  - rewrite IHm1, IHm2. reflexivity.
  - rewrite IHm1, IHm2. reflexivity.
  - rewrite LS. destruct lv; cbn [level_eqb call env_melody]; rewrite ?LS, ?LP; cbn; reflexivity.
Qed.

(* what apply_on_melody asks about a note, with the mask handed down twice *)
Lemma note_verdict m so co no : o_level so = LScore -> o_level co = LChord -> o_level no = LNote ->
  call (child (child m so) co) no = geval (env_note so co no) no m.
Proof.
  intros LS LC LN. induction m; cbn [call child geval]; try reflexivity.
  - rewrite IHm1, IHm2. reflexivity.
  - rewrite IHm1, IHm2. reflexivity.
  - rewrite LS. destruct lv; cbn [level_eqb call child env_note]; rewrite ?LS, ?LC, ?LN; cbn [level_eqb call child negb orb];
    rewrite ?LS, ?LC, ?LN; cbn [level_eqb call negb orb]; reflexivity.
Qed.

(* ---------- level-separable masks: gated selection = what the mask says ---------- *)
Fixpoint separable (m : mask) : bool :=
  match m with
  | MAnd a b => separable a && separable b
  | MGt _ p => inner p
  | _ => false
  end.

Lemma separable_natural m so co po no : separable m = true ->
  geval (env_chord so co) co m && geval (env_melody so po) po m && geval (env_note so co no) no m
  = geval (env_all so co po no) no m.
Proof.
  induction m; cbn [separable]; try discriminate; intros H.
  - apply andb_prop in H. destruct H as [H1 H2]. cbn [geval]. rewrite <- (IHm1 H1), <- (IHm2 H2). btauto.
  - cbn [geval]. destruct lv; cbn [env_chord env_melody env_note env_all]; btauto.
Qed.

(* melody-level transformers: the chord gate and the melody gate together are the mask's verdict on the melody with its chord and score *)
Lemma separable_natural_melody m so co po : separable m = true ->
  geval (env_chord so co) co m && geval (env_melody so po) po m = geval (env_melody_all so co po) po m.
Proof.
  induction m; cbn [separable]; try discriminate; intros H.
  - apply andb_prop in H. destruct H as [H1 H2]. cbn [geval]. rewrite <- (IHm1 H1), <- (IHm2 H2). btauto.
  - cbn [geval]. destruct lv; cbn [env_chord env_melody env_melody_all]; btauto.
Qed.

(* ~ is the De Morgan dual: on an element of the guarded level (or for unguarded masks) it negates the verdict *)
Lemma invert_inner m o : inner m = true -> call (invert m) o = negb (call m o).
Proof.
  induction m; cbn [inner invert call]; intros H; try discriminate; try reflexivity.
  - rewrite Bool.negb_involutive. reflexivity.
  - apply andb_prop in H. destruct H as [H1 H2]. rewrite (IHm1 H1), (IHm2 H2). btauto.
  - apply andb_prop in H. destruct H as [H1 H2]. rewrite (IHm1 H1), (IHm2 H2). btauto.
Qed.

Lemma invert_guard lv p o : inner p = true -> o_level o = lv ->
  call (invert (MGt lv p)) o = negb (call (MGt lv p) o).
Proof. intros H L. cbn [invert call]. rewrite L, level_eqb_refl. cbn [negb orb]. apply invert_inner. exact H. Qed.

(* ---------- transformers without a mask map every element of their level ---------- *)
Lemma sel_notes_true c cb p ns beat : Forall (fun b => b = true) (sel_notes_in MTrue c cb p beat ns).
Proof. revert beat. induction ns as [|n ns IH]; intros beat; cbn [sel_notes_in call]; constructor; auto. Qed.

Lemma no_mask_note_chord c cb :
  Forall (fun x => exists l, x = Some l /\ Forall (fun b => b = true) l) (sel_note_chord MTrue c cb).
Proof.
  unfold sel_note_chord. apply Forall_forall. intros x Hx. apply in_map_iff in Hx. destruct Hx as (p & <- & _).
  cbn [call child]. eexists. split; [reflexivity|apply sel_notes_true].
Qed.

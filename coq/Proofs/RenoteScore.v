(* C11: Score.to_absolute_note, whole scores.  The dictionary of last pitches that Chord.to_absolute_note threads through the
   chords is, seen from one part, the single reference of the timeline theorem (abs_items); hence the re-notated score sounds like
   the original, part by part. *)
From ML Require Import Model.Types gen.Tables Model.Pitch Model.Rel Model.Ton Model.Render Model.Slice Model.Renote.
From ML Require Import Spec.PitchSpec Spec.RenderSpec Proofs.PitchProofs Proofs.RenderProofs Proofs.RenoteProofs.
From Coq Require Import Lia.
Open Scope Z_scope.
Open Scope list_scope.

Lemma zolook_zoset_same k v d : zolook k (zoset k v d) = v.
Proof.
  induction d as [|[k' v'] r IH]; cbn [zoset zolook]; [rewrite String.eqb_refl; reflexivity|].
  destruct (String.eqb k k') eqn:E; cbn [zolook]; rewrite E; [reflexivity|exact IH].
Qed.

Lemma zolook_zoset_other k k' v d : k' <> k -> zolook k' (zoset k v d) = zolook k' d.
Proof.
  intros N. induction d as [|[k0 v0] r IH]; cbn [zoset zolook].
  - destruct (String.eqb k' k) eqn:E; [apply String.eqb_eq in E; contradiction|reflexivity].
  - destruct (String.eqb k k0) eqn:E; cbn [zolook].
    + apply String.eqb_eq in E. subst k0. destruct (String.eqb k' k) eqn:E2; [apply String.eqb_eq in E2; contradiction|reflexivity].
    + destruct (String.eqb k' k0); [reflexivity|exact IH].
Qed.

Lemma note_to_absolute_dur c n last x : note_to_absolute c n last = Some x -> tdur (fst x) = tdur n.
Proof.
  unfold note_to_absolute. destruct (pitched n); [|intros H; injection H as <-; reflexivity].
  destruct (pitch_with c (tn n) last); [|discriminate]. cbn [obind]. intros H. injection H as <-. reflexivity.
Qed.

Lemma melody_to_absolute_dur c : forall m last m' l', melody_to_absolute c m last = Some (m', l') -> map tdur m' = map tdur m.
Proof.
  induction m as [|n r IH]; intros last m' l' H; cbn [melody_to_absolute] in H; [injection H as <- _; reflexivity|].
  destruct (note_to_absolute c n last) as [x|] eqn:En; [|discriminate]. cbn [obind] in H.
  destruct (melody_to_absolute c r (snd x)) as [[r' lr]|] eqn:Er; [|discriminate]. injection H as <- _.
  cbn [map fst]. rewrite (note_to_absolute_dur _ _ _ _ En), (IH _ _ _ Er). reflexivity.
Qed.

Lemma part_dur_map m m' : map tdur m' = map tdur m -> part_dur m' = part_dur m.
Proof.
  revert m'. induction m as [|n r IH]; intros [|n' r'] H; try discriminate; [reflexivity|].
  cbn [map] in H. rewrite !part_dur_cons. assert (tdur n' = tdur n) by congruence. assert (map tdur r' = map tdur r) by congruence.
  rewrite (IH _ H1). lia.
Qed.

(* one part of one chord: the melody is re-notated from the current reference; the timeline agrees *)
Lemma melody_items c : forall m last m' l' t rest,
  melody_to_absolute c m last = Some (m', l') ->
  abs_items last (part_items m c t ++ rest) = (do r' <- abs_items l' rest ;; Some (part_items m' c t ++ r')).
Proof.
  induction m as [|n r IH]; intros last m' l' t rest H; cbn [melody_to_absolute] in H.
  - injection H as <- <-. cbn [part_items app]. destruct (abs_items last rest); reflexivity.
  - destruct (note_to_absolute c n last) as [x|] eqn:En; [|discriminate]. cbn [obind] in H.
    destruct (melody_to_absolute c r (snd x)) as [[r' lr]|] eqn:Er; [|discriminate]. injection H as <- <-.
    cbn [part_items app abs_items fst snd]. rewrite En. cbn [obind].
    rewrite (IH _ _ _ (t + tdur n) rest Er). rewrite (note_to_absolute_dur _ _ _ _ En).
    destruct (abs_items lr rest); reflexivity.
Qed.

(* the parts of one chord, seen from part tr (names are unique inside a chord: they are dictionary keys) *)
Lemma parts_view c tr : forall ps d ps' d', parts_to_absolute c ps d = Some (ps', d') -> NoDup (map fst ps) ->
  map fst ps' = map fst ps /\ map (fun p => part_dur (snd p)) ps' = map (fun p => part_dur (snd p)) ps /\
  match plook tr ps with
  | None => plook tr ps' = None /\ zolook tr d' = zolook tr d
  | Some m => exists m', melody_to_absolute c m (zolook tr d) = Some (m', zolook tr d') /\ plook tr ps' = Some m'
  end.
Proof.
  induction ps as [|[k m] r IH]; intros d ps' d' H Hd; cbn [parts_to_absolute] in H.
  - injection H as <- <-. repeat split; reflexivity.
  - destruct (melody_to_absolute c m (zolook k d)) as [[m1 l1]|] eqn:Em; [|discriminate]. cbn [obind fst snd] in H.
    destruct (parts_to_absolute c r (zoset k l1 d)) as [[r' dr]|] eqn:Er; [|discriminate]. injection H as <- <-.
    inversion Hd as [|? ? Hk Hr]; subst. destruct (IH _ _ _ Er Hr) as (N & D & V).
    cbn [map fst snd plook]. split; [rewrite N; reflexivity|]. split.
    { rewrite D, (part_dur_map _ _ (melody_to_absolute_dur _ _ _ _ _ Em)). reflexivity. }
    destruct (String.eqb tr k) eqn:E.
    + apply String.eqb_eq in E. subst k. exists m1. split; [|reflexivity].
      (* later parts have other names: the entry of tr is not touched again *)
      assert (P : plook tr r = None).
      { clear - Hk. induction r as [|[k0 v0] r IHr]; [reflexivity|]. cbn [plook map fst] in *.
        destruct (String.eqb tr k0) eqn:E0; [apply String.eqb_eq in E0; subst; exfalso; apply Hk; left; reflexivity|].
        apply IHr. intros X. apply Hk. right. exact X. }
      rewrite P in V. destruct V as [_ V]. rewrite V, zolook_zoset_same. exact Em.
    + assert (Nk : tr <> k) by (intros ->; rewrite String.eqb_refl in E; discriminate).
      rewrite (zolook_zoset_other k tr l1 d Nk) in V. exact V.
Qed.

Lemma rchord_dur_parts c ps ps' : map (fun p => part_dur (snd p)) ps' = map (fun p => part_dur (snd p)) ps ->
  rchord_dur (mkRC c ps') = rchord_dur (mkRC c ps).
Proof.
  unfold rchord_dur. cbn [rparts]. destruct ps as [|p r], ps' as [|p' r']; try discriminate; [reflexivity|]. cbn [map]. intros H.
  assert (H1 : part_dur (snd p') = part_dur (snd p)) by congruence. assert (H2 : map (fun q => part_dur (snd q)) r' = map (fun q => part_dur (snd q)) r) by congruence.
  rewrite H1. generalize (part_dur (snd p)). clear - H2. revert r' H2. induction r as [|q r IH]; intros [|q' r'] H a; try discriminate; [reflexivity|].
  cbn [map] in H. cbn [fold_left]. assert (part_dur (snd q') = part_dur (snd q)) by congruence. rewrite H0. apply IH. congruence.
Qed.

(* the whole score, seen from one part *)
Theorem score_to_absolute_items tr : forall s d s' t, score_to_absolute_from s d = Some s' ->
  Forall (fun c => NoDup (map fst (rparts c))) s ->
  abs_items (zolook tr d) (items s tr t) = Some (items s' tr t).
Proof.
  induction s as [|c r IH]; intros d s' t H Hn; cbn [score_to_absolute_from] in H; [injection H as <-; reflexivity|].
  destruct (parts_to_absolute (rc c) (rparts c) d) as [[ps' d1]|] eqn:Ep; [|discriminate]. cbn [obind fst snd] in H.
  destruct (score_to_absolute_from r d1) as [r'|] eqn:Er; [|discriminate]. injection H as <-.
  inversion Hn as [|? ? Hc Hr]; subst. destruct (parts_view (rc c) tr _ _ _ _ Ep Hc) as (N & D & V).
  cbn [items rparts rc].
  assert (Dur : rchord_dur (mkRC (rc c) ps') = rchord_dur c).
  { rewrite (rchord_dur_parts (rc c) (rparts c) ps' D). destruct c; reflexivity. }
  rewrite Dur. specialize (IH d1 r' (t + rchord_dur c) Er Hr).
  destruct (plook tr (rparts c)) as [m|] eqn:P.
  - destruct V as (m' & Em & P'). rewrite P'. rewrite (melody_items _ _ _ _ _ t _ Em), IH. reflexivity.
  - destruct V as [P' Z0]. rewrite P'. cbn [app abs_items]. rewrite <- Z0, IH. reflexivity.
Qed.

(* the re-notated score sounds like the original, part by part *)
Theorem score_to_absolute_sounding s s' tr sl : score_to_absolute s = Some s' ->
  Forall (fun c => NoDup (map fst (rparts c))) s -> renotable false (items s tr 0) ->
  sounding_of s tr = Some sl -> sounding_of s' tr = Some sl.
Proof.
  intros H Hn Hr Hs. unfold sounding_of in *. pose proof (score_to_absolute_items tr s [] s' 0 H Hn) as A. cbn [zolook] in A.
  exact (abs_items_sounding _ None None _ sl (or_introl eq_refl) Hr A Hs None).
Qed.

(* Rendering-level octaves (C04): Chord.o(k) on every chord, and Score.o(k) (= Note.o(k) on every note of every part), move the sounding
   notes of a part made of non-relative pitched notes by exactly 12k and keep every onset, duration and velocity. *)
From ML Require Import Model.Types gen.Tables Model.Pitch Model.Rel Model.Ton Model.Render Model.Slice Model.Octave Spec.PitchSpec Spec.RenderSpec.
From ML Require Import Proofs.PitchProofs Proofs.TonProofs Proofs.RenderProofs Proofs.RenderTonProofs.
From Coq Require Import Lia ZifyBool.
Open Scope Z_scope.
Open Scope list_scope.

(* ---- Chord.o(k) on every chord ---- *)
Theorem chord_octave_render s track k sl :
  forallb (item_ok chord_relative) (items s track 0) = true ->
  sounding_of s track = Some sl ->
  sounding_of (rscore_map (fun c => chord_o c k) s) track = Some (map (shift_snote (12 * k)) sl).
Proof.
  intros Hok Hs. unfold sounding_of in *. rewrite items_map.
  apply (sounding_shift (fun c => chord_o c k) (12 * k) _ (fun c n p _ K E => chord_o_pitch c k n p K E) Hok None None sl Hs).
Qed.

(* ---- Score.o(k): every note of every part through Note.o(k) ---- *)
Definition map_note_item (f : tnote -> tnote) (i : item) : item :=
  match i with INote c n t => INote c (f n) t | IGap => IGap end.

Lemma part_items_note_map f m c : (forall n, tdur (f n) = tdur n) ->
  forall t, part_items (map f m) c t = map (map_note_item f) (part_items m c t).
Proof.
  intros Hd. induction m as [|n m IH]; intros t; cbn [map part_items map_note_item]; [reflexivity|]. rewrite Hd, IH. reflexivity.
Qed.

Lemma part_dur_note_map f m : (forall n, tdur (f n) = tdur n) -> part_dur (map f m) = part_dur m.
Proof.
  intros Hd. unfold part_dur. generalize 0. induction m as [|n m IH]; intros a; [reflexivity|].
  cbn [map fold_left]. rewrite Hd. apply IH.
Qed.

Lemma plook_note_map {B C} (g : B -> C) track : forall ps,
  plook track (map (fun p => (fst p, g (snd p))) ps) = option_map g (plook track ps).
Proof. induction ps as [|[k v] r IH]; [reflexivity|]. cbn [map plook fst snd]. destruct (String.eqb track k); [reflexivity|exact IH]. Qed.

Lemma rchord_dur_note_map f c : (forall n, tdur (f n) = tdur n) ->
  rchord_dur (mkRC (rc c) (map (fun p => (fst p, map f (snd p))) (rparts c))) = rchord_dur c.
Proof.
  intros Hd. unfold rchord_dur. cbn [rparts]. destruct (rparts c) as [|p r]; [reflexivity|]. cbn [map snd].
  rewrite (part_dur_note_map f _ Hd). generalize (part_dur (snd p)). induction r as [|q r IH]; intros a; [reflexivity|].
  cbn [map fold_left snd]. rewrite (part_dur_note_map f _ Hd). apply IH.
Qed.

Lemma items_note_map f s track : (forall n, tdur (f n) = tdur n) ->
  forall t, items (rscore_note_map f s) track t = map (map_note_item f) (items s track t).
Proof.
  intros Hd. induction s as [|c s IH]; intros t; cbn [rscore_note_map map items]; [reflexivity|].
  fold (rscore_note_map f s). rewrite (rchord_dur_note_map f c Hd). cbn [rparts rc]. rewrite map_app, IH. f_equal.
  rewrite plook_note_map. destruct (plook track (rparts c)) as [m|]; cbn [option_map]; [apply part_items_note_map; exact Hd|reflexivity].
Qed.

Lemma run_note_map k l : run (map (map_note_item (tnote_o k)) l) = run l.
Proof.
  induction l as [|[c n t|] l IH]; cbn [map map_note_item run]; [reflexivity| |reflexivity].
  assert (E : is_cont (tnote_o k n) = is_cont n).
  { unfold is_cont, tnote_o, note_o. cbn [tn]. destruct (tn n) as [kd d v o m a]; cbn [pkind pdir]. destruct kd, d; reflexivity. }
  rewrite E, IH. reflexivity.
Qed.

(* a non-relative pitched note of any system, absolute notes included *)
Definition plain_pitched (n : tnote) : bool :=
  match pkind (tn n), pdir (tn n) with (KS | KH | KC | KB | KA), Abs => true | _, _ => false end.

Lemma sounding_note_octave k l :
  forallb (item_ok plain_pitched) l = true ->
  forall ref ref' sl, sounding ref l = Some sl ->
  sounding ref' (map (map_note_item (tnote_o k)) l) = Some (map (shift_snote (12 * k)) sl).
Proof.
  induction l as [|[c n t|] l IH]; intros Hok ref ref' sl Hs; cbn [map map_note_item sounding] in *.
  - injection Hs as <-. reflexivity.
  - cbn [forallb item_ok] in Hok. apply andb_prop in Hok. destruct Hok as [H1 H2].
    assert (Er : is_rest (tnote_o k n) = is_rest n).
    { unfold is_rest, tnote_o, note_o. cbn [tn]. destruct (tn n) as [kd d v o m a]; cbn [pkind pdir]. destruct kd, d; reflexivity. }
    assert (Ec : is_cont (tnote_o k n) = is_cont n).
    { unfold is_cont, tnote_o, note_o. cbn [tn]. destruct (tn n) as [kd d v o m a]; cbn [pkind pdir]. destruct kd, d; reflexivity. }
    rewrite Er, Ec. destruct (is_rest n || is_cont n) eqn:E; [exact (IH H2 _ _ _ Hs)|].
    cbn [orb] in H1. unfold plain_pitched in H1.
    assert (D : pdir (tn n) = Abs) by (destruct (pkind (tn n)), (pdir (tn n)); try discriminate; reflexivity).
    assert (K : pkind (tn n) = KS \/ pkind (tn n) = KH \/ pkind (tn n) = KC \/ pkind (tn n) = KB \/ pkind (tn n) = KA)
      by (destruct (pkind (tn n)); try discriminate; tauto).
    assert (D' : pdir (tn (tnote_o k n)) = Abs).
    { unfold tnote_o, note_o. cbn [tn]. destruct (tn n) as [kd d v o m a]; cbn [pkind pdir] in *. subst d. destruct kd; reflexivity. }
    assert (K' : pkind (tn (tnote_o k n)) = pkind (tn n)).
    { unfold tnote_o, note_o. cbn [tn]. destruct (tn n) as [kd d v o m a]; cbn [pkind pdir] in *. subst d. destruct kd; reflexivity. }
    rewrite pitch_full_abs in Hs by tauto. rewrite pitch_full_abs by (rewrite ?K'; tauto).
    destruct (to_pitch_abs c (tn n)) as [[p|]|] eqn:Ep; cbn [obind] in Hs.
    + destruct (sounding (Some p) l) as [rest|] eqn:Es; [|discriminate]. cbn [obind] in Hs. injection Hs as <-.
      change (tn (tnote_o k n)) with (note_o (tn n) k). rewrite (note_o_pitch c k (tn n) p D K Ep). cbn [obind].
      rewrite (IH H2 _ (Some (p + 12 * k)) _ Es). cbn [obind map shift_snote s_pitch s_on s_dur s_vel tnote_o tdur tamp].
      rewrite run_note_map. reflexivity.
    + exfalso. unfold to_pitch_abs in Ep. destruct K as [K|[K|[K|[K|K]]]]; rewrite K in Ep;
      [destruct (pitch_basic c (tn n)); discriminate | destruct (pitch_basic c (tn n)); discriminate
      | destruct (chord_pitches c); [cbn [obind] in Ep; destruct (value_to_scale _ _); discriminate|discriminate]
      | destruct (chord_extension_pitches c); [cbn [obind] in Ep; destruct (value_to_scale _ _); discriminate|discriminate]
      | destruct (pitch_basic c (tn n)); discriminate].
    + discriminate.
  - cbn [forallb] in Hok. apply andb_prop in Hok. exact (IH (proj2 Hok) _ _ _ Hs).
Qed.

Theorem score_octave_render s track k sl :
  forallb (item_ok plain_pitched) (items s track 0) = true ->
  sounding_of s track = Some sl ->
  sounding_of (score_o s k) track = Some (map (shift_snote (12 * k)) sl).
Proof.
  intros Hok Hs. unfold sounding_of, score_o in *. rewrite (items_note_map (tnote_o k) s track (fun n => eq_refl) 0).
  exact (sounding_note_octave k _ Hok None None sl Hs).
Qed.

(* C12, re-joining: cutting a part at t and putting the two windows one after the other gives the part back, except that a note
   held across t is written as its head followed by a continuation - which sounds exactly the same (C03's sounding notes). *)
From ML Require Import Model.Types gen.Tables Model.Pitch Model.Rel Model.Render Model.Slice Spec.RenderSpec.
From ML Require Import Proofs.RenderProofs Proofs.SliceProofs Proofs.SliceContent.
From Coq Require Import Lia ZifyBool.
Open Scope Z_scope.
Open Scope list_scope.

(* the part with the note held across t (if any) split in two *)
Fixpoint split_at (v : list tnote) (time t : Z) : list tnote :=
  match v with
  | [] => []
  | n :: r => if (time <? t) && (t <? time + tdur n)
              then with_dur n (t - time) :: continuation (time + tdur n - t) :: r
              else n :: split_at r (time + tdur n) t
  end.

Lemma with_dur_id n : with_dur n (tdur n) = n.
Proof. destruct n. reflexivity. Qed.

Lemma positive_part_dur v : positive v -> 0 <= part_dur v.
Proof. induction 1 as [|n v Hn _ IH]; [rewrite part_dur_nil; lia|]. rewrite part_dur_cons. lia. Qed.

Lemma clip_list_inside v : forall t a b, positive v -> a <= t -> t + part_dur v <= b -> clip_list v t a b = v.
Proof.
  induction v as [|n v IH]; intros t a b Hv Ha Hb; [reflexivity|]. inversion Hv as [|? ? Hn Hr]; subst. rewrite part_dur_cons in Hb.
  pose proof (positive_part_dur v Hr). cbn [clip_list]. assert (A1 : a <= t + tdur n) by lia. assert (A2 : t + tdur n + part_dur v <= b) by lia. rewrite (IH (t + tdur n) a b Hr A1 A2).
  unfold clip. cbv zeta. destruct (Z.max t a <? Z.min (t + tdur n) b) eqn:E; [|lia]. destruct (t <? a) eqn:E2; [lia|].
  replace (Z.min (t + tdur n) b - Z.max t a) with (tdur n) by lia. rewrite with_dur_id. reflexivity.
Qed.

Lemma split_after v : forall time t, positive v -> t <= time -> split_at v time t = v.
Proof.
  induction v as [|n v IH]; intros time t Hv Ht; [reflexivity|]. inversion Hv as [|? ? Hn Hr]; subst. cbn [split_at].
  destruct ((time <? t) && (t <? time + tdur n)) eqn:E; [lia|]. assert (A1 : t <= time + tdur n) by lia. rewrite (IH _ _ Hr A1). reflexivity.
Qed.

(* the two windows [a, t) and [t, b) of a part lying inside [a, b], one after the other *)
Theorem windows_rejoin v : forall time a t b, positive v -> a <= time -> time + part_dur v <= b ->
  clip_list v time a t ++ clip_list v time t b = split_at v time t.
Proof.
  induction v as [|n v IH]; intros time a t b Hv Ha Hb; [reflexivity|]. inversion Hv as [|? ? Hn Hr]; subst. rewrite part_dur_cons in Hb.
  pose proof (positive_part_dur v Hr) as Hp. cbn [clip_list split_at].
  destruct ((time <? t) && (t <? time + tdur n)) eqn:E.
  - (* the note is held across t *)
    assert (B1 : t <= time + tdur n) by lia. assert (B2 : time + tdur n + part_dur v <= b) by lia.
    rewrite (clip_list_after v (time + tdur n) a t Hr B1), (clip_list_inside v (time + tdur n) t b Hr B1 B2).
    unfold clip. cbv zeta.
    destruct (Z.max time a <? Z.min (time + tdur n) t) eqn:E1; [|lia]. destruct (time <? a) eqn:E2; [lia|].
    destruct (Z.max time t <? Z.min (time + tdur n) b) eqn:E3; [|lia]. destruct (time <? t) eqn:E4; [|lia].
    cbn [app]. f_equal; [f_equal; lia|]. f_equal. f_equal. lia.
  - destruct (time + tdur n <=? t) eqn:E0.
    + (* entirely before t *)
      assert (B1 : a <= time + tdur n) by lia. assert (B2 : time + tdur n + part_dur v <= b) by lia.
      rewrite <- (IH (time + tdur n) a t b Hr B1 B2). unfold clip. cbv zeta.
      destruct (Z.max time a <? Z.min (time + tdur n) t) eqn:E1; [|lia]. destruct (time <? a) eqn:E2; [lia|].
      destruct (Z.max time t <? Z.min (time + tdur n) b) eqn:E3; [lia|].
      replace (Z.min (time + tdur n) t - Z.max time a) with (tdur n) by lia. rewrite with_dur_id. reflexivity.
    + (* entirely after t *)
      assert (Ht : t <= time) by lia.
      assert (B1 : t <= time + tdur n) by lia. assert (B2 : time + tdur n + part_dur v <= b) by lia.
      rewrite (clip_list_after v (time + tdur n) a t Hr B1), (clip_list_inside v (time + tdur n) t b Hr B1 B2).
      rewrite (split_after v _ _ Hr B1). unfold clip. cbv zeta.
      destruct (Z.max time a <? Z.min (time + tdur n) t) eqn:E1; [lia|].
      destruct (Z.max time t <? Z.min (time + tdur n) b) eqn:E3; [|lia]. destruct (time <? t) eqn:E4; [lia|].
      replace (Z.min (time + tdur n) b - Z.max time t) with (tdur n) by lia. rewrite with_dur_id. reflexivity.
Qed.

(* ---- a split note sounds like the note ---- *)
Lemma is_rest_with_dur n d : is_rest (with_dur n d) = is_rest n. Proof. reflexivity. Qed.
Lemma is_cont_with_dur n d : is_cont (with_dur n d) = is_cont n. Proof. reflexivity. Qed.

Lemma run_split c n s d1 d2 rest : d1 + d2 = tdur n ->
  run (INote c (with_dur n d1) s :: INote c (continuation d2) (s + d1) :: rest) = run (INote c n s :: rest).
Proof.
  intros H. cbn [run]. rewrite is_cont_with_dur. destruct (is_cont n); [|reflexivity].
  cbn [with_dur tdur continuation]. change (is_cont (continuation d2)) with true. cbn [tdur]. lia.
Qed.

Lemma sounding_split c n s d1 d2 rest ref : d1 + d2 = tdur n ->
  sounding ref (INote c (with_dur n d1) s :: INote c (continuation d2) (s + d1) :: rest) = sounding ref (INote c n s :: rest).
Proof.
  intros H. cbn [sounding]. rewrite is_rest_with_dur, is_cont_with_dur.
  change (is_rest (continuation d2) || is_cont (continuation d2)) with true. cbn iota.
  destruct (is_rest n || is_cont n); [reflexivity|]. cbn [with_dur tn tdur tamp].
  destruct (pitch_full c (tn n) _) as [pr|]; [|reflexivity]. cbn [obind].
  destruct (sounding _ rest) as [r|]; [|reflexivity]. cbn [obind]. do 3 f_equal.
  cbn [run]. change (is_cont (continuation d2)) with true. cbn [continuation tdur]. lia.
Qed.

(* the items of the split part: same timeline, the held note in two pieces *)
Lemma split_items c : forall v time t tail ref, positive v ->
  sounding ref (part_items (split_at v time t) c time ++ tail) = sounding ref (part_items v c time ++ tail) /\
  run (part_items (split_at v time t) c time ++ tail) = run (part_items v c time ++ tail).
Proof.
  induction v as [|n v IH]; intros time t tail ref Hv; [split; reflexivity|]. inversion Hv as [|? ? Hn Hr]; subst. cbn [split_at].
  destruct ((time <? t) && (t <? time + tdur n)) eqn:E.
  - cbn [part_items app with_dur tdur continuation].
    replace (time + (t - time) + (time + tdur n - t)) with (time + tdur n) by lia.
    split; [apply sounding_split; lia|apply run_split; lia].
  - cbn [part_items app]. split.
    + cbn [sounding]. destruct (is_rest n || is_cont n).
      * exact (proj1 (IH (time + tdur n) t tail ref Hr)).
      * destruct (pitch_full c (tn n) _) as [pr|]; [|reflexivity]. cbn [obind].
        rewrite (proj1 (IH (time + tdur n) t tail _ Hr)), (proj2 (IH (time + tdur n) t tail ref Hr)). reflexivity.
    + cbn [run]. destruct (is_cont n); [|reflexivity]. rewrite (proj2 (IH (time + tdur n) t tail ref Hr)). reflexivity.
Qed.

(* the statement: window [a, t) followed by window [t, b) of a part sounds like the part (whatever follows, whatever the reference) *)
Theorem rejoin_sounds_the_same c v time a t b tail ref : positive v -> a <= time -> time + part_dur v <= b ->
  sounding ref (part_items (clip_list v time a t ++ clip_list v time t b) c time ++ tail) = sounding ref (part_items v c time ++ tail).
Proof. intros Hv Ha Hb. rewrite (windows_rejoin v time a t b Hv Ha Hb). exact (proj1 (split_items c v time t tail ref Hv)). Qed.

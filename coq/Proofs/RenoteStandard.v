(* C11: Note.to_standard_note keeps the pitch of chord tones and bass tones - for EVERY chord (any figure, any set of
   replacements / additions / removals, any tonality and octave) and every value and octave of the note. *)
From ML Require Import Model.Types gen.Tables Model.Pitch Model.Rel Model.Ton Model.Render Model.Slice Model.Renote.
From ML Require Import Model.Import Proofs.PitchProofs Proofs.ImportProofs.
From Coq Require Import Lia ZifyBool.
Open Scope Z_scope.
Open Scope list_scope.
Ltac Zify.zify_post_hook ::= Z.to_euclidean_division_equations.

(* the notes of the chord tables are scale or chromatic notes, none of them relative *)
Definition is_sha (n : pnote) : bool := is_sh n && dir_eqb (pdir n) Abs.

Definition tables_sha : bool :=
  forallb (fun kv => forallb is_sha (snd kv)) BASE_EXTENSION_DICT &&
  forallb (fun kv => is_sha (snd (snd kv))) DICT_REPLACEMENT &&
  forallb (fun kv => is_sha (snd (snd kv))) DICT_ADDITION.
Lemma tables_sha_true : tables_sha = true. Proof. vm_compute. reflexivity. Qed.

Lemma is_sha_note_o n k : is_sha (note_o n k) = is_sha n.
Proof. unfold note_o, is_sha, is_sh. destruct n as [k0 d0 v0 o0 m0 a0]; cbn [pkind pdir]. destruct k0, d0; reflexivity. Qed.

Definition st_sha (st : option cstate) : Prop :=
  match st with Some s => forallb is_sha (s_notes s) = true | None => True end.

Lemma step_repl_sha st r : st_sha st -> st_sha (step_repl st r).
Proof.
  destruct st as [s|]; [|exact (fun H => H)]. cbn [st_sha]. intros H. unfold step_repl. cbn [obind].
  destruct (assoc r DICT_REPLACEMENT) as [[replaced newn]|] eqn:E; [|exact I]. cbn [obind].
  destruct (index_of replaced (s_nwo s)); cbn [st_sha s_notes]; [|exact H].
  apply forallb_set_nth; [|exact H]. rewrite is_sha_note_o.
  pose proof tables_sha_true as T. unfold tables_sha in T.
  apply andb_prop in T. destruct T as [T _]. apply andb_prop in T. destruct T as [_ T].
  exact (assoc_forallb (fun v => is_sha (snd v)) _ _ _ T E).
Qed.

Lemma step_add_sha st r : st_sha st -> st_sha (step_add st r).
Proof.
  destruct st as [s|]; [|exact (fun H => H)]. cbn [st_sha]. intros H. unfold step_add. cbn [obind].
  destruct (assoc r DICT_ADDITION) as [[after newn]|] eqn:E; [|exact I]. cbn [obind].
  destruct (index_of _ (s_nwo s)); [|exact I]. cbn [obind st_sha s_notes].
  apply forallb_insert_at; [|exact H]. rewrite is_sha_note_o.
  pose proof tables_sha_true as T. unfold tables_sha in T.
  apply andb_prop in T. destruct T as [_ T].
  exact (assoc_forallb (fun v => is_sha (snd v)) _ _ _ T E).
Qed.

Lemma step_rem_sha st r : st_sha st -> st_sha (step_rem st r).
Proof.
  destruct st as [s|]; [|exact (fun H => H)]. cbn [st_sha]. intros H. unfold step_rem. cbn [obind].
  destruct (assoc r DICT_REMOVAL); [|exact I]. cbn [obind].
  destruct (last_index_of _ _); [|exact I]. cbn [obind st_sha s_notes].
  apply forallb_remove_at. exact H.
Qed.

Lemma fold_sha (step : option cstate -> string -> option cstate) l st :
  (forall st r, st_sha st -> st_sha (step st r)) -> st_sha st -> st_sha (fold_left step l st).
Proof. intros Hs. revert st. induction l as [|r l IH]; cbn [fold_left]; auto. Qed.

Lemma unsorted_sha f e ns : chord_notes_unsorted f e = Some ns -> forallb is_sha ns = true.
Proof.
  unfold chord_notes_unsorted.
  destruct (assoc f BASE_EXTENSION_DICT) as [base|] eqn:E; [|discriminate]. cbn [obind].
  assert (H0 : st_sha (Some (mkS base (map no_oct base) [] []))).
  { cbn [st_sha s_notes]. pose proof tables_sha_true as T. unfold tables_sha in T.
    apply andb_prop in T. destruct T as [T _]. apply andb_prop in T. destruct T as [T _].
    exact (assoc_forallb (forallb is_sha) _ _ _ T E). }
  pose proof (fold_sha step_repl (repl e) _ step_repl_sha H0) as H1.
  destruct (fold_left step_repl (repl e) _) as [s1|]; [|discriminate]. cbn [obind].
  pose proof (fold_sha step_add (adds e ++ s_extra s1) _ step_add_sha H1) as H2.
  destruct (fold_left step_add _ _) as [s2|]; [|discriminate]. cbn [obind].
  pose proof (fold_sha step_rem (rems e) _ step_rem_sha H2) as H3.
  destruct (fold_left step_rem _ _) as [s3|]; [|discriminate]. cbn [obind].
  intros X; inversion X; subst. exact H3.
Qed.

(* sorting keeps the elements *)
Lemma insert_key_in {A} (key : A -> Z) x l y : In y (insert_key key x l) -> y = x \/ In y l.
Proof.
  induction l as [|a l IH]; cbn [insert_key In]; [intuition|]. destruct (key x <=? key a); cbn [In]; [intuition|].
  intros [H|H]; [intuition|]. destruct (IH H); intuition.
Qed.
Lemma sort_key_in {A} (key : A -> Z) l y : In y (sort_key key l) -> In y l.
Proof.
  induction l as [|x l IH]; [exact (fun H => H)|]. cbn [sort_key fold_right]. intros H.
  apply insert_key_in in H. destruct H as [->|H]; [left; reflexivity|right; exact (IH H)].
Qed.
Lemma insert_key_length {A} (key : A -> Z) x l : length (insert_key key x l) = S (length l).
Proof. induction l as [|a l IH]; cbn [insert_key length]; [reflexivity|]. destruct (key x <=? key a); cbn [length]; [reflexivity|]. rewrite IH. reflexivity. Qed.

Lemma omap_combine_in {A B} (f : A -> option B) : forall ns ps p x, omap f ns = Some ps -> In (p, x) (combine ps ns) -> f x = Some p.
Proof.
  induction ns as [|n ns IH]; intros ps p x H Hin; cbn [omap] in H.
  - injection H as <-. contradiction.
  - destruct (f n) as [b|] eqn:E; [|discriminate]. cbn [obind] in H. destruct (omap f ns) as [bs|] eqn:E2; [|discriminate].
    cbn [obind] in H. injection H as <-. cbn [combine In] in Hin. destruct Hin as [Hin|Hin].
    + injection Hin as <- <-. exact E.
    + exact (IH _ _ _ eq_refl Hin).
Qed.

(* every entry of _chord_notes_calc: (the pitch of the note, the note), a non-relative scale or chromatic note *)
Lemma calc_entries c f l p x : chord_notes_calc c f = Some l -> In (p, x) l -> pitch_basic c x = Some p /\ is_sha x = true.
Proof.
  unfold chord_notes_calc. destruct (chord_notes_unsorted f (cext c)) as [ns|] eqn:U; [|discriminate]. cbn [obind].
  destruct (omap (pitch_basic c) ns) as [ps|] eqn:O; [|discriminate]. cbn [obind]. intros H. injection H as <-. intros Hin.
  apply sort_key_in in Hin. split; [exact (omap_combine_in _ _ _ _ _ O Hin)|].
  pose proof (unsorted_sha _ _ _ U) as S. rewrite forallb_forall in S. apply S. exact (in_combine_r _ _ _ _ Hin).
Qed.

Lemma note_o_with_oct x k : is_sha x = true -> note_o x k = with_oct x k.
Proof.
  unfold is_sha, is_sh, note_o, with_oct. destruct x as [k0 d0 v0 o0 m0 a0]; cbn [pkind pdir pval poct pmode pacc].
  destruct k0, d0; cbn; intros H; try discriminate; reflexivity.
Qed.

Lemma candidate_pitch c f l n n' : chord_notes_calc c f = Some l -> candidate_note l n = Some n' ->
  option_map Some (value_to_scale (pval n + zlen (map fst l) * poct n) (map fst l)) = to_pitch_abs c n'.
Proof.
  intros Hl. unfold candidate_note. destruct (zlen l =? 0) eqn:E0; [discriminate|]. intros H. injection H as <-.
  set (m := zlen l) in *. assert (Hm : 0 < m) by (unfold m, zlen in *; lia).
  set (i := Z.to_nat (pval n mod m)).
  assert (Hi : (i < length l)%nat) by (unfold i, m, zlen in *; lia).
  destruct (nth i l (0, plain KS 0 0)) as [p x] eqn:En. cbn [snd].
  assert (Hin : In (p, x) l) by (rewrite <- En; apply nth_In; exact Hi).
  destruct (calc_entries c f l p x Hl Hin) as [Hp Hs].
  rewrite (note_o_with_oct x _ Hs).
  assert (Ml : zlen (map fst l) = m) by (unfold zlen; rewrite map_length; reflexivity). rewrite Ml.
  unfold value_to_scale. rewrite Ml, E0.
  assert (Ek : (pval n + m * poct n) mod m = pval n mod m) by (rewrite Z.mul_comm, Z_mod_plus_full; reflexivity).
  assert (Ed : (pval n + m * poct n) / m = pval n / m + poct n) by (rewrite Z.mul_comm, Z_div_plus_full by lia; reflexivity).
  rewrite Ek, Ed. unfold znth. fold i.
  assert (Nf : nth i (map fst l) 0 = p) by (change 0 with (fst (0, plain KS 0 0)); rewrite map_nth, En; reflexivity). rewrite Nf.
  pose proof (pitch_basic_octave c x (pval n / m + poct n) p Hp) as Po.
  unfold to_pitch_abs. assert (Kw : pkind (with_oct x (pval n / m + poct n)) = pkind x) by reflexivity. rewrite Kw.
  unfold is_sha, is_sh in Hs. destruct (pkind x) eqn:K; try discriminate; rewrite Po; reflexivity.
Qed.

(* the statement: whatever the chord, a chord tone or bass tone and the note to_standard_note writes for it have the same pitch *)
Theorem to_standard_keeps_pitch c n n' : (pkind n = KC \/ pkind n = KB) -> pdir n = Abs ->
  note_to_standard c n = Some n' -> to_pitch_abs c n' = to_pitch_abs c n /\ is_sh n' = true.
Proof.
  intros K D. unfold note_to_standard. rewrite D.
  assert (Sh : forall f l, chord_notes_calc c f = Some l -> candidate_note l n = Some n' -> is_sh n' = true).
  { intros f l Hl. unfold candidate_note. destruct (zlen l =? 0) eqn:E0; [discriminate|]. intros H. injection H as <-.
    assert (Hi : (Z.to_nat (pval n mod zlen l) < length l)%nat) by (unfold zlen in *; lia).
    destruct (nth _ l (0, plain KS 0 0)) as [p x] eqn:En. cbn [snd].
    assert (Hin : In (p, x) l) by (rewrite <- En; apply nth_In; exact Hi).
    destruct (calc_entries c f l p x Hl Hin) as [_ Hs]. unfold is_sha in Hs. apply andb_prop in Hs. destruct Hs as [Hs _].
    rewrite is_sh_note_o. exact Hs. }
  destruct K as [K|K]; rewrite K.
  - destruct (chord_notes_calc c (root_figure (fig (cext c)))) as [l|] eqn:Hl; [|discriminate]. cbn [obind]. intros H.
    split; [|exact (Sh _ _ Hl H)]. rewrite <- (candidate_pitch c _ l n n' Hl H).
    unfold to_pitch_abs. rewrite K. unfold chord_pitches. rewrite Hl. reflexivity.
  - destruct (chord_notes_calc c (fig (cext c))) as [l|] eqn:Hl; [|discriminate]. cbn [obind]. intros H.
    split; [|exact (Sh _ _ Hl H)]. rewrite <- (candidate_pitch c _ l n n' Hl H).
    unfold to_pitch_abs. rewrite K. unfold chord_extension_pitches. rewrite Hl. reflexivity.
Qed.

(* an absolute note is re-notated by Chord.parse of its pitch: same pitch in every chord, as a plain scale or chromatic note *)
Theorem to_standard_absolute c n n' : elem_ok c -> pkind n = KA -> pdir n = Abs ->
  note_to_standard c n = Some n' -> to_pitch_abs c n' = to_pitch_abs c n /\ pmode n' = None /\ pacc n' = None.
Proof.
  intros He K D. unfold note_to_standard. rewrite K, D.
  destruct (to_pitch_abs c n) as [[p|]|] eqn:E; cbn [obind]; try discriminate.
  destruct (parse_roundtrip c p He) as (m & Hm & Hp & _ & Ha & Hmo & _). rewrite Hm. intros H. injection H as <-.
  split; [exact Hp|split; assumption].
Qed.

(* non-vacuity: the third of V7 in C major, an octave up, is the leading tone B: c1.o(1) -> s2.o(1); a bass tone of the 65 position *)
Example to_standard_ex :
  let c := mkC 4 (bare "65") (mkT 0 MMaj 0) 0 in
  note_to_standard c (mkP KC Abs 1 1 None None) = Some (mkP KS Abs 2 1 None None) /\
  to_pitch_abs c (mkP KC Abs 1 1 None None) = Some (Some 23) /\
  note_to_standard c (mkP KB Abs 0 0 None None) = Some (mkP KS Abs 2 0 None None).
Proof. repeat split; vm_compute; reflexivity. Qed.

(* to_scale_note keeps the pitch of every non-relative pitched note - scale, chromatic, chord-tone, bass-tone or absolute, with any
   per-note mode or accidental - in every chord: the rewritten note carries neither mode nor accidental and sounds the same pitch *)
Theorem to_scale_note_keeps_pitch c n p : elem_ok c -> to_pitch_abs c n = Some (Some p) ->
  exists n', to_scale_note c n = Some n' /\ to_pitch_abs c n' = Some (Some p) /\ pdir n' = Abs /\ pacc n' = None /\ pmode n' = None.
Proof.
  intros He Hp. unfold to_scale_note. rewrite Hp.
  destruct (parse_roundtrip c p He) as (n' & H1 & H2 & H3 & H4 & H5 & _).
  exists n'. repeat split; assumption.
Qed.

From ML Require Import Model.Types gen.Tables Model.Pitch Model.Ext Spec.PitchSpec Proofs.PitchProofs Proofs.ExtProofs Proofs.PcsDefs.
From ML Require Import Proofs.PcsSweep0 Proofs.PcsSweep1 Proofs.PcsSweep2 Proofs.PcsSweep3 Proofs.PcsSweep4 Proofs.PcsSweep5 Proofs.PcsSweep6.
From Coq Require Import Lia ZifyBool Permutation.
Open Scope Z_scope.

Lemma insert_key_perm {A} (key : A -> Z) x l : Permutation (insert_key key x l) (x :: l).
Proof.
  induction l as [|y l IH]; cbn [insert_key]; [apply Permutation_refl|].
  destruct (key x <=? key y); [apply Permutation_refl|].
  eapply perm_trans; [apply perm_skip, IH | apply perm_swap].
Qed.

Lemma sort_key_perm {A} (key : A -> Z) l : Permutation (sort_key key l) l.
Proof.
  unfold sort_key. induction l as [|x l IH]; cbn [fold_right]; [constructor|].
  eapply perm_trans; [apply insert_key_perm | apply perm_skip, IH].
Qed.

Definition pc (p : Z) : Z := p mod 12.

Lemma pcs_eq_perm a b : pcs a = pcs b -> Permutation (map pc a) (map pc b).
Proof.
  unfold pcs. fold pc. intros H.
  eapply perm_trans; [apply Permutation_sym, (sort_key_perm (fun x => x))|]. rewrite H. apply sort_key_perm.
Qed.

Lemma pc_shift t l : map pc (map (fun x => x + t) l) = map (fun q => (q + t) mod 12) (map pc l).
Proof. rewrite !map_map. apply map_ext. intros x. unfold pc. rewrite Zplus_mod_idemp_l. reflexivity. Qed.

Lemma sweep_all e : 0 <= e <= 6 -> sweep_elem e = true.
Proof.
  intros H. assert (E : e = 0 \/ e = 1 \/ e = 2 \/ e = 3 \/ e = 4 \/ e = 5 \/ e = 6) by lia.
  destruct E as [E|[E|[E|[E|[E|[E|E]]]]]]; subst e;
    [apply sweep_0|apply sweep_1|apply sweep_2|apply sweep_3|apply sweep_4|apply sweep_5|apply sweep_6].
Qed.

(* For every chord whose modifier set is one of the 1082 sets of size <= 2 and
   whose figure is a triad or seventh inversion: whenever the extension is
   valid, its pitch classes are those of the root-position chord tones. *)
Lemma inversion_pitch_classes c f s :
  elem_ok c -> In f invertible_figures -> In s (subsets2 tagged) -> cext c = ext_of f s ->
  forall ep, chord_extension_pitches c = Some ep ->
  exists cp, chord_pitches c = Some cp /\ Permutation (map pc cp) (map pc ep).
Proof.
  intros He Hf Hs Hx ep Hep.
  pose proof (sweep_all _ He) as SW. unfold sweep_elem in SW. rewrite forallb_forall in SW.
  specialize (SW _ (all_modes_in (tmode (cton c)))). rewrite forallb_forall in SW.
  specialize (SW _ Hs). rewrite forallb_forall in SW. specialize (SW _ Hf). unfold pcs_ok in SW.
  set (c0 := mkC (celem c) (ext_of f s) (mkT 0 (tmode (cton c)) 0) 0) in *.
  assert (C : c = shift_chord c0 (tdeg (cton c)) (toct (cton c)) (coct c)).
  { destruct c as [e x [dg md oc] co]. cbn in Hx. subst x. unfold shift_chord, c0. cbn. reflexivity. }
  destruct (chord_pitches_equivariant c0 (tdeg (cton c)) (toct (cton c)) (coct c)) as [E1 E2].
  rewrite C in Hep. rewrite E2 in Hep.
  destruct (chord_extension_pitches c0) as [ep0|]; [|discriminate].
  destruct (chord_pitches c0) as [cp0|] eqn:Ecp; [|discriminate].
  cbn [option_map] in Hep. injection Hep as <-.
  rewrite C, E1. cbn [option_map]. eexists. split; [reflexivity|].
  rewrite !pc_shift. apply Permutation_map. apply pcs_eq_perm. apply list_eqb_eq. exact SW.
Qed.

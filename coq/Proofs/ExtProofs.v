From ML Require Import Model.Types gen.Tables Model.Pitch Model.Ext Spec.PitchSpec Proofs.PitchProofs Proofs.SortProofs.
From Coq Require Import Lia ZifyBool Permutation.
Open Scope Z_scope.

(* ---------- modifier order, normalisation ---------- *)
Lemma parse_ext_perm w w' :
  fig w = fig w' -> Permutation (repl w) (repl w') -> Permutation (adds w) (adds w') ->
  Permutation (rems w) (rems w') -> parse_ext w = parse_ext w'.
Proof.
  intros F R A M. unfold parse_ext.
  rewrite F, (ssort_permutation _ _ R), (ssort_permutation _ _ A), (ssort_permutation _ _ M). reflexivity.
Qed.

Lemma parse_ext_idempotent w : parse_ext (parse_ext w) = parse_ext w.
Proof. unfold parse_ext. cbn [fig repl adds rems]. rewrite !ssort_idempotent. reflexivity. Qed.

Lemma getitem_perm c w w' :
  fig w = fig w' -> Permutation (repl w) (repl w') -> Permutation (adds w) (adds w') ->
  Permutation (rems w) (rems w') -> getitem c w = getitem c w'.
Proof.
  intros F R A M. unfold getitem. rewrite (parse_ext_perm w w' F R A M), F. reflexivity.
Qed.

Lemma with_ext_again c e : with_ext (with_ext c e) e = with_ext c e.
Proof. reflexivity. Qed.

Lemma getitem_idempotent c w c' : getitem c w = Some c' -> getitem c' (cext c') = Some c'.
Proof.
  unfold getitem.
  destruct (chord_notes_calc (with_ext c (parse_ext w)) (fig w)) eqn:E; [|discriminate].
  cbn [obind]. intros [= <-].
  change (cext (with_ext c (parse_ext w))) with (parse_ext w).
  rewrite parse_ext_idempotent, with_ext_again.
  change (fig (parse_ext w)) with (fig w). rewrite E. reflexivity.
Qed.

(* ---------- inversion arithmetic ---------- *)
Lemma rot_three i k : (i < 3)%nat ->
  sindex (rot_in three_family i k) three_family = Some (Z.to_nat ((Z.of_nat i + k) mod 3)).
Proof.
  intros Hi. unfold rot_in. change (Z.of_nat (length three_family)) with 3.
  assert (B : 0 <= (Z.of_nat i + k) mod 3 < 3) by (apply Z.mod_pos_bound; lia).
  assert (E : (Z.of_nat i + k) mod 3 = 0 \/ (Z.of_nat i + k) mod 3 = 1 \/ (Z.of_nat i + k) mod 3 = 2) by lia.
  destruct E as [E|[E|E]]; rewrite E; reflexivity.
Qed.

Lemma rot_four i k : (i < 4)%nat ->
  sindex (rot_in four_family i k) four_family = Some (Z.to_nat ((Z.of_nat i + k) mod 4)).
Proof.
  intros Hi. unfold rot_in. change (Z.of_nat (length four_family)) with 4.
  assert (B : 0 <= (Z.of_nat i + k) mod 4 < 4) by (apply Z.mod_pos_bound; lia).
  assert (E : (Z.of_nat i + k) mod 4 = 0 \/ (Z.of_nat i + k) mod 4 = 1 \/ (Z.of_nat i + k) mod 4 = 2 \/ (Z.of_nat i + k) mod 4 = 3) by lia.
  destruct E as [E|[E|[E|E]]]; rewrite E; reflexivity.
Qed.

Lemma rot_four_not_three i k : sindex (rot_in three_family i k) four_family = None.
Proof.
  unfold rot_in. change (Z.of_nat (length three_family)) with 3.
  assert (B : 0 <= (Z.of_nat i + k) mod 3 < 3) by (apply Z.mod_pos_bound; lia).
  assert (E : (Z.of_nat i + k) mod 3 = 0 \/ (Z.of_nat i + k) mod 3 = 1 \/ (Z.of_nat i + k) mod 3 = 2) by lia.
  destruct E as [E|[E|E]]; rewrite E; reflexivity.
Qed.

Lemma sindex_bound x l i : sindex x l = Some i -> (i < length l)%nat.
Proof.
  revert i. induction l as [|y l IH]; cbn [sindex]; [discriminate|]. intros i.
  destruct (String.eqb x y); [intros [= <-]; cbn; lia|].
  destruct (sindex x l); [|discriminate]. cbn. intros [= <-]. specialize (IH _ eq_refl). lia.
Qed.

Lemma rot_rot fam n i k1 k2 : Z.of_nat (length fam) = n -> 0 < n ->
  rot_in fam (Z.to_nat ((Z.of_nat i + k2) mod n)) k1 = rot_in fam i (k1 + k2).
Proof.
  intros L Hn. unfold rot_in. rewrite L.
  rewrite Z2Nat.id by (apply Z.mod_pos_bound; lia).
  rewrite Zplus_mod_idemp_l. do 3 f_equal. ring.
Qed.

(* figure level: invert k1 after invert k2 = invert (k1 + k2), for all k in Z *)
Lemma invert_fig0_add f k1 k2 f2 :
  invert_fig0 f k2 = Some f2 -> invert_fig0 f2 k1 = invert_fig0 f (k1 + k2).
Proof.
  unfold invert_fig0.
  destruct (sindex f four_family) as [i|] eqn:E4.
  - intros [= <-]. rewrite (rot_four i k2 (sindex_bound _ _ _ E4)).
    f_equal. apply (rot_rot four_family 4); [reflexivity|lia].
  - destruct (sindex f three_family) as [i|] eqn:E3; [|discriminate].
    intros [= <-]. rewrite rot_four_not_three, (rot_three i k2 (sindex_bound _ _ _ E3)).
    f_equal. apply (rot_rot three_family 3); [reflexivity|lia].
Qed.

Lemma sindex_some_not5 f fam i : (fam = four_family \/ fam = three_family) -> sindex f fam = Some i -> canon_fig f = f.
Proof.
  intros Hf H. unfold canon_fig. destruct (String.eqb f "5") eqn:E; [|reflexivity].
  apply String.eqb_eq in E. subst f. destruct Hf as [->| ->]; vm_compute in H; discriminate.
Qed.

Lemma rot_in_in fam i k : fam <> [] -> In (rot_in fam i k) fam.
Proof.
  intros Hne. unfold rot_in. apply nth_In.
  assert (0 < Z.of_nat (length fam)) by (destruct fam; [congruence|cbn [length]; lia]).
  pose proof (Z.mod_pos_bound (Z.of_nat i + k) (Z.of_nat (length fam)) H). lia.
Qed.

Lemma invert_fig0_canon f k f2 : invert_fig0 f k = Some f2 -> canon_fig f2 = f2.
Proof.
  unfold invert_fig0. destruct (sindex f four_family) as [i|].
  - intros [= <-]. pose proof (rot_in_in four_family i k ltac:(discriminate)) as H.
    cbn [four_family In] in H. destruct H as [<-|[<-|[<-|[<-|[]]]]]; reflexivity.
  - destruct (sindex f three_family) as [i|]; [|discriminate].
    intros [= <-]. pose proof (rot_in_in three_family i k ltac:(discriminate)) as H.
    cbn [three_family In] in H. destruct H as [<-|[<-|[<-|[]]]]; reflexivity.
Qed.

Lemma invert_fig_add f k1 k2 f2 :
  invert_fig f k2 = Some f2 -> invert_fig f2 k1 = invert_fig f (k1 + k2).
Proof.
  unfold invert_fig. intros H. rewrite (invert_fig0_canon _ _ _ H). exact (invert_fig0_add _ k1 k2 _ H).
Qed.

Lemma sindex_nth x l i : sindex x l = Some i -> nth i l ""%string = x.
Proof.
  revert i. induction l as [|y l IH]; cbn [sindex]; [discriminate|]. intros i.
  destruct (String.eqb x y) eqn:E; [intros [= <-]; apply String.eqb_eq in E; subst; reflexivity|].
  destruct (sindex x l); [|discriminate]. cbn. intros [= <-]. apply IH. reflexivity.
Qed.

(* a full turn is the identity: 3 for triads, 4 for sevenths (and any multiple) *)
Lemma invert_fig_full_turn f q :
  (sindex f four_family <> None -> invert_fig f (4 * q) = Some f) /\
  (sindex f three_family <> None -> sindex f four_family = None -> invert_fig f (3 * q) = Some f).
Proof.
  split.
  - intros H4. destruct (sindex f four_family) as [i|] eqn:E; [|congruence].
    unfold invert_fig. rewrite (sindex_some_not5 f four_family i (or_introl eq_refl) E).
    unfold invert_fig0, rot_in. rewrite E. f_equal.
    change (Z.of_nat (length four_family)) with 4.
    rewrite (Z.mul_comm 4 q), Z.mod_add, Z.mod_small by (pose proof (sindex_bound _ _ _ E); cbn in *; lia).
    rewrite Nat2Z.id. apply sindex_nth. exact E.
  - intros H3 H4. destruct (sindex f three_family) as [i|] eqn:E; [|congruence].
    unfold invert_fig. rewrite (sindex_some_not5 f three_family i (or_intror eq_refl) E).
    unfold invert_fig0, rot_in. rewrite H4, E. f_equal.
    change (Z.of_nat (length three_family)) with 3.
    rewrite (Z.mul_comm 3 q), Z.mod_add, Z.mod_small by (pose proof (sindex_bound _ _ _ E); cbn in *; lia).
    rewrite Nat2Z.id. apply sindex_nth. exact E.
Qed.

(* the explicit root position '5' inverts like '': never an error, and three inversions bring back the root position *)
Lemma invert_fig_five k : invert_fig "5" k = invert_fig "" k.
Proof. reflexivity. Qed.

(* the inversion index of the k-th inversion of a root-position triad / seventh is k mod n *)
Lemma inversion_index_of_invert k :
  (do f <- invert_fig "" k ;; assoc f BASE_CHORDAL_TRANSLATION_DICT) = Some (k mod 3) /\
  (do f <- invert_fig "7" k ;; assoc f BASE_CHORDAL_TRANSLATION_DICT) = Some (k mod 4).
Proof.
  split.
  - assert (B : 0 <= k mod 3 < 3) by (apply Z.mod_pos_bound; lia).
    assert (H : invert_fig "" k = Some (nth (Z.to_nat (k mod 3)) three_family ""%string)) by reflexivity.
    rewrite H. cbn [obind].
    assert (E : k mod 3 = 0 \/ k mod 3 = 1 \/ k mod 3 = 2) by lia.
    destruct E as [E|[E|E]]; rewrite E; reflexivity.
  - assert (B : 0 <= k mod 4 < 4) by (apply Z.mod_pos_bound; lia).
    assert (H : invert_fig "7" k = Some (nth (Z.to_nat (k mod 4)) four_family ""%string)) by reflexivity.
    rewrite H. cbn [obind].
    assert (E : k mod 4 = 0 \/ k mod 4 = 1 \/ k mod 4 = 2 \/ k mod 4 = 3) by lia.
    destruct E as [E|[E|[E|E]]]; rewrite E; reflexivity.
Qed.

(* chord level: modifiers are carried unchanged (they are already sorted) *)
Lemma invert_add c k1 k2 c2 :
  invert c k2 = Some c2 ->
  invert c2 k1 = (do f <- invert_fig (fig (cext c)) (k1 + k2) ;;
                  getitem c2 (mkE f (repl (cext c2)) (adds (cext c2)) (rems (cext c2)))).
Proof.
  unfold invert. destruct (invert_fig (fig (cext c)) k2) as [f2|] eqn:E; [|discriminate]. cbn [obind].
  unfold getitem. destruct (chord_notes_calc _ _); [|discriminate]. cbn [obind]. intros [= <-].
  cbn [with_ext cext parse_ext fig]. rewrite (invert_fig_add _ k1 k2 _ E). reflexivity.
Qed.

(* ---------- inversions of bare triads and sevenths, on pitches ---------- *)
Lemma chord_deg_step c j q : chord_deg c (j + 7 * q) = chord_deg c j + 12 * q.
Proof. apply chord_deg_in_step. Qed.

Lemma invert_degs_pitches c i l :
  map (chord_deg c) (invert_degs i l) =
  (skipn i (map (chord_deg c) l) ++ map (fun p => p + 12) (firstn i (map (chord_deg c) l)))%list.
Proof.
  unfold invert_degs. rewrite map_app, skipn_map, firstn_map, !map_map. f_equal.
  apply map_ext. intros d. replace (d + 7) with (d + 7 * 1) by ring. rewrite chord_deg_step. ring.
Qed.

Definition invertible_figures : list string := [""; "6"; "64"; "7"; "65"; "43"; "2"]%string.

Lemma invertible_in_all f : In f invertible_figures -> In f all_figures.
Proof. cbn. intuition. Qed.

Lemma root_degs_some f : In f invertible_figures -> exists l, root_degs f = Some l /\ bass_degs f = Some (invert_degs (figure_inversion f) l).
Proof.
  cbn. intros H. repeat (destruct H as [<-|H]; [eexists; split; reflexivity|]). contradiction.
Qed.

(* the extension pitches of inversion i are the root-position chord tones
   rotated by i, the wrapped ones an octave up *)
Lemma inversion_rotation c f : elem_ok c -> In f invertible_figures -> cext c = bare f ->
  exists cp, chord_pitches c = Some cp /\
    chord_extension_pitches c =
      Some (skipn (figure_inversion f) cp ++ map (fun p => p + 12) (firstn (figure_inversion f) cp))%list.
Proof.
  intros He Hf Hx.
  destruct (arpeggio_bare c f He (invertible_in_all f Hf) Hx) as [E1 E2].
  destruct (root_degs_some f Hf) as (l & R & B). rewrite R in E1. rewrite B in E2. cbn [option_map] in *.
  exists (map (chord_deg c) l). split; [exact E1|]. rewrite E2, invert_degs_pitches. reflexivity.
Qed.

Fixpoint asc (l : list Z) : bool :=
  match l with
  | x :: ((y :: _) as r) => (x <? y) && asc r
  | _ => true
  end.

Definition within_octave (l : list Z) : bool :=
  match l with [] => true | x :: r => forallb (fun y => y - x <? 12) r end.

Lemma asc_shift t l : asc (map (fun x => x + t) l) = asc l.
Proof.
  induction l as [|x [|y r] IH]; try reflexivity.
  cbn [map asc] in *. rewrite IH. f_equal. lia.
Qed.

Lemma within_octave_shift t l : within_octave (map (fun x => x + t) l) = within_octave l.
Proof.
  destruct l as [|x r]; [reflexivity|]. cbn [map within_octave].
  induction r as [|y r IH]; [reflexivity|]. cbn [map forallb]. rewrite IH. f_equal. lia.
Qed.

Definition shape_ok (e : Z) (f : string) (md : mode) : bool :=
  match chord_extension_pitches (origin e f md) with
  | Some ep => asc ep && within_octave ep
  | None => false
  end.

Lemma shape_sweep :
  forallb (fun e => forallb (fun f => forallb (shape_ok e f) all_modes) invertible_figures) idx7 = true.
Proof. vm_compute. reflexivity. Qed.

Lemma inversion_shape c f : elem_ok c -> In f invertible_figures -> cext c = bare f ->
  exists ep, chord_extension_pitches c = Some ep /\ asc ep = true /\ within_octave ep = true.
Proof.
  intros He Hf Hx.
  pose proof shape_sweep as SW. rewrite forallb_forall in SW.
  specialize (SW _ (idx7_in _ He)). rewrite forallb_forall in SW.
  specialize (SW _ Hf). rewrite forallb_forall in SW.
  specialize (SW _ (all_modes_in (tmode (cton c)))). unfold shape_ok in SW.
  destruct (chord_extension_pitches (origin (celem c) f (tmode (cton c)))) as [ep|] eqn:E; [|discriminate].
  apply andb_prop in SW. destruct SW as [A W].
  rewrite (as_shift c f Hx).
  destruct (chord_pitches_equivariant (origin (celem c) f (tmode (cton c))) (tdeg (cton c)) (toct (cton c)) (coct c)) as [_ E2].
  rewrite E2, E. cbn [option_map]. eexists. split; [reflexivity|].
  rewrite asc_shift, within_octave_shift. auto.
Qed.

(* chord_pitches does not look at the inversion, whatever the modifiers *)
Lemma pitch_basic_ext c e n : pitch_basic (with_ext c e) n = pitch_basic c n.
Proof. unfold pitch_basic, real_chord, chord_scale, with_ext. destruct (pmode n); reflexivity. Qed.

Lemma omap_ext {A B} (f g : A -> option B) l : (forall x, f x = g x) -> omap f l = omap g l.
Proof. intros H. induction l as [|x l IH]; [reflexivity|]. cbn [omap]. rewrite H, IH. reflexivity. Qed.

Lemma chord_pitches_family c e e' :
  root_figure (fig e) = root_figure (fig e') -> repl e = repl e' -> adds e = adds e' -> rems e = rems e' ->
  chord_pitches (with_ext c e) = chord_pitches (with_ext c e').
Proof.
  intros H R A M. unfold chord_pitches, chord_notes_calc, chord_notes_unsorted.
  change (cext (with_ext c e)) with e. change (cext (with_ext c e')) with e'.
  rewrite H, R, A, M.
  assert (X : forall ns, omap (pitch_basic (with_ext c e)) ns = omap (pitch_basic (with_ext c e')) ns).
  { intros ns. rewrite (omap_ext _ _ ns (pitch_basic_ext c e)), (omap_ext _ _ ns (pitch_basic_ext c e')). reflexivity. }
  destruct (assoc (root_figure (fig e')) BASE_EXTENSION_DICT); [|reflexivity]. cbn [obind].
  destruct (fold_left step_repl _ _); [|reflexivity]. cbn [obind].
  destruct (fold_left step_add _ _); [|reflexivity]. cbn [obind].
  destruct (fold_left step_rem _ _); [|reflexivity]. cbn [obind].
  rewrite X. reflexivity.
Qed.

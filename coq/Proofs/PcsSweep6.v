From ML Require Import Model.Types Proofs.PcsDefs.
Lemma sweep_6 : sweep_elem 6 = true.
Proof. vm_compute. reflexivity. Qed.

From ML Require Import Model.Types gen.Tables Model.Pitch Model.Rel Model.Render Spec.RenderSpec.
From Coq Require Import Lia ZifyBool.
Open Scope Z_scope.
Open Scope list_scope.

(* ---------- the rows of a track, re-expressed over the item timeline ---------- *)
Fixpoint rows_of_items (idx : nat) (l : list item) (last : option Z) : option (list row) :=
  match l with
  | [] => Some []
  | IGap :: r => rows_of_items idx r None
  | INote c n t :: r =>
      do x <- note_row n c idx t last ;;
      do y <- rows_of_items idx r (snd x) ;;
      Some (fst x :: y)
  end.

(* the reference after a timeline *)
Fixpoint last_after (idx : nat) (l : list item) (last : option Z) : option (option Z) :=
  match l with
  | [] => Some last
  | IGap :: r => last_after idx r None
  | INote c n t :: r => do x <- note_row n c idx t last ;; last_after idx r (snd x)
  end.

Lemma rows_of_items_app idx l1 l2 last :
  rows_of_items idx (l1 ++ l2) last =
  (do a <- rows_of_items idx l1 last ;; do la <- last_after idx l1 last ;;
   do b <- rows_of_items idx l2 la ;; Some (a ++ b)).
Proof.
  revert last. induction l1 as [|[c n t|] l1 IH]; intros last; cbn [app rows_of_items last_after].
  - cbn [obind]. destruct (rows_of_items idx l2 last); reflexivity.
  - destruct (note_row n c idx t last) as [x|]; [|reflexivity]. cbn [obind]. rewrite IH.
    destruct (rows_of_items idx l1 (snd x)); [|reflexivity]. cbn [obind].
    destruct (last_after idx l1 (snd x)); [|reflexivity]. cbn [obind].
    destruct (rows_of_items idx l2 o); reflexivity.
  - apply IH.
Qed.

Lemma melody_rows_items m c idx t last :
  melody_rows m c idx t last =
  (do a <- rows_of_items idx (part_items m c t) last ;; do la <- last_after idx (part_items m c t) last ;; Some (a, la)).
Proof.
  revert t last. induction m as [|n m IH]; intros t last; cbn [melody_rows part_items rows_of_items last_after]; [reflexivity|].
  destruct (note_row n c idx t last) as [x|]; [|reflexivity]. cbn [obind]. rewrite IH.
  destruct (rows_of_items idx (part_items m c (t + tdur n)) (snd x)); [|reflexivity]. cbn [obind].
  destruct (last_after idx (part_items m c (t + tdur n)) (snd x)); reflexivity.
Qed.

Lemma track_rows_items s idx track t last :
  track_rows s idx track t last = rows_of_items idx (items s track t) last.
Proof.
  revert t last. induction s as [|c s IH]; intros t last; cbn [track_rows items]; [reflexivity|].
  destruct (plook track (rparts c)) as [p|].
  - rewrite rows_of_items_app, melody_rows_items.
    destruct (rows_of_items idx (part_items p (rc c) t) last); [|reflexivity]. cbn [obind].
    destruct (last_after idx (part_items p (rc c) t) last); [|reflexivity]. cbn [obind fst snd].
    rewrite IH. reflexivity.
  - cbn [app rows_of_items]. apply IH.
Qed.

(* ---------- what every consumer of the rows does, for one track, in ticks ---------- *)
Record mev := mkM { m_pitch : Z; m_on : Z; m_dur : Z; m_vel : Z; m_sil : bool }.

Definition mev_of_row (r : row) (sil : bool) : mev := mkM (r_pitch r) (r_off r) (r_dur r) (r_vel r) sil.
Definition lengthen (e : mev) (d : Z) : mev := mkM (m_pitch e) (m_on e) (m_dur e + d) (m_vel e) (m_sil e).
Definition emit (cur : option mev) : list mev := match cur with Some e => [e] | None => [] end.

(* cur = the event that a continuation row would lengthen *)
Fixpoint merge_from (cur : option mev) (rows : list row) : list mev :=
  match rows with
  | [] => emit cur
  | r :: rest =>
      if r_cont r then
        match cur with
        | Some e => merge_from (Some (lengthen e (r_dur r))) rest
        | None => merge_from (Some (mev_of_row r true)) rest
        end
      else emit cur ++ merge_from (Some (mev_of_row r (r_sil r))) rest
  end.

Definition audible (l : list mev) : list mev := filter (fun e => negb (m_sil e)) l.
Definition snote_of (e : mev) : snote := mkSN (m_pitch e) (m_on e) (m_dur e) (m_vel e).

Lemma lengthen_0 e : lengthen e 0 = e.
Proof. destruct e. unfold lengthen. cbn. f_equal. lia. Qed.
Lemma lengthen_add e a b : lengthen (lengthen e a) b = lengthen e (a + b).
Proof. unfold lengthen. cbn. f_equal. lia. Qed.

Definition has_ref (last : option Z) : bool := match last with Some _ => true | None => false end.

(* the core: merging the rows of a timeline gives the pending event (lengthened by the
   continuations that directly follow, when there is a reference) and then exactly the sounding notes *)
Lemma merge_sounding idx l : forall last cur rows,
  (has_ref last = true -> cur <> None) ->
  rows_of_items idx l last = Some rows ->
  exists sl, sounding last l = Some sl /\
    map snote_of (audible (merge_from cur rows)) =
    map snote_of (audible (emit (option_map (fun e => lengthen e (if has_ref last then run l else 0)) cur))) ++ sl.
Proof.
  induction l as [|[c n t|] l IH]; intros last cur rows Hcur Hrows.
  - cbn in Hrows. injection Hrows as <-. exists []. split; [reflexivity|].
    cbn [merge_from run]. rewrite app_nil_r. destruct cur as [e|]; cbn [option_map emit]; [|reflexivity].
    destruct (has_ref last); rewrite lengthen_0; reflexivity.
  - cbn [rows_of_items] in Hrows. unfold note_row in Hrows.
    destruct (pitch_full c (tn n) match last with Some p => p | None => 0 end) as [pr|] eqn:Ep; [|discriminate].
    cbn [obind fst snd] in Hrows. cbv zeta in Hrows. fold (has_ref last) in Hrows.
    set (p := match pr with Some p => p | None => 0 end) in *.
    cbn [sounding run merge_from r_cont r_dur r_sil].
    destruct (is_rest n) eqn:Rn; [|destruct (is_cont n) eqn:Cn].
    + (* a rest: closes the pending event, opens a silent one *)
      assert (Cn : is_cont n = false) by (unfold is_rest, is_cont in *; destruct (pkind (tn n)); cbn in *; congruence).
      rewrite Cn in *. cbn [orb andb negb] in *.
      destruct (rows_of_items idx l last) as [rest|] eqn:Er; [|discriminate].
      cbn [obind] in Hrows. injection Hrows as <-. cbn [merge_from r_cont r_sil].
      destruct (IH last (Some (mev_of_row (mkRow p t (tdur n) (tamp n) idx true false) true)) rest ltac:(discriminate) Er)
        as (sl & Hs & Hm).
      exists sl. split; [exact Hs|]. unfold audible in *. rewrite filter_app, map_app, Hm.
      cbn [option_map emit filter mev_of_row m_sil negb map app lengthen].
      destruct cur as [e|]; cbn [option_map emit]; [|reflexivity].
      replace (if has_ref last then 0 else 0) with 0 by (destruct (has_ref last); reflexivity). rewrite lengthen_0. reflexivity.
    + (* a continuation *)
      cbn [orb andb] in *. destruct (has_ref last) eqn:Hl; cbn [negb orb andb] in *.
      * (* with a reference: lengthens the pending event *)
        destruct (rows_of_items idx l last) as [rest|] eqn:Er; [|discriminate].
        cbn [obind] in Hrows. injection Hrows as <-. cbn [merge_from r_cont r_dur].
        destruct cur as [e|]; [|exfalso; apply (Hcur eq_refl); reflexivity].
        destruct (IH last (Some (lengthen e (tdur n))) rest ltac:(discriminate) Er) as (sl & Hs & Hm).
        exists sl. split; [exact Hs|]. rewrite Hm, Hl. cbn [option_map]. rewrite lengthen_add. reflexivity.
      * (* without: a silent event of its own *)
        destruct (rows_of_items idx l last) as [rest|] eqn:Er; [|discriminate].
        cbn [obind] in Hrows. injection Hrows as <-. cbn [merge_from r_cont r_sil].
        destruct (IH last (Some (mev_of_row (mkRow p t (tdur n) (tamp n) idx true false) true)) rest ltac:(discriminate) Er)
          as (sl & Hs & Hm).
        exists sl. split; [exact Hs|]. unfold audible in *. rewrite filter_app, map_app, Hm, Hl.
        cbn [option_map emit filter mev_of_row m_sil negb map app lengthen].
        destruct cur as [e|]; cbn [option_map emit]; [rewrite lengthen_0|]; reflexivity.
    + (* a sounding note: closes the pending event and becomes the reference *)
      cbn [orb andb negb] in *. rewrite Ep. cbn [obind]. fold p.
      destruct (rows_of_items idx l (Some p)) as [rest|] eqn:Er; [|discriminate].
      cbn [obind] in Hrows. injection Hrows as <-. cbn [merge_from r_cont r_sil].
      destruct (IH (Some p) (Some (mev_of_row (mkRow p t (tdur n) (tamp n) idx false false) false)) rest ltac:(discriminate) Er)
        as (sl & Hs & Hm).
      rewrite Hs. cbn [obind]. eexists. split; [reflexivity|].
      unfold audible in *. rewrite filter_app, map_app, Hm.
      cbn [has_ref option_map emit filter mev_of_row m_sil negb map app lengthen snote_of m_pitch m_on m_dur m_vel
           r_pitch r_off r_dur r_vel].
      destruct cur as [e|]; cbn [option_map emit]; [|reflexivity].
      replace (if has_ref last then 0 else 0) with 0 by (destruct (has_ref last); reflexivity). rewrite lengthen_0. reflexivity.
  - (* the part is absent from a chord *)
    cbn [rows_of_items] in Hrows. cbn [sounding run].
    destruct (IH None cur rows ltac:(discriminate) Hrows) as (sl & Hs & Hm).
    exists sl. split; [exact Hs|]. rewrite Hm. cbn [has_ref].
    replace (if has_ref last then 0 else 0) with 0 by (destruct (has_ref last); reflexivity). reflexivity.
Qed.

(* a whole track, from the start of the score *)
Theorem track_sounding s idx track rows :
  track_rows s idx track 0 None = Some rows ->
  exists sl, sounding_of s track = Some sl /\ map snote_of (audible (merge_from None rows)) = sl.
Proof.
  rewrite track_rows_items. intros H.
  destruct (merge_sounding idx (items s track 0) None None rows ltac:(discriminate) H) as (sl & Hs & Hm).
  exists sl. split; [exact Hs|exact Hm].
Qed.

(* ---------- closed form of the onsets ---------- *)
Lemma part_dur_from a m : fold_left (fun acc n => acc + tdur n) m a = a + part_dur m.
Proof.
  unfold part_dur. revert a. induction m as [|n m IH]; intros a; cbn [fold_left]; [lia|].
  rewrite (IH (a + tdur n)), (IH (0 + tdur n)). lia.
Qed.

Lemma part_dur_cons n m : part_dur (n :: m) = tdur n + part_dur m.
Proof. unfold part_dur at 1. cbn [fold_left]. rewrite part_dur_from. lia. Qed.

Lemma part_dur_app a b : part_dur (a ++ b) = part_dur a + part_dur b.
Proof. induction a as [|n a IH]; [reflexivity|]. cbn [app]. rewrite !part_dur_cons, IH. lia. Qed.

(* inside a chord, a note starts at the chord start plus the durations before it *)
Lemma part_items_app m1 m2 c t :
  part_items (m1 ++ m2) c t = part_items m1 c t ++ part_items m2 c (t + part_dur m1).
Proof.
  revert t. induction m1 as [|n m1 IH]; intros t; cbn [app part_items].
  - f_equal. unfold part_dur. cbn. lia.
  - rewrite IH, part_dur_cons. do 3 f_equal. lia.
Qed.

Definition score_dur_z (s : rscore) : Z := fold_right (fun c a => rchord_dur c + a) 0 s.

(* chords follow one another: chord j starts at the sum of the durations of the chords before it *)
Lemma items_app s1 s2 track t :
  items (s1 ++ s2) track t = items s1 track t ++ items s2 track (t + score_dur_z s1).
Proof.
  revert t. induction s1 as [|c s1 IH]; intros t; cbn [app items score_dur_z fold_right].
  - f_equal. lia.
  - rewrite IH, <- app_assoc. do 3 f_equal. unfold score_dur_z. lia.
Qed.

(* ---------- rests, continuations without anything to continue, absent parts: no sound ---------- *)
Definition silent_item (i : item) : bool :=
  match i with INote _ n _ => is_rest n || is_cont n | IGap => true end.

Lemma sounding_silent l ref : forallb silent_item l = true -> sounding ref l = Some [].
Proof.
  revert ref. induction l as [|[c n t|] l IH]; intros ref H; cbn [sounding]; [reflexivity| |].
  - cbn [forallb silent_item] in H. apply andb_prop in H. destruct H as [H1 H2]. rewrite H1. apply IH. exact H2.
  - cbn [forallb] in H. apply IH. apply andb_prop in H. tauto.
Qed.

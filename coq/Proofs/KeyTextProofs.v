From ML Require Import Model.KeyText.
From Coq Require Import ZArith List String Ascii Bool Lia.
Import ListNotations.
Open Scope Z_scope.

(* accidentals: a string made of '#', 'b' and '-' only *)
Fixpoint accidentals (s : string) : bool :=
  match s with
  | EmptyString => true
  | String x r => (Ascii.eqb x "#" || Ascii.eqb x "b" || Ascii.eqb x "-")%char && accidentals r
  end.

Lemma remove_colon_accidentals s : accidentals s = true -> sremove ":"%char s = s.
Proof.
  induction s as [|x r IH]; cbn [accidentals sremove]; intros H; [reflexivity|].
  apply andb_prop in H. destruct H as [Hx Hr]. rewrite (IH Hr).
  destruct (Ascii.eqb x ":"%char) eqn:E; [|reflexivity].
  apply Ascii.eqb_eq in E. subst. discriminate Hx.
Qed.

Lemma remove_colon_app s : accidentals s = true -> sremove ":"%char (s ++ ":") = s.
Proof.
  induction s as [|x r IH]; cbn [accidentals sremove append]; intros H; [reflexivity|].
  apply andb_prop in H. destruct H as [Hx Hr]. rewrite (IH Hr).
  destruct (Ascii.eqb x ":"%char) eqn:E; [|reflexivity].
  apply Ascii.eqb_eq in E. subst. discriminate Hx.
Qed.

(* the written key: letter, then accidentals, with or without the colon.  The tonic is the letter's pitch class moved by
   the accidentals, and the key is minor exactly when the letter is lower case - for the letter b as for the others *)
Lemma key_text_reads l acc pc : letter_pc l = Some pc -> accidentals acc = true ->
  key_of_text (String l acc) = Some (pc + scount "#"%char acc - scount "b"%char acc - scount "-"%char acc, negb (is_upper l)) /\
  key_of_text (String l (acc ++ ":")) = Some (pc + scount "#"%char acc - scount "b"%char acc - scount "-"%char acc, negb (is_upper l)).
Proof.
  intros L A. unfold key_of_text. cbn [sremove].
  assert (N : Ascii.eqb l ":"%char = false).
  { destruct (Ascii.eqb l ":"%char) eqn:E; [|reflexivity]. apply Ascii.eqb_eq in E. subst. discriminate L. }
  rewrite N, (remove_colon_accidentals acc A), (remove_colon_app acc A), L. split; reflexivity.
Qed.

Lemma count_repeat c d n : scount c (string_of_list_ascii (repeat d n)) = if Ascii.eqb d c then Z.of_nat n else 0.
Proof.
  induction n as [|n IH]; cbn [repeat string_of_list_ascii scount]; [destruct (Ascii.eqb d c); reflexivity|].
  rewrite IH. destruct (Ascii.eqb d c); lia.
Qed.

(* the fourteen letters x any number of sharps or of flats: e.g. "bb:" is B flat minor, "b:" is B minor, "Bb:" B flat major *)
Lemma key_text_sharps l pc n : letter_pc l = Some pc ->
  key_of_text (String l (string_of_list_ascii (repeat "#"%char n) ++ ":")) = Some (pc + Z.of_nat n, negb (is_upper l)).
Proof.
  intros L. assert (A : accidentals (string_of_list_ascii (repeat "#"%char n)) = true) by (induction n; cbn; auto).
  destruct (key_text_reads l _ pc L A) as [_ H]. rewrite H, !count_repeat. cbn. f_equal. f_equal. lia.
Qed.

Lemma key_text_flats l pc n : letter_pc l = Some pc ->
  key_of_text (String l (string_of_list_ascii (repeat "b"%char n) ++ ":")) = Some (pc - Z.of_nat n, negb (is_upper l)).
Proof.
  intros L. assert (A : accidentals (string_of_list_ascii (repeat "b"%char n)) = true) by (induction n; cbn; auto).
  destruct (key_text_reads l _ pc L A) as [_ H]. rewrite H, !count_repeat. cbn. f_equal. f_equal. lia.
Qed.

(* before the repair: "b:" was B major (tonic -1 = 11 mod 12, mode major) and "bb:" B flat major *)
Lemma key_text_old_refuted :
  key_of_text_old "b:" = Some (-1, false) /\ key_of_text_old "bb:" = Some (-2, false) /\
  key_of_text "b:" = Some (11, true) /\ key_of_text "bb:" = Some (10, true) /\ key_of_text "Bb:" = Some (10, false).
Proof. repeat split; vm_compute; reflexivity. Qed.

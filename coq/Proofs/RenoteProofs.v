From ML Require Import Model.Types gen.Tables Model.Pitch Model.Rel Model.Ton Model.Render Model.Slice Model.Renote.
From ML Require Import Spec.PitchSpec Spec.RenderSpec Proofs.PitchProofs Proofs.TonProofs Proofs.RenderProofs.
From Coq Require Import Lia ZifyBool.
Open Scope Z_scope.
Open Scope list_scope.
Ltac Zify.zify_post_hook ::= Z.to_euclidean_division_equations.

(* ================= to_absolute_note ================= *)
Lemma abs_pnote_pitch c p last : elem_ok c -> pitch_full c (abs_pnote p) last = Some (Some p).
Proof.
  intros He. unfold pitch_full, abs_pnote. cbn [pkind pdir]. unfold to_pitch_abs. cbn [pkind].
  rewrite pitch_basic_absolute by (try exact He; left; reflexivity). cbn [pval poct option_map]. do 2 f_equal. lia.
Qed.

(* the conversion along the timeline of one part (the reference is NOT reset when the part is absent) *)
Fixpoint abs_items (last : option Z) (l : list item) : option (list item) :=
  match l with
  | [] => Some []
  | IGap :: r => do r' <- abs_items last r ;; Some (IGap :: r')
  | INote c n t :: r =>
      do x <- note_to_absolute c n last ;;
      do r' <- abs_items (snd x) r ;; Some (INote c (fst x) t :: r')
  end.

(* every relative note has an earlier pitched note of the part since the part was last absent;
   the part has no drum / pattern notes; chords use library elements *)
Fixpoint renotable (hasref : bool) (l : list item) : Prop :=
  match l with
  | [] => True
  | IGap :: r => renotable false r
  | INote c n _ :: r =>
      elem_ok c /\ pkind (tn n) <> KD /\ pkind (tn n) <> KX /\
      (pdir (tn n) <> Abs -> pitched n = true -> hasref = true) /\
      renotable (hasref || pitched n) r
  end.

Lemma pitched_not_rest n : pitched n = true -> is_rest n || is_cont n = false.
Proof. unfold pitched, is_rest, is_cont. destruct (pkind (tn n)); cbn; congruence. Qed.

Lemma not_pitched_silent n : pitched n = false -> pkind (tn n) <> KD -> pkind (tn n) <> KX -> is_rest n || is_cont n = true.
Proof. unfold pitched, is_rest, is_cont. destruct (pkind (tn n)); cbn; congruence. Qed.

Lemma abs_items_run last l l' : abs_items last l = Some l' -> run l' = run l.
Proof.
  revert last l'. induction l as [|[c n t|] l IH]; intros last l' H; cbn [abs_items] in H.
  - injection H as <-. reflexivity.
  - unfold note_to_absolute in H. destruct (pitched n) eqn:P.
    + destruct (pitch_with c (tn n) last) as [p|]; [|discriminate]. cbn [obind fst snd] in H.
      destruct (abs_items (Some p) l) as [r'|] eqn:E; [|discriminate]. injection H as <-.
      cbn [run]. unfold is_cont. cbn [tn abs_pnote pkind kind_eqb].
      unfold pitched in P. destruct (pkind (tn n)); try discriminate; reflexivity.
    + cbn [obind fst snd] in H. destruct (abs_items last l) as [r'|] eqn:E; [|discriminate]. injection H as <-.
      cbn [run]. rewrite (IH _ _ E). reflexivity.
  - destruct (abs_items last l) as [r'|] eqn:E; [|discriminate]. injection H as <-. reflexivity.
Qed.

(* the renotated part sounds exactly like the original *)
Theorem abs_items_sounding l : forall last ref l' sl,
  (ref = None \/ ref = last) -> renotable (match ref with Some _ => true | None => false end) l ->
  abs_items last l = Some l' -> sounding ref l = Some sl ->
  forall ref2, sounding ref2 l' = Some sl.
Proof.
  induction l as [|[c n t|] l IH]; intros last ref l' sl Hag Hg Ha Hs ref2; cbn [abs_items sounding renotable] in *.
  - injection Ha as <-. exact Hs.
  - destruct Hg as (He & Hd & Hx & Hrel & Hg).
    unfold note_to_absolute in Ha. destruct (pitched n) eqn:P.
    + rewrite (pitched_not_rest n P) in Hs.
      destruct (pitch_with c (tn n) last) as [p|] eqn:Ep; [|discriminate]. cbn [obind fst snd] in Ha.
      destruct (abs_items (Some p) l) as [r'|] eqn:Er; [|discriminate]. injection Ha as <-.
      (* the rendered pitch of the original note is p *)
      assert (Hp : pitch_full c (tn n) (match ref with Some q => q | None => 0 end) = Some (Some p)).
      { unfold pitch_with in Ep. unfold pitch_full. unfold pitched in P.
        destruct (pdir (tn n)) eqn:D.
        - destruct (pkind (tn n)); try discriminate; try congruence;
          destruct (to_pitch_abs c (tn n)) as [[q|]|]; try discriminate; injection Ep as ->; reflexivity.
        - assert (Hr : (match ref with Some _ => true | None => false end) = true) by (apply Hrel; [congruence|reflexivity]).
          destruct ref as [q|]; [|discriminate]. destruct Hag as [Hag|Hag]; [discriminate|]. subst last.
          destruct (pkind (tn n)); try discriminate; try congruence; rewrite Ep; reflexivity.
        - assert (Hr : (match ref with Some _ => true | None => false end) = true) by (apply Hrel; [congruence|reflexivity]).
          destruct ref as [q|]; [|discriminate]. destruct Hag as [Hag|Hag]; [discriminate|]. subst last.
          destruct (pkind (tn n)); try discriminate; try congruence; rewrite Ep; reflexivity. }
      rewrite Hp in Hs. cbn [obind] in Hs.
      destruct (sounding (Some p) l) as [rest|] eqn:Es; [|discriminate]. injection Hs as <-.
      cbn [sounding]. unfold is_rest, is_cont. cbn [tn abs_pnote pkind kind_eqb orb].
      rewrite (abs_pnote_pitch c p _ He). cbn [obind].
      rewrite (IH (Some p) (Some p) r' rest (or_intror eq_refl) ltac:(rewrite Bool.orb_true_r in Hg; exact Hg) Er Es (Some p)).
      cbn [obind tdur tamp]. rewrite (abs_items_run _ _ _ Er). reflexivity.
    + cbn [obind fst snd] in Ha. destruct (abs_items last l) as [r'|] eqn:Er; [|discriminate]. injection Ha as <-.
      rewrite (not_pitched_silent n P Hd Hx) in Hs. cbn [sounding]. rewrite (not_pitched_silent n P Hd Hx).
      rewrite Bool.orb_false_r in Hg.
      (* the reference seen by the renotated list is irrelevant: its notes are absolute *)
      exact (IH last ref r' sl Hag Hg Er Hs ref2).
  - destruct (abs_items last l) as [r'|] eqn:Er; [|discriminate]. injection Ha as <-. cbn [sounding].
    exact (IH last None r' sl (or_introl eq_refl) Hg Er Hs None).
Qed.

(* ================= correct_chord_octave ================= *)
(* moving the chord by k octaves and its chord-relative notes by -k octaves leaves every pitch unchanged *)
Lemma compensated_pitch c k n p : pdir n = Abs ->
  (pkind n = KS \/ pkind n = KH \/ pkind n = KC \/ pkind n = KB) ->
  to_pitch_abs c n = Some (Some p) -> to_pitch_abs (chord_o c k) (note_o n (- k)) = Some (Some p).
Proof.
  intros D K H. pose proof (chord_o_pitch c k n p K H) as H1.
  assert (K' : pkind n = KS \/ pkind n = KH \/ pkind n = KC \/ pkind n = KB \/ pkind n = KA) by tauto.
  pose proof (note_o_pitch (chord_o c k) (- k) n _ D K' H1) as H2. rewrite H2. do 2 f_equal. lia.
Qed.

Lemma absolute_untouched c k n : elem_ok c -> pkind n = KA -> to_pitch_abs (chord_o c k) n = to_pitch_abs c n.
Proof.
  intros He K. unfold to_pitch_abs. rewrite K.
  rewrite (pitch_basic_absolute (chord_o c k) n He (or_introl K)), (pitch_basic_absolute c n He (or_introl K)). reflexivity.
Qed.

(* when the correction returns, the bass is within half an octave of middle C *)
Theorem corrected_bass fuel : forall c c', correct_octave fuel c = Some c' ->
  exists bass rest, chord_extension_pitches (rc c') = Some (bass :: rest) /\ -6 < bass <= 6.
Proof.
  induction fuel as [|f IH]; intros c c' H; [discriminate|]. cbn [correct_octave] in H.
  destruct (chord_extension_pitches (rc c)) as [[|bass rest]|] eqn:E; try discriminate. cbn [obind] in H.
  destruct (6 <? bass) eqn:E1; [exact (IH _ _ H)|]. destruct (bass <=? -6) eqn:E2; [exact (IH _ _ H)|].
  injection H as <-. exists bass, rest. split; [exact E|lia].
Qed.

(* and it always returns (one octave per step towards the range) *)
Lemma chord_o_bass c k bass rest : chord_extension_pitches c = Some (bass :: rest) ->
  exists rest', chord_extension_pitches (chord_o c k) = Some (bass + 12 * k :: rest').
Proof.
  intros H. assert (E : chord_o c k = shift_chord c 0 0 k).
  { unfold shift_chord, chord_o. destruct c as [e x [dg md oc] co]. cbn. do 2 f_equal; lia. }
  rewrite E. destruct (chord_pitches_equivariant c 0 0 k) as [_ E2]. rewrite E2, H. cbn [option_map map].
  unfold shift_amount. eexists. replace (bass + (0 + 12 * 0 + 12 * k)) with (bass + 12 * k) by lia. reflexivity.
Qed.

Theorem correction_terminates fuel : forall c bass rest,
  chord_extension_pitches (rc c) = Some (bass :: rest) ->
  1 <= Z.of_nat fuel -> bass - 6 <= 12 * (Z.of_nat fuel - 1) -> -6 - bass < 12 * (Z.of_nat fuel - 1) ->
  exists c', correct_octave fuel c = Some c'.
Proof.
  induction fuel as [|f IH]; intros c bass rest H H1 H2 H3; [cbn in H1; lia|]. cbn [correct_octave]. rewrite H. cbn [obind].
  rewrite Nat2Z.inj_succ in *.
  destruct (6 <? bass) eqn:E1.
  - destruct (chord_o_bass (rc c) (-1) bass rest H) as (rest' & H').
    apply (IH (mkRC (chord_o (rc c) (-1)) _) (bass + 12 * -1) rest'); [exact H'| | |]; lia.
  - destruct (bass <=? -6) eqn:E2; [|eexists; reflexivity].
    destruct (chord_o_bass (rc c) 1 bass rest H) as (rest' & H').
    apply (IH (mkRC (chord_o (rc c) 1) _) (bass + 12 * 1) rest'); [exact H'| | |]; lia.
Qed.

From ML Require Import Model.Types gen.Tables Model.Pitch Model.Ton Model.Code Proofs.TonProofs.
From Coq Require Import QArith Lia ZifyBool.
Open Scope Z_scope.
Open Scope list_scope.

(* ---------- boolean equivalences and their combinators ---------- *)
Record eqv {A} (e : A -> A -> bool) : Prop := {
  e_refl : forall a, e a a = true;
  e_sym : forall a b, e a b = true -> e b a = true;
  e_trans : forall a b c, e a b = true -> e b c = true -> e a c = true }.

Lemma eqv_pull {A B} (f : A -> B) (e : B -> B -> bool) : eqv e -> eqv (fun a b => e (f a) (f b)).
Proof. intros [R S T]. split; intros; eauto. Qed.

Lemma eqv_and {A} (e1 e2 : A -> A -> bool) : eqv e1 -> eqv e2 -> eqv (fun a b => e1 a b && e2 a b).
Proof.
  intros [R1 S1 T1] [R2 S2 T2]. split.
  - intros a. rewrite R1, R2. reflexivity.
  - intros a b H. apply andb_prop in H. destruct H as [H1 H2]. rewrite (S1 _ _ H1), (S2 _ _ H2). reflexivity.
  - intros a b c H H'. apply andb_prop in H. apply andb_prop in H'. destruct H as [H1 H2]. destruct H' as [H3 H4].
    rewrite (T1 _ _ _ H1 H3), (T2 _ _ _ H2 H4). reflexivity.
Qed.

Lemma eqv_of_dec {A} (e : A -> A -> bool) : (forall a b, e a b = true <-> a = b) -> eqv e.
Proof.
  intros H. split.
  - intros a. apply H. reflexivity.
  - intros a b E. apply H in E. subst. apply H. reflexivity.
  - intros a b c E1 E2. apply H in E1. apply H in E2. subst. apply H. reflexivity.
Qed.

Lemma eqv_Z : eqv Z.eqb. Proof. apply eqv_of_dec. intros; lia. Qed.
Lemma eqv_string : eqv String.eqb. Proof. apply eqv_of_dec. apply String.eqb_eq. Qed.
Lemma eqv_mode : eqv mode_eqb. Proof. apply eqv_of_dec. apply mode_eqb_eq. Qed.
Lemma eqv_kind : eqv kind_eqb.
Proof. apply eqv_of_dec. intros a b; destruct a, b; cbn; split; intros H; try reflexivity; discriminate. Qed.
Lemma eqv_dir : eqv dir_eqb.
Proof. apply eqv_of_dec. intros a b; destruct a, b; cbn; split; intros H; try reflexivity; discriminate. Qed.
Lemma eqv_acc : eqv acc_eqb.
Proof. apply eqv_of_dec. intros a b; destruct a, b; cbn; split; intros H; try reflexivity; discriminate. Qed.
Lemma eqv_ampfig : eqv ampfig_eqb.
Proof. apply eqv_of_dec. intros a b; destruct a, b; cbn; split; intros H; try reflexivity; discriminate. Qed.
Lemma eqv_Q : eqv Qeq_bool.
Proof.
  split.
  - intros a. apply Qeq_bool_iff. reflexivity.
  - intros a b H. apply Qeq_bool_iff. apply Qeq_bool_iff in H. symmetry. exact H.
  - intros a b c H1 H2. apply Qeq_bool_iff. apply Qeq_bool_iff in H1. apply Qeq_bool_iff in H2. rewrite H1. exact H2.
Qed.

Lemma eqv_option {A} (e : A -> A -> bool) : eqv e -> eqv (option_eqb e).
Proof.
  intros [R S T]. split.
  - intros [a|]; cbn; auto.
  - intros [a|] [b|]; cbn; auto.
  - intros [a|] [b|] [c|]; cbn; eauto; discriminate.
Qed.

Lemma eqv_list {A} (e : A -> A -> bool) : eqv e -> eqv (list_eqb e).
Proof.
  intros [R S T]. split.
  - induction a as [|x a IH]; cbn; [reflexivity|]. rewrite R, IH. reflexivity.
  - induction a as [|x a IH]; intros [|y b]; cbn; auto. intros H. apply andb_prop in H. destruct H as [H1 H2].
    rewrite (S _ _ H1), (IH _ H2). reflexivity.
  - induction a as [|x a IH]; intros [|y b] [|z c]; cbn; auto; try discriminate.
    intros H H'. apply andb_prop in H. apply andb_prop in H'. destruct H as [H1 H2]. destruct H' as [H3 H4].
    rewrite (T _ _ _ H1 H3), (IH _ _ H2 H4). reflexivity.
Qed.

(* ---------- notes ---------- *)
Lemma note_eqb_eqv : eqv note_eqb.
Proof.
  unfold note_eqb.
  repeat apply eqv_and.
  - exact (eqv_pull fk _ eqv_kind).
  - exact (eqv_pull fd _ eqv_dir).
  - exact (eqv_pull fv _ eqv_Z).
  - exact (eqv_pull fdur _ eqv_Q).
  - exact (eqv_pull fo _ eqv_Z).
  - exact (eqv_pull fmode _ (eqv_option _ eqv_mode)).
Qed.

Lemma option_mode_eq a b : option_eqb mode_eqb a b = true -> a = b.
Proof. destruct a, b; cbn; try discriminate; auto. intros H. apply mode_eqb_eq in H. subst. reflexivity. Qed.

(* equal notes hash equal: the hashed tuple is the same *)
Lemma kind_eqb_eq a b : kind_eqb a b = true -> a = b.
Proof. destruct a, b; cbn; intros H; try reflexivity; discriminate. Qed.
Lemma dir_eqb_eq a b : dir_eqb a b = true -> a = b.
Proof. destruct a, b; cbn; intros H; try reflexivity; discriminate. Qed.

Lemma note_eq_hash a b : note_eqb a b = true -> note_hash_key a = note_hash_key b.
Proof.
  unfold note_eqb, note_hash_key. intros H.
  apply andb_prop in H. destruct H as [H Hm]. apply andb_prop in H. destruct H as [H Ho].
  apply andb_prop in H. destruct H as [H Hd]. apply andb_prop in H. destruct H as [H Hv].
  apply andb_prop in H. destruct H as [Hk Hdir].
  apply kind_eqb_eq in Hk. apply dir_eqb_eq in Hdir. apply option_mode_eq in Hm.
  apply Qeq_bool_iff in Hd. apply Qred_complete in Hd.
  rewrite Hk, Hdir, Hm, Hd. assert (Ev : fv a = fv b) by lia. assert (Eo : fo a = fo b) by lia.
  rewrite Ev, Eo. reflexivity.
Qed.

(* ---------- tonalities ---------- *)
Lemma ton_eqb_eqv : eqv ton_eqb.
Proof.
  split.
  - intros a. apply ton_eqb_spec. reflexivity.
  - intros a b H. apply ton_eqb_spec. apply ton_eqb_spec in H. symmetry. exact H.
  - intros a b c H1 H2. apply ton_eqb_spec. apply ton_eqb_spec in H1. apply ton_eqb_spec in H2. congruence.
Qed.

Lemma ton_enharmonic d md o k : ton_eqb (mkT (d + 12 * k) md o) (mkT d md (o + k)) = true.
Proof.
  apply ton_eqb_spec. unfold ton_norm. cbn [tdeg tmode toct].
  replace (d + 12 * k) with (d + k * 12) by ring. rewrite Z.mod_add, Z.div_add by lia. f_equal. ring.
Qed.

(* ---------- melodies: equality of printed code ---------- *)
Lemma ncode_eqb_eqv : eqv ncode_eqb.
Proof.
  unfold ncode_eqb. repeat apply eqv_and.
  - exact (eqv_pull c_kind _ eqv_kind).
  - exact (eqv_pull c_dir _ eqv_dir).
  - exact (eqv_pull c_val _ (eqv_option _ eqv_Z)).
  - exact (eqv_pull c_dur _ eqv_Q).
  - exact (eqv_pull c_oct _ (eqv_option _ eqv_Z)).
  - exact (eqv_pull c_mode _ (eqv_option _ eqv_mode)).
  - exact (eqv_pull c_acc _ (eqv_option _ eqv_acc)).
  - exact (eqv_pull c_amp _ (eqv_option _ eqv_ampfig)).
  - exact (eqv_pull c_tags _ (eqv_list _ eqv_string)).
Qed.

Lemma melody_eqb_eqv : eqv melody_eqb.
Proof. unfold melody_eqb. exact (eqv_pull (map note_code) _ (eqv_list _ ncode_eqb_eqv)). Qed.

(* ---------- chords: dict equality is an equivalence on dicts (unique keys) ---------- *)
Definition keys (d : list (string * melody)) : list string := map fst d.

Lemma plookup_in k d v : plookup k d = Some v -> In (k, v) d.
Proof.
  induction d as [|[k' v'] d IH]; cbn [plookup]; [discriminate|].
  destruct (String.eqb k k') eqn:E; [intros [= <-]; apply String.eqb_eq in E; subst; left; reflexivity|].
  intros H. right. apply IH. exact H.
Qed.

Lemma plookup_nodup k v d : NoDup (keys d) -> In (k, v) d -> plookup k d = Some v.
Proof.
  induction d as [|[k' v'] d IH]; intros ND HIn; [contradiction|]. cbn [plookup].
  cbn [keys map fst] in ND. inversion ND as [|? ? Hnot ND']; subst.
  destruct HIn as [E|HIn].
  - injection E as -> ->. rewrite String.eqb_refl. reflexivity.
  - destruct (String.eqb k k') eqn:E; [|apply IH; assumption].
    apply String.eqb_eq in E. subst k'. exfalso. apply Hnot. apply (in_map fst) in HIn. exact HIn.
Qed.

Lemma dict_eqb_refl a : NoDup (keys a) -> dict_eqb a a = true.
Proof.
  intros ND. unfold dict_eqb. rewrite Nat.eqb_refl. cbn [andb]. apply forallb_forall.
  intros [k v] HIn. cbn [fst snd]. rewrite (plookup_nodup k v a ND HIn). apply (e_refl _ melody_eqb_eqv).
Qed.

Lemma dict_eqb_trans a b c : dict_eqb a b = true -> dict_eqb b c = true -> dict_eqb a c = true.
Proof.
  unfold dict_eqb. intros H1 H2. apply andb_prop in H1. apply andb_prop in H2.
  destruct H1 as [L1 F1]. destruct H2 as [L2 F2]. apply Nat.eqb_eq in L1. apply Nat.eqb_eq in L2.
  rewrite L1, L2, Nat.eqb_refl. cbn [andb]. rewrite forallb_forall in *.
  intros [k v] HIn. cbn [fst snd]. specialize (F1 _ HIn). cbn [fst snd] in F1.
  destruct (plookup k b) as [v'|] eqn:E; [|discriminate].
  specialize (F2 _ (plookup_in _ _ _ E)). cbn [fst snd] in F2.
  destruct (plookup k c) as [v''|]; [|discriminate]. exact (e_trans _ melody_eqb_eqv _ _ _ F1 F2).
Qed.

Lemma dict_eqb_sym a b : NoDup (keys a) -> NoDup (keys b) -> dict_eqb a b = true -> dict_eqb b a = true.
Proof.
  unfold dict_eqb. intros NA NB H. apply andb_prop in H. destruct H as [L F]. apply Nat.eqb_eq in L.
  rewrite L, Nat.eqb_refl. cbn [andb]. rewrite forallb_forall in *.
  assert (Incl : incl (keys a) (keys b)).
  { intros k Hk. apply in_map_iff in Hk. destruct Hk as ([k' v] & <- & HIn). specialize (F _ HIn). cbn [fst snd] in *.
    destruct (plookup k' b) eqn:E; [|discriminate]. apply plookup_in in E. apply (in_map fst) in E. exact E. }
  assert (Incl' : incl (keys b) (keys a)).
  { apply NoDup_length_incl; [exact NA| |exact Incl]. unfold keys. rewrite !map_length. lia. }
  intros [k v'] HIn. cbn [fst snd].
  assert (Hk : In k (keys a)) by (apply Incl'; apply (in_map fst) in HIn; exact HIn).
  apply in_map_iff in Hk. destruct Hk as ([k0 v] & E0 & HInA). cbn [fst] in E0. subst k0.
  rewrite (plookup_nodup k v a NA HInA).
  specialize (F _ HInA). cbn [fst snd] in F. rewrite (plookup_nodup k v' b NB HIn) in F.
  exact (e_sym _ melody_eqb_eqv _ _ F).
Qed.

Lemma ext_str_eqb_eqv : eqv ext_str_eqb.
Proof.
  unfold ext_str_eqb. repeat apply eqv_and.
  - exact (eqv_pull fig _ eqv_string).
  - exact (eqv_pull repl _ (eqv_list _ eqv_string)).
  - exact (eqv_pull adds _ (eqv_list _ eqv_string)).
  - exact (eqv_pull rems _ (eqv_list _ eqv_string)).
Qed.

Lemma chord_equals_eqv : eqv chord_equals.
Proof.
  unfold chord_equals.
  apply eqv_and; [apply eqv_and; [apply eqv_and|]|].
  - exact (eqv_pull celem _ eqv_Z).
  - exact (eqv_pull cext _ ext_str_eqb_eqv).
  - exact (eqv_pull cton _ ton_eqb_eqv).
  - exact (eqv_pull coct _ eqv_Z).
Qed.

Definition wf_chord (c : fchord) : Prop := NoDup (keys (fparts c)).

Lemma fchord_eqb_refl a : wf_chord a -> fchord_eqb a a = true.
Proof. intros W. unfold fchord_eqb. rewrite (e_refl _ chord_equals_eqv), (dict_eqb_refl _ W). reflexivity. Qed.

Lemma fchord_eqb_sym a b : wf_chord a -> wf_chord b -> fchord_eqb a b = true -> fchord_eqb b a = true.
Proof.
  unfold fchord_eqb. intros WA WB H. apply andb_prop in H. destruct H as [H1 H2].
  rewrite (e_sym _ chord_equals_eqv _ _ H1), (dict_eqb_sym _ _ WA WB H2). reflexivity.
Qed.

Lemma fchord_eqb_trans a b c : fchord_eqb a b = true -> fchord_eqb b c = true -> fchord_eqb a c = true.
Proof.
  unfold fchord_eqb. intros H H'. apply andb_prop in H. apply andb_prop in H'. destruct H as [H1 H2]. destruct H' as [H3 H4].
  rewrite (e_trans _ chord_equals_eqv _ _ _ H1 H3), (dict_eqb_trans _ _ _ H2 H4). reflexivity.
Qed.

(* equal chords hash equal: the hashed tuple agrees component-wise (the tonality through its
   own hash = its normal form, the parts as a frozenset of (name, melody) whose members are equal) *)
Lemma fchord_eq_hash a b : fchord_eqb a b = true ->
  celem (fc a) = celem (fc b) /\ ext_str_eqb (cext (fc a)) (cext (fc b)) = true /\
  ton_norm (cton (fc a)) = ton_norm (cton (fc b)) /\ coct (fc a) = coct (fc b) /\
  dict_eqb (fparts a) (fparts b) = true.
Proof.
  unfold fchord_eqb, chord_equals. intros H.
  apply andb_prop in H. destruct H as [H D]. apply andb_prop in H. destruct H as [H O].
  apply andb_prop in H. destruct H as [H T]. apply andb_prop in H. destruct H as [E X].
  repeat split; [lia|exact X|apply ton_eqb_spec; exact T|lia|exact D].
Qed.

(* ---------- scores ---------- *)
Lemma score_eqb_trans a b c : score_eqb a b = true -> score_eqb b c = true -> score_eqb a c = true.
Proof.
  unfold score_eqb. revert b c. induction a as [|x a IH]; intros [|y b] [|z c]; cbn [list_eqb]; auto; try discriminate.
  intros H H'. apply andb_prop in H. apply andb_prop in H'. destruct H as [H1 H2]. destruct H' as [H3 H4].
  rewrite (fchord_eqb_trans _ _ _ H1 H3), (IH _ _ H2 H4). reflexivity.
Qed.

Lemma score_eqb_refl a : Forall wf_chord a -> score_eqb a a = true.
Proof. unfold score_eqb. induction 1 as [|x a W _ IH]; cbn [list_eqb]; [reflexivity|]. rewrite (fchord_eqb_refl _ W), IH. reflexivity. Qed.

Lemma score_eqb_sym a b : Forall wf_chord a -> Forall wf_chord b -> score_eqb a b = true -> score_eqb b a = true.
Proof.
  unfold score_eqb. intros WA. revert b. induction WA as [|x a W _ IH]; intros [|y b] WB; cbn [list_eqb]; auto.
  inversion WB as [|? ? Wy WB']; subst. intros H. apply andb_prop in H. destruct H as [H1 H2].
  rewrite (fchord_eqb_sym _ _ W Wy H1), (IH _ WB' H2). reflexivity.
Qed.

From ML Require Import Model.Types gen.Tables Model.Pitch Model.Rel Model.Render Model.Midi Spec.RenderSpec Proofs.RenderProofs.
From Coq Require Import Lia ZifyBool Permutation.
Open Scope Z_scope.
Open Scope list_scope.

(* ================= tick positions are exact on the tick grid ================= *)
Fixpoint abs_times (prev : Z) (l : list (bool * Z * Z * Z)) : list Z :=
  match l with [] => [] | (_, d, _, _) :: r => (prev + d) :: abs_times (prev + d) r end.

Definition on_grid (tpq : Z) (t : Z) : Prop := (t * TPB) mod tpq = 0.

(* the running sum of the written deltas is, for EVERY event, the truncated exact position: no error adds up *)
Theorem ticks_floor tpq l : forall last, abs_times last (with_deltas tpq last l) = map (fun e => tick_of tpq (me_time e)) l.
Proof.
  induction l as [|e l IH]; intros last; [reflexivity|]. cbn [with_deltas abs_times map].
  replace (last + (tick_of tpq (me_time e) - last)) with (tick_of tpq (me_time e)) by lia. f_equal. apply IH.
Qed.

(* hence an event whose time is a whole number of ticks is written exactly there (whatever the other events are), and every
   other event less than one tick early *)
Lemma tick_exact tpq t : 0 < tpq -> on_grid tpq t -> tick_of tpq t * tpq = t * TPB.
Proof.
  unfold on_grid, tick_of. intros Hq H. pose proof (Z.div_mod (t * TPB) tpq ltac:(lia)) as D. rewrite H in D. lia.
Qed.

Lemma tick_close tpq t : 0 < tpq -> tick_of tpq t * tpq <= t * TPB < (tick_of tpq t + 1) * tpq.
Proof.
  unfold tick_of. intros Hq. pose proof (Z.div_mod (t * TPB) tpq ltac:(lia)) as D.
  pose proof (Z.mod_pos_bound (t * TPB) tpq Hq) as B. lia.
Qed.

Theorem ticks_exact tpq l last j e : 0 < tpq -> nth_error l j = Some e -> on_grid tpq (me_time e) ->
  exists x, nth_error (abs_times last (with_deltas tpq last l)) j = Some x /\ x * tpq = me_time e * TPB.
Proof.
  intros Hq Hn Hg. rewrite ticks_floor. exists (tick_of tpq (me_time e)). split; [|apply tick_exact; assumption].
  rewrite nth_error_map, Hn. reflexivity.
Qed.

(* ================= the events of a track: one on/off pair per row, ordered ================= *)
Lemma me_insert_perm x l : Permutation (me_insert x l) (x :: l).
Proof.
  induction l as [|y l IH]; cbn [me_insert]; [apply Permutation_refl|].
  destruct (me_le x y); [apply Permutation_refl|]. eapply perm_trans; [apply perm_skip, IH|apply perm_swap].
Qed.

Lemma me_sort_perm l : Permutation (me_sort l) l.
Proof.
  unfold me_sort. induction l as [|x l IH]; cbn [fold_right]; [constructor|].
  eapply perm_trans; [apply me_insert_perm|apply perm_skip, IH].
Qed.

Lemma sort_key_perm' {A} (key : A -> Z) l : Permutation (sort_key key l) l.
Proof.
  unfold sort_key. induction l as [|x l IH]; cbn [fold_right]; [constructor|].
  assert (I : forall y l', Permutation (insert_key key y l') (y :: l')).
  { intros y l'. induction l' as [|z l' IH']; cbn [insert_key]; [apply Permutation_refl|].
    destruct (key y <=? key z); [apply Permutation_refl|]. eapply perm_trans; [apply perm_skip, IH'|apply perm_swap]. }
  eapply perm_trans; [apply I|apply perm_skip, IH].
Qed.

Definition on_of (r : row) : mevent := mkME true (r_off r) (r_pitch r + 60) (r_vel r).
Definition off_of (r : row) : mevent := mkME false (r_off r + r_dur r) (r_pitch r + 60) (r_vel r).

(* exactly one note-on (key = 60 + pitch, velocity, at the onset) and one note-off (at the end) per row *)
Theorem track_events_pairs rows : Permutation (track_events rows) (map on_of rows ++ map off_of rows).
Proof.
  unfold track_events. eapply perm_trans; [apply me_sort_perm|].
  apply Permutation_app; apply Permutation_map; apply sort_key_perm'.
Qed.

(* ... ordered by time, note-offs before note-ons at equal times *)
Fixpoint me_sorted (l : list mevent) : Prop :=
  match l with
  | [] => True
  | x :: r => Forall (fun y => me_le x y = true) r /\ me_sorted r
  end.

Lemma me_le_total a b : me_le a b = true \/ me_le b a = true.
Proof. unfold me_le. destruct (me_on a), (me_on b); cbn; lia. Qed.

Lemma me_le_trans a b c : me_le a b = true -> me_le b c = true -> me_le a c = true.
Proof. unfold me_le. destruct (me_on a), (me_on b), (me_on c); cbn; lia. Qed.

Lemma me_insert_sorted x l : me_sorted l -> me_sorted (me_insert x l).
Proof.
  induction l as [|y l IH]; cbn [me_insert me_sorted]; intros H; [split; [constructor|exact I]|].
  destruct H as [Hy Hs]. destruct (me_le x y) eqn:E.
  - cbn [me_sorted]. split; [|split; assumption]. constructor; [exact E|].
    eapply Forall_impl; [|exact Hy]. cbn beta. intros z Hz. exact (me_le_trans _ _ _ E Hz).
  - cbn [me_sorted]. split; [|apply IH; exact Hs].
    apply Forall_forall. intros z Hz. apply (Permutation_in _ (me_insert_perm x l)) in Hz.
    destruct Hz as [<-|Hz]; [destruct (me_le_total x y); congruence|].
    rewrite Forall_forall in Hy. apply Hy. exact Hz.
Qed.

Theorem track_events_sorted rows : me_sorted (track_events rows).
Proof.
  unfold track_events, me_sort. induction (map _ _ ++ map _ _) as [|x l IH]; cbn [fold_right]; [exact I|].
  apply me_insert_sorted. exact IH.
Qed.

(* ================= parts are grouped into tracks by program ================= *)
Lemma zindex_dedup_inj seen l x y : In x l -> In y l -> ~ In x seen -> ~ In y seen ->
  zindex x (dedup_z seen l) = zindex y (dedup_z seen l) -> x = y.
Proof.
  revert seen. induction l as [|a l IH]; intros seen Hx Hy Nx Ny; [contradiction|]. cbn [dedup_z].
  destruct (existsb (Z.eqb a) seen) eqn:E.
  - assert (Ha : In a seen) by (apply existsb_exists in E; destruct E as (z & Hz & Ez); apply Z.eqb_eq in Ez; subst; exact Hz).
    destruct Hx as [->|Hx]; [contradiction|]. destruct Hy as [->|Hy]; [contradiction|].
    apply IH; assumption.
  - cbn [zindex]. destruct (x =? a) eqn:Ex; destruct (y =? a) eqn:Ey; try lia; intros H; try discriminate.
    injection H as H.
    destruct Hx as [Hx|Hx]; [lia|]. destruct Hy as [Hy|Hy]; [lia|].
    apply (IH (a :: seen)); try assumption; intros [F|F]; try lia; contradiction.
Qed.

(* two parts end up in the same MIDI track exactly when their instruments have the same program
   (all drum parts share program -1) *)
Theorem same_track_iff_same_program names t1 t2 : (t1 < length names)%nat -> (t2 < length names)%nat ->
  (new_track names t1 = new_track names t2 <-> program_of (nth t1 names ""%string) = program_of (nth t2 names ""%string)).
Proof.
  intros H1 H2. unfold new_track, groups_of. split; [|intros E; rewrite E; reflexivity].
  apply zindex_dedup_inj; try (intros []);
    apply in_map; apply nth_In; assumption.
Qed.

(* ================= continuations: per track, the merge is C03's merge ================= *)
Lemma extend_recent_other racc t d u : u <> t ->
  filter (fun r => Nat.eqb (r_track r) u) (extend_recent racc t d) = filter (fun r => Nat.eqb (r_track r) u) racc.
Proof.
  intros N. induction racc as [|r racc IH]; [reflexivity|]. cbn [extend_recent].
  destruct (Nat.eqb (r_track r) t) eqn:E.
  - cbn [filter r_track]. apply Nat.eqb_eq in E. assert (Nat.eqb (r_track r) u = false) by (apply Nat.eqb_neq; lia).
    rewrite H. reflexivity.
  - cbn [filter]. rewrite IH. reflexivity.
Qed.

Lemma extend_recent_same racc t d :
  filter (fun r => Nat.eqb (r_track r) t) (extend_recent racc t d) =
  extend_recent (filter (fun r => Nat.eqb (r_track r) t) racc) t d.
Proof.
  induction racc as [|r racc IH]; [reflexivity|]. cbn [extend_recent].
  destruct (Nat.eqb (r_track r) t) eqn:E.
  - cbn [filter r_track]. rewrite E. cbn [extend_recent]. rewrite E. reflexivity.
  - cbn [filter]. rewrite E. exact IH.
Qed.

(* the rows of one track are merged independently of the other tracks *)
Lemma merge_per_track t rows : forall racc,
  filter (fun r => Nat.eqb (r_track r) t) (fold_left merge_step rows racc) =
  fold_left merge_step (filter (fun r => Nat.eqb (r_track r) t) rows) (filter (fun r => Nat.eqb (r_track r) t) racc).
Proof.
  induction rows as [|r rows IH]; intros racc; [reflexivity|]. cbn [fold_left]. rewrite IH. cbn [filter].
  destruct (Nat.eqb (r_track r) t) eqn:E.
  - cbn [fold_left]. f_equal. apply Nat.eqb_eq in E. unfold merge_step. destruct (r_cont r).
    + rewrite <- E. apply extend_recent_same.
    + cbn [filter]. rewrite <- E, Nat.eqb_refl. reflexivity.
  - f_equal. unfold merge_step. destruct (r_cont r).
    + apply extend_recent_other. apply Nat.eqb_neq in E. lia.
    + cbn [filter]. rewrite E. reflexivity.
Qed.

(* ---------- one track: midi_merge is the merge of C03 ---------- *)
Definition mev_row (r : row) : mev := mev_of_row r (r_sil r).

Lemma audible_app a b : audible (a ++ b) = audible a ++ audible b.
Proof. unfold audible. apply filter_app. Qed.

Lemma merge_from_silent rows : forall e1 e2, m_sil e1 = true -> m_sil e2 = true ->
  audible (merge_from (Some e1) rows) = audible (merge_from (Some e2) rows) /\
  audible (merge_from (Some e1) rows) = audible (merge_from None rows).
Proof.
  induction rows as [|r rows IH]; intros e1 e2 H1 H2; cbn [merge_from emit].
  - unfold audible. cbn [filter]. rewrite H1, H2. cbn. split; reflexivity.
  - destruct (r_cont r).
    + split.
      * apply (IH (lengthen e1 (r_dur r)) (lengthen e2 (r_dur r))); cbn [lengthen m_sil]; assumption.
      * apply (IH (lengthen e1 (r_dur r)) (mev_of_row r true)); cbn [lengthen m_sil mev_of_row]; [assumption|reflexivity].
    + rewrite !audible_app. unfold audible at 1 3 5. cbn [filter]. rewrite H1, H2. cbn [negb app]. split; reflexivity.
Qed.

Definition single_track (t : nat) (l : list row) : Prop := Forall (fun r => r_track r = t) l.

Lemma merge_single t rows : single_track t rows -> forall racc, single_track t racc ->
  audible (map mev_row (rev (fold_left merge_step rows racc))) =
  audible (map mev_row (rev (tl racc)) ++ merge_from (option_map mev_row (hd_error racc)) rows).
Proof.
  induction 1 as [|r rows Hr _ IH]; intros racc Hacc.
  - cbn [fold_left merge_from]. destruct racc as [|h tl0]; cbn [tl hd_error option_map emit rev map app];
      [reflexivity|]. rewrite map_app. reflexivity.
  - cbn [fold_left]. unfold merge_step at 2. destruct (r_cont r) eqn:Ec.
    + destruct racc as [|h tl0].
      * cbn [extend_recent]. rewrite (IH [] Hacc). cbn [tl hd_error option_map rev map app merge_from]. rewrite Ec.
        destruct (merge_from_silent rows (mev_of_row r true) (mev_of_row r true) eq_refl eq_refl) as [_ E]. rewrite E. reflexivity.
      * cbn [extend_recent]. pose proof (Forall_inv Hacc) as Hh. cbn beta in Hh. rewrite Hh, Hr, Nat.eqb_refl.
        rewrite IH by (constructor; [cbn [r_track]; lia|exact (Forall_inv_tail Hacc)]).
        cbn [tl hd_error option_map merge_from]. rewrite Ec. reflexivity.
    + rewrite IH by (constructor; assumption).
      cbn [tl hd_error option_map merge_from]. rewrite Ec.
      destruct racc as [|h tl0]; cbn [tl hd_error option_map emit rev map app]; [reflexivity|].
      rewrite map_app, <- app_assoc. reflexivity.
Qed.

(* the merged, audible rows of one track are exactly the sounding notes of the part (C03) *)
Theorem midi_merge_sounding s idx track rows :
  track_rows s idx track 0 None = Some rows -> single_track idx rows ->
  exists sl, sounding_of s track = Some sl /\
    map snote_of (audible (map mev_row (rev (fold_left merge_step rows [])))) = sl.
Proof.
  intros H Hs. destruct (track_sounding s idx track rows H) as (sl & Hsl & Hm).
  exists sl. split; [exact Hsl|]. rewrite (merge_single idx rows Hs [] ltac:(constructor)).
  cbn [tl rev map app hd_error option_map]. exact Hm.
Qed.

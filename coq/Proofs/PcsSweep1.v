From ML Require Import Model.Types Proofs.PcsDefs.
Lemma sweep_1 : sweep_elem 1 = true.
Proof. vm_compute. reflexivity. Qed.

(* C19: Chord.get_parsimonious_voice_leading on triads and sevenths without modifiers. *)
From ML Require Import Model.Types gen.Tables Model.Pitch Model.Ext Model.Ton Model.Rel Model.Render Model.Slice Model.Renote Model.Voice.
From ML Require Import Spec.PitchSpec Proofs.PitchProofs Proofs.ExtProofs Proofs.TonProofs Proofs.RenoteProofs Proofs.VoiceProofs.
From Coq Require Import Lia ZifyBool.
Open Scope Z_scope.
Open Scope list_scope.
Ltac Zify.zify_post_hook ::= Z.to_euclidean_division_equations.

(* figures by family and inversion index *)
Definition fam_size (four : bool) : Z := if four then 4 else 3.
Definition fig_of (four : bool) (i : Z) : string :=
  nth (Z.to_nat i) (if four then four_family else three_family) ""%string.

Lemma invertible_as_index f : In f invertible_figures -> exists four i, f = fig_of four i /\ 0 <= i < fam_size four.
Proof.
  cbn. intros [<-|[<-|[<-|[<-|[<-|[<-|[<-|[]]]]]]]].
  - exists false, 0. split; [reflexivity|cbn; lia].
  - exists false, 1. split; [reflexivity|cbn; lia].
  - exists false, 2. split; [reflexivity|cbn; lia].
  - exists true, 0. split; [reflexivity|cbn; lia].
  - exists true, 1. split; [reflexivity|cbn; lia].
  - exists true, 2. split; [reflexivity|cbn; lia].
  - exists true, 3. split; [reflexivity|cbn; lia].
Qed.

Ltac index_cases four i H :=
  destruct four; cbn [fam_size] in H;
  [assert (Hc : i = 0 \/ i = 1 \/ i = 2 \/ i = 3) by lia; destruct Hc as [->|[->|[->| ->]]]
  |assert (Hc : i = 0 \/ i = 1 \/ i = 2) by lia; destruct Hc as [->|[->| ->]]].

Lemma fig_of_invertible four i : 0 <= i < fam_size four -> In (fig_of four i) invertible_figures.
Proof. intros H. index_cases four i H; cbn; tauto. Qed.

Lemma invert_fig_of four i k : 0 <= i < fam_size four ->
  invert_fig (fig_of four i) k = Some (fig_of four ((i + k) mod fam_size four)).
Proof.
  intros H. unfold invert_fig.
  assert (Cn : canon_fig (fig_of four i) = fig_of four i) by (index_cases four i H; reflexivity). rewrite Cn. unfold invert_fig0.
  destruct four; cbn [fam_size] in *.
  - assert (E : sindex (fig_of true i) four_family = Some (Z.to_nat i)).
    { assert (Hc : i = 0 \/ i = 1 \/ i = 2 \/ i = 3) by lia. destruct Hc as [->|[->|[->| ->]]]; reflexivity. }
    rewrite E. unfold rot_in, fig_of. change (Z.of_nat (length four_family)) with 4. rewrite Z2Nat.id by lia. reflexivity.
  - assert (E4 : sindex (fig_of false i) four_family = None).
    { assert (Hc : i = 0 \/ i = 1 \/ i = 2) by lia. destruct Hc as [->|[->| ->]]; reflexivity. }
    assert (E : sindex (fig_of false i) three_family = Some (Z.to_nat i)).
    { assert (Hc : i = 0 \/ i = 1 \/ i = 2) by lia. destruct Hc as [->|[->| ->]]; reflexivity. }
    rewrite E4, E. unfold rot_in, fig_of. change (Z.of_nat (length three_family)) with 3. rewrite Z2Nat.id by lia. reflexivity.
Qed.

Lemma index_of_fig four i : 0 <= i < fam_size four -> assoc (fig_of four i) BASE_CHORDAL_TRANSLATION_DICT = Some i.
Proof. intros H. index_cases four i H; reflexivity. Qed.

Lemma root_fig_of four i : 0 <= i < fam_size four -> root_fig (fig_of four i) = fig_of four 0.
Proof. intros H. index_cases four i H; reflexivity. Qed.

Definition bchord (e : Z) (four : bool) (i : Z) (t : tonality) (o : Z) : chord := mkC e (bare (fig_of four i)) t o.

(* getitem on a bare invertible figure succeeds *)
Lemma getitem_bare c four i : elem_ok c -> 0 <= i < fam_size four ->
  getitem c (mkE (fig_of four i) [] [] []) = Some (bchord (celem c) four i (cton c) (coct c)).
Proof.
  intros He Hi. unfold getitem. cbn [fig].
  assert (P : parse_ext (mkE (fig_of four i) [] [] []) = bare (fig_of four i)) by reflexivity. rewrite P.
  set (c' := with_ext c (bare (fig_of four i))).
  assert (He' : elem_ok c') by exact He.
  destruct (arpeggio_bare c' (fig_of four i) He' (invertible_in_all _ (fig_of_invertible _ _ Hi)) eq_refl) as [_ E2].
  destruct (root_degs_some _ (fig_of_invertible _ _ Hi)) as (l & _ & B). rewrite B in E2. cbn [option_map] in E2.
  unfold chord_extension_pitches in E2. cbn [c' with_ext cext bare fig] in E2.
  destruct (chord_notes_calc c' (fig_of four i)); [reflexivity|discriminate].
Qed.

Lemma invert_bare e four i t o k : 0 <= e <= 6 -> 0 <= i < fam_size four ->
  invert (bchord e four i t o) k = Some (bchord e four ((i + k) mod fam_size four) t o).
Proof.
  intros He Hi. unfold invert, bchord. cbn [cext bare fig repl adds rems]. rewrite (invert_fig_of _ _ _ Hi). cbn [obind].
  assert (Hm : 0 <= (i + k) mod fam_size four < fam_size four) by (apply Z.mod_pos_bound; destruct four; cbn; lia).
  rewrite (getitem_bare (mkC e (bare (fig_of four i)) t o) four _ He Hm). reflexivity.
Qed.

(* bass of inversion i: the chord degree 2 i *)
Lemma bass_bare e four i t o : 0 <= e <= 6 -> 0 <= i < fam_size four ->
  bass_pitch (bchord e four i t o) = Some (chord_deg (bchord e four i t o) (2 * i)).
Proof.
  intros He Hi. unfold bass_pitch.
  destruct (arpeggio_bare (bchord e four i t o) (fig_of four i) He (invertible_in_all _ (fig_of_invertible _ _ Hi)) eq_refl) as [_ E2].
  rewrite E2. index_cases four i Hi; reflexivity.
Qed.

Definition S_of (md : mode) := spec_mode md.
(* bass of inversion i above the root-position bass, in semitones: a function of the degree and the mode only *)
Definition brel (md : mode) (e i : Z) : Z := deg 0 (S_of md) (e + 2 * i) - deg 0 (S_of md) e.

Lemma bass_bare_rel e four i td md o : 0 <= e <= 6 -> 0 <= i < fam_size four ->
  bass_pitch (bchord e four i (mkT td md 0) o) = Some (td + deg 0 (S_of md) e + brel md e i + 12 * o).
Proof.
  intros He Hi. rewrite bass_bare by assumption. f_equal. unfold chord_deg, chord_deg_in, ton_base, brel, S_of.
  cbn [bchord cton celem coct tmode tdeg toct]. rewrite (deg_base (td + 12 * 0)). lia.
Qed.

Lemma chord_pitches_len e four i t o : 0 <= e <= 6 -> 0 <= i < fam_size four ->
  exists cp, chord_pitches (bchord e four i t o) = Some cp /\ zlen cp = fam_size four.
Proof.
  intros He Hi.
  destruct (arpeggio_bare (bchord e four i t o) (fig_of four i) He (invertible_in_all _ (fig_of_invertible _ _ Hi)) eq_refl) as [E1 _].
  rewrite E1. index_cases four i Hi; eexists; (split; [reflexivity|reflexivity]).
Qed.

(* ---- the arithmetic of the algorithm: inversion index and octave of the result, from the transposition tr = other - root ---- *)
Definition pars_arith (n : Z) (br : Z -> Z) (tr : Z) (d : direction) : Z * Z :=
  let off := round_half_even tr 12 in
  let nt := tr - off * 12 in
  let k := - round_half_even (n * nt) 12 in
  let i3 := k mod n in
  let o4 := - off + (if k <? 0 then -1 else 0) in
  let m4 := tr + br i3 + 12 * o4 in
  match d with
  | DDown => if 0 <? m4 then ((i3 - 1) mod n, o4 + (if i3 - 1 <? 0 then -1 else 0)) else (i3, o4)
  | DUp => if m4 <? 0 then ((i3 + 1) mod n, o4 + (if n - 1 <? i3 + 1 then 1 else 0)) else (i3, o4)
  | DNone => (i3, o4)
  end.

Lemma chord_o_bchord e four i t o k : chord_o (bchord e four i t o) k = bchord e four i t (o + k).
Proof. reflexivity. Qed.

Theorem parsimonious_bare root e four i td md to_ co d : 0 <= e <= 6 -> 0 <= i < fam_size four ->
  let n := fam_size four in
  let other := td + deg 0 (S_of md) e in
  let r := pars_arith n (brel md e) (other - root) d in
  parsimonious root (bchord e four i (mkT td md to_) co) d = Some (bchord e four (fst r) (mkT td md 0) (snd r)).
Proof.
  intros He Hi n other r. unfold parsimonious.
  destruct (chord_pitches_len e four i (mkT td md to_) co He Hi) as (cp & Ecp & Lcp). rewrite Ecp. cbn [obind].
  rewrite Lcp. fold n.
  cbn [bchord celem cext cton tdeg tmode].
  assert (N : 0 < n) by (unfold n; destruct four; cbn; lia).
  assert (H0 : 0 <= 0 < fam_size four) by (fold n; lia).
  (* to_root_extension *)
  unfold to_root_extension. cbn [cext bare fig repl adds rems]. rewrite (root_fig_of _ _ Hi).
  rewrite (getitem_bare (mkC e (bare (fig_of four i)) (mkT td md 0) 0) four 0 He H0). cbn [obind celem cton coct].
  rewrite (bass_bare_rel e four 0 td md 0 He H0).
  assert (B0 : brel md e 0 = 0) by (unfold brel; replace (e + 2 * 0) with e by lia; lia). rewrite B0. cbn [obind].
  replace (td + deg 0 (S_of md) e + 0 + 12 * 0) with other by (unfold other; lia).
  set (tr := other - root). set (off := round_half_even tr 12). set (nt := tr - off * 12).
  set (k := - round_half_even (n * nt) 12).
  rewrite chord_o_bchord. rewrite (invert_bare e four 0 _ _ k He H0). cbn [obind]. fold n.
  replace ((0 + k) mod n) with (k mod n) by (f_equal; lia). set (i3 := k mod n).
  assert (Hi3 : 0 <= i3 < fam_size four) by (apply Z.mod_pos_bound; exact N).
  set (o4 := - off + (if k <? 0 then -1 else 0)).
  assert (F4 : (if k <? 0 then chord_o (bchord e four i3 (mkT td md 0) (0 + - off)) (-1) else bchord e four i3 (mkT td md 0) (0 + - off))
               = bchord e four i3 (mkT td md 0) o4).
  { unfold o4. destruct (k <? 0); [rewrite chord_o_bchord|]; f_equal; lia. }
  rewrite F4. rewrite (bass_bare_rel e four i3 td md o4 He Hi3). cbn [obind].
  fold other. set (b4 := other + brel md e i3 + 12 * o4).
  unfold r, pars_arith. fold tr off nt k i3 o4. cbv zeta. fold tr. fold off. fold nt. fold k. fold i3. fold o4.
  assert (M4 : b4 - root = tr + brel md e i3 + 12 * o4) by (unfold b4, tr; lia).
  destruct d.
  - reflexivity.
  - replace (b4 <? root) with (tr + brel md e i3 + 12 * o4 <? 0) by lia.
    destruct (tr + brel md e i3 + 12 * o4 <? 0); [|reflexivity].
    unfold get_inversion_index. cbn [bchord cext bare fig]. rewrite (index_of_fig _ _ Hi3). cbn [obind].
    rewrite (invert_bare e four i3 _ _ 1 He Hi3). cbn [obind fst snd]. fold n.
    destruct (n - 1 <? i3 + 1); [rewrite chord_o_bchord|]; f_equal; unfold bchord; f_equal; lia.
  - replace (root <? b4) with (0 <? tr + brel md e i3 + 12 * o4) by lia.
    destruct (0 <? tr + brel md e i3 + 12 * o4); [|reflexivity].
    unfold get_inversion_index. cbn [bchord cext bare fig]. rewrite (index_of_fig _ _ Hi3). cbn [obind].
    rewrite (invert_bare e four i3 _ _ (-1) He Hi3). cbn [obind fst snd]. fold n.
    replace (i3 + -1) with (i3 - 1) by lia.
    destruct (i3 - 1 <? 0); [rewrite chord_o_bchord|]; f_equal; unfold bchord; f_equal; lia.
Qed.

(* ---- the bass movement depends on the transposition only through its residue nt in [-6, 6] ---- *)
Definition pars_mv (n : Z) (br : Z -> Z) (nt : Z) (d : direction) : Z :=
  let k := - round_half_even (n * nt) 12 in
  let i3 := k mod n in
  let a4 := if k <? 0 then -1 else 0 in
  let m4 := nt + br i3 + 12 * a4 in
  match d with
  | DDown => if 0 <? m4 then nt + br ((i3 - 1) mod n) + 12 * (a4 + (if i3 - 1 <? 0 then -1 else 0)) else m4
  | DUp => if m4 <? 0 then nt + br ((i3 + 1) mod n) + 12 * (a4 + (if n - 1 <? i3 + 1 then 1 else 0)) else m4
  | DNone => m4
  end.

Lemma mv_reduce n br tr d :
  tr + br (fst (pars_arith n br tr d)) + 12 * snd (pars_arith n br tr d) = pars_mv n br (tr - round_half_even tr 12 * 12) d.
Proof.
  unfold pars_arith, pars_mv. cbv zeta.
  set (off := round_half_even tr 12). set (nt := tr - off * 12). set (k := - round_half_even (n * nt) 12).
  set (i3 := k mod n). set (a4 := if k <? 0 then -1 else 0).
  assert (E : tr + br i3 + 12 * (- off + a4) = nt + br i3 + 12 * a4) by (unfold nt; lia).
  destruct d.
  - cbn [fst snd]. exact E.
  - rewrite E. destruct (nt + br i3 + 12 * a4 <? 0); cbn [fst snd]; [|exact E].
    destruct (n - 1 <? i3 + 1); unfold nt; lia.
  - rewrite E. destruct (0 <? nt + br i3 + 12 * a4); cbn [fst snd]; [|exact E].
    destruct (i3 - 1 <? 0); unfold nt; lia.
Qed.

Lemma pars_arith_range n br tr d : 0 < n -> 0 <= fst (pars_arith n br tr d) < n.
Proof.
  intros N. unfold pars_arith. cbv zeta.
  destruct d; repeat match goal with |- context [if ?b then _ else _] => destruct b end; cbn [fst]; apply Z.mod_pos_bound; exact N.
Qed.

(* finite sweep: 7 degrees x 9 modes x triads/sevenths x 13 residues x 3 directions *)
Definition residues : list Z := [-6; -5; -4; -3; -2; -1; 0; 1; 2; 3; 4; 5; 6].
Definition mv_ok (mv : Z) (d : direction) : bool :=
  match d with
  | DNone => (-3 <=? mv) && (mv <=? 3)
  | DUp => (0 <=? mv) && (mv <=? 5)
  | DDown => (-5 <=? mv) && (mv <=? 0)
  end.

Lemma mv_sweep :
  forallb (fun e => forallb (fun md => forallb (fun four => forallb (fun nt => forallb (fun d =>
    mv_ok (pars_mv (fam_size four) (brel md e) nt d) d) [DNone; DUp; DDown]) residues) [true; false]) all_modes) idx7 = true.
Proof. vm_compute. reflexivity. Qed.

Lemma in_residues nt : -6 <= nt <= 6 -> In nt residues.
Proof. intros H. unfold residues. cbn [In]. lia. Qed.

Lemma round_half_even_near a : -6 <= a - round_half_even a 12 * 12 <= 6.
Proof.
  unfold round_half_even. cbv zeta.
  destruct (2 * (a mod 12) <? 12) eqn:E1; [lia|].
  destruct (12 <? 2 * (a mod 12)) eqn:E2; [lia|].
  destruct (Z.even (a / 12)); lia.
Qed.

Theorem parsimonious_bass root e four i td md to_ co d : 0 <= e <= 6 -> 0 <= i < fam_size four ->
  exists r b, parsimonious root (bchord e four i (mkT td md to_) co) d = Some r /\ bass_pitch r = Some b /\
              mv_ok (b - root) d = true.
Proof.
  intros He Hi. pose proof (parsimonious_bare root e four i td md to_ co d He Hi) as P. cbv zeta in P.
  set (other := td + deg 0 (S_of md) e) in *. set (r := pars_arith (fam_size four) (brel md e) (other - root) d) in *.
  assert (N : 0 < fam_size four) by (destruct four; cbn; lia).
  assert (R : 0 <= fst r < fam_size four) by (apply pars_arith_range; exact N).
  eexists. eexists. split; [exact P|]. split; [apply bass_bare_rel; assumption|].
  fold other.
  replace (other + brel md e (fst r) + 12 * snd r - root) with ((other - root) + brel md e (fst r) + 12 * snd r) by lia.
  unfold r. rewrite mv_reduce.
  pose proof (round_half_even_near (other - root)) as Hn. cbv zeta in Hn.
  pose proof mv_sweep as SW. rewrite forallb_forall in SW.
  specialize (SW e (idx7_in _ He)). rewrite forallb_forall in SW.
  specialize (SW md (all_modes_in md)). rewrite forallb_forall in SW.
  specialize (SW four ltac:(destruct four; cbn; tauto)). rewrite forallb_forall in SW.
  specialize (SW _ (in_residues _ Hn)). rewrite forallb_forall in SW.
  apply SW. destruct d; cbn; tauto.
Qed.

(* same chord tones, whole octaves apart: only the inversion and the octave change *)
Lemma root_degs_family four i : 0 <= i < fam_size four -> root_degs (fig_of four i) = root_degs (fig_of four 0).
Proof. intros H. index_cases four i H; reflexivity. Qed.

Theorem parsimonious_tones root e four i td md to_ co d : 0 <= e <= 6 -> 0 <= i < fam_size four ->
  exists r k, parsimonious root (bchord e four i (mkT td md to_) co) d = Some r /\
    celem r = e /\ tdeg (cton r) = td /\ tmode (cton r) = md /\
    (exists i', cext r = bare (fig_of four i') /\ 0 <= i' < fam_size four) /\
    chord_pitches r = option_map (map (fun p => p + 12 * k)) (chord_pitches (bchord e four i (mkT td md to_) co)).
Proof.
  intros He Hi. pose proof (parsimonious_bare root e four i td md to_ co d He Hi) as P. cbv zeta in P.
  set (r := pars_arith _ _ _ _) in P.
  assert (N : 0 < fam_size four) by (destruct four; cbn; lia).
  assert (R : 0 <= fst r < fam_size four) by (apply pars_arith_range; exact N).
  eexists. exists (snd r - co - to_). split; [exact P|]. repeat split; try reflexivity.
  - exists (fst r). split; [reflexivity|exact R].
  - destruct (arpeggio_bare (bchord e four (fst r) (mkT td md 0) (snd r)) _ He (invertible_in_all _ (fig_of_invertible _ _ R)) eq_refl) as [E1 _].
    destruct (arpeggio_bare (bchord e four i (mkT td md to_) co) _ He (invertible_in_all _ (fig_of_invertible _ _ Hi)) eq_refl) as [E2 _].
    rewrite E1, E2. rewrite (root_degs_family _ _ R), (root_degs_family _ _ Hi).
    destruct (root_degs (fig_of four 0)) as [l|]; [|reflexivity]. cbn [option_map]. f_equal. rewrite map_map. apply map_ext. intros j.
    unfold chord_deg, chord_deg_in, ton_base. cbn [bchord cton celem coct tmode tdeg toct].
    rewrite (deg_base (td + 12 * 0)), (deg_base (td + 12 * to_)). lia.
Qed.

(* the score: the first chord and every part are kept *)
Lemma pars_from_parts ff : forall cs prev dirs out, pars_from ff prev dirs cs = Some out -> map rparts out = map rparts cs.
Proof.
  induction cs as [|c r IH]; intros prev dirs out H; destruct dirs as [|d dr]; cbn [pars_from] in H; try discriminate.
  - injection H as <-. reflexivity.
  - destruct (bass_pitch prev); [|discriminate]. cbn [obind] in H.
    destruct (parsimonious _ _ _) as [c'|]; [|discriminate]. cbn [obind] in H.
    destruct (pars_from ff _ dr r) as [r'|] eqn:E; [|discriminate]. injection H as <-. cbn [map rparts]. f_equal. exact (IH _ _ _ E).
Qed.

Theorem pars_score_keeps ff dirs c r out : pars_score ff dirs (c :: r) = Some out ->
  exists r', out = c :: r' /\ map rparts r' = map rparts r /\ length r' = length r.
Proof.
  unfold pars_score. destruct (pars_from ff (rc c) dirs r) as [r'|] eqn:E; [|discriminate]. intros H. injection H as <-.
  exists r'. split; [reflexivity|]. pose proof (pars_from_parts _ _ _ _ _ E) as M. split; [exact M|].
  rewrite <- (map_length rparts r'), M, map_length. reflexivity.
Qed.

(* chained leading: each chord's bass is within the bound of the previous RESULT's bass *)
Definition is_bare_inv (c : chord) : Prop :=
  0 <= celem c <= 6 /\ exists four i, cext c = bare (fig_of four i) /\ 0 <= i < fam_size four.

Lemma as_bchord c : is_bare_inv c -> exists four i, c = bchord (celem c) four i (mkT (tdeg (cton c)) (tmode (cton c)) (toct (cton c))) (coct c) /\ 0 <= i < fam_size four.
Proof. intros (He & four & i & Hx & Hi). exists four, i. split; [|exact Hi]. destruct c as [e x [td md to_] o]. cbn in *. subst x. reflexivity. Qed.

Theorem pars_from_chain : forall cs prev dirs out b0, Forall (fun c => is_bare_inv (rc c)) cs ->
  bass_pitch prev = Some b0 -> pars_from false prev dirs cs = Some out ->
  exists basses, map (fun c => bass_pitch (rc c)) out = map Some basses /\
    (fix ok (b : Z) (bs : list Z) (ds : list direction) : Prop :=
       match bs, ds with
       | x :: br, d :: dr => mv_ok (x - b) d = true /\ ok x br dr
       | _, _ => True
       end) b0 basses dirs.
Proof.
  induction cs as [|c r IH]; intros prev dirs out b0 Hf Hb H; destruct dirs as [|d dr]; cbn [pars_from] in H; try discriminate.
  - injection H as <-. exists []. split; [reflexivity|exact I].
  - rewrite Hb in H. cbn [obind] in H. inversion Hf as [|? ? Hc Hr]; subst.
    destruct (as_bchord _ Hc) as (four & i & Ec & Hi). destruct Hc as (He & _).
    destruct (parsimonious_bass b0 (celem (rc c)) four i (tdeg (cton (rc c))) (tmode (cton (rc c))) (toct (cton (rc c))) (coct (rc c)) d He Hi)
      as (c' & b & P & B & M).
    rewrite <- Ec in P. rewrite P in H. cbn [obind] in H.
    destruct (pars_from false c' dr r) as [r'|] eqn:E; [|discriminate]. injection H as <-.
    destruct (IH c' dr r' b Hr B E) as (bs & Hm & Hok).
    exists (b :: bs). split; [cbn [map rc]; rewrite B, Hm; reflexivity|]. split; [exact M|exact Hok].
Qed.

(* C17, apply_to_melody(expand=False): on a binary grid the loop never stops early, so the result still lasts the grid; the
   melody's notes come in order, each at most once, and the pulses beyond them are rests *)
From ML Require Import Model.Types Model.Metric Proofs.MetricProofs.
From Coq Require Import Lia ZifyBool.
Open Scope Z_scope.
Open Scope list_scope.

Definition binary (l : list Z) : Prop := Forall (fun x => x = 0 \/ x = 1) l.

Lemma groups_count b cur l : binary l -> Z.of_nat (length (groups_from b cur l)) = 1 + zsum l.
Proof.
  intros H. revert b cur. induction H as [|x l Hx _ IH]; intros b cur; cbn [groups_from zsum fold_right]; [reflexivity|].
  fold (zsum l). destruct Hx as [-> | ->].
  - change (0 =? 0) with true. cbv iota. rewrite IH. lia.
  - change (1 =? 0) with false. change (1 =? 1) with true. cbv iota. cbn [length]. rewrite Nat2Z.inj_succ, IH. lia.
Qed.

Lemma apply_groups_ne_snd m m' f gs : forall idx, 0 <= idx -> idx + Z.of_nat (length gs) - 1 <= m' ->
  map snd (apply_groups_ne m m' idx f gs) = map snd gs.
Proof.
  induction gs as [|[b k] gs IH]; intros idx Hi Hb; cbn [apply_groups_ne map]; [reflexivity|].
  assert (Hb' : idx + 1 + Z.of_nat (length gs) - 1 <= m') by (cbn [length] in Hb; lia).
  destruct ((idx =? 0) && negb f); [cbn [map snd]; rewrite IH by lia; reflexivity|].
  assert (E : (m' <? idx) = false) by (cbn [length] in Hb; lia). rewrite E. cbn [map snd]. rewrite IH by lia. reflexivity.
Qed.

Theorem apply_ne_total a m es : binary a -> apply_metric_ne a m = Some es -> total_tatums es = Z.of_nat (length a).
Proof.
  intros Hb. unfold apply_metric_ne, beat_durations. destruct (m <=? 0) eqn:Em; [discriminate|].
  destruct a as [|x a]; [discriminate|]. intros [= <-]. unfold total_tatums.
  inversion Hb as [|? ? Hx Ha]; subst.
  rewrite apply_groups_ne_snd.
  - rewrite groups_total. cbn [length]. lia.
  - lia.
  - rewrite (groups_count _ _ _ Ha). cbn [zsum fold_right]. fold (zsum a). destruct Hx as [-> | ->]; lia.
Qed.

Lemma apply_groups_ne_sources m m' f gs : forall idx j o k,
  nth_error (apply_groups_ne m m' idx f gs) j = Some (Some o, k) -> o = (idx + Z.of_nat j) mod m' /\ o < m.
Proof.
  induction gs as [|[b k0] gs IH]; intros idx j o k H; [destruct j; discriminate|]. cbn [apply_groups_ne] in H.
  destruct ((idx =? 0) && negb f).
  - destruct j as [|j]; [discriminate|]. cbn [nth_error] in H.
    destruct (IH _ _ _ _ H) as [E L]. split; [|exact L]. rewrite E. f_equal. lia.
  - destruct (m' <? idx) eqn:E; [destruct j; discriminate|].
    destruct j as [|j]; cbn [nth_error] in H.
    + destruct b; [|discriminate]. cbv zeta in H. destruct (idx mod m' <? m) eqn:E2; [|discriminate]. injection H as <- _.
      split; [f_equal; lia|lia].
    + destruct (IH _ _ _ _ H) as [E1 L]. split; [|exact L]. rewrite E1. f_equal. lia.
Qed.

(* the j-th produced entry, when it carries a note, carries the melody's note j mod m' (m' = the melody's length after padding):
   a note of the melody itself, never a padding rest *)
Theorem apply_ne_sources a m es j o k : apply_metric_ne a m = Some es ->
  nth_error es j = Some (Some o, k) -> o = Z.of_nat j mod Z.max m (zsum a) /\ o < m.
Proof.
  unfold apply_metric_ne, beat_durations. destruct (m <=? 0) eqn:Em; [discriminate|].
  destruct a as [|x a]; [discriminate|]. intros [= <-] H.
  destruct (apply_groups_ne_sources _ _ _ _ 0 _ _ _ H) as [E L]. split; [exact E|exact L].
Qed.

From ML Require Import Model.Types gen.Tables Model.Dur Spec.DurSpec.
From Coq Require Import QArith Qminmax Lia Lqa ZifyBool.
Open Scope Q_scope.

(* ---------- the table ---------- *)
Definition table_agrees (a b : list (string * Q)) : bool :=
  forallb (fun kv => match qassoc (fst kv) b with Some v => Qeq_bool v (snd kv) | None => false end) a.

Fixpoint distinct_keys (l : list (string * Q)) : bool :=
  match l with [] => true | (k, _) :: r => negb (existsb (fun kv => String.eqb k (fst kv)) r) && distinct_keys r end.

Fixpoint distinct_vals (l : list (string * Q)) : bool :=
  match l with [] => true | (_, v) :: r => negb (existsb (fun kv => Qeq_bool v (snd kv)) r) && distinct_vals r end.

Definition inverse_ok : bool :=
  forallb (fun kv => existsb (fun vk => Qeq_bool (fst vk) (snd kv) && String.eqb (snd vk) (fst kv)) DURATION_TO_STR) STR_TO_DURATION
  && Nat.eqb (length DURATION_TO_STR) (length STR_TO_DURATION).

Lemma table_ok :
  table_agrees STR_TO_DURATION spec_table = true /\ table_agrees spec_table STR_TO_DURATION = true /\
  distinct_keys STR_TO_DURATION = true /\ distinct_vals STR_TO_DURATION = true /\ inverse_ok = true /\
  length STR_TO_DURATION = 31%nat.
Proof. repeat split; vm_compute; reflexivity. Qed.

(* ---------- limit_denominator is the identity on the documented resolution ---------- *)
Lemma limit_den_fits x : fits x = true -> limit_den x == x.
Proof.
  unfold fits, limit_den, limit_den_max. intros H. rewrite H. apply Qred_correct.
Qed.

Lemma note_new_exact d : fits d = true -> note_new d == d.
Proof. apply limit_den_fits. Qed.

Lemma note_augment_exact d k : fits (d * k) = true -> note_augment d k == d * k.
Proof. apply limit_den_fits. Qed.

Lemma note_set_duration_exact v : fits v = true -> note_set_duration v == v.
Proof. apply limit_den_fits. Qed.

(* ---------- sums ---------- *)
Lemma fold_plus_from a l : fold_left Qplus l a == a + fold_left Qplus l 0.
Proof.
  revert a. induction l as [|x l IH]; intros a; cbn [fold_left]; [ring|].
  rewrite (IH (a + x)), (IH (0 + x)). ring.
Qed.

Lemma qsum_cons x l : qsum (x :: l) == x + qsum l.
Proof. unfold qsum. cbn [fold_left]. rewrite fold_plus_from. ring. Qed.

Lemma qsum_app a b : qsum (a ++ b) == qsum a + qsum b.
Proof.
  induction a as [|x a IH]; [cbn [app]; unfold qsum at 2; cbn [fold_left]; ring|].
  cbn [app]. rewrite !qsum_cons, IH. ring.
Qed.

Fixpoint repeat_list {A} (l : list A) (k : nat) : list A :=
  match k with O => [] | S k' => l ++ repeat_list l k' end.

Lemma qsum_repeat m k : qsum (repeat_list m k) == inject_Z (Z.of_nat k) * qsum m.
Proof.
  induction k as [|k IH].
  - cbn [repeat_list Z.of_nat]. unfold qsum at 1. cbn [fold_left]. ring.
  - cbn [repeat_list]. rewrite qsum_app, IH, Nat2Z.inj_succ. unfold Z.succ. rewrite inject_Z_plus. ring.
Qed.

(* score * k: k copies of the chords one after the other - k times the duration, 0 for k = 0 (the empty score) *)
Lemma map_repeat_list {A B} (f : A -> B) l k : map f (repeat_list l k) = repeat_list (map f l) k.
Proof. induction k as [|k IH]; [reflexivity|]. cbn [repeat_list]. rewrite map_app, IH. reflexivity. Qed.

Lemma score_repeat_dur s k : score_dur (repeat_list s k) == inject_Z (Z.of_nat k) * score_dur s.
Proof. unfold score_dur. rewrite map_repeat_list. apply qsum_repeat. Qed.

Lemma qsum_map_mul l k : qsum (map (fun d => d * k) l) == qsum l * k.
Proof.
  induction l as [|x l IH]; [unfold qsum; cbn [map fold_left]; ring|]. cbn [map]. rewrite !qsum_cons, IH. ring.
Qed.

Lemma qsum_pointwise l l' : Forall2 Qeq l l' -> qsum l == qsum l'.
Proof. induction 1 as [|x y l l' Hxy _ IH]; [reflexivity|]. rewrite !qsum_cons, Hxy, IH. reflexivity. Qed.

Lemma onsets_from_nth t m i : (i < length m)%nat ->
  nth i (onsets_from t m) 0 == t + qsum (firstn i m).
Proof.
  revert t i. induction m as [|d m IH]; intros t i H; [cbn in H; lia|].
  destruct i as [|i]; cbn [onsets_from nth firstn].
  - unfold qsum; cbn [fold_left]; ring.
  - rewrite IH by (cbn in H; lia). rewrite qsum_cons. ring.
Qed.

(* ---------- chord = its longest part ---------- *)
Lemma qmax_ge_l a b : a <= qmax a b.
Proof. unfold qmax. destruct (Qle_bool a b) eqn:E; [apply Qle_bool_iff; exact E|apply Qle_refl]. Qed.
Lemma qmax_ge_r a b : b <= qmax a b.
Proof.
  unfold qmax. destruct (Qle_bool a b) eqn:E; [apply Qle_refl|].
  destruct (Qlt_le_dec a b) as [L|L]; [|exact L].
  apply Qlt_le_weak, Qle_bool_iff in L. congruence.
Qed.
Lemma qmax_cases a b : qmax a b = a \/ qmax a b = b.
Proof. unfold qmax. destruct (Qle_bool a b); auto. Qed.

Lemma fold_qmax_ge acc r : acc <= fold_left (fun a m => qmax a (mel_dur m)) r acc /\
  forall p, In p r -> mel_dur p <= fold_left (fun a m => qmax a (mel_dur m)) r acc.
Proof.
  revert acc. induction r as [|m r IH]; intros acc; cbn [fold_left].
  - split; [apply Qle_refl|intros p []].
  - destruct (IH (qmax acc (mel_dur m))) as [I1 I2]. split.
    + eapply Qle_trans; [apply qmax_ge_l|exact I1].
    + intros p [<-|Hp]; [eapply Qle_trans; [apply qmax_ge_r|exact I1]|apply I2; exact Hp].
Qed.

Lemma fold_qmax_attained acc r :
  fold_left (fun a m => qmax a (mel_dur m)) r acc = acc \/
  exists p, In p r /\ fold_left (fun a m => qmax a (mel_dur m)) r acc = mel_dur p.
Proof.
  revert acc. induction r as [|m r IH]; intros acc; cbn [fold_left]; [left; reflexivity|].
  destruct (IH (qmax acc (mel_dur m))) as [E|(p & Hp & E)].
  - rewrite E. destruct (qmax_cases acc (mel_dur m)) as [C|C]; rewrite C; [left; reflexivity|].
    right. exists m. split; [left; reflexivity|reflexivity].
  - right. exists p. split; [right; exact Hp|exact E].
Qed.

Lemma chord_dur_longest parts : parts <> [] ->
  (forall p, In p parts -> mel_dur p <= chord_dur parts) /\ exists p, In p parts /\ chord_dur parts = mel_dur p.
Proof.
  destruct parts as [|p0 r]; [congruence|]. intros _. unfold chord_dur.
  destruct (fold_qmax_ge (mel_dur p0) r) as [G1 G2]. split.
  - intros p [<-|Hp]; [exact G1|apply G2; exact Hp].
  - destruct (fold_qmax_attained (mel_dur p0) r) as [E|(p & Hp & E)].
    + exists p0. split; [left; reflexivity|exact E].
    + exists p. split; [right; exact Hp|exact E].
Qed.

(* ---------- augment / set_duration on melodies ---------- *)
Lemma mel_augment_exact m k : forallb (fun d => fits (d * k)) m = true ->
  Forall2 Qeq (mel_augment m k) (map (fun d => d * k) m).
Proof.
  induction m as [|d m IH]; cbn [forallb mel_augment map]; intros H; [constructor|].
  apply andb_prop in H. destruct H as [H1 H2]. constructor; [apply note_augment_exact; exact H1|apply IH; exact H2].
Qed.

Lemma mel_augment_total m k : forallb (fun d => fits (d * k)) m = true ->
  mel_dur (mel_augment m k) == mel_dur m * k.
Proof.
  intros H. unfold mel_dur. rewrite (qsum_pointwise _ _ (mel_augment_exact m k H)). apply qsum_map_mul.
Qed.

Lemma fits_mul_zero x : fits (x * 0) = true.
Proof.
  unfold fits. assert (E : x * 0 == 0) by ring. rewrite (Qred_complete _ _ E). reflexivity.
Qed.

Lemma mel_set_duration_zero m : exists m', mel_set_duration m 0 = Some m' /\ mel_dur m' == 0.
Proof.
  unfold mel_set_duration. cbn [Qeq_bool]. eexists. split; [reflexivity|].
  rewrite (mel_augment_total m 0); [ring|].
  induction m as [|x m IH]; cbn [forallb]; [reflexivity|]. rewrite fits_mul_zero, IH. reflexivity.
Qed.

Lemma mel_set_duration_total m d : ~ mel_dur m == 0 ->
  forallb (fun x => fits (x * (d / mel_dur m))) m = true ->
  exists m', mel_set_duration m d = Some m' /\ mel_dur m' == d.
Proof.
  intros Hnz H. unfold mel_set_duration.
  destruct (Qeq_bool d 0) eqn:Ed.
  - apply Qeq_bool_iff in Ed. destruct (mel_set_duration_zero m) as (m' & Hm & Hd).
    unfold mel_set_duration in Hm. cbn [Qeq_bool] in Hm. exists m'. split; [exact Hm|]. rewrite Hd, Ed. reflexivity.
  - destruct (Qeq_bool (mel_dur m) 0) eqn:E; [apply Qeq_bool_iff in E; contradiction|].
    eexists. split; [reflexivity|]. rewrite (mel_augment_total m _ H). field. exact Hnz.
Qed.

(* ---------- decompose_duration keeps the total ---------- *)
Lemma qsum_rev l : qsum (rev l) == qsum l.
Proof.
  induction l as [|x l IH]; [reflexivity|]. cbn [rev]. rewrite qsum_app, IH, !qsum_cons.
  unfold qsum at 2. cbn [fold_left]. ring.
Qed.

Lemma decompose_rec_total f d : dec_ok f d = true -> qsum (decompose_rec f d) == d.
Proof.
  revert d. induction f as [|f IH]; intros d H; cbn [decompose_rec dec_ok] in *.
  - rewrite qsum_cons. unfold qsum. cbn [fold_left]. ring.
  - destruct (in_table d); [rewrite qsum_cons; unfold qsum; cbn [fold_left]; ring|].
    destruct (qmaximum (candidates d)) as [c|]; [|rewrite qsum_cons; unfold qsum; cbn [fold_left]; ring].
    apply andb_prop in H. destruct H as [H H4]. apply andb_prop in H. destruct H as [H H3].
    apply andb_prop in H. destruct H as [H1 H2].
    set (base := note_augment d (c / d)) in *. set (rest := note_augment d ((d - base) / d)) in *.
    rewrite qsum_cons, (IH _ H4), (note_new_exact _ H3).
    unfold rest. rewrite (note_augment_exact _ _ H2).
    assert (Hd : ~ d == 0) by (intros E; apply Qeq_bool_iff in E; rewrite E in H1; discriminate).
    field. exact Hd.
Qed.

Lemma decompose_total f d : dec_ok f d = true -> qsum (decompose f d) == d.
Proof. intros H. unfold decompose. rewrite qsum_rev. apply decompose_rec_total. exact H. Qed.

(* a melody keeps its total (hence every later onset) when each note is decomposed *)
Lemma decompose_melody_total f m : forallb (dec_ok f) m = true ->
  qsum (flat_map (decompose f) m) == qsum m.
Proof.
  induction m as [|d m IH]; cbn [forallb flat_map]; intros H; [reflexivity|].
  apply andb_prop in H. destruct H as [H1 H2].
  rewrite qsum_app, qsum_cons, (decompose_total f d H1), (IH H2). reflexivity.
Qed.

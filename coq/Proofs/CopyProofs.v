From ML Require Import Model.Types gen.Tables Model.Pitch Model.Ton Model.Code Model.Copy Proofs.TonProofs Proofs.EqProofs.
From Coq Require Import QArith Lia ZifyBool.
Open Scope Z_scope.
Open Scope list_scope.

Lemma dir_eqb_true a b : dir_eqb a b = true -> a = b.
Proof. destruct a, b; cbn; intros H; try reflexivity; discriminate. Qed.

(* whatever the constructor's rounding does, the copy of a note is the note: every field *)
Lemma note_copy_id round n : wf_note n = true -> note_copy round n = n.
Proof.
  unfold wf_note, note_copy, construct. destruct n as [k d v o dur md acc amp tags]. cbn [fk fd fv fo fdur fmode facc famp ftags].
  destruct (is_rest_kind k) eqn:R; intros W; [|reflexivity].
  apply andb_prop in W. destruct W as [Wd Wv]. apply dir_eqb_true in Wd. apply Z.eqb_eq in Wv. subst. reflexivity.
Qed.

Lemma note_copy_equal round n : wf_note n = true -> note_eqb (note_copy round n) n = true.
Proof. intros W. rewrite (note_copy_id round n W). apply (e_refl _ note_eqb_eqv). Qed.

Lemma note_copy_hash round n : wf_note n = true -> note_hash_key (note_copy round n) = note_hash_key n.
Proof. intros W. rewrite (note_copy_id round n W). reflexivity. Qed.

Lemma melody_copy_id round m : forallb wf_note m = true -> melody_copy round m = m.
Proof.
  induction m as [|n m IH]; cbn [forallb melody_copy map]; intros W; [reflexivity|].
  apply andb_prop in W. destruct W as [W1 W2]. rewrite (note_copy_id round n W1). unfold melody_copy in IH. rewrite (IH W2). reflexivity.
Qed.

Lemma melody_copy_equal round m : forallb wf_note m = true -> melody_eqb (melody_copy round m) m = true.
Proof. intros W. rewrite (melody_copy_id round m W). apply (e_refl _ melody_eqb_eqv). Qed.

Definition wf_parts (c : fchord) : bool := forallb (fun p => forallb wf_note (snd p)) (fparts c).

Lemma parts_copy_id round ps :
  forallb (fun p : string * melody => forallb wf_note (snd p)) ps = true ->
  map (fun p => (fst p, melody_copy round (snd p))) ps = ps.
Proof.
  induction ps as [|[nm m] ps IH]; cbn [forallb map fst snd]; intros W; [reflexivity|].
  apply andb_prop in W. destruct W as [W1 W2]. rewrite (melody_copy_id round m W1), (IH W2). reflexivity.
Qed.

Lemma fchord_copy_id round c : wf_parts c = true -> fchord_copy round c = c.
Proof. unfold wf_parts, fchord_copy. intros W. rewrite (parts_copy_id round _ W). destruct c; reflexivity. Qed.

Lemma fchord_copy_equal round c : wf_chord c -> wf_parts c = true -> fchord_eqb (fchord_copy round c) c = true.
Proof. intros U W. rewrite (fchord_copy_id round c W). apply fchord_eqb_refl. exact U. Qed.

Lemma score_copy_id round s : forallb wf_parts s = true -> score_copy round s = s.
Proof.
  induction s as [|c s IH]; cbn [forallb score_copy map]; intros W; [reflexivity|].
  apply andb_prop in W. destruct W as [W1 W2]. rewrite (fchord_copy_id round c W1). unfold score_copy in IH. rewrite (IH W2). reflexivity.
Qed.

Lemma score_copy_equal round s : Forall wf_chord s -> forallb wf_parts s = true -> score_eqb (score_copy round s) s = true.
Proof. intros U W. rewrite (score_copy_id round s W). apply score_eqb_refl. exact U. Qed.

(* the copy methods before the repairs: equal to the original exactly when the rounding leaves the duration alone and,
   for a rest or continuation, the octave is 0 and there is no mode *)
Lemma note_copy_old_equal_iff round n : wf_note n = true ->
  (note_eqb (note_copy_old round n) n = true <->
   (round (fdur n) == fdur n)%Q /\ (is_rest_kind (fk n) = true -> fo n = 0 /\ fmode n = None)).
Proof.
  unfold wf_note, note_copy_old, construct, note_eqb. destruct n as [k d v o dur md acc amp tags].
  cbn [fk fd fv fo fdur fmode facc famp ftags].
  destruct (is_rest_kind k) eqn:R; intros W; cbn [fk fd fv fo fdur fmode facc famp ftags].
  - apply andb_prop in W. destruct W as [Wd Wv]. apply dir_eqb_true in Wd. apply Z.eqb_eq in Wv. subst.
    rewrite (e_refl _ eqv_kind). cbn [dir_eqb andb]. rewrite Z.eqb_refl. cbn [andb]. split.
    + intros H. apply andb_prop in H. destruct H as [H Hm]. apply andb_prop in H. destruct H as [Hq Ho].
      apply Qeq_bool_iff in Hq. split; [exact Hq|]. intros _. split; [lia|].
      destruct md; [discriminate Hm|reflexivity].
    + intros [Hq H]. destruct (H eq_refl) as [Ho Hm]. subst. apply Qeq_bool_iff in Hq. rewrite Hq. reflexivity.
  - rewrite (e_refl _ eqv_kind), (e_refl _ eqv_dir), Z.eqb_refl, Z.eqb_refl, (e_refl _ (eqv_option _ eqv_mode)). cbn [andb].
    rewrite !Bool.andb_true_r. split.
    + intros Hq. apply Qeq_bool_iff in Hq. split; [exact Hq|]. intros H; discriminate H.
    + intros [Hq _]. apply Qeq_bool_iff. exact Hq.
Qed.

(* r.oabs(1) is not equal to its old-style copy; neither is a note whose duration the constructor rounds *)
Lemma note_copy_old_refuted :
  (forall round, note_eqb (note_copy_old round (mkF KR Abs 0 1 1 None None 66 [])) (mkF KR Abs 0 1 1 None None 66 []) = false) /\
  note_eqb (note_copy_old (fun _ => 0%Q) (mkF KS Abs 0 0 (1 # 21952) None None 66 [])) (mkF KS Abs 0 0 (1 # 21952) None None 66 []) = false.
Proof.
  split; [|vm_compute; reflexivity]. intros round. unfold note_eqb, note_copy_old, construct.
  cbn [is_rest_kind fk fd fv fo fdur fmode facc famp ftags kind_eqb dir_eqb Z.eqb andb].
  destruct (Qeq_bool _ _); reflexivity.
Qed.

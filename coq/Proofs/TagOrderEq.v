(* equality of melodies (= equality of the printed code) does not depend on the order in which a note's tag set is listed *)
From ML Require Import Model.Types gen.Tables Model.Pitch Model.Ton Model.Tags Model.Code Proofs.TagsProofs Proofs.EqProofs.
From Coq Require Import QArith List Sorting.Permutation.
Import ListNotations.

Definition retag (n : fnote) (l : list string) : fnote := mkF (fk n) (fd n) (fv n) (fo n) (fdur n) (fmode n) (facc n) (famp n) l.

(* the same notes, each with its tags listed in some other order *)
Inductive same_up_to_tag_order : melody -> melody -> Prop :=
  | sut_nil : same_up_to_tag_order [] []
  | sut_cons n l m m' : Permutation (ftags n) l -> same_up_to_tag_order m m' -> same_up_to_tag_order (n :: m) (retag n l :: m').

Lemma note_code_retag n l : Permutation (ftags n) l -> note_code (retag n l) = note_code n.
Proof.
  intros H. unfold note_code, retag. cbn [fk fd fv fo fdur fmode facc famp ftags].
  rewrite (sort_tags_canonical _ _ H). reflexivity.
Qed.

Lemma codes_retag m m' : same_up_to_tag_order m m' -> map note_code m' = map note_code m.
Proof. induction 1 as [|n l m m' Hp _ IH]; [reflexivity|]. cbn [map]. rewrite (note_code_retag _ _ Hp), IH. reflexivity. Qed.

Theorem melody_eqb_tag_order m m' : same_up_to_tag_order m m' -> melody_eqb m m' = true.
Proof.
  intros H. unfold melody_eqb. rewrite (codes_retag _ _ H).
  destruct melody_eqb_eqv as [R _]. exact (R m).
Qed.

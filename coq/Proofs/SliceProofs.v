From ML Require Import Model.Types gen.Tables Model.Pitch Model.Rel Model.Render Model.Slice Proofs.RenderProofs.
From Coq Require Import Lia ZifyBool.
Open Scope Z_scope.
Open Scope list_scope.

Definition nonneg (v : list tnote) : Prop := Forall (fun n => 0 <= tdur n) v.

Lemma part_dur_nil : part_dur [] = 0.
Proof. reflexivity. Qed.

Lemma part_dur_nonneg v : nonneg v -> 0 <= part_dur v.
Proof. induction 1 as [|n v H _ IH]; [unfold part_dur; cbn; lia|]. rewrite part_dur_cons. lia. Qed.

(* the window [start, end) of a melody that begins at [time]: it lasts exactly the overlap *)
Lemma mel_between_dur v : forall time start end_, nonneg v -> start < end_ ->
  exists r, mel_between v time start end_ = Some r /\
            part_dur r = Z.max 0 (Z.min end_ (time + part_dur v) - Z.max start time) /\ nonneg r.
Proof.
  induction v as [|n v IH]; intros time start end_ Hv Hse.
  - exists []. cbn [mel_between]. split; [reflexivity|]. split; [|constructor].
    rewrite part_dur_nil. lia.
  - inversion Hv as [|? ? Hn Hv']; subst. pose proof (part_dur_nonneg v Hv') as Hp.
    cbn [mel_between]. rewrite part_dur_cons.
    destruct (end_ <=? time) eqn:E1.
    { exists []. split; [reflexivity|]. split; [|constructor]. rewrite part_dur_nil. lia. }
    destruct ((time <? start) && (time + tdur n <=? start)) eqn:E2.
    { destruct (IH (time + tdur n) start end_ Hv' Hse) as (r & Hr & Hd & Hnn). exists r. split; [exact Hr|]. split; [|exact Hnn].
      apply andb_prop in E2. destruct E2 as [Ea Eb]. lia. }
    assert (E2' : start <= time \/ start < time + tdur n).
    { apply andb_false_iff in E2. destruct E2 as [E2|E2]; [left|right]; lia. }
    clear E2.
    cbv zeta.
    destruct (end_ <=? time + tdur n) eqn:E3; destruct (time <? start) eqn:E4.
    + (* clipped at both ends: one continuation *)
      assert (X : (end_ - time - (start - time) <? 0) = false) by lia. rewrite X.
      eexists. split; [reflexivity|]. split; [|constructor; [cbn [continuation tdur]; lia|constructor]].
      rewrite part_dur_cons, part_dur_nil. cbn [continuation tdur]. lia.
    + assert (X : (end_ - time <? 0) = false) by lia. rewrite X.
      eexists. split; [reflexivity|]. split; [|constructor; [cbn [with_dur tdur]; lia|constructor]].
      rewrite part_dur_cons, part_dur_nil. cbn [with_dur tdur]. lia.
    + assert (X : (tdur n - (start - time) <? 0) = false) by lia. rewrite X.
      destruct (IH (start + (tdur n - (start - time))) start end_ Hv' Hse) as (r & Hr & Hd & Hnn).
      rewrite Hr. cbn [obind]. eexists. split; [reflexivity|].
      split; [|constructor; [cbn [continuation tdur]; lia|exact Hnn]].
      rewrite part_dur_cons. cbn [continuation tdur]. lia.
    + assert (X : (tdur n <? 0) = false) by lia. rewrite X.
      destruct (IH (time + tdur n) start end_ Hv' Hse) as (r & Hr & Hd & Hnn).
      rewrite Hr. cbn [obind]. eexists. split; [reflexivity|].
      split; [|constructor; [cbn [with_dur tdur]; lia|exact Hnn]].
      rewrite part_dur_cons. cbn [with_dur tdur]. lia.
Qed.

(* ---------- chords whose parts all last the chord ---------- *)
Definition full_chord (c : rchord) : Prop :=
  Forall (fun p => nonneg (snd p) /\ part_dur (snd p) = rchord_dur c) (rparts c).

Lemma fold_max_const (ps : list (string * list tnote)) D a :
  Forall (fun p => part_dur (snd p) = D) ps -> D <= a ->
  fold_left (fun acc q => Z.max acc (part_dur (snd q))) ps a = a.
Proof.
  intros H. revert a. induction H as [|p ps Hp _ IH]; intros a Ha; cbn [fold_left]; [reflexivity|].
  rewrite Hp. replace (Z.max a D) with a by lia. apply IH. exact Ha.
Qed.

Lemma rchord_dur_const c ps D : ps <> [] -> Forall (fun p => part_dur (snd p) = D) ps ->
  rchord_dur (mkRC c ps) = D.
Proof.
  intros Hne H. unfold rchord_dur. cbn [rparts]. destruct ps as [|p ps]; [congruence|].
  pose proof (Forall_inv H) as Hp. pose proof (Forall_inv_tail H) as Hps. cbn beta in Hp.
  rewrite Hp. apply (fold_max_const ps D D); [exact Hps|lia].
Qed.

Lemma omap_parts_between ps D s e :
  Forall (fun p => nonneg (snd p) /\ part_dur (snd p) = D) ps -> s < e ->
  exists ps', omap_parts (fun v => mel_between v 0 s e) ps = Some ps' /\
    Forall (fun p => nonneg (snd p) /\ part_dur (snd p) = Z.max 0 (Z.min e D - Z.max s 0)) ps' /\
    length ps' = length ps.
Proof.
  induction 1 as [|[k v] ps [Hn Hd] _ IH]; intros Hse.
  - exists []. repeat split; constructor.
  - destruct (IH Hse) as (ps' & Hr & Hf & Hl). cbn [omap_parts snd] in *.
    destruct (mel_between_dur v 0 s e Hn Hse) as (r & Hm & Hdur & Hnn). rewrite Hm. cbn [obind]. rewrite Hr. cbn [obind].
    eexists. split; [reflexivity|]. split; [|cbn [length]; lia].
    constructor; [|exact Hf]. cbn [snd]. split; [exact Hnn|]. rewrite Hdur, Hd. lia.
Qed.

Lemma drop_empty_drums_id ps : Forall (fun p => 0 < part_dur (snd p)) ps -> drop_empty_drums ps = ps.
Proof.
  induction 1 as [|[k v] ps Hp _ IH]; [reflexivity|]. unfold drop_empty_drums in *. cbn [filter fst snd].
  destruct v as [|n v]; [unfold part_dur in Hp; cbn in Hp; lia|].
  rewrite andb_false_r. cbn [negb]. f_equal. exact IH.
Qed.

Lemma chord_between_dur c s e : full_chord c -> rparts c <> [] -> 0 <= s -> s < e -> s < rchord_dur c ->
  exists c', chord_between c s e = Some c' /\ full_chord c' /\ rparts c' <> [] /\
             rchord_dur c' = Z.min e (rchord_dur c) - s /\ rc c' = rc c.
Proof.
  intros Hf Hne Hs Hse HsD. unfold chord_between. unfold full_chord in Hf.
  destruct (rparts c) as [|p ps] eqn:Ep; [congruence|].
  destruct (omap_parts_between (p :: ps) (rchord_dur c) s e Hf Hse) as (ps' & Hr & Hf' & Hl). rewrite Hr. cbn [obind].
  set (D' := Z.max 0 (Z.min e (rchord_dur c) - Z.max s 0)) in *.
  assert (HD' : D' = Z.min e (rchord_dur c) - s) by (unfold D'; lia).
  assert (Hpos : Forall (fun q => 0 < part_dur (snd q)) ps').
  { eapply Forall_impl; [|exact Hf']. cbn beta. intros q [_ Hq]. rewrite Hq. lia. }
  rewrite (drop_empty_drums_id ps' Hpos).
  assert (Hne' : ps' <> []) by (destruct ps'; [cbn in Hl; discriminate|congruence]).
  assert (Hc : rchord_dur (mkRC (rc c) ps') = D').
  { apply rchord_dur_const; [exact Hne'|]. eapply Forall_impl; [|exact Hf']. cbn beta. tauto. }
  eexists. split; [reflexivity|]. repeat split.
  - unfold full_chord. cbn [rparts]. rewrite Hc. exact Hf'.
  - exact Hne'.
  - rewrite Hc. exact HD'.
Qed.

(* ---------- scores ---------- *)
Definition full_score (s : rscore) : Prop := Forall (fun c => full_chord c /\ rparts c <> []) s.

Lemma score_dur_from a s : fold_left (fun acc c => acc + rchord_dur c) s a = a + score_dur s.
Proof.
  unfold score_dur. revert a. induction s as [|c s IH]; intros a; cbn [fold_left]; [lia|].
  rewrite (IH (a + rchord_dur c)), (IH (0 + rchord_dur c)). lia.
Qed.

Lemma score_dur_cons c s : score_dur (c :: s) = rchord_dur c + score_dur s.
Proof. unfold score_dur at 1. cbn [fold_left]. rewrite score_dur_from. lia. Qed.

Lemma score_dur_app a b : score_dur (a ++ b) = score_dur a + score_dur b.
Proof. induction a as [|c a IH]; [reflexivity|]. cbn [app]. rewrite !score_dur_cons, IH. lia. Qed.

Lemma full_chord_nonneg c : full_chord c -> rparts c <> [] -> 0 <= rchord_dur c.
Proof.
  unfold full_chord. intros Hf Hne. destruct (rparts c) as [|p ps]; [congruence|].
  pose proof (Forall_inv Hf) as [Hn Hd]. rewrite <- Hd. apply part_dur_nonneg. exact Hn.
Qed.

Lemma full_score_nonneg s : full_score s -> 0 <= score_dur s.
Proof.
  induction 1 as [|c s [Hf Hne] _ IH]; [unfold score_dur; cbn; lia|].
  rewrite score_dur_cons. pose proof (full_chord_nonneg c Hf Hne). lia.
Qed.

(* the window [start, end) of a score that begins at [time] lasts exactly the overlap *)
Lemma score_between_dur s : forall time start end_, full_score s -> start < end_ ->
  exists r, score_between s time start end_ = Some r /\
            score_dur r = Z.max 0 (Z.min end_ (time + score_dur s) - Z.max start time) /\ full_score r.
Proof.
  induction s as [|c s IH]; intros time start end_ Hs Hse.
  - exists []. cbn [score_between]. split; [reflexivity|]. split; [|constructor]. unfold score_dur; cbn [fold_left]. lia.
  - pose proof (Forall_inv Hs) as [Hf Hne]. pose proof (Forall_inv_tail Hs) as Hs'.
    pose proof (full_chord_nonneg c Hf Hne) as HD. pose proof (full_score_nonneg s Hs') as HT.
    cbn [score_between]. rewrite score_dur_cons. cbv zeta.
    destruct (time + rchord_dur c <=? start) eqn:E1.
    { destruct (IH (time + rchord_dur c) start end_ Hs' Hse) as (r & Hr & Hd & Hfr). exists r. split; [exact Hr|]. split; [lia|exact Hfr]. }
    destruct (end_ <=? time) eqn:E2.
    { exists []. split; [reflexivity|]. split; [|constructor]. unfold score_dur at 1; cbn [fold_left]. lia. }
    destruct (IH (time + rchord_dur c) start end_ Hs' Hse) as (r & Hr & Hd & Hfr).
    destruct ((time + rchord_dur c <? end_) && (start <=? time)) eqn:E3.
    + apply andb_prop in E3. destruct E3 as [E3a E3b]. rewrite Hr. cbn [obind].
      eexists. split; [reflexivity|]. split; [|constructor; [split; assumption|exact Hfr]].
      rewrite score_dur_cons. lia.
    + assert (E3' : end_ <= time + rchord_dur c \/ time < start).
      { apply andb_false_iff in E3. destruct E3 as [E3|E3]; [left|right]; lia. }
      (* the chord is cut: it has positive length here *)
      assert (Hpos : start - time < rchord_dur c) by lia.
      destruct (Z_lt_le_dec (start - time) 0) as [Neg|NonNeg].
      * (* start before the chord start: cut only at the end (start - time < 0) *)
        destruct E3' as [E3'|E3']; [|lia].
        (* get_melody_between with a negative start behaves as with start 0: prove through the melody lemma *)
        unfold chord_between. unfold full_chord in Hf. destruct (rparts c) as [|p ps] eqn:Ep; [congruence|].
        destruct (omap_parts_between (p :: ps) (rchord_dur c) (start - time) (end_ - time) Hf ltac:(lia)) as (ps' & Hps & Hf' & Hl).
        rewrite Hps. cbn [obind].
        set (D' := Z.max 0 (Z.min (end_ - time) (rchord_dur c) - Z.max (start - time) 0)) in *.
        assert (HD' : D' = end_ - time) by (unfold D'; lia).
        assert (Hposs : Forall (fun q => 0 < part_dur (snd q)) ps').
        { eapply Forall_impl; [|exact Hf']. cbn beta. intros q [_ Hq]. rewrite Hq. lia. }
        rewrite (drop_empty_drums_id ps' Hposs).
        assert (Hne' : ps' <> []) by (destruct ps'; [cbn in Hl; discriminate|congruence]).
        assert (Hc : rchord_dur (mkRC (rc c) ps') = D').
        { apply rchord_dur_const; [exact Hne'|]. eapply Forall_impl; [|exact Hf']. cbn beta. tauto. }
        rewrite Hr. cbn [obind]. eexists. split; [reflexivity|].
        split; [|constructor; [split; [unfold full_chord; cbn [rparts]; rewrite Hc; exact Hf'|exact Hne']|exact Hfr]].
        rewrite score_dur_cons, Hc. lia.
      * destruct (chord_between_dur c (start - time) (end_ - time) Hf Hne NonNeg ltac:(lia) Hpos) as (c' & Hc' & Hfc' & Hnec' & Hdc' & _).
        rewrite Hc'. cbn [obind]. rewrite Hr. cbn [obind]. eexists. split; [reflexivity|].
        split; [|constructor; [split; assumption|exact Hfr]].
        rewrite score_dur_cons, Hdc'. lia.
Qed.

(* extracting [a, b) from a score of duration T (0 <= a < b, a < T) lasts min b T - a *)
Theorem window_duration s a b : full_score s -> 0 <= a -> a < b -> a < score_dur s ->
  exists r, score_between s 0 a b = Some r /\ score_dur r = Z.min b (score_dur s) - a.
Proof.
  intros Hs Ha Hab HaT. destruct (score_between_dur s 0 a b Hs Hab) as (r & Hr & Hd & _).
  exists r. split; [exact Hr|]. lia.
Qed.

(* cutting at t and concatenating: the durations add up to the original *)
Theorem rejoin_duration s t : full_score s -> 0 < t -> t < score_dur s ->
  exists l r, score_between s 0 0 t = Some l /\ score_between s 0 t (score_dur s) = Some r /\
              score_dur (l ++ r) = score_dur s.
Proof.
  intros Hs Ht HtT.
  destruct (score_between_dur s 0 0 t Hs Ht) as (l & Hl & Hdl & _).
  destruct (score_between_dur s 0 t (score_dur s) Hs HtT) as (r & Hr & Hdr & _).
  exists l, r. repeat split; [exact Hl|exact Hr|]. rewrite score_dur_app. lia.
Qed.

(* repeating *)
Lemma repeat_score_dur s k : score_dur (repeat_score s k) = Z.of_nat k * score_dur s.
Proof.
  induction k as [|k IH]; [reflexivity|]. cbn [repeat_score]. rewrite score_dur_app, IH. lia.
Qed.

Lemma repeat_score_full s k : full_score s -> full_score (repeat_score s k).
Proof. intros H. induction k as [|k IH]; [constructor|]. cbn [repeat_score]. apply Forall_app. split; assumption. Qed.

Theorem repeat_until_duration s d : full_score s -> 0 < d -> 0 < score_dur s ->
  exists r, repeat_until s d = Some r /\ score_dur r = d.
Proof.
  intros Hs Hd HT. unfold repeat_until.
  destruct (score_dur s <? d) eqn:E.
  - assert (E0 : (score_dur s =? 0) = false) by lia. rewrite E0.
    set (k := Z.to_nat (d / score_dur s + 1)).
    destruct (score_between_dur (repeat_score s k) 0 0 d (repeat_score_full s k Hs) Hd) as (r & Hr & Hdr & _).
    exists r. split; [exact Hr|]. rewrite Hdr, repeat_score_dur.
    assert (Hk : Z.of_nat k = d / score_dur s + 1) by (unfold k; pose proof (Z.div_pos d (score_dur s)); lia).
    rewrite Hk. pose proof (Z.div_mod d (score_dur s) ltac:(lia)). pose proof (Z.mod_pos_bound d (score_dur s) HT). nia.
  - destruct (score_between_dur s 0 0 d Hs Hd) as (r & Hr & Hdr & _). exists r. split; [exact Hr|]. lia.
Qed.

(* C17 - extracting the metric of the produced melody returns the grid: FromMelody (apply_to_melody grid melody) = grid *)
From ML Require Import Model.Types Model.Metric Proofs.MetricProofs Proofs.MetricNoExpand.
From Coq Require Import Lia ZifyBool.
Open Scope Z_scope.
Open Scope list_scope.

Definition flag_of (e : option Z * Z) : bool * Z := (match fst e with Some _ => true | None => false end, snd e).

Lemma repeat_snoc {A} (x : A) n l : repeat x (S n) ++ l = repeat x n ++ x :: l.
Proof. induction n as [|n IH]; [reflexivity|]. cbn [repeat app] in *. rewrite IH. reflexivity. Qed.

(* reading the groups back as a grid: the group's own flag, the tatums it holds, then the rest of the array *)
Lemma from_melody_groups l : forall b cur, 1 <= cur -> binary l ->
  from_melody (groups_from b cur l) = (if b then 1 else 0) :: repeat 0 (Z.to_nat (cur - 1)) ++ l.
Proof.
  induction l as [|x l IH]; intros b cur Hc Hb.
  - cbn [groups_from from_melody flat_map fst snd]. rewrite !app_nil_r. reflexivity.
  - inversion Hb as [|? ? Hx Hl]; subst. cbn [groups_from]. destruct Hx as [-> | ->].
    + cbn [Z.eqb]. rewrite (IH b (cur + 1) ltac:(lia) Hl).
      replace (Z.to_nat (cur + 1 - 1)) with (S (Z.to_nat (cur - 1))) by lia. rewrite repeat_snoc. reflexivity.
    + cbn [Z.eqb Pos.eqb]. change (from_melody ((b, cur) :: groups_from true 1 l))
        with (((if b then 1 else 0) :: repeat 0 (Z.to_nat (cur - 1))) ++ from_melody (groups_from true 1 l)).
      rewrite (IH true 1 ltac:(lia) Hl). cbn [Z.sub Z.to_nat repeat app Z.opp Z.add Pos.add Z.pos_sub]. reflexivity.
Qed.

(* the entries produced for the groups carry a note exactly where the group starts on a pulse *)
Lemma apply_groups_flags m f gs : forall idx, 0 <= idx ->
  (idx = 0 -> match gs with (b, _) :: _ => b = f | [] => True end) ->
  map flag_of (apply_groups m idx f gs) = gs.
Proof.
  induction gs as [|[h k] r IH]; intros idx Hi H0; [reflexivity|]. cbn [apply_groups map].
  rewrite (IH (idx + 1) ltac:(lia) ltac:(intros; lia)). f_equal.
  destruct (idx =? 0) eqn:E0.
  - assert (idx = 0) by lia. specialize (H0 H). subst h. destruct f; reflexivity.
  - cbn [andb]. destruct h; reflexivity.
Qed.

Theorem from_melody_of_applied a m es : binary a -> apply_metric a m = Some es -> from_melody (map flag_of es) = a.
Proof.
  intros Hb. unfold apply_metric, beat_durations. destruct (m <=? 0); [discriminate|].
  destruct a as [|x a]; [discriminate|]. intros [= <-].
  rewrite (apply_groups_flags m (x =? 1) _ 0 ltac:(lia) ltac:(intros _; apply groups_from_head)).
  inversion Hb as [|? ? Hx Ha]; subst.
  rewrite (from_melody_groups a (x =? 1) 1 ltac:(lia) Ha). cbn [Z.sub Z.to_nat repeat app Z.opp Z.add Pos.add Z.pos_sub].
  destruct Hx as [-> | ->]; reflexivity.
Qed.

(* Rendering-level transposition (C04): modulating a score moves the sounding notes of
   chord-relative parts by the tonality's interval and leaves absolute/drum parts alone. *)
From ML Require Import Model.Types gen.Tables Model.Pitch Model.Rel Model.Ton Model.Render Spec.PitchSpec Spec.RenderSpec.
From ML Require Import Proofs.PitchProofs Proofs.TonProofs Proofs.RenderProofs.
From Coq Require Import Lia ZifyBool.
Open Scope Z_scope.
Open Scope list_scope.

Definition map_chord_item (f : chord -> chord) (i : item) : item :=
  match i with INote c n t => INote (f c) n t | IGap => IGap end.

Definition rscore_map (f : chord -> chord) (s : rscore) : rscore :=
  map (fun c => mkRC (f (rc c)) (rparts c)) s.

Lemma part_items_map f m c t : part_items m (f c) t = map (map_chord_item f) (part_items m c t).
Proof. revert t. induction m as [|n m IH]; intros t; cbn [part_items map map_chord_item]; [reflexivity|]. rewrite IH. reflexivity. Qed.

Lemma items_map f s track t : items (rscore_map f s) track t = map (map_chord_item f) (items s track t).
Proof.
  revert t. induction s as [|c s IH]; intros t; cbn [rscore_map map items]; [reflexivity|].
  fold (rscore_map f s). change (rchord_dur (mkRC (f (rc c)) (rparts c))) with (rchord_dur c).
  cbn [rparts rc]. rewrite map_app, IH. f_equal.
  destruct (plook track (rparts c)); [apply part_items_map|reflexivity].
Qed.

Lemma run_map f l : run (map (map_chord_item f) l) = run l.
Proof. induction l as [|[c n t|] l IH]; cbn [map map_chord_item run]; [reflexivity| |reflexivity]. rewrite IH. reflexivity. Qed.

(* a note whose pitch is chord-relative and does not depend on a reference *)
Definition chord_relative (n : tnote) : bool :=
  match pkind (tn n), pdir (tn n) with (KS | KH | KC | KB), Abs => true | _, _ => false end.
(* a note the chord never affects *)
Definition chord_free (n : tnote) : bool :=
  match pkind (tn n), pdir (tn n) with (KA | KD), Abs => true | _, _ => false end.

Definition item_ok (P : tnote -> bool) (i : item) : bool :=
  match i with INote _ n _ => is_rest n || is_cont n || P n | IGap => true end.

Definition shift_snote (k : Z) (x : snote) : snote := mkSN (s_pitch x + k) (s_on x) (s_dur x) (s_vel x).

Lemma pitch_full_abs c n last : pdir n = Abs -> (pkind n = KS \/ pkind n = KH \/ pkind n = KC \/ pkind n = KB \/ pkind n = KA) ->
  pitch_full c n last = to_pitch_abs c n.
Proof. intros D K. unfold pitch_full. rewrite D. destruct K as [K|[K|[K|[K|K]]]]; rewrite K; reflexivity. Qed.

(* chord-relative parts: every sounding pitch moves by k, nothing else changes *)
Lemma sounding_shift (f : chord -> chord) k l :
  (forall c n p, pdir n = Abs -> (pkind n = KS \/ pkind n = KH \/ pkind n = KC \/ pkind n = KB) ->
     to_pitch_abs c n = Some (Some p) -> to_pitch_abs (f c) n = Some (Some (p + k))) ->
  forallb (item_ok chord_relative) l = true ->
  forall ref ref' sl, sounding ref l = Some sl ->
  sounding ref' (map (map_chord_item f) l) = Some (map (shift_snote k) sl).
Proof.
  intros Hf. induction l as [|[c n t|] l IH]; intros Hok ref ref' sl Hs; cbn [map map_chord_item sounding] in *.
  - injection Hs as <-. reflexivity.
  - cbn [forallb item_ok] in Hok. apply andb_prop in Hok. destruct Hok as [H1 H2].
    destruct (is_rest n || is_cont n) eqn:E; [exact (IH H2 _ _ _ Hs)|].
    cbn [orb] in H1. unfold chord_relative in H1.
    assert (D : pdir (tn n) = Abs) by (destruct (pkind (tn n)), (pdir (tn n)); try discriminate; reflexivity).
    assert (K : pkind (tn n) = KS \/ pkind (tn n) = KH \/ pkind (tn n) = KC \/ pkind (tn n) = KB)
      by (destruct (pkind (tn n)); try discriminate; tauto).
    rewrite pitch_full_abs in Hs |- * by tauto.
    destruct (to_pitch_abs c (tn n)) as [[p|]|] eqn:Ep; cbn [obind] in Hs.
    + destruct (sounding (Some p) l) as [rest|] eqn:Er; [|discriminate]. cbn [obind] in Hs. injection Hs as <-.
      rewrite (Hf c (tn n) p D K Ep). cbn [obind]. rewrite (IH H2 _ (Some (p + k)) _ Er). cbn [obind map shift_snote s_pitch s_on s_dur s_vel].
      rewrite run_map. reflexivity.
    + (* no pitch: impossible for these kinds *)
      exfalso. unfold to_pitch_abs in Ep. destruct K as [K|[K|[K|K]]]; rewrite K in Ep;
      [destruct (pitch_basic c (tn n)); discriminate | destruct (pitch_basic c (tn n)); discriminate
      | destruct (chord_pitches c); [cbn [obind] in Ep; destruct (value_to_scale _ _); discriminate|discriminate]
      | destruct (chord_extension_pitches c); [cbn [obind] in Ep; destruct (value_to_scale _ _); discriminate|discriminate]].
    + discriminate.
  - cbn [forallb] in Hok. apply andb_prop in Hok. exact (IH (proj2 Hok) _ _ _ Hs).
Qed.

(* absolute and drum parts: unchanged *)
Lemma sounding_free (f : chord -> chord) l :
  (forall c, elem_ok c -> elem_ok (f c)) -> forallb (fun i => match i with INote c _ _ => (0 <=? celem c) && (celem c <=? 6) | IGap => true end) l = true ->
  forallb (item_ok chord_free) l = true ->
  forall ref ref', sounding ref' (map (map_chord_item f) l) = sounding ref l.
Proof.
  intros Hf. induction l as [|[c n t|] l IH]; intros He Hok ref ref'; cbn [map map_chord_item sounding] in *; [reflexivity| |].
  - cbn [forallb item_ok] in Hok, He. apply andb_prop in Hok. destruct Hok as [H1 H2]. apply andb_prop in He. destruct He as [E1 E2].
    destruct (is_rest n || is_cont n) eqn:E; [exact (IH E2 H2 _ _)|].
    cbn [orb] in H1. unfold chord_free in H1.
    assert (D : pdir (tn n) = Abs) by (destruct (pkind (tn n)), (pdir (tn n)); try discriminate; reflexivity).
    assert (Hc : elem_ok c) by (unfold elem_ok; lia).
    assert (P : forall c' last, elem_ok c' -> pitch_full c' (tn n) last = Some (Some (pval (tn n) + 12 * poct (tn n)))).
    { intros c' last Hc'. unfold pitch_full. rewrite D.
      destruct (pkind (tn n)) eqn:K; try discriminate.
      - unfold to_pitch_abs. rewrite K, (pitch_basic_absolute c' (tn n) Hc' (or_introl K)). reflexivity.
      - rewrite (pitch_basic_absolute c' (tn n) Hc' (or_intror K)). reflexivity. }
    rewrite (P c _ Hc), (P (f c) _ (Hf c Hc)). cbn [obind]. rewrite run_map.
    rewrite (IH E2 H2 (Some (pval (tn n) + 12 * poct (tn n))) (Some (pval (tn n) + 12 * poct (tn n)))). reflexivity.
  - cbn [forallb] in Hok, He. apply andb_prop in Hok. apply andb_prop in He. exact (IH (proj2 He) (proj2 Hok) _ _).
Qed.

(* the chords met on a part's timeline are chords of the score *)
Lemma part_items_chord m c t c' n o : In (INote c' n o) (part_items m c t) -> c' = c.
Proof.
  revert t. induction m as [|x m IH]; intros t H; [contradiction|]. cbn [part_items] in H.
  destruct H as [H|H]; [injection H as <- _ _; reflexivity|exact (IH _ H)].
Qed.

Lemma items_modes s track t0 t :
  forallb (fun c => mode_eqb (tmode t) (tmode (cton (rc c)))) s = true ->
  forall c n o, In (INote c n o) (items s track t0) -> tmode t = tmode (cton c).
Proof.
  revert t0. induction s as [|x s IH]; intros t0 H c n o HIn; [contradiction|].
  cbn [forallb] in H. apply andb_prop in H. destruct H as [H1 H2]. cbn [items] in HIn.
  apply in_app_or in HIn. destruct HIn as [HIn|HIn]; [|exact (IH _ H2 _ _ _ HIn)].
  destruct (plook track (rparts x)).
  - apply part_items_chord in HIn. subst c. apply mode_eqb_eq. exact H1.
  - destruct HIn as [HIn|[]]. discriminate.
Qed.

Lemma modulate_render : forall s track t sl,
  forallb (fun c => mode_eqb (tmode t) (tmode (cton (rc c)))) s = true ->
  forallb (item_ok chord_relative) (items s track 0) = true ->
  sounding_of s track = Some sl ->
  sounding_of (rscore_map (fun c => chord_mod c t) s) track = Some (map (shift_snote (tdeg t + 12 * toct t)) sl).
Proof.
  intros s track t sl Hm Hok Hs. unfold sounding_of in *. rewrite items_map.
  (* every chord met on the timeline has the mode of t: carry it as a predicate on items *)
  assert (G : forall l, (forall c n o, In (INote c n o) l -> tmode t = tmode (cton c)) ->
              forallb (item_ok chord_relative) l = true -> forall ref ref' sl', sounding ref l = Some sl' ->
              sounding ref' (map (map_chord_item (fun c => chord_mod c t)) l) = Some (map (shift_snote (tdeg t + 12 * toct t)) sl')).
  { induction l as [|[c n o|] l IH]; intros HM Hk ref ref' sl' Hs'; cbn [map map_chord_item sounding] in *.
    - injection Hs' as <-. reflexivity.
    - cbn [forallb item_ok] in Hk. apply andb_prop in Hk. destruct Hk as [H1 H2].
      assert (HM' : forall c0 n0 o0, In (INote c0 n0 o0) l -> tmode t = tmode (cton c0)) by (intros; eapply HM; right; eauto).
      destruct (is_rest n || is_cont n) eqn:E; [exact (IH HM' H2 _ _ _ Hs')|].
      cbn [orb] in H1. unfold chord_relative in H1.
      assert (D : pdir (tn n) = Abs) by (destruct (pkind (tn n)), (pdir (tn n)); try discriminate; reflexivity).
      assert (K : pkind (tn n) = KS \/ pkind (tn n) = KH \/ pkind (tn n) = KC \/ pkind (tn n) = KB)
        by (destruct (pkind (tn n)); try discriminate; tauto).
      rewrite pitch_full_abs in Hs' |- * by tauto.
      destruct (to_pitch_abs c (tn n)) as [[p|]|] eqn:Ep; cbn [obind] in Hs'.
      + destruct (sounding (Some p) l) as [rest|] eqn:Er; [|discriminate]. cbn [obind] in Hs'. injection Hs' as <-.
        rewrite (modulate_pitch c t (tn n) p (HM c n o (or_introl eq_refl)) K Ep). cbn [obind].
        rewrite (IH HM' H2 _ (Some (p + (tdeg t + 12 * toct t))) _ Er). cbn [obind map shift_snote s_pitch s_on s_dur s_vel].
        rewrite run_map. reflexivity.
      + exfalso. unfold to_pitch_abs in Ep. destruct K as [K|[K|[K|K]]]; rewrite K in Ep;
        [destruct (pitch_basic c (tn n)); discriminate | destruct (pitch_basic c (tn n)); discriminate
        | destruct (chord_pitches c); [cbn [obind] in Ep; destruct (value_to_scale _ _); discriminate|discriminate]
        | destruct (chord_extension_pitches c); [cbn [obind] in Ep; destruct (value_to_scale _ _); discriminate|discriminate]].
      + discriminate.
    - cbn [forallb] in Hk. apply andb_prop in Hk.
      assert (HM' : forall c0 n0 o0, In (INote c0 n0 o0) l -> tmode t = tmode (cton c0)) by (intros; eapply HM; right; eauto).
      exact (IH HM' (proj2 Hk) _ _ _ Hs'). }
  apply (G _ (items_modes s track 0 t Hm) Hok _ _ _ Hs).
Qed.


Lemma modulate_render_absolute : forall s track t,
  forallb (fun i => match i with INote c _ _ => (0 <=? celem c) && (celem c <=? 6) | IGap => true end) (items s track 0) = true ->
  forallb (item_ok chord_free) (items s track 0) = true ->
  sounding_of (rscore_map (fun c => chord_mod c t) s) track = sounding_of s track.
Proof.
  intros s track t He Hok. unfold sounding_of. rewrite items_map.
  apply (sounding_free (fun c => chord_mod c t)); [intros c H; exact H|exact He|exact Hok].
Qed.


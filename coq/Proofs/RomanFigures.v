(* C15, figures: for every diatonic figure (triads and sevenths, every inversion) in every key, the chord the parser returns has
   the pitch classes and the bass of the standard reading.  The parser's answers are regenerated from roman_parser.analyze_one_chord
   on every run (gen/Tables.v, ROMAN_DIATONIC); the standard reading is written here, by hand. *)
From ML Require Import Model.Types gen.Tables Model.Pitch.
From Coq Require Import Lia.
Open Scope Z_scope.
Open Scope list_scope.
Open Scope string_scope.

Definition MAJOR_SCALE : list Z := [0; 2; 4; 5; 7; 9; 11].
Definition NATURAL_MINOR : list Z := [0; 2; 3; 5; 7; 8; 10].
Definition HARMONIC_MINOR : list Z := [0; 2; 3; 5; 7; 8; 11].

(* stacked thirds on degree d of a scale, as pitch classes relative to the tonic *)
Definition stack (sc : list Z) (d : Z) (n : nat) : list Z :=
  map (fun i => nth (Z.to_nat ((d + 2 * Z.of_nat i) mod 7)) sc 0) (seq 0 n).

Definition inv3 : list (string * nat) := [("", 0%nat); ("6", 1%nat); ("64", 2%nat)].
Definition inv4 : list (string * nat) := [("7", 0%nat); ("65", 1%nat); ("43", 2%nat); ("2", 3%nat)].

(* (minor key?, figure, pitch classes above the tonic, index of the bass tone) *)
Definition with_inversions (minor : bool) (sc : list Z) (n : nat) (invs : list (string * nat)) (numeral : string) (d : Z)
  : list (bool * string * list Z * nat) :=
  map (fun si => (minor, numeral ++ fst si, stack sc d n, snd si)) invs.

Definition figure_cases : list (bool * string * list Z * nat) :=
  flat_map (fun fd => with_inversions false MAJOR_SCALE 3 inv3 (fst fd) (snd fd))
           [("I", 0); ("ii", 1); ("iii", 2); ("IV", 3); ("V", 4); ("vi", 5); ("viio", 6)] ++
  flat_map (fun fd => with_inversions false MAJOR_SCALE 4 inv4 (fst fd) (snd fd))
           [("I", 0); ("ii", 1); ("iii", 2); ("IV", 3); ("V", 4); ("vi", 5); ("viiø", 6)] ++
  flat_map (fun fds => with_inversions true (snd fds) 3 inv3 (fst (fst fds)) (snd (fst fds)))
           [("i", 0, NATURAL_MINOR); ("iio", 1, NATURAL_MINOR); ("III", 2, NATURAL_MINOR); ("iv", 3, NATURAL_MINOR); ("v", 4, NATURAL_MINOR);
            ("V", 4, HARMONIC_MINOR); ("VI", 5, NATURAL_MINOR); ("VII", 6, NATURAL_MINOR); ("viio", 6, HARMONIC_MINOR)] ++
  (* sevenths in minor: V7 and vii°7 from the harmonic scale; i7 and v7 are left out (their seventh is the 7th degree itself,
     which the natural and the harmonic reading spell differently) *)
  flat_map (fun fds => with_inversions true (snd fds) 4 inv4 (fst (fst fds)) (snd (fst fds)))
           [("V", 4, HARMONIC_MINOR); ("viio", 6, HARMONIC_MINOR); ("iiø", 1, NATURAL_MINOR); ("III", 2, NATURAL_MINOR); ("iv", 3, NATURAL_MINOR);
            ("VI", 5, NATURAL_MINOR); ("VII", 6, NATURAL_MINOR)].

Fixpoint roman_lookup (minor : bool) (fg : string) (key : Z) (l : list (bool * string * Z * (Z * string * Z * mode)))
  : option (Z * string * Z * mode) :=
  match l with
  | [] => None
  | (m, f, k, v) :: r => if Bool.eqb m minor && String.eqb f fg && (k =? key)%Z then Some v else roman_lookup minor fg key r
  end.

Definition keys12 : list Z := [0; 1; 2; 3; 4; 5; 6; 7; 8; 9; 10; 11].

(* the chord named by the parser's answer, evaluated by the pitch model of C01 / C02 *)
Definition figure_ok (cs : bool * string * list Z * nat) (key : Z) : bool :=
  let '(minor, fg, pcs, inv) := cs in
  match roman_lookup minor fg key ROMAN_DIATONIC with
  | Some (d, e, k, md) =>
      match chord_extension_pitches (mkC d (bare e) (mkT k md 0) 0) with
      | Some (b :: rest) =>
          let got := sort_key (fun x => x) (map (fun p => p mod 12) (b :: rest)) in
          let want := sort_key (fun x => x) (map (fun p => (p + key) mod 12) pcs) in
          list_eqb Z.eqb got want && (b mod 12 =? (nth inv pcs 0 + key) mod 12)%Z
      | _ => false
      end
  | None => false
  end.

Lemma figures_sweep : forallb (fun cs => forallb (figure_ok cs) keys12) figure_cases = true.
Proof. vm_compute. reflexivity. Qed.

Lemma in_keys12 k : (0 <= k < 12)%Z -> In k keys12.
Proof. intros H. unfold keys12. cbn [In]. lia. Qed.

Theorem diatonic_figures cs key : In cs figure_cases -> (0 <= key < 12)%Z -> figure_ok cs key = true.
Proof.
  intros Hc Hk. pose proof figures_sweep as S. rewrite forallb_forall in S. specialize (S _ Hc).
  rewrite forallb_forall in S. exact (S _ (in_keys12 _ Hk)).
Qed.

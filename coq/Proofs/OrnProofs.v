From ML Require Import Model.Types gen.Tables Model.Dur Model.Orn Proofs.DurProofs.
From Coq Require Import QArith Qround Lia Lqa ZifyBool.
Open Scope Q_scope.
Open Scope list_scope.

Lemma qsum_nil : qsum [] == 0.
Proof. reflexivity. Qed.

Lemma qsum_repeat_n x n : qsum (repeat x n) == inject_Z (Z.of_nat n) * x.
Proof.
  induction n as [|n IH]; [cbn [repeat Z.of_nat]; rewrite qsum_nil; ring|].
  cbn [repeat]. rewrite qsum_cons, IH, Nat2Z.inj_succ. unfold Z.succ. rewrite inject_Z_plus. ring.
Qed.

Lemma is_intq_floor q : is_intq q = true -> inject_Z (Qfloor q) == q.
Proof.
  unfold is_intq. intros H. rewrite <- (Qred_correct q) at 2. rewrite <- (Qfloor_comp _ _ (Qred_correct q)).
  destruct (Qred q) as [n dn]. cbn [Qden] in H. assert (dn = 1%positive) by lia. subst dn.
  unfold Qfloor, inject_Z. rewrite Z.div_1_r. reflexivity.
Qed.

Lemma Qle_bool_true a b : Qle_bool a b = true -> a <= b. Proof. apply Qle_bool_iff. Qed.
Lemma Qle_bool_false a b : Qle_bool a b = false -> b < a.
Proof. intros H. destruct (Qlt_le_dec b a) as [L|L]; [exact L|]. apply Qle_bool_iff in L. congruence. Qed.

(* ---------- every figure fills exactly the note's span ---------- *)
Lemma roll_sum md d : 0 < md -> 0 <= d -> qsum (roll_like (fun x => x) md d) == d.
Proof.
  intros Hmd Hd. unfold roll_like, qfloor.
  destruct (Qfloor (d / md) =? 0)%Z eqn:E0; [rewrite qsum_cons, qsum_nil; ring|].
  assert (Hq : 0 <= d / md) by (apply Qle_shift_div_l; [exact Hmd|lra]).
  assert (Hf : (0 <= Qfloor (d / md))%Z) by (change 0%Z with (Qfloor 0); apply Qfloor_resp_le; exact Hq).
  destruct (is_intq (d / md)) eqn:Ei.
  - rewrite qsum_repeat_n, Z2Nat.id by exact Hf. rewrite (is_intq_floor _ Ei). field. lra.
  - rewrite qsum_app, qsum_repeat_n, qsum_cons, qsum_nil, Z2Nat.id by exact Hf. ring.
Qed.

Lemma interpolate_sum c d : qsum (interpolate_like (fun x => x) c d) == d.
Proof.
  unfold interpolate_like.
  destruct (negb (next_some c) || negb (next_isnote c) || negb (cur_isnote c)); [rewrite qsum_cons, qsum_nil; ring|].
  destruct (interp_delta c =? 0)%Z eqn:E; [rewrite qsum_cons, qsum_nil; ring|].
  rewrite qsum_repeat_n, Z2Nat.id by lia. field.
  intros H. assert (Z.abs (interp_delta c) <> 0)%Z by lia.
  apply H0. unfold Qeq in H. cbn in H. lia.
Qed.

Lemma ideal_sum t c d : 0 <= d -> qsum (ideal t c d) == d.
Proof.
  intros Hd. unfold ideal.
  destruct t; cbn [build_with]; unfold mordant_like, grupetto_like;
    try (apply roll_sum; [reflexivity|exact Hd]); try apply interpolate_sum;
    repeat match goal with |- context [if ?b then _ else _] => destruct b end;
    repeat rewrite qsum_cons; rewrite ?qsum_nil; rewrite ?Qred_correct; field.
Qed.

(* ---------- and every piece has a non-negative duration ---------- *)
Lemma Forall_repeat {A} (P : A -> Prop) x n : P x -> Forall P (repeat x n).
Proof. intros H. induction n; cbn [repeat]; constructor; assumption. Qed.

Lemma roll_nonneg md d : 0 < md -> 0 <= d -> Forall (fun x => 0 <= x) (roll_like (fun x => x) md d).
Proof.
  intros Hmd Hd. unfold roll_like, qfloor.
  destruct (Qfloor (d / md) =? 0)%Z; [repeat constructor; exact Hd|].
  destruct (is_intq (d / md)); [apply Forall_repeat; lra|].
  apply Forall_app. split; [apply Forall_repeat; lra|]. repeat constructor.
  pose proof (Qfloor_le (d / md)) as F.
  assert (inject_Z (Qfloor (d / md)) * md <= d).
  { apply (Qmult_le_compat_r _ _ md) in F; [|lra].
    assert (Hdm : d / md * md == d) by (field; lra). rewrite Hdm in F. exact F. }
  lra.
Qed.

Lemma interpolate_nonneg c d : 0 <= d -> Forall (fun x => 0 <= x) (interpolate_like (fun x => x) c d).
Proof.
  intros Hd. unfold interpolate_like.
  destruct (negb (next_some c) || negb (next_isnote c) || negb (cur_isnote c)); [repeat constructor; exact Hd|].
  destruct (interp_delta c =? 0)%Z eqn:E; [repeat constructor; exact Hd|].
  apply Forall_repeat. apply Qle_shift_div_l; [|lra].
  change 0 with (inject_Z 0). rewrite <- Zlt_Qlt. lia.
Qed.

Lemma ideal_nonneg t c d : 0 <= d -> Forall (fun x => 0 <= x) (ideal t c d).
Proof.
  intros Hd. unfold ideal.
  destruct t; cbn [build_with]; unfold mordant_like, grupetto_like;
    try (apply roll_nonneg; [reflexivity|exact Hd]); try (apply interpolate_nonneg; exact Hd);
    repeat match goal with |- context [if Qle_bool ?a ?b then _ else _] =>
      let E := fresh "E" in destruct (Qle_bool a b) eqn:E; [apply Qle_bool_true in E|apply Qle_bool_false in E] end;
    try destruct (has_last c);
    repeat constructor; rewrite ?Qred_correct; try lra;
    try (apply Qle_shift_div_l; lra).
Qed.

(* ---------- the library's builders (with limit_denominator) are the exact figures on its resolution ---------- *)
Definition same_or_sd (a b : Q) : Prop := a = sd b \/ a = b.

Lemma build_rel t c d : Forall2 same_or_sd (build_with sd t c d) (ideal t c d).
Proof.
  unfold ideal.
  assert (R : forall x n, Forall2 same_or_sd (repeat (sd x) n) (repeat x n)).
  { intros x n. induction n; cbn [repeat]; constructor; [left; reflexivity|assumption]. }
  destruct t; cbn [build_with]; unfold mordant_like, grupetto_like, roll_like, interpolate_like;
    repeat match goal with |- context [if ?b then _ else _] => destruct b end;
    repeat first [apply R | apply Forall2_app | apply Forall2_nil | apply Forall2_cons
                 | (right; reflexivity) | (left; reflexivity)].
Qed.

Lemma build_exact t c d : forallb fits (ideal t c d) = true ->
  Forall2 Qeq (build_with sd t c d) (ideal t c d).
Proof.
  intros H. pose proof (build_rel t c d) as R. revert H.
  induction R as [|a b l l' Hab _ IH]; intros H; [constructor|].
  cbn [forallb] in H. apply andb_prop in H. destruct H as [H1 H2].
  constructor; [|exact (IH H2)].
  destruct Hab as [->| ->]; [apply note_set_duration_exact; exact H1|reflexivity].
Qed.

(* realisation never fails, keeps the span and produces non-negative durations *)
Theorem realize_ok t c d : 0 <= d -> forallb fits (ideal t c d) = true ->
  exists l, realize t c d = Some l /\ Forall2 Qeq l (ideal t c d) /\ qsum l == d /\ Forall (fun x => 0 <= x) l.
Proof.
  intros Hd Hf. pose proof (build_exact t c d Hf) as E.
  assert (S : qsum (build_with sd t c d) == d) by (rewrite (qsum_pointwise _ _ E); apply ideal_sum; exact Hd).
  exists (build_with sd t c d). unfold realize, build.
  assert (Q : Qeq_bool (qsum (build_with sd t c d)) d = true) by (apply Qeq_bool_iff; exact S). rewrite Q.
  split; [reflexivity|]. split; [exact E|]. split; [exact S|].
  pose proof (ideal_nonneg t c d Hd) as N. clear -E N.
  induction E as [|a b l l' Hab _ IH]; [constructor|].
  inversion N as [|? ? Hb N']; subst. constructor; [rewrite Hab; exact Hb|exact (IH N')].
Qed.

(* C13 - pitch keeping (keep_pitch=True, voice_leading=False): the source is first written in absolute notes (C11: same sound), then
   projected plainly, then re-notated in the target's chords (C11_to_scale_note: same pitch under the same chord).  The middle step:
   every note of the projection of an all-absolute source is a rest, a continuation or one of the source's absolute notes with its
   dynamics, and it sounds that note's pitch under ANY chord - so whatever chord of the target it lands in. *)
From ML Require Import Model.Types gen.Tables Model.Pitch Model.Rel Model.Ton Model.Render Model.Slice Model.Import Model.Renote Model.Project.
From ML Require Import Proofs.PitchProofs Proofs.RenderProofs Proofs.SliceProofs Proofs.RenoteProofs Proofs.ProjectSymbols.
Open Scope Z_scope.
Open Scope list_scope.

Definition abs_or_silent (n : tnote) : Prop := is_rest n = true \/ is_cont n = true \/ exists p, tn n = abs_pnote p.

Theorem keep_pitch_notes s g r : project_plain s g false = Some r ->
  Forall abs_or_silent (notes_of_score s) ->
  Forall (fun x => is_rest x = true \/ is_cont x = true \/
                   exists n p, In n (notes_of_score s) /\ tn n = abs_pnote p /\ tamp x = tamp n /\
                               forall c last, elem_ok c -> pitch_full c (tn x) last = Some (Some p))
         (notes_of_score r).
Proof.
  intros H Hs. pose proof (project_symbols s g 0 r H) as F. rewrite Forall_forall in *. intros x Hx.
  destruct (F x Hx) as [[E _]|[[E _]|(n & Hn & E & A)]].
  - left. unfold is_rest. rewrite E. reflexivity.
  - right. left. unfold is_cont. rewrite E. reflexivity.
  - destruct (Hs n Hn) as [R|[C|(p & P)]].
    + left. unfold is_rest in *. rewrite E. exact R.
    + right. left. unfold is_cont in *. rewrite E. exact C.
    + right. right. exists n, p. split; [exact Hn|]. split; [exact P|]. split; [exact A|].
      intros c last He. rewrite E, P. exact (abs_pnote_pitch c p last He).
Qed.
